#!/usr/bin/env python3
"""Generates /verif/MANIFEST.json from tools/manifest_table.json (one entry per property) and
bin/kinlint -list (which properties are implemented). A property without an implementation, or
explicitly marked not_applicable in the table, is listed under not_applicable with its reason."""
import json, os, subprocess, sys
here = os.path.dirname(os.path.dirname(os.path.abspath(__file__)))
table = json.load(open(os.path.join(here, 'tools', 'manifest_table.json')))
impl = set(subprocess.run([os.path.join(here, 'bin', 'kinlint'), '-list'], capture_output=True, text=True).stdout.split())
baseline = json.load(open('/root/.vp/BASELINE.json'))['cmd']
checks, na = [], []
for pid in ['C%02d' % i for i in range(1, 21)]:
    t = table.get(pid, {})
    if pid in impl and not t.get('not_applicable'):
        checks.append({
            "property_id": pid,
            "quick_cmd": "./check %s quick" % pid,
            "thorough_cmd": "./check %s thorough" % pid,
            "evidence_file": "evidence/%s.json" % pid,
            "replay_cmd_template": "./check %s replay {path}" % pid,
            "engine": "kinlint",
            "level_claimed": {"category": "other", "text": t["level_text"], "design_ref": t.get("design_ref", "DESIGN.md section 1, " + pid)},
            "level_note": t["level_note"],
            "technique": t["technique"],
        })
    else:
        na.append({"property_id": pid, "reason": t.get("na_reason", "static rules for this property are not built yet in this revision of /verif; no claim is made")})
m = {
    "version": 1,
    "setup_cmd": "export GOFLAGS=-mod=mod GOPROXY=off GOSUMDB=off GOTOOLCHAIN=local; unset GOWORK; cd /verif && go build -o bin/kinlint ./cmd/kinlint",
    "hooks": {"guard": "verif", "enable": "no hooks are needed: the checks analyse /repo's sources as they are (go/packages on the working tree); nothing is built with a tag", "baseline_off_cmd": baseline, "source_commits": [], "add_only": True},
    "engines": [{"name": "kinlint", "path": "cmd/kinlint", "serves_properties": [c["property_id"] for c in checks],
                 "kind_free_text": "repository-specific static analyser (go/packages, go/types, go/ast, go/ssa, VTA call graph from golang.org/x/tools v0.29.0); loads /repo's working tree on every run, executes nothing from it"}],
    "checks": checks,
    "notes": "Every claim is level 'other': a structural necessary condition of the property decided from the source (see DESIGN.md, 'Decides / Does not decide' per property). Genuine defects found are in known_findings.json (open = reported as KNOWN-FINDING, fixed = repaired by a 'fix:' commit in /repo).",
    "not_applicable": na,
}
json.dump(m, open(os.path.join(here, 'MANIFEST.json'), 'w'), indent=1)
print("checks:", [c["property_id"] for c in checks], "n/a:", [n["property_id"] for n in na])
