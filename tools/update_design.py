#!/usr/bin/env python3
"""Refreshes the generated tables of DESIGN.md section 6 (between BEGIN/END markers)."""
import os, re, subprocess
here = os.path.dirname(os.path.dirname(os.path.abspath(__file__)))
subprocess.check_call(['python3', os.path.join(here, 'tools', 'gen_report.py')])
p = os.path.join(here, 'DESIGN.md')
s = open(p).read()
for name in ('findings', 'seeds', 'rules'):
    body = open(os.path.join(here, '.report_%s.md' % name)).read()
    s = re.sub(r'<!-- BEGIN %s -->.*?<!-- END %s -->' % (name, name), lambda m: '<!-- BEGIN %s -->\n%s<!-- END %s -->' % (name, body, name), s, flags=re.S)
open(p, 'w').write(s)
for name in ('findings', 'seeds', 'rules'):
    os.remove(os.path.join(here, '.report_%s.md' % name))
print("DESIGN.md updated")
