#!/bin/bash
# tools/verify_seed.sh <seed-dir>   e.g. /tmp/seeds/C01/1
# Confirms a sub-agent's seeded change in a scratch worktree of /repo (removed afterwards):
#   demo passes on the clean tree, fails with the patch, and the pinned suite still passes with the patch.
set -u
sd=$1
export GOFLAGS=-mod=mod GOPROXY=off GOSUMDB=off GOTOOLCHAIN=local; unset GOWORK
pkg=$(python3 -c "import json,sys;print(json.load(open('$sd/meta.json'))['pkg_dir'])")
wt=$(mktemp -d /tmp/vseed-XXXXXX); rmdir "$wt"
git -C /repo worktree add -q --detach "$wt" HEAD || exit 2
trap 'git -C /repo worktree remove --force "$wt" 2>/dev/null; rm -rf "$wt"' EXIT
cp "$sd/demo_test.go" "$wt/$pkg/zz_seed_demo_test.go"
res="ok"
(cd "$wt" && go test -vet=off -count=1 -run '^TestSeedDemo$' "./$pkg" >/dev/null 2>&1) || res="demo-fails-on-clean"
if [ "$res" = ok ]; then
  (cd "$wt" && git apply "$sd/patch.diff") || res="patch-does-not-apply"
fi
if [ "$res" = ok ]; then
  (cd "$wt" && go build ./... >/dev/null 2>&1) || res="patched-tree-does-not-build"
fi
if [ "$res" = ok ]; then
  (cd "$wt" && go test -vet=off -count=1 -run '^TestSeedDemo$' "./$pkg" >/dev/null 2>&1) && res="demo-passes-with-patch"
fi
if [ "$res" = ok ]; then
  rm -f "$wt/$pkg/zz_seed_demo_test.go"
  "$(dirname "$0")/baseline.sh" "$wt" >/dev/null 2>&1 || res="suite-fails-with-patch"
fi
echo "$sd: $res"
[ "$res" = ok ]
