#!/usr/bin/env python3
"""tools/mkmutant.py <prop> <name> <file> <<< JSON {"old": "...", "new": "..."}  (or list of such edits with "file")
Creates mutants/<prop>/<name>.patch from a one-construct edit of /repo's HEAD, after checking in a
scratch worktree (removed afterwards) that the mutant builds and the pinned suite still passes."""
import json, os, subprocess, sys, tempfile, shutil
prop, name = sys.argv[1], sys.argv[2]
edits = json.load(sys.stdin)
if isinstance(edits, dict): edits = [edits]
here = os.path.dirname(os.path.dirname(os.path.abspath(__file__)))
wt = tempfile.mkdtemp(prefix='mut-', dir='/tmp'); os.rmdir(wt)
subprocess.check_call(['git', '-C', '/repo', 'worktree', 'add', '-q', '--detach', wt, 'HEAD'])
try:
    for e in edits:
        f = os.path.join(wt, e.get('file') or sys.argv[3])
        s = open(f).read()
        n = s.count(e['old'])
        if n != e.get('count', 1):
            print("edit matches %d times, expected %d: %r" % (n, e.get('count', 1), e['old'][:60])); sys.exit(2)
        open(f, 'w').write(s.replace(e['old'], e['new']))
    env = dict(os.environ, GOFLAGS='-mod=mod', GOPROXY='off', GOSUMDB='off', GOTOOLCHAIN='local'); env.pop('GOWORK', None)
    if subprocess.call(['go', 'build', './...'], cwd=wt, env=env) != 0:
        print("mutant does not build"); sys.exit(3)
    skip = os.environ.get('MUT_SKIP_SUITE')
    if not skip and subprocess.call([os.path.join(here, 'tools', 'baseline.sh'), wt]) != 0:
        print("NOTE: pinned suite FAILS with this mutant (tests already catch it)")
        if not os.environ.get('MUT_KEEP_ANYWAY'): sys.exit(4)
    diff = subprocess.check_output(['git', '-C', wt, 'diff'])
    d = os.path.join(here, 'mutants', prop); os.makedirs(d, exist_ok=True)
    open(os.path.join(d, name + '.patch'), 'wb').write(diff)
    print("wrote", os.path.join(d, name + '.patch'))
finally:
    subprocess.call(['git', '-C', '/repo', 'worktree', 'remove', '--force', wt]); shutil.rmtree(wt, ignore_errors=True)
