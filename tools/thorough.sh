#!/bin/bash
# thorough tier: (1) the analysis of /repo under the host GOARCH and under GOARCH=386 (different
# int width, different build-tag file set); (2) sensitivity run: every mutant under
# mutants/<prop>/*.patch and seeded/<prop>*/patch.diff marked as caught is applied to a scratch copy
# (outside /repo and /verif, removed afterwards), one at a time, each in its own process, and must be
# reported. The verdict on /repo comes from (1) only; a mutant that is expected to be caught and is
# not is reported as SENSITIVITY-LOST (and counted in the evidence) without changing the verdict.
set -u
here=$(cd "$(dirname "$0")/.." && pwd)
prop=$1
repo=${2:-/repo}
export GOFLAGS=-mod=mod GOPROXY=off GOSUMDB=off GOTOOLCHAIN=local
unset GOWORK
rc=0
"$here/bin/kinlint" -property "$prop" -tier thorough -dir "$repo" -verif "$here" -goarch 386 -no-evidence > "$here/.thorough-386-$prop.log" 2>&1
rc386=$?
if [ $rc386 -ne 0 ]; then
  cat "$here/.thorough-386-$prop.log"
  echo "analysis under GOARCH=386 failed"
  rc=1
fi
rm -f "$here/.thorough-386-$prop.log"
# sensitivity
mut_total=0; mut_caught=0; mut_skipped=0; mut_missed=""
scratch=$(mktemp -d "${TMPDIR:-/tmp}/kinlint-XXXXXX")
trap 'rm -rf "$scratch"' EXIT
list=$(ls "$here"/mutants/"$prop"/*.patch 2>/dev/null; for d in "$here"/seeded/"$prop"-*; do [ -f "$d/caught_by" ] && grep -q "$prop" "$d/caught_by" && echo "$d/patch.diff"; done)
for patch in $list; do
  mut_total=$((mut_total+1))
  rm -rf "$scratch/repo"; mkdir -p "$scratch/repo"
  (cd "$repo" && git ls-files -z | grep -zv '/testdata/' | xargs -0 cp --parents -t "$scratch/repo" 2>/dev/null)
  if ! (cd "$scratch/repo" && git init -q . 2>/dev/null && git apply "$patch" 2>/dev/null); then
    mut_skipped=$((mut_skipped+1)); echo "mutant $(basename $(dirname $patch))/$(basename $patch): skipped (does not apply to this tree)"; continue
  fi
  out=$("$here/bin/kinlint" -property "$prop" -tier quick -dir "$scratch/repo" -verif "$here" -no-evidence 2>&1)
  if echo "$out" | grep -q '^VIOLATION'; then
    mut_caught=$((mut_caught+1)); echo "mutant $patch: caught"
  else
    mut_missed="$mut_missed $patch"; echo "mutant $patch: NOT caught"
  fi
done
rm -rf "$scratch"
export KINLINT_MUTANTS="total=$mut_total caught=$mut_caught skipped=$mut_skipped missed=$(echo $mut_missed | wc -w)"
"$here/bin/kinlint" -property "$prop" -tier thorough -dir "$repo" -verif "$here"
rcmain=$?
[ $rcmain -ne 0 ] && rc=$rcmain
echo "mutants: $KINLINT_MUTANTS"
if [ -n "$mut_missed" ]; then
  # a self-test of the machinery, not a verdict on /repo: reported, recorded in the evidence
  # (KINLINT_MUTANTS), never a VIOLATION line -- a patch that still applies to an edited tree
  # but no longer breaks anything there must not raise an alarm
  echo "SENSITIVITY-LOST property=$prop patches:$mut_missed"
fi
exit $rc
