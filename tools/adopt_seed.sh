#!/bin/bash
# tools/adopt_seed2.sh <prop> <n> <as>  : verify ${SEEDROOT:-/tmp/seeds2}/<prop>/<n> and keep it as seeded/<prop>-<as>/
set -u
here=$(cd "$(dirname "$0")/.." && pwd)
prop=$1; n=$2; as=$3; sd=${SEEDROOT:-/tmp/seeds2}/$prop/$n
[ -f "$sd/meta.json" ] || { echo "no seed $sd"; exit 2; }
if "$here/tools/verify_seed.sh" "$sd"; then
  d="$here/seeded/$prop-$as"; mkdir -p "$d"
  cp "$sd/patch.diff" "$sd/demo_test.go" "$d/"
  python3 - "$sd/meta.json" "$d/meta.json" "$prop" <<'PY'
import json,sys
m=json.load(open(sys.argv[1]))
m['property']=sys.argv[3]
m["round"]=int(__import__("os").environ.get("SEEDROUND","2"))
m['confirmed_by_me']=["tools/verify_seed.sh: in a fresh scratch worktree of /repo HEAD: demo passes on the clean tree; patch applies and builds; demo fails with the patch; the pinned suite (all 955 stable tests) still passes with the patch; worktree removed"]
json.dump(m,open(sys.argv[2],'w'),indent=1)
PY
  echo "adopted $d"
fi
