#!/usr/bin/env python3
"""Generates the data tables of DESIGN.md section 6 from evidence/, known_findings.json, mutants/ and seeded/."""
import json, os, re, glob
here = os.path.dirname(os.path.dirname(os.path.abspath(__file__)))
out = []
# rules per property
out.append("| property | rule | instances | floor |\n|---|---|---|---|")
for pid in ['C%02d' % i for i in range(1, 21)]:
    f = os.path.join(here, 'evidence', pid + '.json')
    if not os.path.exists(f):
        continue
    d = json.load(open(f))
    expl = d['coverage'].get('explanation', '')
    for m in re.finditer(r'\[(C\d\d\.[a-z0-9-]+)\].*?\(instances=(\d+), floor=(\d+)\)', expl):
        out.append("| %s | %s | %s | %s |" % (pid, m.group(1), m.group(2), m.group(3)))
open(os.path.join(here, '.report_rules.md'), 'w').write("\n".join(out) + "\n")
# findings
kf = json.load(open(os.path.join(here, 'known_findings.json')))['findings']
rows = ["| property | rule / construct | status | what | failing input |\n|---|---|---|---|---|"]
for f in kf:
    st = f['status'] + (" " + f.get('commit', '') if f['status'] == 'fixed' else '')
    what = f['what'].replace('|', '\\|')
    what = re.sub(r'^fixed: property=C\d\d [0-9a-f]+ ', '', what)
    rows.append("| %s | `%s/%s` | %s | %s | %s |" % (f['property'], f['rule'], f['key'].replace('|', '\\|'), st, what[:260], f.get('failing_input', '').replace('|', '\\|')[:200]))
open(os.path.join(here, '.report_findings.md'), 'w').write("\n".join(rows) + "\n")
# seeds
rows = ["| seed | what it breaks (one line) | caught by | rule that fires |\n|---|---|---|---|"]
for d in sorted(glob.glob(os.path.join(here, 'seeded', 'C*'))):
    sid = os.path.basename(d)
    meta = json.load(open(os.path.join(d, 'meta.json')))
    cb = open(os.path.join(d, 'caught_by')).read().split() if os.path.exists(os.path.join(d, 'caught_by')) else []
    s = meta.get('summary', '').split(':', 1)[-1].strip().replace('|', '\\|').replace('\n', ' ')
    rules = open(os.path.join(d, 'caught_rules')).read().split() if os.path.exists(os.path.join(d, 'caught_rules')) else []
    note = ', '.join(rules)
    if meta.get('obsolete'):
        note = 'obsolete: ' + meta['obsolete'][:160].replace('|', '\\|')
    rows.append("| %s | %s | %s | %s |" % (sid, s[:170], ', '.join(cb) if cb else ('— (not caught)' if not meta.get('obsolete') else 'n/a'), note))
open(os.path.join(here, '.report_seeds.md'), 'w').write("\n".join(rows) + "\n")
print("written")
