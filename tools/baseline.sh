#!/bin/bash
# Usage: tools/baseline.sh [dir]   (default /repo)
# Runs the pinned suite in <dir> and compares with BASELINE.json's stable_pass list.
# Exit 0 iff every stable_pass test passes. Not used by any registered check.
dir=${1:-/repo}
export GOFLAGS=-mod=mod GOPROXY=off GOSUMDB=off GOTOOLCHAIN=local
unset GOWORK
out=$(mktemp)
(cd "$dir" && go test -json -vet=off -count=1 -timeout 25m ./... >"$out" 2>/dev/null)
python3 - "$out" <<'EOF'
import json,sys
b=json.load(open('/root/.vp/BASELINE.json'))
passed=set();failed=set()
for line in open(sys.argv[1],errors='replace'):
    line=line.strip()
    if not line.startswith('{'): continue
    try: ev=json.loads(line)
    except Exception: continue
    a=ev.get('Action');t=ev.get('Test')
    if t is None or a not in('pass','fail'): continue
    tid=ev.get('Package','')+'::'+t
    (passed if a=='pass' else failed).add(tid)
passed-=failed
missing=[t for t in b['stable_pass'] if t not in passed]
print('stable_pass=%d passed_now=%d missing=%d'%(len(b['stable_pass']),len(passed),len(missing)))
for m in missing[:20]: print('  MISSING',m)
sys.exit(1 if missing else 0)
EOF
rc=$?
rm -f "$out"
exit $rc
