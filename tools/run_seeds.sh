#!/bin/bash
# tools/run_seeds.sh [seed-dir...] : run every implemented check against each seeded change (on a
# scratch copy of /repo with the patch applied; removed afterwards) and record which checks fire in
# seeded/<id>/caught_by (one property id per line; empty = missed by all).
here=$(cd "$(dirname "$0")/.." && pwd)
export GOFLAGS=-mod=mod GOPROXY=off GOSUMDB=off GOTOOLCHAIN=local; unset GOWORK
if [ -z "${KINLINT_BIN:-}" ]; then (cd "$here" && go build -o bin/kinlint ./cmd/kinlint) || exit 2; KINLINT_BIN="$here/bin/kinlint"; fi
export KINLINT_BIN
dirs=${@:-$here/seeded/*}
one() {
  d=$1
  scratch=$(mktemp -d /tmp/kinlint-seed-XXXXXX)
  (cd /repo && git ls-files -z | grep -zv '/testdata/' | xargs -0 cp --parents -t "$scratch")
  if ! (cd "$scratch" && git init -q . && git apply "$d/patch.diff" 2>/dev/null); then echo "$(basename $d): patch does not apply"; rm -rf "$scratch"; return; fi
  own=$(basename "$d" | cut -d- -f1)
  : > "$d/caught_by.tmp"; : > "$d/caught_rules.tmp"
  for p in $("$KINLINT_BIN" -list); do
    out=$("$KINLINT_BIN" -property "$p" -tier quick -dir "$scratch" -verif "$here" -no-evidence 2>&1)
    if echo "$out" | grep -q '^VIOLATION'; then
      echo "$p" >> "$d/caught_by.tmp"
      echo "$out" | grep -E '^\s+(VIOLATED|UNDECIDED)' | grep -oE 'C[0-9]{2}\.[a-z0-9-]+' | sort -u >> "$d/caught_rules.tmp"
      echo "$out" | grep -E '^\s+(VIOLATED|UNDECIDED)' | head -3 | sed "s|^|    [$p] |" > "$d/.report.$p"
    fi
  done
  mv "$d/caught_by.tmp" "$d/caught_by"; sort -u "$d/caught_rules.tmp" > "$d/caught_rules"; rm -f "$d/caught_rules.tmp"
  echo "$(basename $d): caught by [$(tr '\n' ' ' < $d/caught_by)]"; cat "$d"/.report.* 2>/dev/null | cut -c1-260; rm -f "$d"/.report.*
  rm -rf "$scratch"
}
export -f one; export here
printf '%s\n' $dirs | xargs -P ${SEED_JOBS:-6} -I{} bash -c 'one {}'
