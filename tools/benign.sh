#!/bin/bash
# tools/benign.sh: two behaviour-preserving variants of /repo on which every check must stay silent
# (self-test of the machinery; not registered in MANIFEST). (1) every non-test file gets three comment
# lines after its package clause (all line numbers shift: obligations and known findings are keyed by
# construct, not by line); (2) a handful of locals and parameters that rules look at are renamed.
here=$(cd "$(dirname "$0")/.." && pwd)
export GOFLAGS=-mod=mod GOPROXY=off GOSUMDB=off GOTOOLCHAIN=local; unset GOWORK
rc=0
for variant in shift rename; do
  sc=$(mktemp -d "${TMPDIR:-/tmp}/kinlint-benign-XXXXXX")
  (cd /repo && git ls-files -z | grep -zv '/testdata/' | xargs -0 cp --parents -t "$sc")
  if [ $variant = shift ]; then
    python3 - "$sc" <<'PY'
import glob,re,sys
for f in glob.glob(sys.argv[1]+'/**/*.go', recursive=True):
    if f.endswith('_test.go'): continue
    s=open(f).read()
    s=re.sub(r'(?m)^(package \w+)\n', r'\1\n\n// benign shift\n// benign shift\n// benign shift\n', s, count=1)
    open(f,'w').write(s)
PY
  else
    (cd "$sc" && gofmt -r 'mime -> mediaTypeName' -w openapi3/content.go && gofmt -r 'cursor -> cur' -w openapi3/loader.go \
      && gofmt -r 'props -> propsGiven' -w openapi3filter/req_resp_decoder.go && gofmt -r 'methodMismatch -> sawOtherMethod' -w routers/gorillamux/router.go \
      && gofmt -r 'rawURL -> encodedText' -w openapi3/server.go && gofmt -r 'errs -> failures' -w openapi3filter/validate_request.go \
      && gofmt -r 'matchedOneOfIndices -> hits' -w openapi3/schema.go && gofmt -r 'visitsValue -> checksValues' -w openapi3/schema.go)
  fi
  (cd "$sc" && go build ./...) || { echo "variant $variant does not build"; rm -rf "$sc"; exit 2; }
  for p in $("$here/bin/kinlint" -list); do
    out=$("$here/bin/kinlint" -property "$p" -tier quick -dir "$sc" -verif "$here" -no-evidence 2>&1)
    if echo "$out" | grep -q '^VIOLATION'; then echo "FALSE ALARM on variant $variant: $p"; echo "$out" | grep -E "VIOLATED|UNDECIDED" | head -3; rc=1; fi
  done
  rm -rf "$sc"
  echo "variant $variant: done"
done
exit $rc
