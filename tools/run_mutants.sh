#!/bin/bash
# tools/run_mutants.sh <prop> [patch...]: applies each mutant to a scratch copy of /repo and prints which obligations the check reports.
here=$(cd "$(dirname "$0")/.." && pwd)
prop=$1; shift
export GOFLAGS=-mod=mod GOPROXY=off GOSUMDB=off GOTOOLCHAIN=local; unset GOWORK
list="$@"; [ -z "$list" ] && list=$(ls "$here"/mutants/"$prop"/*.patch)
scratch=$(mktemp -d /tmp/kinlint-mut-XXXXXX); trap 'rm -rf "$scratch"' EXIT
for patch in $list; do
  rm -rf "$scratch/repo"; mkdir -p "$scratch/repo"
  (cd /repo && git ls-files -z | grep -zv '/testdata/' | xargs -0 cp --parents -t "$scratch/repo" 2>/dev/null)
  if ! (cd "$scratch/repo" && git init -q . 2>/dev/null && git apply "$patch" 2>/dev/null); then echo "== $(basename $patch): does not apply"; continue; fi
  out=$(timeout 900 "${KINLINT_BIN:-$here/bin/kinlint}" -property "$prop" -tier quick -dir "$scratch/repo" -verif "$here" -no-evidence 2>&1)
  echo "== $(basename $patch): $(echo "$out" | grep -c '^VIOLATION') violation line(s)"
  echo "$out" | grep -E "VIOLATED|UNDECIDED" | sed 's/^ *[A-Z]* *//' | cut -c1-230 | head -6
done
