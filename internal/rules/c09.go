package rules

import (
	"fmt"
	"go/ast"
	"go/token"
	"go/types"
	"sort"
	"strings"

	"verif/internal/core"
)

func init() { register("C09", c09) }

func c09(r *core.Report) {
	r.Assumption("claim: the table-shaped and wiring parts of 'the route's operation is the one the document declares for the request method under the route's template': method/field agreement of the PathItem accessors, how both routers build and fill routers.Route, that state does not leak between paths while a router is built, that a route and an error are never returned together, and that the mux templates are built in the encoding the mux router matches on; matching itself (which template wins, parameter extraction, server variables, that substituting the parameters reproduces the path, that every well-formed request is routed) is string processing over runtime values and is not decided")
	c09Methods(r)
	c09Route(r)
	c09NotFound(r)
	c09Encoded(r)
	c09Boundary(r)
	c09Backtrack(r)
	c09Stable(r)
	c09LessPos(r)
	c09TryAll(r)
	c09QueryCut(r)
	c09BaseTrim(r)
	c09MuxEncoded(r)
	c09VarCount(r)
	c09VarNames(r)
	c09EveryServer(r)
	c09ParamPrecedence(r)
}

// c09ParamPrecedence: the parameters returned with a route reproduce the request path.
func c09ParamPrecedence(r *core.Report) {
	p := r.Prog
	info := p.Pkg("routers/legacy").TypesInfo
	r.RunRule("C09.paramprecedence", "path parameters win over server variables of the same name: in the legacy router's FindRoute the stores of the path-template variables into the returned parameter map come after the stores of the server-URL variables (the later store wins): substituting the returned parameters into the template must give back the request path, which a server variable's value under the same name does not", 1, func() {
		fd := p.DeclOf("routers/legacy", "Router.FindRoute")
		serverStore, pathStore := token.NoPos, token.NoPos
		ast.Inspect(fd.Body, func(nd ast.Node) bool {
			as, ok := nd.(*ast.AssignStmt)
			if !ok || len(as.Lhs) != 1 {
				return true
			}
			ix, ok := ast.Unparen(as.Lhs[0]).(*ast.IndexExpr)
			if !ok {
				return true
			}
			if _, isMap := info.TypeOf(ix.X).Underlying().(*types.Map); !isMap {
				return true
			}
			// which loop is it in?
			for _, anc := range core.PathTo(fd.Body, as) {
				if rs, ok := anc.(*ast.RangeStmt); ok {
					src := core.ExprStr(rs.X)
					key := core.ExprStr(ix.Index)
					_ = key
					// the loop body names the key from ParameterNames (server) or VariableNames (path)
					txt := ""
					ast.Inspect(rs.Body, func(m ast.Node) bool {
						if id, ok := m.(*ast.Ident); ok {
							txt += id.Name + " "
						}
						return true
					})
					switch {
					case strings.Contains(txt, "paramNames"):
						serverStore = as.Pos()
					case strings.Contains(txt, "paramKeys") || strings.Contains(txt, "VariableNames"):
						pathStore = as.Pos()
					}
					_ = src
				}
			}
			return true
		})
		if serverStore == token.NoPos || pathStore == token.NoPos {
			core.Fail("FindRoute: the two parameter-store loops were not both found")
		}
		r.Check(serverStore < pathStore, "paramprecedence:FindRoute", p.Pos(pathStore), "path variables are stored last", "the legacy router stores the server-URL variables into the parameter map after the path-template variables: for a server `https://{env}.example.com` and a path `/deploy/{env}`, the request https://qa.example.com/deploy/staging comes back with env=qa, and the parameters no longer reproduce the request path")
	})
}

// c09EveryServer: the mux router answers for every server the document declares.
func c09EveryServer(r *core.Report) {
	p := r.Prog
	pk := p.Pkg("routers/gorillamux")
	info := pk.TypesInfo
	r.RunRule("C09.everyserver", "every declared server gets its routes: in gorillamux.makeServers each round of the loop over the declared servers ends (at a `continue` or at the end of the body) right after an append of the decomposed server to the list that is returned, or returns an error — a round that can end without the append (a de-duplication, a filter) leaves a declared server without routes, and the requests the document says it serves are answered `no matching operation`", 2, func() {
		fd := p.DeclOf("routers/gorillamux", "makeServers")
		var loop *ast.RangeStmt
		ast.Inspect(fd.Body, func(nd ast.Node) bool {
			if rs, ok := nd.(*ast.RangeStmt); ok && loop == nil {
				if id, ok := ast.Unparen(rs.X).(*ast.Ident); ok {
					if _, isParam := info.ObjectOf(id).(*types.Var); isParam && core.ParamObj(info, fd, id.Name) == info.ObjectOf(id) {
						loop = rs
					}
				}
			}
			return true
		})
		if loop == nil {
			core.Fail("makeServers: no loop over its parameter")
		}
		// the returned list
		var result types.Object
		ast.Inspect(fd.Body, func(nd ast.Node) bool {
			if ret, ok := nd.(*ast.ReturnStmt); ok && len(ret.Results) == 2 {
				if id, ok := ast.Unparen(ret.Results[0]).(*ast.Ident); ok && core.IsNil(info, ret.Results[1]) {
					result = info.ObjectOf(id)
				}
			}
			return true
		})
		if result == nil {
			core.Fail("makeServers: no `return list, nil`")
		}
		isAppend := func(st ast.Stmt) bool {
			as, ok := st.(*ast.AssignStmt)
			if !ok || len(as.Lhs) != 1 || len(as.Rhs) != 1 {
				return false
			}
			lid, ok := ast.Unparen(as.Lhs[0]).(*ast.Ident)
			if !ok || info.ObjectOf(lid) != result {
				return false
			}
			c, ok := ast.Unparen(as.Rhs[0]).(*ast.CallExpr)
			if !ok || len(c.Args) < 2 {
				return false
			}
			fid, ok := ast.Unparen(c.Fun).(*ast.Ident)
			if !ok || fid.Name != "append" {
				return false
			}
			aid, ok := ast.Unparen(c.Args[0]).(*ast.Ident)
			return ok && info.ObjectOf(aid) == result
		}
		k := 0
		check := func(blk *ast.BlockStmt, idx int, pos token.Pos, what string) {
			k++
			key := fmt.Sprintf("everyserver:exit#%d", k)
			good := idx > 0 && isAppend(blk.List[idx-1])
			r.Check(good, key, p.Pos(pos), "the round ends right after the append", "a round of the loop over the declared servers ends ("+what+") without the server having been appended to the returned list by the statement before: that server gets no routes")
		}
		// every continue of this loop
		ast.Inspect(loop.Body, func(nd ast.Node) bool {
			switch x := nd.(type) {
			case *ast.FuncLit:
				return false
			case *ast.RangeStmt, *ast.ForStmt:
				return nd == ast.Node(loop.Body)
			case *ast.BlockStmt:
				for i, st := range x.List {
					if br, ok := st.(*ast.BranchStmt); ok && br.Tok == token.CONTINUE {
						check(x, i, br.Pos(), "continue")
					}
				}
			}
			return true
		})
		check(loop.Body, len(loop.Body.List), loop.Body.End(), "end of the loop body")
	})
}

// methodConstAndFields: the http.Method* constants and the *Operation fields of PathItem mentioned in a node.
func methodsAndFields(info *types.Info, n ast.Node, owner *types.Named) (methods, fields []string) {
	ms, fs := map[string]bool{}, map[string]bool{}
	ast.Inspect(n, func(m ast.Node) bool {
		sel, ok := m.(*ast.SelectorExpr)
		if !ok {
			return true
		}
		if c, ok := info.Uses[sel.Sel].(*types.Const); ok && c.Pkg() != nil && c.Pkg().Path() == "net/http" && strings.HasPrefix(c.Name(), "Method") {
			ms[strings.TrimPrefix(c.Name(), "Method")] = true
		}
		if f := core.FieldSel(info, sel); f != nil {
			if s, ok := info.Selections[sel]; ok && core.NamedOf(s.Recv()) == owner {
				if nn := core.NamedOf(f.Type()); nn != nil && nn.Obj().Name() == "Operation" {
					fs[f.Name()] = true
				}
			}
		}
		return true
	})
	for k := range ms {
		methods = append(methods, k)
	}
	for k := range fs {
		fields = append(fields, k)
	}
	sort.Strings(methods)
	sort.Strings(fields)
	return
}

func c09Methods(r *core.Report) {
	p := r.Prog
	r.RunRule("C09.methods", "method and operation field agree everywhere: in PathItem.GetOperation, SetOperation and Operations (packages openapi3 and openapi2) every case clause / guarded store pairs the constant http.Method<X> with the field <X> and nothing else, every *Operation field of PathItem appears in each of the three, and the field's JSON name is the lower-case method", 48, func() {
		for _, rel := range []string{"openapi3", "openapi2"} {
			pk := p.Pkg(rel)
			info := pk.TypesInfo
			owner := p.NamedType(rel, "PathItem")
			st := owner.Underlying().(*types.Struct)
			var opFields []string
			for i := 0; i < st.NumFields(); i++ {
				f := st.Field(i)
				if nn := core.NamedOf(f.Type()); nn != nil && nn.Obj().Name() == "Operation" {
					opFields = append(opFields, f.Name())
					tag, _ := core.JSONTag(st.Tag(i))
					r.Check(tag == strings.ToLower(f.Name()), fmt.Sprintf("methods:%s/tag/%s", rel, f.Name()), p.Pos(f.Pos()), "JSON name is the lower-case method", fmt.Sprintf("PathItem.%s is serialised as %q: the operation is read from / written to another method's key", f.Name(), tag))
				}
			}
			for _, fn := range []string{"GetOperation", "SetOperation", "Operations"} {
				fd := p.DeclOf(rel, "PathItem."+fn)
				seen := map[string]bool{}
				var clauses []ast.Node
				ast.Inspect(fd.Body, func(n ast.Node) bool {
					switch x := n.(type) {
					case *ast.CaseClause:
						if x.List != nil {
							clauses = append(clauses, x)
						}
						return false
					case *ast.IfStmt:
						clauses = append(clauses, x)
						return false
					}
					return true
				})
				for _, c := range clauses {
					ms, fs := methodsAndFields(info, c, owner)
					if len(ms) == 0 && len(fs) == 0 {
						continue
					}
					name := strings.Join(fs, "+")
					if name == "" {
						name = "method:" + strings.Join(ms, "+")
					}
					key := fmt.Sprintf("methods:%s/%s/%s", rel, fn, name)
					okPair := len(ms) == 1 && len(fs) == 1 && ms[0] == fs[0]
					if okPair {
						seen[fs[0]] = true
					}
					r.Check(okPair, key, p.Pos(c.Pos()), "http.Method"+strings.Join(ms, ",")+" paired with field "+strings.Join(fs, ","), fmt.Sprintf("PathItem.%s pairs method(s) %v with field(s) %v: a request with one method is served the operation declared for another", fn, ms, fs))
				}
				for _, f := range opFields {
					if !seen[f] {
						r.Bad(fmt.Sprintf("methods:%s/%s/%s", rel, fn, f), p.Pos(fd.Pos()), fmt.Sprintf("PathItem.%s has no branch for field %s: the operation declared for that method is invisible to it", fn, f))
					}
				}
			}
		}
	})
}

// loopCarried lists variables declared outside a `for`/`range` of fd, assigned inside its body
// (other than x = append(x, ...) and counters) and read in the body: their value survives into the
// next iteration.
func loopCarried(info *types.Info, fd *ast.FuncDecl) []string {
	var out []string
	ast.Inspect(fd.Body, func(n ast.Node) bool {
		var body *ast.BlockStmt
		switch x := n.(type) {
		case *ast.RangeStmt:
			body = x.Body
		case *ast.ForStmt:
			body = x.Body
		default:
			return true
		}
		ast.Inspect(body, func(m ast.Node) bool {
			as, ok := m.(*ast.AssignStmt)
			if !ok || as.Tok == token.DEFINE {
				return true
			}
			for i, l := range as.Lhs {
				id, ok := l.(*ast.Ident)
				if !ok || id.Name == "_" {
					continue
				}
				o := info.ObjectOf(id)
				if o == nil || (o.Pos() >= n.Pos() && o.Pos() <= n.End()) {
					continue // declared inside the loop
				}
				if _, isVar := o.(*types.Var); !isVar {
					continue
				}
				// accumulators and plain error variables are not routing state
				if isErrorType(o.Type()) {
					continue
				}
				if len(as.Rhs) == len(as.Lhs) {
					if c, ok := ast.Unparen(as.Rhs[i]).(*ast.CallExpr); ok && core.IsBuiltin(info, c, "append") && len(c.Args) > 0 {
						if aid, ok := ast.Unparen(c.Args[0]).(*ast.Ident); ok && info.ObjectOf(aid) == o {
							continue
						}
					}
				}
				if as.Tok != token.ASSIGN {
					continue // += and the like: counters
				}
				// conditional assignment (inside an if/switch of the loop body)?
				conditional := false
				for _, anc := range core.PathTo(body, as) {
					switch anc.(type) {
					case *ast.IfStmt, *ast.CaseClause:
						conditional = true
					}
				}
				if !conditional {
					continue // reassigned on every iteration before use is per-iteration state
				}
				out = append(out, id.Name)
			}
			return true
		})
		return true
	})
	sort.Strings(out)
	return uniq(out)
}

func c09Route(r *core.Report) {
	p := r.Prog
	r.RunRule("C09.route", "routes are built from what the document declares for exactly that path and method: (legacy) the routers.Route literal registered in NewRouter takes Path/PathItem from the key/value of one range over doc.Paths.Map() and Method/Operation from the key/value of one range over that path item's Operations(), under the key Method+\" \"+Path of the same variables; (gorillamux) the mux route and the routers.Route are appended side by side, once each, in the same statement list, the Route's Path is the loop's path and PathItem is doc.Paths.Value(path), the mux template is built from that same path, and FindRoute copies the route found at the index of the matching mux and fills Operation with Paths.Value(route.Path).GetOperation(req.Method); in both constructors no variable that carries routing data (servers, path item) is conditionally reassigned inside the loop over paths and so leaks into the next path", 10, func() {
		// ---- legacy
		{
			info := p.Pkg("routers/legacy").TypesInfo
			fd := p.DeclOf("routers/legacy", "NewRouter")
			ff := core.NewFuncFacts(p, info, fd)
			var lit *ast.CompositeLit
			var addCall *ast.CallExpr
			ast.Inspect(fd.Body, func(n ast.Node) bool {
				if cl, ok := n.(*ast.CompositeLit); ok {
					if nn := core.NamedOf(info.TypeOf(cl)); nn != nil && nn.Obj().Name() == "Route" {
						lit = cl
					}
				}
				if c, ok := n.(*ast.CallExpr); ok {
					if callee := core.CalleeOf(info, c); callee != nil && callee.Name() == "Add" {
						addCall = c
					}
				}
				return true
			})
			if lit == nil || addCall == nil {
				core.Fail("legacy.NewRouter: Route literal or Add call not found")
			}
			fields := map[string]ast.Expr{}
			for _, e := range lit.Elts {
				if kv, ok := e.(*ast.KeyValueExpr); ok {
					fields[core.ExprStr(kv.Key)] = kv.Value
				}
			}
			rangeOf := func(e ast.Expr) (*ast.RangeStmt, bool) {
				id, ok := ast.Unparen(e).(*ast.Ident)
				if !ok {
					return nil, false
				}
				o := info.ObjectOf(id)
				var found *ast.RangeStmt
				isKey := false
				ast.Inspect(fd.Body, func(n ast.Node) bool {
					if rs, ok := n.(*ast.RangeStmt); ok {
						if k, ok := rs.Key.(*ast.Ident); ok && info.ObjectOf(k) == o {
							found, isKey = rs, true
						}
						if v, ok := rs.Value.(*ast.Ident); ok && info.ObjectOf(v) == o {
							found, isKey = rs, false
						}
					}
					return true
				})
				return found, isKey
			}
			pathR, pk := rangeOf(fields["Path"])
			itemR, ik := rangeOf(fields["PathItem"])
			r.Check(pathR != nil && pathR == itemR && pk && !ik && strings.HasSuffix(core.ExprStr(pathR.X), ".Paths.Map()"), "route:legacy/path-item", p.Pos(lit.Pos()), "Path and PathItem are key and value of one range over doc.Paths.Map()", "the legacy route's Path and PathItem do not come from one entry of doc.Paths: a request is served another path's operations")
			methR, mk := rangeOf(fields["Method"])
			opR, ok2 := rangeOf(fields["Operation"])
			okOps := methR != nil && methR == opR && mk && !ok2
			if okOps {
				// ranges over <PathItem value>.Operations()
				c, ok := ast.Unparen(methR.X).(*ast.CallExpr)
				okOps = ok
				if ok {
					sel, ok := c.Fun.(*ast.SelectorExpr)
					okOps = ok && sel.Sel.Name == "Operations" && core.ExprStr(sel.X) == core.ExprStr(fields["PathItem"])
				}
			}
			r.Check(okOps, "route:legacy/method-operation", p.Pos(lit.Pos()), "Method and Operation are key and value of one range over that path item's Operations()", "the legacy route's Method and Operation do not come from one entry of the path item's Operations(): a request is served another method's operation")
			// registration key
			keyOK := false
			if len(addCall.Args) >= 1 {
				rs := ff.Roots(addCall.Args[0], false)
				var objs []string
				for o := range rs.Objs {
					objs = append(objs, o.Name())
				}
				sort.Strings(objs)
				mo := info.ObjectOf(identOf(fields["Method"]))
				po := info.ObjectOf(identOf(fields["Path"]))
				keyOK = rs.Objs[mo] || dependsOn(ff, info, addCall.Args[0], mo)
				keyOK = keyOK && (rs.Objs[po] || dependsOn(ff, info, addCall.Args[0], po))
			}
			r.Check(keyOK, "route:legacy/key", p.Pos(addCall.Pos()), "registered under Method+\" \"+Path of the same variables", "the legacy route is registered under a key that is not built from its own Method and Path")
			lc := loopCarried(info, fd)
			r.Check(len(lc) == 0, "route:legacy/loop-state", p.Pos(fd.Pos()), "no routing data is carried from one path to the next", "variable(s) "+strings.Join(lc, ", ")+" are conditionally reassigned inside the loop over paths and keep that value for the paths that follow")
		}
		// ---- gorillamux
		{
			info := p.Pkg("routers/gorillamux").TypesInfo
			fd := p.DeclOf("routers/gorillamux", "NewRouter")
			var muxApp, routeApp *ast.AssignStmt
			nMux, nRoute := 0, 0
			ast.Inspect(fd.Body, func(n ast.Node) bool {
				as, ok := n.(*ast.AssignStmt)
				if !ok || len(as.Lhs) != 1 || len(as.Rhs) != 1 {
					return true
				}
				c, ok := ast.Unparen(as.Rhs[0]).(*ast.CallExpr)
				if !ok || !core.IsBuiltin(info, c, "append") {
					return true
				}
				switch core.ExprStr(as.Lhs[0]) {
				case "r.muxes":
					muxApp = as
					nMux++
				case "r.routes":
					routeApp = as
					nRoute++
				}
				return true
			})
			same := false
			if muxApp != nil && routeApp != nil {
				l1, _ := listOf(fd.Body, muxApp)
				l2, _ := listOf(fd.Body, routeApp)
				same = len(l1) > 0 && len(l2) > 0 && &l1[0] == &l2[0]
			}
			r.Check(nMux == 1 && nRoute == 1 && same, "route:gorillamux/parallel", p.Pos(fd.Pos()), "muxes and routes grow together", "r.muxes and r.routes are not appended exactly once each in the same statement list: the index of the matching mux no longer selects its route")
			// Route literal
			var lit *ast.CompositeLit
			var pathCall *ast.CallExpr
			ast.Inspect(fd.Body, func(n ast.Node) bool {
				if cl, ok := n.(*ast.CompositeLit); ok {
					if nn := core.NamedOf(info.TypeOf(cl)); nn != nil && nn.Obj().Name() == "Route" {
						lit = cl
					}
				}
				if c, ok := n.(*ast.CallExpr); ok {
					if callee := core.CalleeOf(info, c); callee != nil && callee.Name() == "Path" && callee.Pkg() != nil && strings.HasSuffix(callee.Pkg().Path(), "gorilla/mux") {
						pathCall = c
					}
				}
				return true
			})
			if lit == nil || pathCall == nil {
				core.Fail("gorillamux.NewRouter: Route literal or mux Path call not found")
			}
			ff := core.NewFuncFacts(p, info, fd)
			fields := map[string]ast.Expr{}
			for _, e := range lit.Elts {
				if kv, ok := e.(*ast.KeyValueExpr); ok {
					fields[core.ExprStr(kv.Key)] = kv.Value
				}
			}
			po := info.ObjectOf(identOf(fields["Path"]))
			okItem := false
			if po != nil {
				for _, e := range ff.Roots(fields["PathItem"], false).Exprs {
					if c, ok := e.(*ast.CallExpr); ok {
						if callee := core.CalleeOf(info, c); callee != nil && callee.Name() == "Value" && len(c.Args) == 1 {
							if id := identOf(c.Args[0]); id != nil && info.ObjectOf(id) == po {
								okItem = true
							}
						}
					}
				}
			}
			r.Check(po != nil && okItem, "route:gorillamux/path-item", p.Pos(lit.Pos()), "PathItem is doc.Paths.Value(path) of the route's own path", "the gorillamux route's PathItem is not the document's entry for the route's Path")
			r.Check(po != nil && dependsOn(ff, info, pathCall.Args[0], po), "route:gorillamux/template", p.Pos(pathCall.Pos()), "the mux template is built from the route's path", "the mux template is not built from the path stored in the route: a request matching one template is handed another path's route")
			lc := loopCarried(info, fd)
			r.Check(len(lc) == 0, "route:gorillamux/loop-state", p.Pos(fd.Pos()), "no routing data is carried from one path to the next", "variable(s) "+strings.Join(lc, ", ")+" are conditionally reassigned inside the loop over paths and keep that value for the paths that follow (a path item's own servers replace the document's for every later path)")
			// FindRoute
			fr := p.DeclOf("routers/gorillamux", "Router.FindRoute")
			var rng *ast.RangeStmt
			ast.Inspect(fr.Body, func(n ast.Node) bool {
				if rs, ok := n.(*ast.RangeStmt); ok && core.ExprStr(rs.X) == "r.muxes" {
					rng = rs
				}
				return true
			})
			okIdx, okOp := false, false
			if rng != nil {
				io := info.ObjectOf(identOf(rng.Key))
				ast.Inspect(rng.Body, func(n ast.Node) bool {
					if ix, ok := n.(*ast.IndexExpr); ok && core.ExprStr(ix.X) == "r.routes" {
						if id := identOf(ix.Index); id != nil && info.ObjectOf(id) == io {
							okIdx = true
						}
					}
					if as, ok := n.(*ast.AssignStmt); ok && len(as.Lhs) == 1 && len(as.Rhs) == 1 && strings.HasSuffix(core.ExprStr(as.Lhs[0]), ".Operation") {
						s := core.ExprStr(as.Rhs[0])
						if strings.Contains(s, ".Paths.Value(route.Path)") && strings.HasSuffix(s, ".GetOperation(route.Method)") {
							okOp = true
						}
					}
					return true
				})
			}
			// route.Method = req.Method
			okM := false
			ast.Inspect(fr.Body, func(n ast.Node) bool {
				if as, ok := n.(*ast.AssignStmt); ok && len(as.Lhs) == 1 && len(as.Rhs) == 1 && core.ExprStr(as.Lhs[0]) == "route.Method" && core.ExprStr(as.Rhs[0]) == "req.Method" {
					okM = true
				}
				return true
			})
			r.Check(okIdx, "route:gorillamux/index", p.Pos(fr.Pos()), "the route is the one at the index of the matching mux", "FindRoute does not take the route at the index of the mux that matched")
			r.Check(okOp && okM, "route:gorillamux/operation", p.Pos(fr.Pos()), "Operation is Paths.Value(route.Path).GetOperation(req.Method)", "FindRoute does not fill Operation with the document's operation for the request method under the route's path")
		}
	})
}

// dependsOn: expression e (through local definitions) depends on object o.
func dependsOn(ff *core.FuncFacts, info *types.Info, e ast.Expr, o types.Object) bool {
	if o == nil || e == nil {
		return false
	}
	if usesObj(info, e, o) {
		return true
	}
	for _, x := range ff.Roots(e, false).Exprs {
		if id, ok := x.(*ast.Ident); ok && info.ObjectOf(id) == o {
			return true
		}
	}
	return false
}

func c09NotFound(r *core.Report) {
	p := r.Prog
	na := core.NewNilAnalysis(p)
	r.RunRule("C09.notfound", "a route and an error are never returned together, and never neither: at every return of both FindRoute methods, a nil route comes with an error that is provably non-nil, and a nil error with a route that is provably non-nil", 8, func() {
		for _, rel := range []string{"routers/gorillamux", "routers/legacy"} {
			info := p.Pkg(rel).TypesInfo
			fd := p.DeclOf(rel, "Router.FindRoute")
			ff := core.NewFuncFacts(p, info, fd)
			i := 0
			forEachReturnStmt(fd.Body, func(ret *ast.ReturnStmt) {
				i++
				key := fmt.Sprintf("notfound:%s/return#%d", rel, i)
				if len(ret.Results) != 3 {
					r.Unknown(key, p.Pos(ret.Pos()), "return without explicit results")
					return
				}
				routeE, errE := ret.Results[0], ret.Results[2]
				rc, ec := na.Classify(ff, routeE, ret), na.Classify(ff, errE, ret)
				switch {
				case rc == core.IsNilLit && ec == core.NonNil:
					r.OK(key, p.Pos(ret.Pos()), "no route, an error")
				case ec == core.IsNilLit && rc == core.NonNil:
					r.OK(key, p.Pos(ret.Pos()), "a route, no error")
				case rc == core.IsNilLit && ec == core.IsNilLit:
					r.Bad(key, p.Pos(ret.Pos()), "returns neither a route nor an error")
				case ec == core.IsNilLit:
					r.Bad(key, p.Pos(ret.Pos()), "returns a nil error with a route ("+core.ExprStr(routeE)+") that is not shown to be non-nil on this path: the caller dereferences a nil route")
				case rc == core.IsNilLit:
					// error variable returned as is (e.g. err from a callee under err != nil)
					r.Bad(key, p.Pos(ret.Pos()), "returns a nil route with an error ("+core.ExprStr(errE)+") that is not shown to be non-nil on this path: 'no route and no error'")
				default:
					r.Bad(key, p.Pos(ret.Pos()), "returns a route together with an error value")
				}
			})
		}
	})
}

func c09Encoded(r *core.Report) {
	p := r.Prog
	info := p.Pkg("routers/gorillamux").TypesInfo
	r.RunRule("C09.encoded", "the mux router matches on the escaped request path (UseEncodedPath), so the server base path that prefixes every template is taken from the escaped form of the server URL (URL.EscapedPath()), never from the decoded URL.Path: a base path with percent-encoded characters would otherwise never match", 1, func() {
		nr := p.DeclOf("routers/gorillamux", "NewRouter")
		encoded := false
		ast.Inspect(nr.Body, func(n ast.Node) bool {
			if c, ok := n.(*ast.CallExpr); ok {
				if callee := core.CalleeOf(info, c); callee != nil && callee.Name() == "UseEncodedPath" {
					encoded = true
				}
			}
			return true
		})
		fd := p.DeclOf("routers/gorillamux", "newSrv")
		ff := core.NewFuncFacts(p, info, fd)
		// the value stored in srv.base
		var baseE ast.Expr
		ast.Inspect(fd.Body, func(n ast.Node) bool {
			if kv, ok := n.(*ast.KeyValueExpr); ok && core.ExprStr(kv.Key) == "base" {
				baseE = kv.Value
			}
			return true
		})
		if baseE == nil {
			core.Fail("newSrv: srv.base not found")
		}
		rs := ff.Roots(baseE, false)
		usesEscaped, usesDecoded := false, false
		for f := range rs.Funcs {
			if f.Name() == "EscapedPath" {
				usesEscaped = true
			}
		}
		for f := range rs.Fields {
			if f.Name() == "Path" && f.Pkg() != nil && f.Pkg().Path() == "net/url" {
				usesDecoded = true
			}
			if f.Name() == "RawPath" && f.Pkg() != nil && f.Pkg().Path() == "net/url" {
				usesDecoded = true // RawPath is empty unless the default encoding differs
			}
		}
		if encoded {
			r.Check(usesEscaped && !usesDecoded, "encoded:base-path", p.Pos(baseE.Pos()), "base path from URL.EscapedPath()", "the router matches on the escaped path but the server base path is built from the decoded URL.Path: a server URL with percent-encoded characters matches no request")
		} else {
			r.Check(!usesEscaped, "encoded:base-path", p.Pos(baseE.Pos()), "base path from the decoded path, router matches on the decoded path", "the router matches on the decoded path but the base path is escaped")
		}
	})
}

// c09Boundary: a server matches only at a path-segment boundary.
func c09Boundary(r *core.Report) {
	p := r.Prog
	info := p.Pkg("openapi3").TypesInfo
	r.RunRule("C09.boundary", "a server URL matches a request URL only up to a segment boundary: Server.MatchRawURL (used by the legacy router through Servers.MatchURL) has a `no match` return that is taken when what remains of the input after the server URL is non-empty and does not start with '/', and its success return is reached only past that test; without it `https://host/v1` also matches `https://host/v1beta/...` and `https://host.evil.org/...`, and the rest of the path is handed to the pattern tree as if it were under that server", 2, func() {
		fd := p.DeclOf("openapi3", "Server.MatchRawURL")
		var inputObj types.Object
		for _, fl := range fd.Type.Params.List {
			for _, nm := range fl.Names {
				inputObj = info.Defs[nm]
			}
		}
		isBoundaryTest := func(a core.Atom, wantRooted bool) bool {
			// input[0] != '/' (rooted=false when Pos) / strings.HasPrefix(input, "/")
			switch x := ast.Unparen(a.Expr).(type) {
			case *ast.BinaryExpr:
				ix, ok := ast.Unparen(x.X).(*ast.IndexExpr)
				if !ok {
					return false
				}
				id, ok := ast.Unparen(ix.X).(*ast.Ident)
				if !ok || info.ObjectOf(id) != inputObj {
					return false
				}
				if k, ok := intConst(info, ix.Index); !ok || k != 0 {
					return false
				}
				tv, ok := info.Types[x.Y]
				if !ok || tv.Value == nil || tv.Value.ExactString() != "47" {
					return false
				}
				rooted := (x.Op == token.EQL) == a.Pos
				return rooted == wantRooted
			case *ast.CallExpr:
				callee := core.CalleeOf(info, x)
				if callee == nil || callee.Name() != "HasPrefix" || len(x.Args) != 2 {
					return false
				}
				id, ok := ast.Unparen(x.Args[0]).(*ast.Ident)
				if !ok || info.ObjectOf(id) != inputObj {
					return false
				}
				if sv, ok := strConst(info, x.Args[1]); !ok || sv != "/" {
					return false
				}
				return a.Pos == wantRooted
			}
			return false
		}
		mismatch, success := false, false
		nSuccess := 0
		forEachReturnStmt(fd.Body, func(ret *ast.ReturnStmt) {
			if len(ret.Results) != 3 {
				return
			}
			okV, isC := constBool(info, ret.Results[2])
			if !isC {
				return
			}
			atoms := core.Atoms(core.GuardsAt(info, fd.Body, ret))
			if !okV {
				for _, a := range atoms {
					if isBoundaryTest(a, false) {
						mismatch = true
					}
				}
				return
			}
			nSuccess++
			for _, a := range atoms {
				if isBoundaryTest(a, true) {
					success = true
				}
			}
		})
		r.Check(mismatch, "boundary:mismatch-return", p.Pos(fd.Pos()), "a non-rooted remainder is a mismatch", "MatchRawURL has no `no match` return for a remainder that does not start with '/': a server URL matches any URL it is a textual prefix of, in the middle of a segment or host label")
		r.Check(nSuccess > 0 && success, "boundary:success-return", p.Pos(fd.Pos()), "success only with a rooted remainder", "MatchRawURL's success return is not guarded by the remainder starting with '/'")
	})
}

// c09Backtrack: the legacy router's pattern tree is searched with backtracking -- a branch that
// matches a prefix of the path but leads nowhere must not end the search, the sibling branches
// (a variable next to a literal, a regular expression next to a variable) still have to be tried.
func c09Backtrack(r *core.Report) {
	p := r.Prog
	pkg := p.Pkg("routers/legacy/pathpattern")
	info := pkg.TypesInfo
	r.RunRule("C09.backtrack", "the pattern tree is searched with backtracking: in every self-recursive function of package pathpattern that tries alternatives in a loop, a return inside the loop hands back a result only where it was tested non-nil (`resultNode != nil`): returning the outcome of one branch unconditionally abandons its siblings", 1, func() {
		n := 0
		for _, d := range p.AllDecls("routers/legacy/pathpattern") {
			if d.Body == nil || d.Type.Results == nil {
				continue
			}
			self, _ := info.Defs[d.Name].(*types.Func)
			// a loop that contains a recursive call
			var loops []*ast.RangeStmt
			ast.Inspect(d.Body, func(nd ast.Node) bool {
				rs, ok := nd.(*ast.RangeStmt)
				if !ok {
					return true
				}
				rec := false
				ast.Inspect(rs.Body, func(m ast.Node) bool {
					if c, ok := m.(*ast.CallExpr); ok && core.CalleeOf(info, c) == self {
						rec = true
					}
					return true
				})
				if rec {
					loops = append(loops, rs)
				}
				return true
			})
			for _, lp := range loops {
				k := 0
				ast.Inspect(lp.Body, func(nd ast.Node) bool {
					if _, isLit := nd.(*ast.FuncLit); isLit {
						return false
					}
					ret, ok := nd.(*ast.ReturnStmt)
					if !ok || len(ret.Results) == 0 {
						return true
					}
					n++
					k++
					key := fmt.Sprintf("backtrack:%s#%d", core.FuncName(d), k)
					first := ast.Unparen(ret.Results[0])
					if tv, ok := info.Types[first]; ok && tv.IsNil() {
						r.Bad(key, p.Pos(ret.Pos()), "inside the loop over alternatives the function returns `no match` outright: the alternatives not yet tried (a variable or regular-expression segment next to a literal one whose subtree led nowhere) are abandoned, and an existing route is reported as not found")
						return true
					}
					good := false
					if id, ok := first.(*ast.Ident); ok {
						for _, a := range core.Atoms(core.GuardsAt(info, d.Body, ret)) {
							be, ok := ast.Unparen(a.Expr).(*ast.BinaryExpr)
							if !ok {
								continue
							}
							nonNil := (be.Op == token.NEQ && a.Pos) || (be.Op == token.EQL && !a.Pos)
							if !nonNil {
								continue
							}
							for _, pair := range [][2]ast.Expr{{be.X, be.Y}, {be.Y, be.X}} {
								if x, ok := ast.Unparen(pair[0]).(*ast.Ident); ok && info.ObjectOf(x) == info.ObjectOf(id) {
									if tv, ok := info.Types[pair[1]]; ok && tv.IsNil() {
										good = true
									}
								}
							}
						}
					}
					if good {
						r.OK(key, p.Pos(ret.Pos()), "returns a branch's result only when it is a match")
					} else {
						r.Bad(key, p.Pos(ret.Pos()), fmt.Sprintf("inside the loop over alternatives, `return %s` hands back the outcome of one branch without testing that it matched: when that branch leads nowhere the remaining alternatives (a variable or regular-expression segment next to a literal one) are never tried and an existing route is reported as not found", core.ExprStr(ret.Results[0])))
					}
					return true
				})
			}
		}
		if n == 0 {
			core.Fail("no return inside a loop over alternatives found in a recursive function of pathpattern")
		}
	})
}

// c09Stable: an order built in two passes (sort by a, then by b) needs a stable second pass. The
// matching order of path templates is such an order (fewest variables first, reverse lexicographic
// within): sort.Sort and sort.Slice keep equal elements in place only by accident (the
// insertion-sort path, up to 12 elements).
func c09Stable(r *core.Report) {
	p := r.Prog
	r.RunRule("C09.stable", "no order is built by two sorting passes the second of which is unstable: when one function sorts the same slice twice, the later call is sort.Stable / sort.SliceStable — after sort.Sort, sort.Slice, sort.Strings the first pass's order among equal elements is arbitrary (the gorilla/mux router registers templates in Paths.InMatchingOrder and the first registered match wins)", 10, func() {
		rels := []string{"openapi3", "openapi2", "openapi2conv", "openapi3filter", "openapi3gen", "routers", "routers/gorillamux", "routers/legacy", "routers/legacy/pathpattern"}
		for _, rel := range rels {
			pkg := p.PkgOpt(rel)
			if pkg == nil {
				continue
			}
			info := pkg.TypesInfo
			for _, d := range p.AllDecls(rel) {
				if d.Body == nil {
					continue
				}
				type sc struct {
					call   *ast.CallExpr
					obj    types.Object
					stable bool
					name   string
				}
				var calls []sc
				ast.Inspect(d.Body, func(n ast.Node) bool {
					c, ok := n.(*ast.CallExpr)
					if !ok || len(c.Args) == 0 {
						return true
					}
					f := core.CalleeOf(info, c)
					if f == nil || f.Pkg() == nil || f.Pkg().Path() != "sort" {
						return true
					}
					switch f.Name() {
					case "Sort", "Slice", "Strings", "Ints", "Float64s", "Stable", "SliceStable":
					default:
						return true
					}
					// the slice variable at the bottom of conversions / sort.Reverse(...)
					e := ast.Unparen(c.Args[0])
					for {
						if ce, ok := e.(*ast.CallExpr); ok && len(ce.Args) == 1 {
							e = ast.Unparen(ce.Args[0])
							continue
						}
						break
					}
					id := core.RootIdent(e)
					if id == nil {
						return true
					}
					calls = append(calls, sc{c, info.ObjectOf(id), f.Name() == "Stable" || f.Name() == "SliceStable", "sort." + f.Name()})
					return true
				})
				for i, c := range calls {
					key := fmt.Sprintf("stable:%s#%d", core.FuncName(d), i+1)
					var prev *sc
					for j := 0; j < i; j++ {
						if calls[j].obj == c.obj && c.obj != nil {
							prev = &calls[j]
						}
					}
					switch {
					case prev == nil:
						r.OK(key, p.Pos(c.call.Pos()), "the only sorting pass over this slice in the function")
					case c.stable:
						r.OK(key, p.Pos(c.call.Pos()), "second pass is stable")
					default:
						r.Bad(key, p.Pos(c.call.Pos()), fmt.Sprintf("%s sorts %s again after %s at %s: the second pass is not stable, so the order the first pass gave to elements that compare equal here is lost (beyond 12 elements the algorithm no longer degenerates to an insertion sort)", c.name, c.obj.Name(), prev.name, p.Pos(prev.call.Pos())))
					}
				}
			}
		}
	})
}

// c09VarNames: the node a template ends at carries the variable names of THAT template. Variable
// nodes are shared by all templates that have a variable at the same position, whatever they call
// it; names taken over from a node that another template created are that template's names.
func c09VarNames(r *core.Report) {
	p := r.Prog
	info := p.Pkg("routers/legacy/pathpattern").TypesInfo
	r.RunRule("C09.varnames", "path parameter names come from the template being registered: every value stored into a pattern-tree node's VariableNames (assignment or composite literal) in package pathpattern is a local list built, in the same function, only from pieces of the function's path argument — never a list read from another node", 1, func() {
		n := 0
		for _, d := range p.AllDecls("routers/legacy/pathpattern") {
			if d.Body == nil {
				continue
			}
			ff := core.NewFuncFacts(p, info, d)
			check := func(pos token.Pos, rhs ast.Expr) {
				n++
				key := fmt.Sprintf("varnames:%s#%d", core.FuncName(d), n)
				rs := ff.Roots(rhs, false)
				fromNode := ""
				for f := range rs.Fields {
					if f.Name() == "VariableNames" {
						fromNode = "the VariableNames of a node that is already in the tree"
					}
				}
				fromPath := false
				for o := range rs.Objs {
					if isParamOf(d, info, o) {
						if b, ok := o.Type().Underlying().(*types.Basic); ok && b.Info()&types.IsString != 0 {
							fromPath = true
						}
					}
				}
				switch {
				case fromNode != "":
					r.Bad(key, p.Pos(pos), fmt.Sprintf("%s is built from %s: a variable node is shared by every template that has a variable at that position, so a template registered later inherits the names of the first one (`/customers/{accountId}/invoices` answers with customerId) and substituting the parameters into the template no longer reproduces the path", core.ExprStr(rhs), fromNode))
				case fromPath || core.IsNil(info, rhs):
					r.OK(key, p.Pos(pos), "names parsed from this template")
				default:
					r.Unknown(key, p.Pos(pos), "cannot tell where "+core.ExprStr(rhs)+" comes from")
				}
			}
			ast.Inspect(d.Body, func(nd ast.Node) bool {
				switch x := nd.(type) {
				case *ast.AssignStmt:
					for i, l := range x.Lhs {
						if sel, ok := ast.Unparen(l).(*ast.SelectorExpr); ok && sel.Sel.Name == "VariableNames" && i < len(x.Rhs) {
							check(x.Pos(), x.Rhs[i])
						}
					}
				case *ast.CompositeLit:
					for _, el := range x.Elts {
						if kv, ok := el.(*ast.KeyValueExpr); ok {
							if id, ok := kv.Key.(*ast.Ident); ok && id.Name == "VariableNames" {
								check(kv.Pos(), kv.Value)
							}
						}
					}
				}
				return true
			})
		}
		if n == 0 {
			core.Fail("no store into VariableNames found in pathpattern")
		}
	})
}
