package rules

import (
	"go/types"
	"sort"
	"strings"

	"golang.org/x/tools/go/ssa"

	"verif/internal/core"
)

// trafficEntries resolves E_traffic: the functions a server calls per request/response against a
// loaded, validated document. Registration/builder APIs that panic by contract are not entries.
func trafficEntries(p *core.Prog, wide bool) []*ssa.Function {
	var out []*ssa.Function
	add := func(rel, name string) {
		out = append(out, p.SSAFuncOf(rel, name))
	}
	add("routers/gorillamux", "Router.FindRoute")
	add("routers/legacy", "Router.FindRoute")
	add("routers/legacy", "Routers.FindRoute")
	add("openapi3filter", "ValidateRequest")
	add("openapi3filter", "ValidateParameter")
	add("openapi3filter", "ValidateRequestBody")
	add("openapi3filter", "ValidateSecurityRequirements")
	add("openapi3filter", "ValidateResponse")
	add("openapi3filter", "ValidationHandler.ServeHTTP")
	add("openapi3filter", "ConvertErrors")
	add("openapi3filter", "DefaultErrorEncoder")
	mw := p.SSAFuncOf("openapi3filter", "Validator.Middleware")
	out = append(out, mw.AnonFuncs...)
	vh := p.SSAFuncOf("openapi3filter", "ValidationHandler.Middleware")
	out = append(out, vh.AnonFuncs...)
	// schema visiting API
	schemaT := p.NamedType("openapi3", "Schema")
	ms := p.SSA.MethodSets.MethodSet(types.NewPointer(schemaT))
	for i := 0; i < ms.Len(); i++ {
		fn := p.SSA.MethodValue(ms.At(i))
		if fn == nil || fn.Blocks == nil {
			continue
		}
		if strings.HasPrefix(fn.Name(), "VisitJSON") || strings.HasPrefix(fn.Name(), "IsMatching") {
			out = append(out, fn)
		}
	}
	// Error() methods of the repo's error types (the caller prints what it gets back)
	for _, fn := range p.RepoSSAFuncs() {
		if fn.Name() == "Error" && fn.Signature.Recv() != nil && fn.Signature.Params().Len() == 0 && fn.Synthetic == "" {
			rel := ""
			if fn.Package() != nil {
				rel = core.RelPkg(fn.Package().Pkg)
			}
			if rel == "openapi3" || rel == "openapi3filter" || rel == "routers" {
				out = append(out, fn)
			}
		}
	}
	if wide {
		// every exported function of openapi3filter and the routers that takes a request/response/value
		for _, fn := range p.RepoSSAFuncs() {
			if fn.Parent() != nil || fn.Synthetic != "" || fn.Object() == nil || !fn.Object().Exported() {
				continue
			}
			rel := ""
			if fn.Package() != nil {
				rel = core.RelPkg(fn.Package().Pkg)
			}
			if rel != "openapi3filter" {
				continue
			}
			if rv := fn.Signature.Recv(); rv != nil {
				// methods of unexported types cannot be called by a user
				if n := core.NamedOf(rv.Type()); n == nil || !n.Obj().Exported() {
					continue
				}
			}
			n := fn.Name()
			if strings.HasPrefix(n, "Register") || strings.HasPrefix(n, "Unregister") || strings.HasPrefix(n, "New") || strings.HasPrefix(n, "Must") {
				continue
			}
			if strings.HasSuffix(n, "BodyDecoder") || strings.HasPrefix(n, "Validate") || strings.HasPrefix(n, "Decode") {
				out = append(out, fn)
			}
		}
	}
	sort.Slice(out, func(i, j int) bool { return out[i].String() < out[j].String() })
	return out
}

// loadEntries resolves E_load: load, resolve, validate, marshal, internalise.
func loadEntries(p *core.Prog) []*ssa.Function {
	var out []*ssa.Function
	for _, n := range []string{"Loader.LoadFromData", "Loader.LoadFromDataWithPath", "Loader.LoadFromFile", "Loader.LoadFromURI", "Loader.LoadFromIoReader", "Loader.LoadFromStdin", "Loader.ResolveRefsIn", "T.Validate", "T.InternalizeRefs", "T.MarshalJSON", "T.MarshalYAML"} {
		out = append(out, p.SSAFuncOf("openapi3", n))
	}
	for _, fn := range p.RepoSSAFuncs() {
		if fn.Package() != nil && core.RelPkg(fn.Package().Pkg) == "openapi3" && fn.Synthetic == "" && fn.Parent() == nil {
			if fn.Name() == "MarshalJSON" || fn.Name() == "MarshalYAML" || fn.Name() == "UnmarshalJSON" {
				out = append(out, fn)
			}
		}
	}
	if m := p.SSAPkg("cmd/validate").Func("main"); m != nil {
		out = append(out, m)
	}
	sort.Slice(out, func(i, j int) bool { return out[i].String() < out[j].String() })
	return out
}
