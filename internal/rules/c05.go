package rules

import (
	"fmt"
	"go/ast"
	"go/constant"
	"go/token"
	"go/types"
	"sort"
	"strings"

	"golang.org/x/tools/go/ssa"

	"verif/internal/core"
)

func init() { register("C05", c05) }

var c05Styles = []string{"simple", "label", "matrix", "form", "spaceDelimited", "pipeDelimited", "deepObject"}

// The OpenAPI 3.0 style table (specification, "Style Values" and "Style Examples"), with RFC 6570
// semantics for label without explode (`.a,b,c`, as corrected in 3.0.4/3.1: the 3.0.3 example table
// shows `.a.b.c` for both explode settings). locStyles: which (style, explode) a location allows.
var c05Allowed = map[string][][2]string{
	"path":   {{"simple", "F"}, {"simple", "T"}, {"label", "F"}, {"label", "T"}, {"matrix", "F"}, {"matrix", "T"}},
	"query":  {{"form", "T"}, {"form", "F"}, {"spaceDelimited", "T"}, {"spaceDelimited", "F"}, {"pipeDelimited", "T"}, {"pipeDelimited", "F"}, {"deepObject", "T"}},
	"header": {{"simple", "F"}, {"simple", "T"}},
	"cookie": {{"form", "F"}, {"form", "T"}},
}

// what the specification defines for (location, style, explode, shape): the role constants; a nil
// entry means the combination has no defined serialisation (the decoder may decline it).
type c05Roles struct {
	prefix, item, prop, value string
	multi                     bool // the value is spread over several occurrences of the name (no splitting)
}

func c05Oracle(loc, style string, explode bool, shape string) *c05Roles {
	P := "<param>"
	switch loc {
	case "path":
		pre := map[string]string{"simple": "", "label": ".", "matrix": ";" + P + "="}
		if _, ok := pre[style]; !ok {
			return nil
		}
		switch shape {
		case "primitive":
			return &c05Roles{prefix: pre[style]}
		case "array":
			item := ","
			if explode && style == "label" {
				item = "."
			}
			if explode && style == "matrix" {
				item = ";" + P + "="
			}
			return &c05Roles{prefix: pre[style], item: item}
		case "object":
			if !explode {
				return &c05Roles{prefix: pre[style], prop: ",", value: ","}
			}
			switch style {
			case "simple":
				return &c05Roles{prefix: "", prop: ",", value: "="}
			case "label":
				return &c05Roles{prefix: ".", prop: ".", value: "="}
			case "matrix":
				return &c05Roles{prefix: ";", prop: ";", value: "="}
			}
		}
	case "query":
		switch style {
		case "form":
			switch shape {
			case "primitive":
				return &c05Roles{}
			case "array":
				if explode {
					return &c05Roles{multi: true}
				}
				return &c05Roles{item: ","}
			case "object":
				if explode {
					return &c05Roles{multi: true}
				}
				return &c05Roles{prop: ",", value: ","}
			}
		case "spaceDelimited", "pipeDelimited":
			if shape == "array" && !explode {
				if style == "spaceDelimited" {
					return &c05Roles{item: " "}
				}
				return &c05Roles{item: "|"}
			}
		case "deepObject":
			if shape == "object" && explode {
				return &c05Roles{multi: true}
			}
		}
	case "header":
		if style != "simple" {
			return nil
		}
		switch shape {
		case "primitive":
			return &c05Roles{}
		case "array":
			return &c05Roles{item: ","}
		case "object":
			if explode {
				return &c05Roles{prop: ",", value: "="}
			}
			return &c05Roles{prop: ",", value: ","}
		}
	case "cookie":
		if style != "form" {
			return nil
		}
		switch shape {
		case "primitive":
			return &c05Roles{}
		case "array":
			if explode {
				return &c05Roles{multi: true}
			}
			return &c05Roles{item: ","}
		case "object":
			if explode {
				return &c05Roles{multi: true}
			}
			return &c05Roles{prop: ",", value: ","}
		}
	}
	return nil
}

// ---- abstract evaluation of a decoder method for one (style, explode) cell

type c05Use struct {
	fn   string
	args []string // evaluated constant arguments ("?" unknown)
}

type c05Eval struct {
	info     *types.Info
	style    string
	explode  bool
	smObj    types.Object // the *SerializationMethod parameter
	paramObj types.Object // the parameter-name parameter
	vars     map[types.Object]string
	declined bool
	uses     []c05Use
}

func (ev *c05Eval) str(e ast.Expr) (string, bool) {
	e = ast.Unparen(e)
	if s, ok := strConst(ev.info, e); ok {
		return s, true
	}
	switch x := e.(type) {
	case *ast.Ident:
		o := ev.info.ObjectOf(x)
		if o == ev.paramObj {
			return "<param>", true
		}
		if v, ok := ev.vars[o]; ok && v != "?" {
			return v, true
		}
	case *ast.BinaryExpr:
		if x.Op == token.ADD {
			a, ok1 := ev.str(x.X)
			b, ok2 := ev.str(x.Y)
			if ok1 && ok2 {
				return a + b, true
			}
		}
	case *ast.SelectorExpr:
		if id, ok := ast.Unparen(x.X).(*ast.Ident); ok && ev.info.ObjectOf(id) == ev.smObj && x.Sel.Name == "Style" {
			return ev.style, true
		}
	}
	return "", false
}

func (ev *c05Eval) cond(e ast.Expr) (val, known bool) {
	e = ast.Unparen(e)
	switch x := e.(type) {
	case *ast.UnaryExpr:
		if x.Op == token.NOT {
			v, k := ev.cond(x.X)
			return !v, k
		}
	case *ast.BinaryExpr:
		switch x.Op {
		case token.LAND:
			a, ka := ev.cond(x.X)
			b, kb := ev.cond(x.Y)
			if ka && !a || kb && !b {
				return false, true
			}
			return a && b, ka && kb
		case token.LOR:
			a, ka := ev.cond(x.X)
			b, kb := ev.cond(x.Y)
			if ka && a || kb && b {
				return true, true
			}
			return a || b, ka && kb
		case token.EQL, token.NEQ:
			a, ok1 := ev.str(x.X)
			b, ok2 := ev.str(x.Y)
			if ok1 && ok2 {
				return (a == b) == (x.Op == token.EQL), true
			}
		}
	case *ast.SelectorExpr:
		if id, ok := ast.Unparen(x.X).(*ast.Ident); ok && ev.info.ObjectOf(id) == ev.smObj && x.Sel.Name == "Explode" {
			return ev.explode, true
		}
	}
	return false, false
}

func (ev *c05Eval) record(n ast.Node) {
	ast.Inspect(n, func(m ast.Node) bool {
		switch x := m.(type) {
		case *ast.FuncLit:
			return false
		case *ast.CallExpr:
			callee := core.CalleeOf(ev.info, x)
			if callee == nil {
				return true
			}
			name := callee.Name()
			switch name {
			case "cutPrefix", "Split", "propsFromString":
				u := c05Use{fn: name}
				for _, a := range x.Args[1:] {
					if s, ok := ev.str(a); ok {
						u.args = append(u.args, s)
					} else {
						u.args = append(u.args, "?")
					}
				}
				ev.uses = append(ev.uses, u)
			case "invalidSerializationMethodErr":
				// handled at the return
			}
		}
		return true
	})
}

// walk evaluates statements in order; returns true when control definitely left the function.
func (ev *c05Eval) walk(list []ast.Stmt, definite bool) bool {
	for _, st := range list {
		switch s := st.(type) {
		case *ast.DeclStmt:
			if gd, ok := s.Decl.(*ast.GenDecl); ok {
				for _, sp := range gd.Specs {
					if vs, ok := sp.(*ast.ValueSpec); ok {
						for i, nm := range vs.Names {
							o := ev.info.Defs[nm]
							if b, ok := o.Type().Underlying().(*types.Basic); ok && b.Kind() == types.String {
								ev.vars[o] = ""
								if i < len(vs.Values) {
									if v, ok := ev.str(vs.Values[i]); ok {
										ev.vars[o] = v
									} else {
										ev.vars[o] = "?"
									}
								}
							}
						}
					}
				}
			}
		case *ast.AssignStmt:
			ev.record(s)
			for i, l := range s.Lhs {
				id, ok := l.(*ast.Ident)
				if !ok || i >= len(s.Rhs) {
					continue
				}
				o := ev.info.ObjectOf(id)
				if o == nil {
					continue
				}
				if fl, ok := ast.Unparen(s.Rhs[i]).(*ast.FuncLit); ok {
					// a closure selected for this cell: evaluate its body too (its returns are its own)
					sub := *ev
					sub.walk(fl.Body.List, false)
					ev.uses = sub.uses
					ev.declined = ev.declined || sub.declined
					continue
				}
				if b, ok := o.Type().Underlying().(*types.Basic); ok && b.Kind() == types.String {
					if v, ok := ev.str(s.Rhs[i]); ok {
						if definite {
							ev.vars[o] = v
						} else if old, had := ev.vars[o]; had && old != v {
							ev.vars[o] = "?"
						} else {
							ev.vars[o] = v
						}
					} else {
						ev.vars[o] = "?"
					}
				}
			}
		case *ast.IfStmt:
			if s.Init != nil {
				ev.walk([]ast.Stmt{s.Init}, definite)
			}
			v, known := ev.cond(s.Cond)
			if known {
				if v {
					if ev.walk(s.Body.List, definite) {
						return true
					}
				} else if s.Else != nil {
					if ev.walk(elseList(s.Else), definite) {
						return true
					}
				}
			} else {
				ev.record(s.Cond)
				ev.walkData(s.Body.List)
				if s.Else != nil {
					ev.walkData(elseList(s.Else))
				}
			}
		case *ast.SwitchStmt:
			if s.Init != nil {
				ev.walk([]ast.Stmt{s.Init}, definite)
			}
			var chosen *ast.CaseClause
			var deflt *ast.CaseClause
			unknown := false
			for _, c := range s.Body.List {
				cc := c.(*ast.CaseClause)
				if cc.List == nil {
					deflt = cc
					continue
				}
				for _, e := range cc.List {
					var v, k bool
					if s.Tag != nil {
						a, ok1 := ev.str(s.Tag)
						b, ok2 := ev.str(e)
						v, k = a == b, ok1 && ok2
					} else {
						v, k = ev.cond(e)
					}
					if !k {
						unknown = true
					} else if v && chosen == nil && !unknown {
						chosen = cc
					}
				}
				if chosen != nil {
					break
				}
			}
			if unknown && chosen == nil {
				for _, c := range s.Body.List {
					ev.walkData(c.(*ast.CaseClause).Body)
				}
			} else {
				if chosen == nil {
					chosen = deflt
				}
				if chosen != nil {
					if ev.walk(chosen.Body, definite) {
						return true
					}
				}
			}
		case *ast.ReturnStmt:
			ev.record(s)
			bad := false
			ast.Inspect(s, func(m ast.Node) bool {
				if c, ok := m.(*ast.CallExpr); ok {
					if callee := core.CalleeOf(ev.info, c); callee != nil && callee.Name() == "invalidSerializationMethodErr" {
						bad = true
					}
				}
				return true
			})
			if definite {
				if bad {
					ev.declined = true
				}
				return true
			}
			// data-dependent exit: a decline here is not decided by the cell
		case *ast.BlockStmt:
			if ev.walk(s.List, definite) {
				return true
			}
		case *ast.ForStmt:
			ev.walkData(s.Body.List)
		case *ast.RangeStmt:
			ev.record(s.X)
			ev.walkData(s.Body.List)
		default:
			ev.record(st)
		}
	}
	return false
}

// walkData: statements under a data-dependent condition (both outcomes possible): evaluated for the
// constants they use, never terminating the method for the cell.
func (ev *c05Eval) walkData(list []ast.Stmt) {
	ev.walk(list, false)
}

func elseList(e ast.Stmt) []ast.Stmt {
	if b, ok := e.(*ast.BlockStmt); ok {
		return b.List
	}
	return []ast.Stmt{e}
}

func c05(r *core.Report) {
	p := r.Prog
	r.Assumption("claim: the finite tables agree — the styles the document validator accepts per location, the cells each location's decoder handles, the prefix / delimiter constants it uses in each cell, and the location defaults — with the OpenAPI 3.0 style table (RFC 6570 reading of label without explode); that decoding inverts serialisation for every value (delimiters inside values, element counts, deepObject assembly, primitive parsing), presence/emptiness classification and the schema verdict are not decided")
	c05Table(r)
	c05Single(r)
	c05DeepObject(r)
	c05Narrow(r)
	c05Text(r)
	c05ArraySize(r)
	c05Found(r)
	c05NumKinds(r)
	c05Joined(r)
	c05NoTrim(r)
	_ = p
}

// c05Found: presence of an object parameter is judged on what was decoded.
func c05Found(r *core.Report) {
	p := r.Prog
	info := p.Pkg("openapi3filter").TypesInfo
	r.RunRule("C05.found", "an object parameter that decoded to something is present: urlValuesDecoder.DecodeObject sets its `found` result also under `len(<decoded object>) != 0`, not only when a declared property name occurs among the keys — an object schema with additionalProperties only has no declared property, and its required parameter would be reported missing while its value is there", 1, func() {
		fd := p.DeclOf("openapi3filter", "urlValuesDecoder.DecodeObject")
		good := false
		ast.Inspect(fd.Body, func(nd ast.Node) bool {
			as, ok := nd.(*ast.AssignStmt)
			if !ok || len(as.Lhs) != 1 || len(as.Rhs) != 1 || core.ExprStr(as.Lhs[0]) != "found" || core.ExprStr(as.Rhs[0]) != "true" {
				return true
			}
			atoms := core.Atoms(core.GuardsAt(info, fd.Body, as))
			// the innermost condition is the emptiness test of the decoded map, and no loop over the
			// declared properties encloses the assignment
			if path := core.PathTo(fd.Body, as); path != nil {
				inLoop := false
				var inner *ast.IfStmt
				for _, n := range path {
					switch x := n.(type) {
					case *ast.RangeStmt, *ast.ForStmt:
						inLoop = true
					case *ast.IfStmt:
						inner = x
					}
				}
				if !inLoop && inner != nil {
					if be, ok := ast.Unparen(inner.Cond).(*ast.BinaryExpr); ok && (be.Op == token.NEQ || be.Op == token.GTR) && core.ExprStr(be.Y) == "0" {
						if c, ok := ast.Unparen(be.X).(*ast.CallExpr); ok && len(c.Args) == 1 && core.ExprStr(c.Fun) == "len" {
							if _, isMap := info.TypeOf(c.Args[0]).Underlying().(*types.Map); isMap {
								good = true
							}
						}
					}
				}
			}
			_ = atoms
			return true
		})
		r.Check(good, "found:decoded-object", p.Pos(fd.Pos()), "found is set when the decoded object is not empty", "urlValuesDecoder.DecodeObject reports the parameter as found only when one of the schema's declared properties occurs: an object decoded through additionalProperties alone is returned with found=false, and a required parameter that is present is rejected as missing")
	})
}

// c05ArraySize: a deepObject array has as many items as its highest index says.
func c05ArraySize(r *core.Report) {
	p := r.Prog
	info := p.Pkg("openapi3filter").TypesInfo
	r.RunRule("C05.arraysize", "the length of a decoded deepObject array is the highest index plus one: in sliceMapToSlice the variable that bounds the loop building the result is, inside loops, assigned only under a comparison of the assigned index with the variable itself (a running maximum over the parsed integer indexes) — taking the last key of an ordering instead (keys sorted as text put \"9\" after \"10\") cuts arrays of more than ten items; and a negative index is an error, not dropped", 2, func() {
		fd := p.DeclOf("openapi3filter", "sliceMapToSlice")
		var bound types.Object
		ast.Inspect(fd.Body, func(nd ast.Node) bool {
			fs, ok := nd.(*ast.ForStmt)
			if !ok || fs.Cond == nil {
				return true
			}
			if be, ok := ast.Unparen(fs.Cond).(*ast.BinaryExpr); ok && (be.Op == token.LEQ || be.Op == token.LSS) {
				if id, ok := ast.Unparen(be.Y).(*ast.Ident); ok {
					bound = info.ObjectOf(id)
				}
			}
			return true
		})
		if bound == nil {
			core.Fail("sliceMapToSlice: no counting loop bounded by a variable")
		}
		k := 0
		var inLoop func(n ast.Node, depth int)
		inLoop = func(n ast.Node, depth int) {
			ast.Inspect(n, func(nd ast.Node) bool {
				switch x := nd.(type) {
				case *ast.RangeStmt:
					inLoop(x.Body, depth+1)
					return false
				case *ast.ForStmt:
					inLoop(x.Body, depth+1)
					return false
				case *ast.AssignStmt:
					if depth == 0 || len(x.Lhs) != 1 || len(x.Rhs) != 1 {
						return true
					}
					lid, ok := ast.Unparen(x.Lhs[0]).(*ast.Ident)
					if !ok || info.ObjectOf(lid) != bound {
						return true
					}
					k++
					key := fmt.Sprintf("arraysize:max#%d", k)
					good := false
					rhs := core.ExprStr(x.Rhs[0])
					for _, a := range core.Atoms(core.GuardsAt(info, fd.Body, x)) {
						be, ok := ast.Unparen(a.Expr).(*ast.BinaryExpr)
						if !ok || !a.Pos {
							continue
						}
						l, rr := core.ExprStr(be.X), core.ExprStr(be.Y)
						if (be.Op == token.GTR && l == rhs && rr == lid.Name) || (be.Op == token.LSS && l == lid.Name && rr == rhs) {
							good = true
						}
					}
					r.Check(good, key, p.Pos(x.Pos()), "assigned under `index > max`", "the variable that sizes the decoded array ("+lid.Name+") is assigned "+rhs+" in a loop without comparing the two: it ends up as whichever index the loop saw last, not the highest one, and every item above it is dropped from the array")
				}
				return true
			})
		}
		inLoop(fd.Body, 0)
		if k == 0 {
			core.Fail("sliceMapToSlice: the bound variable is never assigned in a loop")
		}
		// negative indexes are rejected
		neg := false
		ast.Inspect(fd.Body, func(nd ast.Node) bool {
			ifs, ok := nd.(*ast.IfStmt)
			if !ok {
				return true
			}
			if be, ok := ast.Unparen(ifs.Cond).(*ast.BinaryExpr); ok && be.Op == token.LSS {
				if z, isConst := core.ConstStr(info, be.Y); (isConst && z == "0") || core.ExprStr(be.Y) == "0" {
					if core.Terminates(info, ifs.Body.List) {
						neg = true
					}
				}
			}
			return true
		})
		r.Check(neg, "arraysize:negative", p.Pos(fd.Pos()), "a negative index is an error", "sliceMapToSlice accepts a negative index and then leaves it out: `p[ids][-1]=7` validates as if it had not been sent")
	})
}

func c05Table(r *core.Report) {
	p := r.Prog
	info3 := p.Pkg("openapi3").TypesInfo
	infoF := p.Pkg("openapi3filter").TypesInfo

	r.RunRule("C05.validator", "the (location, style, explode) combinations Parameter.Validate accepts are exactly those of the specification's style table: each disjunct of its serialization-method switch is read as a cell, and the set is compared with the frozen table (17 cells)", 17, func() {
		fd := p.DeclOf("openapi3", "Parameter.Validate")
		consts := map[string]string{"ParameterInPath": "path", "ParameterInQuery": "query", "ParameterInHeader": "header", "ParameterInCookie": "cookie"}
		got := map[string]bool{}
		ast.Inspect(fd.Body, func(n ast.Node) bool {
			cc, ok := n.(*ast.CaseClause)
			if !ok {
				return true
			}
			for _, e := range cc.List {
				loc, style, expl := "", "", ""
				for _, a := range core.Atoms([]core.Guard{{Cond: e, Pos: true}}) {
					switch x := ast.Unparen(a.Expr).(type) {
					case *ast.BinaryExpr:
						if x.Op != token.EQL || !a.Pos {
							continue
						}
						if sel, ok := ast.Unparen(x.X).(*ast.SelectorExpr); ok {
							if sel.Sel.Name == "In" {
								if id, ok := ast.Unparen(x.Y).(*ast.Ident); ok {
									loc = consts[id.Name]
								}
							}
							if sel.Sel.Name == "Style" {
								if s, ok := strConst(info3, x.Y); ok {
									style = s
								}
							}
						}
					case *ast.SelectorExpr:
						if x.Sel.Name == "Explode" {
							if a.Pos {
								expl = "T"
							} else {
								expl = "F"
							}
						}
					}
				}
				if loc != "" && style != "" && expl != "" {
					got[loc+"/"+style+"/"+expl] = true
				}
			}
			return true
		})
		want := map[string]bool{}
		for loc, cells := range c05Allowed {
			for _, c := range cells {
				want[loc+"/"+c[0]+"/"+c[1]] = true
			}
		}
		var keys []string
		for k := range want {
			keys = append(keys, k)
		}
		for k := range got {
			if !want[k] {
				keys = append(keys, k)
			}
		}
		sort.Strings(keys)
		for _, k := range keys {
			switch {
			case want[k] && got[k]:
				r.OK("validator:"+k, p.Pos(fd.Pos()), "accepted, as in the specification")
			case want[k]:
				r.Bad("validator:"+k, p.Pos(fd.Pos()), "the specification allows this combination but Parameter.Validate rejects it: a conforming document is refused")
			default:
				r.Bad("validator:"+k, p.Pos(fd.Pos()), "Parameter.Validate accepts a combination the specification does not define: documents that no decoder can serve pass validation")
			}
		}
	})

	r.RunRule("C05.defaults", "the default serialization method is the specification's: style simple for path and header, form for query and cookie; explode true for form (and deepObject, which is only defined exploded), false for every other style — evaluated for each style a location allows", 4, func() {
		fd := p.DeclOf("openapi3", "Parameter.SerializationMethod")
		want := map[string][2]string{"ParameterInPath": {"simple", "false"}, "ParameterInHeader": {"simple", "false"}, "ParameterInQuery": {"form", "true"}, "ParameterInCookie": {"form", "true"}}
		ast.Inspect(fd.Body, func(n ast.Node) bool {
			cc, ok := n.(*ast.CaseClause)
			if !ok || cc.List == nil {
				return true
			}
			style, expl := "", ""
			var explExpr ast.Expr
			for _, st := range cc.Body {
				switch s := st.(type) {
				case *ast.IfStmt:
					// if style == "" { style = X }
					if len(s.Body.List) == 1 {
						if as, ok := s.Body.List[0].(*ast.AssignStmt); ok && len(as.Rhs) == 1 {
							if v, ok := strConst(info3, as.Rhs[0]); ok && core.ExprStr(s.Cond) == `style == ""` {
								style = v
							}
						}
					}
				case *ast.AssignStmt:
					if len(s.Lhs) == 1 && len(s.Rhs) == 1 && core.ExprStr(s.Lhs[0]) == "explode" {
						expl = core.ExprStr(s.Rhs[0])
						explExpr = s.Rhs[0]
					}
				}
			}
			for _, e := range cc.List {
				id, ok := ast.Unparen(e).(*ast.Ident)
				if !ok {
					continue
				}
				w, ok := want[id.Name]
				if !ok {
					continue
				}
				r.Check(style == w[0], "default:"+id.Name, p.Pos(cc.Pos()), "default style "+w[0], fmt.Sprintf("the default style for %s is %s, the specification says %s: parameters that do not spell out style are decoded with the wrong rules", id.Name, style, w[0]))
				// explode: "when style is form, the default value is true; for all other styles false"
				// (deepObject is only defined exploded, so true is accepted for it) -- evaluated for
				// every style the location allows
				loc := strings.ToLower(strings.TrimPrefix(id.Name, "ParameterIn"))
				seenStyle := map[string]bool{}
				for _, cell := range c05Allowed[loc] {
					st := cell[0]
					if seenStyle[st] {
						continue
					}
					seenStyle[st] = true
					got, ok := c05EvalExplodeDefault(info3, explExpr, st)
					key := "default-explode:" + id.Name + "/" + st
					switch {
					case !ok:
						r.Unknown(key, p.Pos(cc.Pos()), "cannot evaluate the default of explode: "+expl)
					case st == "form" && !got, st != "form" && st != "deepObject" && got, st == "deepObject" && !got:
						r.Bad(key, p.Pos(cc.Pos()), fmt.Sprintf("a %s parameter with style %s and no explicit explode is decoded with explode=%v: the specification's default is true for form and false for every other style (deepObject is only defined exploded), so `x=1|2|3` for a pipeDelimited array is a parse error instead of [1,2,3]", loc, st, got))
					default:
						r.OK(key, p.Pos(cc.Pos()), fmt.Sprintf("explode defaults to %v", got))
					}
				}
			}
			return true
		})
	})

	decoders := map[string]string{"path": "pathParamDecoder", "query": "urlValuesDecoder", "header": "headerParamDecoder", "cookie": "cookieParamDecoder"}
	shapes := map[string]string{"primitive": "DecodePrimitive", "array": "DecodeArray", "object": "DecodeObject"}
	r.RunRule("C05.table", "for every cell the specification defines — location x style x explode allowed for the location, x shape (primitive, array, object) with a defined serialisation — the location's decoder method, evaluated abstractly on the cell (conditions on sm.Style / sm.Explode decided, data-dependent conditions explored on both sides), does not take its invalidSerializationMethodErr exit, and the constants that reach cutPrefix (prefix), strings.Split (item delimiter) and propsFromString (pair delimiter, key/value delimiter) are the specification's; for cells a location does not allow the decoder is not required to do anything", 51, func() {
		for _, loc := range []string{"path", "query", "header", "cookie"} {
			for _, shape := range []string{"primitive", "array", "object"} {
				fd := p.DeclOf("openapi3filter", decoders[loc]+"."+shapes[shape])
				if fd == nil {
					r.Bad("table:"+loc+"/"+shape, "-", "decoder method not found")
					continue
				}
				var smObj, paramObj types.Object
				for _, fl := range fd.Type.Params.List {
					for _, nm := range fl.Names {
						o := infoF.Defs[nm]
						if core.NamedOf(o.Type()) != nil && core.NamedOf(o.Type()).Obj().Name() == "SerializationMethod" {
							smObj = o
						}
						if b, ok := o.Type().Underlying().(*types.Basic); ok && b.Kind() == types.String && paramObj == nil {
							paramObj = o
						}
					}
				}
				for _, cell := range c05Allowed[loc] {
					style, explode := cell[0], cell[1] == "T"
					want := c05Oracle(loc, style, explode, shape)
					key := fmt.Sprintf("table:%s/%s/explode=%v/%s", loc, style, explode, shape)
					ev := &c05Eval{info: infoF, style: style, explode: explode, smObj: smObj, paramObj: paramObj, vars: map[types.Object]string{}}
					ev.walk(fd.Body.List, true)
					pos := p.Pos(fd.Pos())
					if want == nil {
						r.Trivial(key, pos, "no serialisation is defined for this shape in this cell")
						continue
					}
					if ev.declined {
						r.Bad(key, pos, fmt.Sprintf("%s.%s declines (invalid serialization method) a combination the specification defines and Parameter.Validate accepts: every request carrying such a parameter is rejected", decoders[loc], shapes[shape]))
						continue
					}
					var problems []string
					find := func(fn string) *c05Use {
						var last *c05Use
						for i := range ev.uses {
							if ev.uses[i].fn == fn {
								last = &ev.uses[i]
							}
						}
						return last
					}
					if loc == "path" {
						u := find("cutPrefix")
						if u == nil || len(u.args) != 1 {
							problems = append(problems, "no cutPrefix call")
						} else if u.args[0] != want.prefix {
							problems = append(problems, fmt.Sprintf("prefix %q, specification %q", u.args[0], want.prefix))
						}
					}
					if want.item != "" {
						u := find("Split")
						if u == nil || len(u.args) != 1 {
							problems = append(problems, "the value is not split into items")
						} else if u.args[0] != want.item {
							problems = append(problems, fmt.Sprintf("item delimiter %q, specification %q", u.args[0], want.item))
						}
					}
					if want.prop != "" {
						u := find("propsFromString")
						if u == nil || len(u.args) != 2 {
							problems = append(problems, "the value is not split into properties")
						} else if u.args[0] != want.prop || u.args[1] != want.value {
							problems = append(problems, fmt.Sprintf("pair/value delimiters %q %q, specification %q %q", u.args[0], u.args[1], want.prop, want.value))
						}
					}
					if want.multi {
						// exploded form: no splitting of a single occurrence with a constant delimiter
						if u := find("Split"); u != nil && shape == "array" && len(u.args) == 1 && u.args[0] != "?" {
							problems = append(problems, fmt.Sprintf("an exploded value is split on %q", u.args[0]))
						}
					}
					if len(problems) == 0 {
						r.OK(key, pos, "handled with the specification's constants")
					} else {
						r.Bad(key, pos, strings.Join(problems, "; ")+": a value serialised by the specification's rules is not decoded back")
					}
				}
			}
		}
	})
}

// c05SingleExempt: one symbol, one reason.
var c05SingleExempt = map[string]string{
	"convertSchemaError": "renders the 'perhaps you intended ?name=a&name=b' hint of an error message after the verdict is known; no decoding or validation decision depends on it",
}

// c05Single: style/explode are read through SerializationMethod only.
func c05Single(r *core.Report) {
	p := r.Prog
	r.RunRule("C05.single", "one source of truth for style and explode: outside package openapi3 (document model, its codecs and validators) the fields Parameter.Style / Parameter.Explode (and Header's, through embedding) are never read directly — the effective method, with the location defaults, comes from SerializationMethod(); a direct read sees the zero value where the default applies", 1, func() {
		n := 0
		for _, rel := range []string{"openapi3filter", "routers/gorillamux", "routers/legacy", "openapi3gen"} {
			pk := p.PkgOpt(rel)
			if pk == nil {
				continue
			}
			info := pk.TypesInfo
			for _, d := range p.AllDecls(rel) {
				perFn := 0
				ast.Inspect(d.Body, func(nd ast.Node) bool {
					sel, ok := nd.(*ast.SelectorExpr)
					if !ok {
						return true
					}
					f := core.FieldSel(info, sel)
					if f == nil || (f.Name() != "Style" && f.Name() != "Explode") || f.Pkg() == nil || core.RelPkg(f.Pkg()) != "openapi3" {
						return true
					}
					// owner: Parameter (or Encoding/Header)
					owner := ""
					if s, ok := info.Selections[sel]; ok {
						if nn := core.NamedOf(s.Recv()); nn != nil {
							owner = nn.Obj().Name()
						}
					}
					if owner == "SerializationMethod" {
						return true
					}
					n++
					perFn++
					key := fmt.Sprintf("single:%s/%s.%s#%d", core.FuncName(d), owner, f.Name(), perFn)
					if why, ok := c05SingleExempt[core.FuncName(d)]; ok {
						r.OK(key, p.Pos(sel.Pos()), why)
						return true
					}
					// writes (building a parameter) are fine
					isWrite := false
					path := core.PathTo(d.Body, sel)
					if len(path) >= 2 {
						if as, ok := path[len(path)-2].(*ast.AssignStmt); ok {
							for _, l := range as.Lhs {
								if ast.Unparen(l) == ast.Expr(sel) {
									isWrite = true
								}
							}
						}
					}
					if isWrite {
						r.Trivial(key, p.Pos(sel.Pos()), "write")
						return true
					}
					r.Bad(key, p.Pos(sel.Pos()), fmt.Sprintf("%s reads %s.%s directly instead of SerializationMethod(): where the document leaves it out the location default (query/cookie: form, explode=true) is not applied, so the value is handled in another serialisation than the decoder expects", core.FuncName(d), owner, f.Name()))
					return true
				})
			}
		}
		if n == 0 {
			r.Trivial("single:none", "-", "no direct read of Style/Explode outside package openapi3")
		}
	})
}

// c05DeepObject: which query keys belong to a deepObject parameter.
func c05DeepObject(r *core.Report) {
	p := r.Prog
	info := p.Pkg("openapi3filter").TypesInfo
	r.RunRule("C05.deepobject", "a deepObject parameter owns exactly the query keys `name[...]`: in urlValuesDecoder.DecodeObject's deepObject branch the test that lets a key through (the condition of the `continue` that skips foreign keys) anchors on the parameter name immediately followed by `[` — as an anchored regular expression `^<quoted name>\\[` or as a prefix test on name+\"[\"; a test on the bare name also captures the keys of every parameter whose name merely starts with this one", 1, func() {
		fd := p.DeclOf("openapi3filter", "urlValuesDecoder.DecodeObject")
		var paramObj types.Object
		for _, fl := range fd.Type.Params.List {
			for _, nm := range fl.Names {
				o := info.Defs[nm]
				if b, ok := o.Type().Underlying().(*types.Basic); ok && b.Kind() == types.String && paramObj == nil {
					paramObj = o
				}
			}
		}
		ev := &c05Eval{info: info, paramObj: paramObj, vars: map[types.Object]string{}}
		// the deepObject case clause
		var clause *ast.CaseClause
		ast.Inspect(fd.Body, func(n ast.Node) bool {
			if cc, ok := n.(*ast.CaseClause); ok {
				for _, e := range cc.List {
					if s, ok := strConst(info, e); ok && s == "deepObject" {
						clause = cc
					}
				}
			}
			return true
		})
		if clause == nil {
			core.Fail("deepObject case not found")
		}
		// prefix a key must have to pass: from `if !TEST { continue }` inside the range over the query
		var prefixes []string
		n := 0
		var evalTest func(e ast.Expr) (string, bool)
		evalTest = func(e ast.Expr) (string, bool) {
			c, ok := ast.Unparen(e).(*ast.CallExpr)
			if !ok {
				return "", false
			}
			callee := core.CalleeOf(info, c)
			if callee == nil {
				return "", false
			}
			switch {
			case callee.Name() == "HasPrefix" && len(c.Args) == 2:
				return ev.str(c.Args[1])
			case callee.Name() == "MatchString" && len(c.Args) == 1:
				sel, ok := c.Fun.(*ast.SelectorExpr)
				if !ok {
					return "", false
				}
				recv := ast.Unparen(sel.X)
				if id, ok := recv.(*ast.Ident); ok {
					if gv, ok := info.ObjectOf(id).(*types.Var); ok {
						if init := p.GlobalInit(gv); init != nil {
							recv = ast.Unparen(init)
						}
					}
				}
				mc, ok := recv.(*ast.CallExpr)
				if !ok || len(mc.Args) != 1 {
					return "", false
				}
				pat, ok := c05Pattern(ev, mc.Args[0])
				if !ok || !strings.HasPrefix(pat, "^") {
					return "", false
				}
				// literal prefix of the pattern
				out := ""
				rest := pat[1:]
				for i := 0; i < len(rest); i++ {
					ch := rest[i]
					if ch == '\\' && i+1 < len(rest) {
						out += string(rest[i+1])
						i++
						continue
					}
					if strings.ContainsRune(".*+?()[]{}|$", rune(ch)) {
						break
					}
					out += string(ch)
				}
				return out, true
			}
			return "", false
		}
		for _, st := range clause.Body {
			ast.Inspect(st, func(m ast.Node) bool {
				ifs, ok := m.(*ast.IfStmt)
				if !ok || len(ifs.Body.List) != 1 {
					return true
				}
				br, ok := ifs.Body.List[0].(*ast.BranchStmt)
				if !ok || br.Tok != token.CONTINUE {
					return true
				}
				un, ok := ast.Unparen(ifs.Cond).(*ast.UnaryExpr)
				if !ok || un.Op != token.NOT {
					return true
				}
				if pre, ok := evalTest(un.X); ok {
					n++
					prefixes = append(prefixes, pre)
				}
				return true
			})
		}
		if n == 0 {
			r.Unknown("deepobject:key-filter", p.Pos(clause.Pos()), "no recognisable key filter (`if !match(key) { continue }`) in the deepObject branch")
			return
		}
		okAll := true
		for _, pre := range prefixes {
			if pre != "<param>[" {
				okAll = false
			}
		}
		r.Check(okAll, "deepobject:key-filter", p.Pos(clause.Pos()), "keys are selected by the prefix name+\"[\"", fmt.Sprintf("keys are selected by the prefix %q instead of the parameter name followed by `[`: keys of another parameter whose name starts with this one are taken as properties of this one", strings.Join(prefixes, ", ")))
	})
}

// c05Pattern evaluates a regular-expression source built from constants, the parameter name quoted
// with regexp.QuoteMeta, and fmt.Sprintf with a constant format.
func c05Pattern(ev *c05Eval, e ast.Expr) (string, bool) {
	e = ast.Unparen(e)
	if s, ok := ev.str(e); ok {
		return s, true
	}
	c, ok := e.(*ast.CallExpr)
	if !ok {
		return "", false
	}
	callee := core.CalleeOf(ev.info, c)
	if callee == nil {
		return "", false
	}
	switch callee.Name() {
	case "QuoteMeta":
		if len(c.Args) == 1 {
			return c05Pattern(ev, c.Args[0])
		}
	case "Sprintf":
		if len(c.Args) >= 1 {
			f, ok := ev.str(c.Args[0])
			if !ok {
				return "", false
			}
			out := ""
			ai := 1
			for i := 0; i < len(f); i++ {
				if f[i] == '%' && i+1 < len(f) && (f[i+1] == 's' || f[i+1] == 'v') {
					if ai >= len(c.Args) {
						return "", false
					}
					a, ok := c05Pattern(ev, c.Args[ai])
					if !ok {
						return "", false
					}
					out += a
					ai++
					i++
					continue
				}
				out += string(f[i])
			}
			return out, true
		}
	}
	return "", false
}

// c05Narrow: parsed numbers are not silently wrapped.
func c05Narrow(r *core.Report) {
	p := r.Prog
	p.BuildSSA()
	r.RunRule("C05.narrow", "text that is not a serialisation of the declared type is rejected, not wrapped: every conversion of an integer obtained from strconv.ParseInt/ParseUint to a narrower integer type, in packages openapi3filter and openapi3, is of a value parsed with a bitSize that fits the target type (ParseInt(s, b, 32) before int32(v)); a wider parse followed by a narrowing conversion turns out-of-range input into a different in-range value", 1, func() {
		n := 0
		perFn := map[string]int{}
		width := func(t types.Type) int {
			b, ok := t.Underlying().(*types.Basic)
			if !ok {
				return 0
			}
			switch b.Kind() {
			case types.Int8, types.Uint8:
				return 8
			case types.Int16, types.Uint16:
				return 16
			case types.Int32, types.Uint32:
				return 32
			case types.Int64, types.Uint64:
				return 64
			case types.Int, types.Uint:
				return 32 // the narrowest int the code may be built for (GOARCH=386)
			}
			return 0
		}
		for _, fn := range p.RepoSSAFuncs() {
			rel := ""
			if fn.Pkg != nil {
				rel = core.RelPkg(fn.Pkg.Pkg)
			}
			if rel != "openapi3filter" && rel != "openapi3" {
				continue
			}
			for _, b := range fn.Blocks {
				for _, in := range b.Instrs {
					cv, ok := in.(*ssa.Convert)
					if !ok {
						continue
					}
					wt := width(cv.Type())
					if wt == 0 {
						continue
					}
					ex, ok := cv.X.(*ssa.Extract)
					if !ok || ex.Index != 0 {
						continue
					}
					call, ok := ex.Tuple.(*ssa.Call)
					if !ok {
						continue
					}
					sc := call.Common().StaticCallee()
					if sc == nil || sc.Pkg == nil || sc.Pkg.Pkg.Path() != "strconv" || (sc.Name() != "ParseInt" && sc.Name() != "ParseUint") {
						continue
					}
					n++
					name := shortFn(fn)
					perFn[name]++
					key := fmt.Sprintf("narrow:%s#%d", name, perFn[name])
					bits := 64
					known := false
					if c, ok := call.Common().Args[2].(*ssa.Const); ok && c.Value != nil {
						if v, ok := constant.Int64Val(c.Value); ok {
							bits, known = int(v), true
							if bits == 0 {
								bits = 32 // bitSize 0 means int
							}
						}
					}
					r.Check(known && bits <= wt, key, p.Pos(cv.Pos()), fmt.Sprintf("parsed with bitSize %d, converted to a %d-bit type", bits, wt), fmt.Sprintf("a number parsed with bitSize %d is converted to a %d-bit type: input outside the target range is wrapped instead of being rejected as not a value of the declared type", bits, wt))
				}
			}
		}
		if n == 0 {
			core.Fail("no conversion of a parsed integer found (parsePrimitiveCase's int32 branch expected)")
		}
	})
}

// c05Text: two library calls whose misuse changes the decoded value without any error. ParseFloat
// with bitSize 32 returns the nearest float32 (0.1 becomes 0.10000000149011612); strings.Trim /
// TrimLeft / TrimRight take a SET of characters, so a variable passed as cutset is a prefix or
// suffix mistaken for one (TrimLeft(";id=dave", ";id=") is "ave").
func c05Text(r *core.Report) {
	p := r.Prog
	info := p.Pkg("openapi3filter").TypesInfo
	r.RunRule("C05.text", "the decoded value is the value the text denotes: in the parameter and body decoders of openapi3filter every strconv.ParseFloat uses the constant bit size 64, the integer parser of parameter values uses base 10, and every strings.Trim / TrimLeft / TrimRight is given a constant character set (a computed string there is a prefix or suffix: TrimPrefix / TrimSuffix / slicing is meant)", 1, func() {
		perFn := map[string]int{}
		for _, d := range p.AllDecls("openapi3filter") {
			if d.Body == nil {
				continue
			}
			ast.Inspect(d.Body, func(n ast.Node) bool {
				c, ok := n.(*ast.CallExpr)
				if !ok {
					return true
				}
				f := core.CalleeOf(info, c)
				if f == nil || f.Pkg() == nil {
					return true
				}
				fname := core.FuncName(d)
				switch f.FullName() {
				case "strconv.ParseFloat":
					perFn[fname]++
					key := fmt.Sprintf("text:%s/ParseFloat#%d", fname, perFn[fname])
					if v, ok := intConst(info, c.Args[1]); ok && v == 64 {
						r.OK(key, p.Pos(c.Pos()), "bit size 64")
					} else {
						r.Bad(key, p.Pos(c.Pos()), fmt.Sprintf("strconv.ParseFloat(%s, %s): with a bit size other than 64 the result is rounded to the nearest float32 and is no longer the number written in the request (0.1 -> 0.10000000149011612, 16777217 -> 16777216); bounds, enum and multipleOf are then checked against another value", core.ExprStr(c.Args[0]), core.ExprStr(c.Args[1])))
					}
				case "strconv.ParseInt", "strconv.ParseUint":
					if fname != "parsePrimitiveCase" && fname != "parsePrimitive" {
						return true // indexes and internal numbers, not parameter values
					}
					perFn[fname]++
					key := fmt.Sprintf("text:%s/%s#%d", fname, f.Name(), perFn[fname])
					if v, ok := intConst(info, c.Args[1]); ok && v == 10 {
						r.OK(key, p.Pos(c.Pos()), "base 10")
					} else {
						r.Bad(key, p.Pos(c.Pos()), fmt.Sprintf("strconv.%s(%s, %s, ...): with base 0 the prefix of the text chooses the base, so `010` is 8, `0x1F` is 31 and `1_000` is accepted — a parameter or form field of type integer is a decimal number (a value `010` passes `maximum: 9`)", f.Name(), core.ExprStr(c.Args[0]), core.ExprStr(c.Args[1])))
					}
				case "strings.Trim", "strings.TrimLeft", "strings.TrimRight":
					perFn[fname]++
					key := fmt.Sprintf("text:%s/%s#%d", fname, f.Name(), perFn[fname])
					if _, ok := strConst(info, c.Args[1]); ok {
						r.OK(key, p.Pos(c.Pos()), "constant character set")
					} else {
						r.Bad(key, p.Pos(c.Pos()), fmt.Sprintf("strings.%s(%s, %s): the second argument is a set of characters, not a prefix/suffix: every leading (trailing) character of the value that occurs anywhere in %s is removed too (`;id=dave` with prefix `;id=` decodes to `ave`)", f.Name(), core.ExprStr(c.Args[0]), core.ExprStr(c.Args[1]), core.ExprStr(c.Args[1])))
					}
				}
				return true
			})
		}
	})
}

// c05EvalExplodeDefault evaluates the initial value of `explode` for a style: a boolean constant,
// or a combination (||, &&, !, parentheses) of comparisons of the style variable with constants.
func c05EvalExplodeDefault(info *types.Info, e ast.Expr, style string) (bool, bool) {
	if e == nil {
		return false, false
	}
	if v, ok := constBool(info, e); ok {
		return v, true
	}
	switch x := ast.Unparen(e).(type) {
	case *ast.UnaryExpr:
		if x.Op == token.NOT {
			v, ok := c05EvalExplodeDefault(info, x.X, style)
			return !v, ok
		}
	case *ast.BinaryExpr:
		switch x.Op {
		case token.LOR, token.LAND:
			a, ok1 := c05EvalExplodeDefault(info, x.X, style)
			b, ok2 := c05EvalExplodeDefault(info, x.Y, style)
			if !ok1 || !ok2 {
				return false, false
			}
			if x.Op == token.LOR {
				return a || b, true
			}
			return a && b, true
		case token.EQL, token.NEQ:
			for _, pair := range [][2]ast.Expr{{x.X, x.Y}, {x.Y, x.X}} {
				if c, ok := strConst(info, pair[1]); ok {
					if _, isConst := strConst(info, pair[0]); !isConst {
						eq := c == style
						if x.Op == token.NEQ {
							eq = !eq
						}
						return eq, true
					}
				}
			}
		}
	}
	return false, false
}
