package rules

import (
	"fmt"
	"go/ast"
	"go/token"
	"go/types"
	"sort"
	"strings"

	"verif/internal/core"
)

func init() { register("C01", c01) }

// visitor describes one per-type visitor and the keywords (JSON names) it must check.
type visitorSpec struct {
	fn       string
	keywords []string
}

// The keyword -> visitor assignment is the JSON-Schema draft-4 one (oracle independent of the repo).
var c01Visitors = []visitorSpec{
	{"Schema.visitJSONNumber", []string{"type", "format", "exclusiveMinimum", "exclusiveMaximum", "minimum", "maximum", "multipleOf"}},
	{"Schema.visitJSONString", []string{"type", "minLength", "maxLength", "pattern", "format"}},
	{"Schema.visitJSONArray", []string{"type", "minItems", "maxItems", "uniqueItems", "items"}},
	{"Schema.visitJSONObject", []string{"type", "minProperties", "maxProperties", "properties", "additionalProperties", "required"}},
	{"Schema.visitJSONBoolean", []string{"type"}},
	{"Schema.visitJSONNull", []string{"nullable"}},
}

// bound keyword oracle: the value is INVALID exactly when `value-side  failOp  bound-side`.
// boundTag is the JSON tag of the Schema field that holds the bound.
type boundSpec struct {
	kw       string
	fn       string
	boundTag string
	failOp   token.Token // relation value ? bound that makes the value invalid
	flagTag  string      // boolean field that must also guard the failure ("" if none)
}

var c01Bounds = []boundSpec{
	{"minimum", "Schema.visitJSONNumber", "minimum", token.LSS, ""},
	{"maximum", "Schema.visitJSONNumber", "maximum", token.GTR, ""},
	{"exclusiveMinimum", "Schema.visitJSONNumber", "minimum", token.LEQ, "exclusiveMinimum"},
	{"exclusiveMaximum", "Schema.visitJSONNumber", "maximum", token.GEQ, "exclusiveMaximum"},
	{"minLength", "Schema.visitJSONString", "minLength", token.LSS, ""},
	{"maxLength", "Schema.visitJSONString", "maxLength", token.GTR, ""},
	{"minItems", "Schema.visitJSONArray", "minItems", token.LSS, ""},
	{"maxItems", "Schema.visitJSONArray", "maxItems", token.GTR, ""},
	{"minProperties", "Schema.visitJSONObject", "minProperties", token.LSS, ""},
	{"maxProperties", "Schema.visitJSONObject", "maxProperties", token.GTR, ""},
}

func negOp(op token.Token) token.Token {
	switch op {
	case token.LSS:
		return token.GEQ
	case token.LEQ:
		return token.GTR
	case token.GTR:
		return token.LEQ
	case token.GEQ:
		return token.LSS
	case token.EQL:
		return token.NEQ
	case token.NEQ:
		return token.EQL
	}
	return token.ILLEGAL
}

func flipOp(op token.Token) token.Token {
	switch op {
	case token.LSS:
		return token.GTR
	case token.LEQ:
		return token.GEQ
	case token.GTR:
		return token.LSS
	case token.GEQ:
		return token.LEQ
	}
	return op
}

// schemaErrLits returns the non-empty SchemaError composite literals of a function with their
// constant SchemaField.
type errLit struct {
	lit   *ast.CompositeLit
	field string
}

func schemaErrLits(info *types.Info, body ast.Node) []errLit {
	var out []errLit
	ast.Inspect(body, func(n ast.Node) bool {
		cl, ok := n.(*ast.CompositeLit)
		if !ok || len(cl.Elts) == 0 {
			return true
		}
		nt := core.NamedOf(info.TypeOf(cl))
		if nt == nil || nt.Obj().Name() != "SchemaError" {
			return true
		}
		e := errLit{lit: cl}
		for _, el := range cl.Elts {
			if kv, ok := el.(*ast.KeyValueExpr); ok {
				if id, ok := kv.Key.(*ast.Ident); ok && id.Name == "SchemaField" {
					e.field, _ = core.ConstStr(info, kv.Value)
				}
			}
		}
		out = append(out, e)
		return true
	})
	return out
}

func c01(r *core.Report) {
	p := r.Prog
	pk := p.Pkg("openapi3")
	info := pk.TypesInfo
	schemaT := p.NamedType("openapi3", "Schema")
	schemaSt := schemaT.Underlying().(*types.Struct)
	fieldByTag := func(tag string) *types.Var {
		f := core.FieldByJSON(schemaSt, tag)
		if f == nil {
			core.Fail("Schema has no field tagged %q", tag)
		}
		return f
	}
	r.Assumption("the accept/reject iff itself (type dispatch over dynamic types, enum equality, float arithmetic, UTF-16 counting, regexp semantics, oneOf counting) is not decided; only its structural necessary conditions")
	c01Unique(r)
	c01EmptyParts(r)
	c01Length(r)
	c01Unsigned(r)
	c01NotAny(r)
	c01Builders(r)

	// ---------------- C01.cmp
	r.RunRule("C01.cmp", "keyword <-> comparison table: each bound keyword's failure site is guarded by exactly the negation of the JSON-Schema draft-4 relation between the value-derived operand and the operand derived from that keyword's Schema field (operand roles by dependency roots, not by name); exclusive bounds additionally guarded by their flag; uniqueItems by flag and checker(value); multipleOf tests value / bound; required tests key absence in value", 13, func() {
		for _, b := range c01Bounds {
			fd := p.DeclOf("openapi3", b.fn)
			ff := core.NewFuncFacts(p, info, fd)
			valueObj := core.ParamObj(info, fd, "value")
			if valueObj == nil {
				core.Fail("%s has no parameter named value", b.fn)
			}
			key := "cmp:" + b.kw
			var site *ast.CompositeLit
			for _, el := range schemaErrLits(info, fd.Body) {
				if el.field == b.kw {
					site = el.lit
				}
			}
			if site == nil {
				r.Bad(key, p.Pos(fd.Pos()), "no failure site (SchemaError with SchemaField "+b.kw+") in "+b.fn+": the keyword is not enforced")
				continue
			}
			boundField := fieldByTag(b.boundTag)
			atoms := core.Atoms(core.GuardsAt(info, fd.Body, site))
			found, flagOK := "", b.flagTag == ""
			byteLen := ""
			var seen []string
			for _, a := range atoms {
				be, ok := ast.Unparen(a.Expr).(*ast.BinaryExpr)
				if !ok {
					if b.flagTag != "" && a.Pos {
						if ff.Roots(a.Expr, false).Fields[fieldByTag(b.flagTag)] {
							flagOK = true
						}
					}
					continue
				}
				switch be.Op {
				case token.LSS, token.LEQ, token.GTR, token.GEQ:
				default:
					continue
				}
				lr, rr := ff.Roots(be.X, true), ff.Roots(be.Y, true)
				lv, rv := lr.Objs[valueObj], rr.Objs[valueObj]
				lb, rb := lr.Fields[boundField], rr.Fields[boundField]
				op := be.Op
				if !a.Pos {
					op = negOp(op)
				}
				switch {
				case lv && rb && !lb && !rv:
				case lb && rv && !lv && !rb:
					op = flipOp(op)
				default:
					continue
				}
				seen = append(seen, fmt.Sprintf("value %s %s", op, b.boundTag))
				if op == b.failOp {
					found = core.ExprStr(a.Expr)
				}
				// JSON-Schema string length counts characters (UTF-16 units here), never bytes: the
				// value-side operand of a string-length keyword must not derive from len(<string>)
				if b.fn == "Schema.visitJSONString" {
					vs := lr
					if rv {
						vs = rr
					}
					for _, e := range vs.Exprs {
						if c, ok := e.(*ast.CallExpr); ok && core.IsBuiltin(info, c, "len") && len(c.Args) == 1 {
							if bt, ok := info.TypeOf(c.Args[0]).Underlying().(*types.Basic); ok && bt.Info()&types.IsString != 0 {
								byteLen = p.Pos(c.Pos())
							}
						}
					}
				}
			}
			if found == "" {
				r.Bad(key, p.Pos(site.Pos()), fmt.Sprintf("failure for %q must be guarded by `value %s %s`; guards relating value and bound found: %v", b.kw, b.failOp, b.boundTag, seen))
				continue
			}
			if len(seen) != 1 {
				r.Bad(key, p.Pos(site.Pos()), fmt.Sprintf("several comparisons relate the value and %s on the way to the failure: %v", b.boundTag, seen))
				continue
			}
			if !flagOK {
				r.Bad(key, p.Pos(site.Pos()), fmt.Sprintf("failure for %q is not guarded by the boolean field tagged %q", b.kw, b.flagTag))
				continue
			}
			if byteLen != "" {
				r.Bad(key, byteLen, fmt.Sprintf("the length compared with %q derives from len(<string>), a byte count: JSON-Schema string length counts characters, so non-ASCII strings get the wrong verdict", b.kw))
				continue
			}
			r.OK(key, p.Pos(site.Pos()), "guard "+found+" == value "+b.failOp.String()+" "+b.boundTag)
		}
		// uniqueItems
		{
			fd := p.DeclOf("openapi3", "Schema.visitJSONArray")
			ff := core.NewFuncFacts(p, info, fd)
			valueObj := core.ParamObj(info, fd, "value")
			var site *ast.CompositeLit
			for _, el := range schemaErrLits(info, fd.Body) {
				if el.field == "uniqueItems" {
					site = el.lit
				}
			}
			if site == nil {
				r.Bad("cmp:uniqueItems", p.Pos(fd.Pos()), "no failure site for uniqueItems")
			} else {
				flag, chk := false, false
				for _, a := range core.Atoms(core.GuardsAt(info, fd.Body, site)) {
					rs := ff.Roots(a.Expr, false)
					if a.Pos && rs.Fields[fieldByTag("uniqueItems")] {
						flag = true
					}
					if call, ok := ast.Unparen(a.Expr).(*ast.CallExpr); ok && !a.Pos && len(call.Args) == 1 {
						if ff.Roots(call.Args[0], false).Objs[valueObj] {
							chk = true
						}
					}
				}
				r.Check(flag && chk, "cmp:uniqueItems", p.Pos(site.Pos()), "guarded by the uniqueItems flag and by !checker(value)", fmt.Sprintf("uniqueItems failure must be guarded by the flag (found=%v) and by a failed uniqueness check of value (found=%v)", flag, chk))
			}
		}
		// multipleOf
		{
			fd := p.DeclOf("openapi3", "Schema.visitJSONNumber")
			ff := core.NewFuncFacts(p, info, fd)
			valueObj := core.ParamObj(info, fd, "value")
			var site *ast.CompositeLit
			for _, el := range schemaErrLits(info, fd.Body) {
				if el.field == "multipleOf" {
					site = el.lit
				}
			}
			if site == nil {
				r.Bad("cmp:multipleOf", p.Pos(fd.Pos()), "no failure site for multipleOf")
			} else {
				okq := false
				for _, a := range core.Atoms(core.GuardsAt(info, fd.Body, site)) {
					if a.Pos {
						continue
					}
					// !X.IsInt() where X depends on value / bound
					call, ok := ast.Unparen(a.Expr).(*ast.CallExpr)
					if !ok {
						continue
					}
					callee := core.CalleeOf(info, call)
					if callee == nil || callee.Name() != "IsInt" {
						continue
					}
					rs := ff.Roots(call, false)
					for _, e := range rs.Exprs {
						if be, ok := e.(*ast.BinaryExpr); ok && be.Op == token.QUO {
							if ff.Roots(be.X, false).Objs[valueObj] && ff.Roots(be.Y, false).Fields[fieldByTag("multipleOf")] {
								okq = true
							}
						}
					}
				}
				r.Check(okq, "cmp:multipleOf", p.Pos(site.Pos()), "guarded by !IsInt(value / multipleOf)", "multipleOf failure must be guarded by a failed integrality test of value / multipleOf")
			}
		}
		// required
		{
			fd := p.DeclOf("openapi3", "Schema.visitJSONObject")
			ff := core.NewFuncFacts(p, info, fd)
			valueObj := core.ParamObj(info, fd, "value")
			var site *ast.CompositeLit
			for _, el := range schemaErrLits(info, fd.Body) {
				if el.field == "required" {
					site = el.lit
				}
			}
			if site == nil {
				r.Bad("cmp:required", p.Pos(fd.Pos()), "no failure site for required")
			} else {
				good := false
				for _, a := range core.Atoms(core.GuardsAt(info, fd.Body, site)) {
					id, ok := ast.Unparen(a.Expr).(*ast.Ident)
					if !ok || a.Pos {
						continue
					}
					for _, as := range ff.Assigns(info.ObjectOf(id)) {
						if as.MapIndex != nil && as.Idx == 1 {
							base := ff.Roots(as.MapIndex.X, false)
							idx := ff.Roots(as.MapIndex.Index, false)
							if base.Objs[valueObj] && idx.Fields[fieldByTag("required")] {
								good = true
							}
						}
					}
				}
				r.Check(good, "cmp:required", p.Pos(site.Pos()), "guarded by key-absent test `_, ok := value[k]; !ok` with k ranging over required", "required failure must be guarded by the absence of the key (ranging over the required list) from value")
			}
		}
	})

	// ---------------- C01.dom
	na := core.NewNilAnalysis(p)
	r.RunRule("C01.dom", "no keyword can be bypassed: in each per-type visitor every return that may be nil comes after (in top-level statement order) the check statement of every keyword of that JSON type, and a keyword's failure is not conditioned on another keyword's field; in visitJSON the not/composition/enum calls and the per-type dispatch are top-level and every earlier possibly-nil return is one of the three designed shortcuts (IsEmpty, run==false after a composition, nil value with PermitsNull)", 24, func() {
		for _, vs := range c01Visitors {
			fd := p.DeclOf("openapi3", vs.fn)
			ff := core.NewFuncFacts(p, info, fd)
			recv := recvObj(info, fd)
			// index of the top-level statement that first reads the keyword's field (via receiver)
			top := fd.Body.List
			firstRead := map[string]int{}
			for i, s := range top {
				ast.Inspect(s, func(n ast.Node) bool {
					if sel, ok := n.(*ast.SelectorExpr); ok {
						if f := core.FieldSel(info, sel); f != nil {
							if id, ok := ast.Unparen(sel.X).(*ast.Ident); ok && info.ObjectOf(id) == recv {
								tag := core.TagOfField(schemaSt, f)
								if _, seen := firstRead[tag]; !seen && tag != "" {
									firstRead[tag] = i
								}
							}
						}
					}
					// PermitsNull() reads nullable
					if c, ok := n.(*ast.CallExpr); ok {
						if callee := core.CalleeOf(info, c); callee != nil && callee.Name() == "PermitsNull" {
							if _, seen := firstRead["nullable"]; !seen {
								firstRead["nullable"] = i
							}
						}
					}
					return true
				})
			}
			// possibly-nil returns with their top-level index
			type mret struct {
				idx int
				pos token.Pos
			}
			var maybe []mret
			for i, s := range top {
				ast.Inspect(s, func(n ast.Node) bool {
					switch x := n.(type) {
					case *ast.FuncLit:
						return false
					case *ast.ReturnStmt:
						c := core.MaybeNil
						if len(x.Results) == 1 {
							c = na.Classify(ff, x.Results[0], x)
						} else if len(x.Results) == 0 {
							// bare return: named result
							if fd.Type.Results != nil && len(fd.Type.Results.List) > 0 && len(fd.Type.Results.List[0].Names) > 0 {
								c = na.Classify(ff, fd.Type.Results.List[0].Names[0], x)
							}
						}
						if c != core.NonNil {
							maybe = append(maybe, mret{i, x.Pos()})
						}
					}
					return true
				})
			}
			for _, kw := range vs.keywords {
				key := fmt.Sprintf("dom:%s/%s", strings.TrimPrefix(vs.fn, "Schema."), kw)
				idx, ok := firstRead[kw]
				if !ok {
					r.Bad(key, p.Pos(fd.Pos()), fmt.Sprintf("%s never reads the Schema field tagged %q: the keyword is not enforced for this JSON type", vs.fn, kw))
					continue
				}
				bad := ""
				for _, m := range maybe {
					if m.idx < idx {
						bad = p.Pos(m.pos)
						break
					}
				}
				if bad != "" {
					r.Bad(key, bad, fmt.Sprintf("a return that may be nil precedes the check of %q (first read at %s): a value can be accepted without that keyword being tested", kw, p.Pos(top[idx].Pos())))
					continue
				}
				r.OK(key, p.Pos(top[idx].Pos()), "first read dominates every possibly-nil return")
			}
			// cross-keyword conditioning: failure literal of keyword K must not be guarded by an atom whose
			// only schema-field roots belong to a different keyword
			for _, el := range schemaErrLits(info, fd.Body) {
				if el.field == "" || el.field == "type" {
					continue
				}
				key := fmt.Sprintf("domguard:%s/%s", strings.TrimPrefix(vs.fn, "Schema."), el.field)
				var foreign []string
				for _, a := range core.Atoms(core.GuardsAt(info, fd.Body, el.lit)) {
					rs := ff.Roots(a.Expr, true)
					tags := map[string]bool{}
					for f := range rs.Fields {
						if t := core.TagOfField(schemaSt, f); t != "" {
							tags[t] = true
						}
					}
					if len(tags) == 0 {
						continue
					}
					if tags[el.field] || tags[pairedField(el.field)] {
						continue
					}
					if el.field == "properties" && (tags["additionalProperties"] || tags["properties"]) {
						continue
					}
					if len(tags) == 1 && tags["type"] {
						continue // type-dependent dispatch inside a visitor (integer vs number formats)
					}
					var ts []string
					for t := range tags {
						ts = append(ts, t)
					}
					sort.Strings(ts)
					foreign = append(foreign, core.ExprStr(a.Expr)+" reads "+strings.Join(ts, ","))
				}
				if len(foreign) > 0 {
					r.Bad(key, p.Pos(el.lit.Pos()), fmt.Sprintf("failure of %q is conditioned on another keyword: %v", el.field, foreign))
				} else {
					r.OK(key, p.Pos(el.lit.Pos()), "guards mention only the keyword's own fields, the value and mode flags")
				}
			}
		}
		// dispatcher
		fd := p.DeclOf("openapi3", "Schema.visitJSON")
		ff := core.NewFuncFacts(p, info, fd)
		top := fd.Body.List
		want := []string{"visitNotOperation", "visitXOFOperations", "visitEnumOperation"}
		at := map[string]int{}
		dispatch := -1
		for i, s := range top {
			// calls at the statement's own level (if-init / expr), not nested in bodies
			var hdr []ast.Node
			switch x := s.(type) {
			case *ast.IfStmt:
				hdr = []ast.Node{x.Init, x.Cond}
			case *ast.ExprStmt, *ast.AssignStmt, *ast.ReturnStmt:
				hdr = []ast.Node{x}
			case *ast.TypeSwitchStmt:
				// the per-type dispatch is the type switch that calls >= 4 distinct visitJSON* methods
				n := map[string]bool{}
				ast.Inspect(x, func(nn ast.Node) bool {
					if c, ok := nn.(*ast.CallExpr); ok {
						if callee := core.CalleeOf(info, c); callee != nil && strings.HasPrefix(callee.Name(), "visitJSON") && callee.Name() != "visitJSON" {
							n[callee.Name()] = true
						}
					}
					return true
				})
				if len(n) >= 5 {
					dispatch = i
				}
			}
			for _, h := range hdr {
				if h == nil || (h == ast.Node(nil)) {
					continue
				}
				func() {
					defer func() { recover() }()
					ast.Inspect(h, func(nn ast.Node) bool {
						if c, ok := nn.(*ast.CallExpr); ok {
							if callee := core.CalleeOf(info, c); callee != nil {
								for _, w := range want {
									if callee.Name() == w {
										if _, seen := at[w]; !seen {
											at[w] = i
										}
									}
								}
							}
						}
						return true
					})
				}()
			}
		}
		last := dispatch
		for _, w := range want {
			if i, ok := at[w]; ok {
				r.OK("dom:visitJSON/"+w, p.Pos(top[i].Pos()), "called from a top-level statement of the dispatcher")
			} else {
				r.Bad("dom:visitJSON/"+w, p.Pos(fd.Pos()), "visitJSON does not call "+w+" from a top-level statement: the keyword family can be skipped")
			}
		}
		if dispatch < 0 {
			r.Bad("dom:visitJSON/dispatch", p.Pos(fd.Pos()), "no per-type dispatch (type switch calling the per-type visitors) at top level of visitJSON")
			return
		}
		r.OK("dom:visitJSON/dispatch", p.Pos(top[dispatch].Pos()), "per-type dispatch is a top-level statement")
		// possibly-nil returns before the dispatch: classify
		for i := 0; i < last; i++ {
			ast.Inspect(top[i], func(n ast.Node) bool {
				ret, ok := n.(*ast.ReturnStmt)
				if !ok {
					return true
				}
				var c core.NilClass = core.MaybeNil
				if len(ret.Results) == 1 {
					c = na.Classify(ff, ret.Results[0], ret)
				} else if len(ret.Results) == 0 && len(fd.Type.Results.List[0].Names) > 0 {
					c = na.Classify(ff, fd.Type.Results.List[0].Names[0], ret)
				}
				if c == core.NonNil {
					return true
				}
				// designed shortcut?
				why := ""
				gs := core.GuardsAt(info, fd.Body, ret)
				for _, a := range core.Atoms(gs) {
					ast.Inspect(a.Expr, func(nn ast.Node) bool {
						switch x := nn.(type) {
						case *ast.CallExpr:
							if callee := core.CalleeOf(info, x); callee != nil && a.Pos {
								if callee.Name() == "IsEmpty" {
									why = "IsEmpty() shortcut"
								}
								if callee.Name() == "PermitsNull" && underNilCase(fd.Body, ret) {
									why = "nil value with PermitsNull()"
								}
							}
						case *ast.Ident:
							// `run` variable: second result of visitXOFOperations
							for _, as := range ff.Assigns(info.ObjectOf(x)) {
								if as.Call != nil && as.Idx == 1 {
									if callee := core.CalleeOf(info, as.Call); callee != nil && callee.Name() == "visitXOFOperations" {
										why = "run==false after a composition keyword"
									}
								}
							}
						}
						return true
					})
				}
				// a return of a nested visitor call result in the IsEmpty branch (visitJSONNull) is part of the shortcut
				key := fmt.Sprintf("shortcut:visitJSON@stmt%d", i)
				if why != "" {
					r.OK(key+"/"+strings.Fields(why)[0], p.Pos(ret.Pos()), "designed shortcut: "+why)
				} else {
					r.Bad(key, p.Pos(ret.Pos()), "a possibly-nil return precedes the not/composition/enum/type checks and is none of the three designed shortcuts")
				}
				return true
			})
		}
	})

	// ---------------- C01.empty
	r.RunRule("C01.empty", "the empty-schema shortcut is sound: (a) every Schema field read through the receiver by the visitor family is read by IsEmpty, unless all its reads are nested under a test of a field IsEmpty does read; (b) for `not` and `oneOf` IsEmpty may only test presence (a `not` of anything and a oneOf with >= 2 members constrain the value even when the sub-schemas are empty), it may not recurse into the sub-schema's emptiness", 20, func() {
		// the emptiness predicate: IsEmpty and the *Schema methods it delegates to (isEmpty)
		var emptyDecls []*ast.FuncDecl
		{
			seenE := map[*types.Func]bool{}
			var growE func(f *types.Func)
			growE = func(f *types.Func) {
				if f == nil || seenE[f] || !core.InRepo(f.Pkg()) || f.Pkg().Name() != "openapi3" {
					return
				}
				sig := f.Type().(*types.Signature)
				if sig.Recv() == nil || core.NamedOf(sig.Recv().Type()) != schemaT {
					return
				}
				seenE[f] = true
				fd := p.Decl(f)
				emptyDecls = append(emptyDecls, fd)
				ast.Inspect(fd.Body, func(n ast.Node) bool {
					if c, ok := n.(*ast.CallExpr); ok {
						growE(core.CalleeOf(info, c))
					}
					return true
				})
			}
			growE(p.FuncObj("openapi3", "Schema.IsEmpty"))
		}
		isEmpty := emptyDecls[len(emptyDecls)-1] // the function holding the field tests
		for _, d := range emptyDecls {
			n := 0
			ast.Inspect(d.Body, func(nn ast.Node) bool {
				if _, ok := nn.(*ast.SelectorExpr); ok {
					n++
				}
				return true
			})
			_ = n
		}
		emptyReads := map[*types.Var]bool{}
		for _, d := range emptyDecls {
			recvE := recvObj(info, d)
			ast.Inspect(d.Body, func(n ast.Node) bool {
				if sel, ok := n.(*ast.SelectorExpr); ok {
					if f := core.FieldSel(info, sel); f != nil {
						if id, ok := ast.Unparen(sel.X).(*ast.Ident); ok && info.ObjectOf(id) == recvE {
							emptyReads[f] = true
						}
					}
				}
				return true
			})
		}
		// visitor family: methods on *Schema reachable from visitJSON through static calls inside openapi3
		family := map[*types.Func]*ast.FuncDecl{}
		var grow func(f *types.Func)
		grow = func(f *types.Func) {
			if f == nil || family[f] != nil || !core.InRepo(f.Pkg()) || f.Pkg().Name() != "openapi3" {
				return
			}
			sig := f.Type().(*types.Signature)
			if sig.Recv() == nil || core.NamedOf(sig.Recv().Type()) != schemaT {
				return
			}
			if f.Name() == "IsEmpty" || f.Name() == "isEmpty" || f.Name() == "MarshalJSON" || f.Name() == "MarshalYAML" {
				return
			}
			fd := p.Decl(f)
			family[f] = fd
			ast.Inspect(fd.Body, func(n ast.Node) bool {
				if c, ok := n.(*ast.CallExpr); ok {
					grow(core.CalleeOf(info, c))
				}
				return true
			})
		}
		grow(p.FuncObj("openapi3", "Schema.visitJSON"))
		if len(family) < 10 {
			core.Fail("visitor family has only %d members", len(family))
		}
		type readSite struct {
			fd  *ast.FuncDecl
			sel *ast.SelectorExpr
		}
		reads := map[*types.Var][]readSite{}
		subReads := map[*types.Var][]readSite{}
		for _, fd := range family {
			recv := recvObj(info, fd)
			ast.Inspect(fd.Body, func(n ast.Node) bool {
				if sel, ok := n.(*ast.SelectorExpr); ok {
					if f := core.FieldSel(info, sel); f != nil {
						if id, ok := ast.Unparen(sel.X).(*ast.Ident); ok && info.ObjectOf(id) == recv {
							if core.TagOfField(schemaSt, f) != "" {
								reads[f] = append(reads[f], readSite{fd, sel})
							}
						} else if nn := core.NamedOf(info.TypeOf(sel.X)); nn == schemaT && core.TagOfField(schemaSt, f) != "" {
							// a keyword of a sub-schema enforced while the parent is visited (readOnly /
							// writeOnly of a property): IsEmpty descends into sub-schemas, so it must
							// count the keyword there
							if _, isBool := f.Type().Underlying().(*types.Basic); isBool {
								subReads[f] = append(subReads[f], readSite{fd, sel})
							}
						}
					}
				}
				return true
			})
		}
		{
			var fs []*types.Var
			for f := range subReads {
				fs = append(fs, f)
			}
			sort.Slice(fs, func(i, j int) bool { return fs[i].Name() < fs[j].Name() })
			for _, f := range fs {
				key := "empty-reads-sub:" + core.TagOfField(schemaSt, f)
				if emptyReads[f] {
					r.OK(key, p.Pos(subReads[f][0].sel.Pos()), "read by IsEmpty")
				} else {
					r.Bad(key, p.Pos(subReads[f][0].sel.Pos()), fmt.Sprintf("the visitors enforce `%s` of a sub-schema while visiting its parent (here), but IsEmpty does not count it: a sub-schema that carries nothing else is empty, its parent may be empty too, visitJSON returns before the object visitor runs and the keyword is never enforced", core.TagOfField(schemaSt, f)))
				}
			}
		}
		var fields []*types.Var
		for f := range reads {
			fields = append(fields, f)
		}
		sort.Slice(fields, func(i, j int) bool { return fields[i].Name() < fields[j].Name() })
		for _, f := range fields {
			tag := core.TagOfField(schemaSt, f)
			key := "empty-reads:" + tag
			if emptyReads[f] {
				r.OK(key, p.Pos(reads[f][0].sel.Pos()), "read by IsEmpty")
				continue
			}
			// all reads nested under a guard on a field IsEmpty reads?
			allDep := true
			for _, rs := range reads[f] {
				ff := core.NewFuncFacts(p, info, rs.fd)
				dep := false
				for _, a := range core.Atoms(core.GuardsAt(info, rs.fd.Body, rs.sel)) {
					for g := range ff.Roots(a.Expr, false).Fields {
						if g != f && emptyReads[g] && a.Pos {
							dep = true
						}
					}
				}
				if !dep {
					allDep = false
				}
			}
			if allDep {
				r.OK(key, p.Pos(reads[f][0].sel.Pos()), "not read by IsEmpty, but every read is nested under a test of a field IsEmpty reads (dependent keyword)")
			} else {
				r.Bad(key, p.Pos(reads[f][0].sel.Pos()), fmt.Sprintf("the validator reads Schema.%s (%q) but IsEmpty does not: a schema carrying only this keyword is treated as empty and the keyword is skipped", f.Name(), tag))
			}
		}
		// (b) vacuity
		ffE := core.NewFuncFacts(p, info, isEmpty)
		for _, tag := range []string{"not", "oneOf"} {
			f := fieldByTag(tag)
			key := "empty-vacuity:" + tag
			if !emptyReads[f] {
				r.Bad(key, p.Pos(isEmpty.Pos()), "IsEmpty does not read "+tag)
				continue
			}
			// find `return false` statements whose guards depend on field f; check whether any guard atom
			// contains a recursive IsEmpty call
			recurses := false
			var pos token.Pos
			ast.Inspect(isEmpty.Body, func(n ast.Node) bool {
				ret, ok := n.(*ast.ReturnStmt)
				if !ok {
					return true
				}
				dep, rec := false, false
				for _, a := range core.Atoms(core.GuardsAt(info, isEmpty.Body, ret)) {
					rs := ffE.Roots(a.Expr, true)
					if rs.Fields[f] {
						dep = true
						for fn := range rs.Funcs {
							if fn.Name() == "IsEmpty" || fn.Name() == "isEmpty" {
								rec = true
							}
						}
					}
				}
				// range over the field: the return is inside `for _, s := range schema.F`
				if dep && rec {
					recurses = true
					pos = ret.Pos()
				}
				return true
			})
			if recurses {
				r.Bad(key, p.Pos(pos), fmt.Sprintf("IsEmpty treats a schema with %q as empty when the sub-schemas are empty, but %s", tag, map[string]string{"not": "`not: {}` rejects every value", "oneOf": "`oneOf: [{}, {}]` rejects every value (it matches two)"}[tag]))
			} else {
				r.OK(key, p.Pos(isEmpty.Pos()), "presence test only")
			}
		}
	})
}

func pairedField(kw string) string {
	switch kw {
	case "exclusiveMinimum":
		return "minimum"
	case "exclusiveMaximum":
		return "maximum"
	case "minLength":
		return "maxLength"
	case "maxLength":
		return "minLength"
	}
	return kw
}

// underNilCase reports whether n is inside a `case nil:` clause of a type switch.
func underNilCase(body ast.Node, n ast.Node) bool {
	for _, a := range core.PathTo(body, n) {
		if cc, ok := a.(*ast.CaseClause); ok {
			for _, e := range cc.List {
				if id, ok := e.(*ast.Ident); ok && id.Name == "nil" {
					return true
				}
			}
		}
	}
	return false
}

// c01Unique: the default uniqueItems checker compares items in one key space.
func c01Unique(r *core.Report) {
	p := r.Prog
	info := p.Pkg("openapi3").TypesInfo
	r.RunRule("C01.unique", "uniqueItems compares every item under one canonical encoding: in the default checker (isSliceOfUniqueItems) every key put into the seen-set is the JSON encoding (encoding/json.Marshal) of the item, and the verdict compares the number of items with the number of keys; a key taken from the item in another form shares the key space with the encodings of other kinds of values (the string `1` and the number 1) and two different items are reported equal", 2, func() {
		fd := p.DeclOf("openapi3", "isSliceOfUniqueItems")
		ff := core.NewFuncFacts(p, info, fd)
		n := 0
		ast.Inspect(fd.Body, func(nd ast.Node) bool {
			as, ok := nd.(*ast.AssignStmt)
			if !ok {
				return true
			}
			for _, l := range as.Lhs {
				ix, ok := ast.Unparen(l).(*ast.IndexExpr)
				if !ok {
					continue
				}
				if _, isMap := info.TypeOf(ix.X).Underlying().(*types.Map); !isMap {
					continue
				}
				n++
				key := fmt.Sprintf("unique:key#%d", n)
				viaJSON := false
				for f := range ff.Roots(ix.Index, false).Funcs {
					if f.Pkg() != nil && f.Pkg().Path() == "encoding/json" && f.Name() == "Marshal" {
						viaJSON = true
					}
				}
				r.Check(viaJSON, key, p.Pos(ix.Pos()), "key is the JSON encoding of the item", "a seen-set key ("+core.ExprStr(ix.Index)+") is not the JSON encoding of the item: items of different kinds can collide, and an array of distinct items is rejected by uniqueItems")
			}
			return true
		})
		if n == 0 {
			core.Fail("isSliceOfUniqueItems: no seen-set store found")
		}
		okRet := false
		forEachReturnStmt(fd.Body, func(ret *ast.ReturnStmt) {
			if len(ret.Results) == 1 {
				s := core.ExprStr(ret.Results[0])
				if strings.Contains(s, "len(") && strings.Contains(s, "==") {
					okRet = true
				}
			}
		})
		r.Check(okRet, "unique:verdict", p.Pos(fd.Pos()), "verdict compares the two counts", "the verdict is no longer the comparison of the number of items with the number of distinct keys")
	})
}

// c01EmptyParts: a schema is empty only if every part is.
func c01EmptyParts(r *core.Report) {
	p := r.Prog
	info := p.Pkg("openapi3").TypesInfo
	r.RunRule("C01.emptyparts", "the empty-schema shortcut is universal over the parts: inside Schema.isEmpty every recursive isEmpty call on a sub-schema (items, additionalProperties, each property, each anyOf/allOf member) appears negated in an `if` whose branch returns false — one non-empty part makes the schema non-empty; a test of the form 'some member is empty' lets a schema with a constraining alternative take the shortcut, which skips the alternatives (and with them, e.g., a nullable branch)", 4, func() {
		fd := p.DeclOf("openapi3", "Schema.isEmpty")
		self, _ := info.Defs[fd.Name].(*types.Func)
		n := 0
		ast.Inspect(fd.Body, func(nd ast.Node) bool {
			c, ok := nd.(*ast.CallExpr)
			if !ok || core.CalleeOf(info, c) != self {
				return true
			}
			n++
			key := fmt.Sprintf("emptyparts:call#%d(%s)", n, core.ExprStr(c.Fun))
			path := core.PathTo(fd.Body, c)
			okForm := false
			// the call is the operand of a `!`, that negation is a conjunct of an if condition, and the if body returns false
			for i := len(path) - 2; i >= 0; i-- {
				ifs, ok := path[i].(*ast.IfStmt)
				if !ok {
					continue
				}
				negated := false
				for _, a := range core.Atoms([]core.Guard{{Cond: ifs.Cond, Pos: true}}) {
					if !a.Pos && ast.Unparen(a.Expr) == ast.Expr(c) {
						negated = true
					}
				}
				if negated && len(ifs.Body.List) == 1 {
					if ret, ok := ifs.Body.List[0].(*ast.ReturnStmt); ok && len(ret.Results) == 1 {
						if v, ok := constBool(info, ret.Results[0]); ok && !v {
							okForm = true
						}
					}
				}
				break
			}
			r.Check(okForm, key, p.Pos(c.Pos()), "a non-empty part returns false", "isEmpty does not return false as soon as this part is non-empty: a schema with a constraining part can be treated as the empty schema")
			return true
		})
		if n < 4 {
			core.Fail("only %d recursive isEmpty calls found", n)
		}
	})
}

// c01Length: minLength / maxLength count characters.
func c01Length(r *core.Report) {
	p := r.Prog
	info := p.Pkg("openapi3").TypesInfo
	r.RunRule("C01.length", "string length is counted in characters (code points), one per iteration of a `range` over the string: in visitJSONString the variable compared with MinLength / MaxLength starts at zero and is changed only inside `for ... range value`, by 1 — or by another amount only under utf16.IsSurrogate of the ranged rune, which never holds (ranging over a string yields scalar values and U+FFFD, no surrogates); a length taken from an encoding of the string (len of its UTF-16 or UTF-8 form) counts a character above U+FFFF, or any non-ASCII character, more than once", 1, func() {
		fd := p.DeclOf("openapi3", "Schema.visitJSONString")
		valueObj := core.ParamObj(info, fd, "value")
		// the variable compared with a MinLength/MaxLength-derived operand
		var length types.Object
		ast.Inspect(fd.Body, func(nd ast.Node) bool {
			be, ok := nd.(*ast.BinaryExpr)
			if !ok || (be.Op != token.LSS && be.Op != token.GTR) {
				return true
			}
			if !strings.Contains(core.ExprStr(be.Y), "Length") {
				return true
			}
			x := ast.Unparen(be.X)
			if c, ok := x.(*ast.CallExpr); ok && len(c.Args) == 1 {
				if tv, ok := info.Types[c.Fun]; ok && tv.IsType() {
					x = ast.Unparen(c.Args[0]) // uint64(length)
				}
			}
			if id, ok := x.(*ast.Ident); ok && length == nil {
				length = info.ObjectOf(id)
			}
			return true
		})
		if length == nil {
			core.Fail("visitJSONString: no `length < minLength` comparison found")
		}
		ff := core.NewFuncFacts(p, info, fd)
		bad := ""
		n := 0
		for _, a := range ff.Assigns(length) {
			n++
			// where does the assignment stand?
			inRange := false
			var rng *ast.RangeStmt
			for _, anc := range core.PathTo(fd.Body, a.Stmt) {
				if rs, ok := anc.(*ast.RangeStmt); ok {
					if id, ok := ast.Unparen(rs.X).(*ast.Ident); ok && info.ObjectOf(id) == valueObj {
						inRange, rng = true, rs
					}
				}
			}
			switch st := a.Stmt.(type) {
			case *ast.IncDecStmt:
				if !inRange || st.Tok != token.INC {
					bad = "changed by ++/-- outside the range over the string at " + p.Pos(st.Pos())
				}
			case *ast.AssignStmt:
				if !inRange {
					// the initialisation: zero
					rhs := a.Rhs
					if c, ok := rhs.(*ast.CallExpr); ok && len(c.Args) == 1 {
						rhs = c.Args[0] // int64(0)
					}
					if v, ok := intConst(info, rhs); !ok || v != 0 {
						bad = "initialised with " + core.ExprStr(a.Rhs) + " at " + p.Pos(st.Pos()) + ", not counted"
					}
					continue
				}
				// += k inside the loop: k == 1, or under utf16.IsSurrogate(rune of the range)
				if st.Tok != token.ADD_ASSIGN {
					bad = "assigned inside the loop at " + p.Pos(st.Pos())
					continue
				}
				if v, ok := intConst(info, st.Rhs[0]); ok && v == 1 {
					continue
				}
				dead := false
				for _, at := range core.Atoms(core.GuardsAt(info, rng.Body, st)) {
					if c, ok := ast.Unparen(at.Expr).(*ast.CallExpr); ok && at.Pos && len(c.Args) == 1 {
						if f := core.CalleeOf(info, c); f != nil && f.Pkg() != nil && f.Pkg().Path() == "unicode/utf16" && f.Name() == "IsSurrogate" {
							if id, ok := ast.Unparen(c.Args[0]).(*ast.Ident); ok && rng.Value != nil && info.ObjectOf(id) == info.ObjectOf(rng.Value.(*ast.Ident)) {
								dead = true
							}
						}
					}
				}
				if !dead {
					bad = "increased by " + core.ExprStr(st.Rhs[0]) + " per character at " + p.Pos(st.Pos())
				}
			case *ast.ValueSpec, *ast.DeclStmt:
			}
		}
		if n == 0 {
			core.Fail("visitJSONString: the length variable is never assigned")
		}
		r.Check(bad == "", "length:visitJSONString", p.Pos(fd.Pos()), "one per character", "the length held against minLength/maxLength is "+bad+": a string is then longer than its number of characters (an emoji counts 2 in UTF-16, 4 in UTF-8), so `minLength: 2` accepts one character and `maxLength: 2` rejects two")
	})
}

// c01Unsigned: the six size bounds are unsigned 64-bit numbers and are compared as such.
func c01Unsigned(r *core.Report) {
	p := r.Prog
	info := p.Pkg("openapi3").TypesInfo
	bounds := map[string]bool{"MinLength": true, "MaxLength": true, "MinItems": true, "MaxItems": true, "MinProps": true, "MaxProps": true}
	r.RunRule("C01.unsigned", "minLength, maxLength, minItems, maxItems, minProperties and maxProperties are uint64 in the model and are compared as unsigned numbers: in the functions of package openapi3 that take a value to validate, no ordering comparison has an operand that is one of these bounds (the field, its dereference, or a local assigned from it) converted to a signed integer type — a bound of 2^63 or more wraps negative, so `minLength: 9223372036854775808` accepts every string and `maxItems: 18446744073709551615` rejects every array", 6, func() {
		perFn := map[string]int{}
		for _, d := range p.AllDecls("openapi3") {
			if d.Body == nil || !strings.HasPrefix(d.Name.Name, "visitJSON") {
				continue
			}
			ff := core.NewFuncFacts(p, info, d)
			// isBound: e denotes one of the bounds; through *e, a local assigned from it
			var isBound func(e ast.Expr, depth int) string
			isBound = func(e ast.Expr, depth int) string {
				e = ast.Unparen(e)
				if depth > 3 {
					return ""
				}
				switch x := e.(type) {
				case *ast.StarExpr:
					return isBound(x.X, depth+1)
				case *ast.SelectorExpr:
					if bounds[x.Sel.Name] {
						if n := core.NamedOf(info.TypeOf(x.X)); n != nil && n.Obj().Name() == "Schema" {
							return x.Sel.Name
						}
					}
				case *ast.Ident:
					o := info.ObjectOf(x)
					if o == nil {
						return ""
					}
					for _, a := range ff.Assigns(o) {
						if a.Rhs != nil {
							if b := isBound(a.Rhs, depth+1); b != "" {
								return b
							}
						}
					}
				}
				return ""
			}
			ast.Inspect(d.Body, func(n ast.Node) bool {
				be, ok := n.(*ast.BinaryExpr)
				if !ok {
					return true
				}
				switch be.Op {
				case token.LSS, token.GTR, token.LEQ, token.GEQ:
				default:
					return true
				}
				for _, side := range []ast.Expr{be.X, be.Y} {
					side = ast.Unparen(side)
					conv := ""
					inner := side
					if c, ok := side.(*ast.CallExpr); ok && len(c.Args) == 1 {
						if tv, ok := info.Types[c.Fun]; ok && tv.IsType() {
							inner = c.Args[0]
							if b, ok := tv.Type.Underlying().(*types.Basic); ok && b.Info()&types.IsInteger != 0 && b.Info()&types.IsUnsigned == 0 {
								conv = tv.Type.String()
							}
						}
					}
					b := isBound(inner, 0)
					if b == "" {
						continue
					}
					if conv != "" {
						// a conversion under a test of the bound against the largest signed value is exact
						for _, a := range core.Atoms(core.GuardsAt(info, d.Body, be)) {
							if t := core.ExprStr(a.Expr); strings.Contains(t, core.ExprStr(inner)) && strings.Contains(t, "MaxInt") {
								conv = ""
							}
						}
					}
					fn := core.FuncName(d)
					perFn[fn+b]++
					key := fmt.Sprintf("unsigned:%s/%s#%d", fn, b, perFn[fn+b])
					r.Check(conv == "", key, p.Pos(be.Pos()), "compared as the unsigned number it is", fmt.Sprintf("the bound %s (uint64) is converted to %s for the comparison `%s`: a bound of 2^63 or more becomes negative, so a lower bound that large accepts everything and an upper bound that large rejects everything", b, conv, core.ExprStr(be)))
				}
				return true
			})
		}
	})
}
