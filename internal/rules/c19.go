package rules

import (
	"fmt"
	"go/types"
	"os"
	"strings"

	"golang.org/x/tools/go/ssa"
	"golang.org/x/tools/go/ssa/ssautil"

	"verif/internal/core"
)

func init() { register("C19", c19) }

// c19: schema error reasons never contain the rejected value. Taint analysis: sources are the value
// parameters of the exported validation entry points (everything derived by element access,
// conversion, formatting); sinks are all stores into SchemaError.Reason.
func c19(r *core.Report) {
	p := r.Prog
	p.BuildSSA()
	r.Assumption("user-registered format validators and custom regex compilers are outside the repository: their error text is copied into Reason by err.Error(); the repo cannot constrain them")
	r.Assumption("aliasing is field-based (a value stored into a struct field may be loaded from any instance of that field); keys of the validated object are property names, not leaf values, and are not sources")
	schemaErr := p.NamedType("openapi3", "SchemaError")

	r.RunRule("C19.taint", "no data flow from the validated value (parameter `value` of VisitJSON*/IsMatching*/visitJSON and everything derived from it by element access, range values, conversion, type assertion, string concatenation, library calls and fmt formatting - verb-aware: an operand consumed by %T is a type name) into any store to SchemaError.Reason; err.Error() is resolved through the VTA call graph and refined by errors.As tests", 32, func() {
		t := core.NewTaint(p)
		t.IsSink = func(owner *types.Named, f *types.Var) bool {
			return owner == schemaErr && f.Name() == "Reason"
		}
		// sources
		nsrc := 0
		sp := p.SSAPkg("openapi3")
		schemaT := p.NamedType("openapi3", "Schema")
		ms := p.SSA.MethodSets.MethodSet(types.NewPointer(schemaT))
		for i := 0; i < ms.Len(); i++ {
			fn := p.SSA.MethodValue(ms.At(i))
			if fn == nil || fn.Blocks == nil {
				continue
			}
			name := fn.Name()
			if !(strings.HasPrefix(name, "VisitJSON") || strings.HasPrefix(name, "IsMatching") || strings.HasPrefix(name, "visitJSON") || name == "visitEnumOperation" || name == "visitNotOperation" || name == "visitXOFOperations" || name == "expectedType") {
				continue
			}
			for _, prm := range fn.Params {
				if prm.Name() == "value" {
					t.Mark(prm, fmt.Sprintf("source: parameter value of %s", name))
					nsrc++
				}
			}
		}
		_ = sp
		// format validators in the repo: their value parameter is a source as well (they are reached
		// through the FormatValidator interface)
		if os.Getenv("KINLINT_DEBUG") != "" {
			for fn := range ssautil.AllFunctions(p.SSA) {
				if strings.Contains(fn.String(), "callbackValidator") {
					fmt.Println("ALLF", fn.String(), fn.Blocks != nil, core.SSAFuncInRepo(fn), fn.Synthetic)
				}
			}
		}
		for _, fn := range p.RepoSSAFuncs() {
			if os.Getenv("KINLINT_DEBUG") != "" && fn.Name() == "Validate" && strings.Contains(fn.String(), "alidator") {
				fmt.Println("CAND", fn.String(), len(fn.Params), fn.Signature.Recv() != nil)
			}
			if (fn.Name() == "Validate" || strings.HasPrefix(fn.Name(), "Validate[")) && fn.Signature.Recv() != nil && len(fn.Params) == 2 && fn.Signature.Results().Len() == 1 {
				if rn := core.NamedOf(fn.Signature.Recv().Type()); rn != nil && strings.Contains(strings.ToLower(rn.Obj().Name()), "validator") || strings.Contains(fn.String(), "Format") {
					t.Mark(fn.Params[1], "source: value parameter of format validator "+fn.String())
					nsrc++
				}
			}
		}
		if nsrc < 15 {
			core.Fail("only %d taint sources resolved", nsrc)
		}
		t.Run()
		// enumerate all Reason stores
		hit := map[string]core.TaintHit{}
		for _, h := range t.Sinks {
			hit[fmt.Sprintf("%p/%d", h.Fn, h.Pos)] = h
		}
		nStores := 0
		perFn := map[string]int{}
		for _, fn := range t.Funcs {
			for _, b := range fn.Blocks {
				for _, in := range b.Instrs {
					st, ok := in.(*ssa.Store)
					if !ok {
						continue
					}
					fa, ok := st.Addr.(*ssa.FieldAddr)
					if !ok {
						continue
					}
					n := core.NamedOf(fa.X.Type())
					if n == nil || n.Origin() != schemaErr {
						continue
					}
					stt := n.Underlying().(*types.Struct)
					if stt.Field(fa.Field).Name() != "Reason" {
						continue
					}
					nStores++
					fname := fn.String()
					perFn[fname]++
					key := fmt.Sprintf("reason-store:%s#%d", strings.TrimPrefix(fname, "(*github.com/getkin/kin-openapi/"), perFn[fname])
					if h, bad := hit[fmt.Sprintf("%p/%d", fn, st.Pos())]; bad {
						r.Bad(key, p.Pos(st.Pos()), "the rejected value can flow into SchemaError.Reason: "+h.Why)
					} else if _, isConst := st.Val.(*ssa.Const); isConst {
						r.Trivial(key, p.Pos(st.Pos()), "constant reason")
					} else {
						r.OK(key, p.Pos(st.Pos()), "computed reason, no flow from the value")
					}
				}
			}
		}
		if os.Getenv("KINLINT_DEBUG") != "" {
			for site := range t.Opaque {
				fmt.Println("OPAQUE", site.Parent().String(), p.Pos(site.Pos()))
			}
			for _, fn := range t.Funcs {
				for _, prm := range fn.Params {
					if t.Tainted(prm) {
						fmt.Println("TAINTED-PARAM", fn.String(), prm.Name())
					}
				}
			}
		}
		r.Extra["tainted_values"] = t.TaintedCount()
		r.Extra["sources"] = nsrc
		r.Extra["reason_stores"] = nStores
		r.Extra["tainted_fields"] = t.FieldTaints()
	})
}
