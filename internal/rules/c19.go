package rules

import (
	"fmt"
	"go/ast"
	"go/types"
	"os"
	"strings"

	"golang.org/x/tools/go/ssa"
	"golang.org/x/tools/go/ssa/ssautil"

	"verif/internal/core"
)

func init() { register("C19", c19) }

// c19: schema error reasons never contain the rejected value. Taint analysis: sources are the value
// parameters of the exported validation entry points (everything derived by element access,
// conversion, formatting); sinks are all stores into SchemaError.Reason.
func c19(r *core.Report) {
	c19SettingsCopy(r)
	c19Customizer(r)
	c19Reason(r)
	r.RunRule("C19.wire", "the caller's message function reaches every schema validation of the filter: ValidateRequestBody, ValidateParameter and ValidateResponse pass SetSchemaErrorMessageCustomizer exactly when Options.customSchemaErrorFunc is set, and add it to the option list before the list is used (a validation that runs before the option is added reports with the default text, which quotes the value)", 3, func() {
		for _, fn := range []string{"ValidateRequestBody", "ValidateParameter", "ValidateResponse"} {
			checkWiring(r, fn, []wiringRow{{"SetSchemaErrorMessageCustomizer", "customSchemaErrorFunc", true}}, nil)
		}
	})
	p := r.Prog
	p.BuildSSA()
	r.Assumption("user-registered format validators and custom regex compilers are outside the repository: their error text is copied into Reason by err.Error(); the repo cannot constrain them")
	r.Assumption("aliasing is field-based (a value stored into a struct field may be loaded from any instance of that field); keys of the validated object are property names, not leaf values, and are not sources")
	schemaErr := p.NamedType("openapi3", "SchemaError")

	r.RunRule("C19.taint", "no data flow from the validated value (parameter `value` of VisitJSON*/IsMatching*/visitJSON and everything derived from it by element access, range values, conversion, type assertion, string concatenation, library calls and fmt formatting - verb-aware: an operand consumed by %T is a type name) into any store to SchemaError.Reason; err.Error() is resolved through the VTA call graph and refined by errors.As tests", 32, func() {
		t := core.NewTaint(p)
		t.IsSink = func(owner *types.Named, f *types.Var) bool {
			// Origin too: SchemaError.Error prints the origin's text in place of the reason, also
			// with the details switched off
			return owner == schemaErr && (f.Name() == "Reason" || f.Name() == "Origin")
		}
		// sources
		nsrc := 0
		sp := p.SSAPkg("openapi3")
		schemaT := p.NamedType("openapi3", "Schema")
		ms := p.SSA.MethodSets.MethodSet(types.NewPointer(schemaT))
		for i := 0; i < ms.Len(); i++ {
			fn := p.SSA.MethodValue(ms.At(i))
			if fn == nil || fn.Blocks == nil {
				continue
			}
			name := fn.Name()
			if !(strings.HasPrefix(name, "VisitJSON") || strings.HasPrefix(name, "IsMatching") || strings.HasPrefix(name, "visitJSON") || name == "visitEnumOperation" || name == "visitNotOperation" || name == "visitXOFOperations" || name == "expectedType") {
				continue
			}
			for _, prm := range fn.Params {
				if prm.Name() == "value" {
					t.Mark(prm, fmt.Sprintf("source: parameter value of %s", name))
					nsrc++
				}
			}
		}
		_ = sp
		// format validators in the repo: their value parameter is a source as well (they are reached
		// through the FormatValidator interface)
		if os.Getenv("KINLINT_DEBUG") != "" {
			for fn := range ssautil.AllFunctions(p.SSA) {
				if strings.Contains(fn.String(), "callbackValidator") {
					fmt.Println("ALLF", fn.String(), fn.Blocks != nil, core.SSAFuncInRepo(fn), fn.Synthetic)
				}
			}
		}
		for _, fn := range p.RepoSSAFuncs() {
			if os.Getenv("KINLINT_DEBUG") != "" && fn.Name() == "Validate" && strings.Contains(fn.String(), "alidator") {
				fmt.Println("CAND", fn.String(), len(fn.Params), fn.Signature.Recv() != nil)
			}
			if (fn.Name() == "Validate" || strings.HasPrefix(fn.Name(), "Validate[")) && fn.Signature.Recv() != nil && len(fn.Params) == 2 && fn.Signature.Results().Len() == 1 {
				if rn := core.NamedOf(fn.Signature.Recv().Type()); rn != nil && strings.Contains(strings.ToLower(rn.Obj().Name()), "validator") || strings.Contains(fn.String(), "Format") {
					t.Mark(fn.Params[1], "source: value parameter of format validator "+fn.String())
					nsrc++
				}
			}
		}
		if nsrc < 15 {
			core.Fail("only %d taint sources resolved", nsrc)
		}
		t.Run()
		// enumerate all Reason stores
		hit := map[string]core.TaintHit{}
		for _, h := range t.Sinks {
			hit[fmt.Sprintf("%p/%d", h.Fn, h.Pos)] = h
		}
		nStores := 0
		perFn := map[string]int{}
		perFnOrigin := map[string]int{}
		for _, fn := range t.Funcs {
			for _, b := range fn.Blocks {
				for _, in := range b.Instrs {
					st, ok := in.(*ssa.Store)
					if !ok {
						continue
					}
					fa, ok := st.Addr.(*ssa.FieldAddr)
					if !ok {
						continue
					}
					n := core.NamedOf(fa.X.Type())
					if n == nil || n.Origin() != schemaErr {
						continue
					}
					stt := n.Underlying().(*types.Struct)
					field := stt.Field(fa.Field).Name()
					if field != "Reason" && field != "Origin" {
						continue
					}
					fname := fn.String()
					var key string
					if field == "Reason" {
						nStores++
						perFn[fname]++
						key = fmt.Sprintf("reason-store:%s#%d", strings.TrimPrefix(fname, "(*github.com/getkin/kin-openapi/"), perFn[fname])
					} else {
						perFnOrigin[fname]++
						key = fmt.Sprintf("origin-store:%s#%d", strings.TrimPrefix(fname, "(*github.com/getkin/kin-openapi/"), perFnOrigin[fname])
					}
					if h, bad := hit[fmt.Sprintf("%p/%d", fn, st.Pos())]; bad {
						r.Bad(key, p.Pos(st.Pos()), "the rejected value can flow into SchemaError."+field+" (Error() prints the origin's text when there is one): "+h.Why)
					} else if _, isConst := st.Val.(*ssa.Const); isConst {
						r.Trivial(key, p.Pos(st.Pos()), "constant reason")
					} else {
						r.OK(key, p.Pos(st.Pos()), "computed "+strings.ToLower(field)+", no flow from the value")
					}
				}
			}
		}
		if os.Getenv("KINLINT_DEBUG") != "" {
			for site := range t.Opaque {
				fmt.Println("OPAQUE", site.Parent().String(), p.Pos(site.Pos()))
			}
			for _, fn := range t.Funcs {
				for _, prm := range fn.Params {
					if t.Tainted(prm) {
						fmt.Println("TAINTED-PARAM", fn.String(), prm.Name())
					}
				}
			}
		}
		r.Extra["tainted_values"] = t.TaintedCount()
		r.Extra["sources"] = nsrc
		r.Extra["reason_stores"] = nStores
		r.Extra["tainted_fields"] = t.FieldTaints()
	})
}

// c19SettingsCopy: the message customiser (and every other per-call setting) follows every copy of
// the settings.
func c19SettingsCopy(r *core.Report) {
	p := r.Prog
	info := p.Pkg("openapi3").TypesInfo
	r.RunRule("C19.settingscopy", "a derived settings object keeps the caller's message customiser: wherever package openapi3 builds a schemaValidationSettings from another one (a composite literal at least three of whose fields are read from an existing settings value), every field of the struct other than the sync.Once is given — a copy that leaves customizeMessageError out makes the errors produced under it fall back to the default text, which quotes the rejected value", 0, func() {
		st := p.NamedType("openapi3", "schemaValidationSettings")
		sst := st.Underlying().(*types.Struct)
		n := 0
		for _, d := range p.AllDecls("openapi3") {
			perFn := 0
			ast.Inspect(d.Body, func(nd ast.Node) bool {
				cl, ok := nd.(*ast.CompositeLit)
				if !ok || core.NamedOf(info.TypeOf(cl)) != st {
					return true
				}
				given := map[string]bool{}
				fromSettings := 0
				for _, e := range cl.Elts {
					kv, ok := e.(*ast.KeyValueExpr)
					if !ok {
						continue
					}
					if id, ok := kv.Key.(*ast.Ident); ok {
						given[id.Name] = true
					}
					if sel, ok := ast.Unparen(kv.Value).(*ast.SelectorExpr); ok {
						if core.NamedOf(info.TypeOf(sel.X)) == st {
							fromSettings++
						}
					}
				}
				if fromSettings < 3 {
					return true
				}
				n++
				perFn++
				key := fmt.Sprintf("settingscopy:%s#%d", core.FuncName(d), perFn)
				// fields assigned right after on the holder count as given
				var missing []string
				for i := 0; i < sst.NumFields(); i++ {
					f := sst.Field(i)
					if nn := core.NamedOf(f.Type()); nn != nil && nn.Obj().Pkg() != nil && nn.Obj().Pkg().Path() == "sync" {
						continue
					}
					if given[f.Name()] {
						continue
					}
					// assigned later in the function on some variable of this type
					later := false
					ast.Inspect(d.Body, func(m ast.Node) bool {
						if as, ok := m.(*ast.AssignStmt); ok && as.Pos() > cl.Pos() {
							for _, l := range as.Lhs {
								if sel, ok := ast.Unparen(l).(*ast.SelectorExpr); ok && sel.Sel.Name == f.Name() && core.NamedOf(info.TypeOf(sel.X)) == st {
									later = true
								}
							}
						}
						return true
					})
					if !later {
						missing = append(missing, f.Name())
					}
				}
				r.Check(len(missing) == 0, key, p.Pos(cl.Pos()), "every setting is carried over", fmt.Sprintf("%s derives settings from existing ones without %s: validation under the derived settings ignores what the caller configured (without customizeMessageError the default error text, with the value dump, comes back)", core.FuncName(d), strings.Join(missing, ", ")))
				return true
			})
		}
		if n == 0 {
			r.Trivial("settingscopy:none", "-", "settings are never copied: every nested visit receives the caller's settings object itself")
		}
	})
}

// c19Customizer: the message customiser reaches every error a validation produces. SchemaError.Error
// falls back to the default text -- which quotes the rejected value and the schema -- whenever the
// error was built without the customiser of the settings it was produced under.
func c19Customizer(r *core.Report) {
	p := r.Prog
	info := p.Pkg("openapi3").TypesInfo
	r.RunRule("C19.customizer", "every validation error carries the caller's message customiser: each SchemaError composite literal in a function of package openapi3 that has a validation-settings parameter sets customizeMessageError, from that parameter", 25, func() {
		st := p.NamedType("openapi3", "schemaValidationSettings")
		for _, d := range p.AllDecls("openapi3") {
			if d.Body == nil {
				continue
			}
			var settings types.Object
			for _, f := range d.Type.Params.List {
				if pt, ok := info.TypeOf(f.Type).(*types.Pointer); ok && core.NamedOf(pt) == st && len(f.Names) == 1 {
					settings = info.ObjectOf(f.Names[0])
				}
			}
			if settings == nil {
				continue
			}
			for i, el := range schemaErrLits(info, d.Body) {
				key := fmt.Sprintf("customizer:%s#%d(%s)", core.FuncName(d), i+1, el.field)
				ok := false
				for _, e := range el.lit.Elts {
					if kv, isKV := e.(*ast.KeyValueExpr); isKV {
						if id, isID := kv.Key.(*ast.Ident); isID && id.Name == "customizeMessageError" {
							if sel, isSel := ast.Unparen(kv.Value).(*ast.SelectorExpr); isSel {
								if x, isX := ast.Unparen(sel.X).(*ast.Ident); isX && info.ObjectOf(x) == settings {
									ok = true
								}
							}
						}
					}
				}
				if ok {
					r.OK(key, p.Pos(el.lit.Pos()), "customizeMessageError taken from the settings")
				} else {
					r.Bad(key, p.Pos(el.lit.Pos()), fmt.Sprintf("the SchemaError (%s) built in %s does not carry the settings' message customiser: a caller who installed one (WithCustomSchemaErrorFunc, SetSchemaErrorMessageCustomizer) to keep values out of messages gets the default text for this error, and that text quotes the rejected value", el.field, core.FuncName(d)))
				}
			}
		}
	})
}

// litHasKey reports whether the composite literal gives the field, or the variable the literal is
// assigned to gets it assigned later in the function.
func litHasKey(info *types.Info, body *ast.BlockStmt, lit *ast.CompositeLit, field string) bool {
	for _, e := range lit.Elts {
		if kv, ok := e.(*ast.KeyValueExpr); ok {
			if id, ok := kv.Key.(*ast.Ident); ok && id.Name == field {
				return true
			}
		}
	}
	var holder types.Object
	for _, n := range core.PathTo(body, lit) {
		if as, ok := n.(*ast.AssignStmt); ok && len(as.Lhs) == 1 && len(as.Rhs) == 1 {
			rhs := ast.Unparen(as.Rhs[0])
			if u, ok := rhs.(*ast.UnaryExpr); ok {
				rhs = ast.Unparen(u.X)
			}
			if rhs == ast.Expr(lit) {
				if id, ok := ast.Unparen(as.Lhs[0]).(*ast.Ident); ok {
					holder = info.ObjectOf(id)
				}
			}
		}
	}
	if holder == nil {
		return false
	}
	assigns := func(n ast.Node) bool {
		found := false
		ast.Inspect(n, func(m ast.Node) bool {
			if as, ok := m.(*ast.AssignStmt); ok && as.Pos() > lit.Pos() {
				for _, l := range as.Lhs {
					if sel, ok := ast.Unparen(l).(*ast.SelectorExpr); ok && sel.Sel.Name == field {
						if id, ok := ast.Unparen(sel.X).(*ast.Ident); ok && info.ObjectOf(id) == holder {
							found = true
						}
					}
				}
			}
			return true
		})
		return found
	}
	// on every path: a plain statement of a block the literal's statement is in, an if/else whose
	// branches all assign, or a switch with a default whose clauses all assign
	for _, n := range core.PathTo(body, lit) {
		blk, ok := n.(*ast.BlockStmt)
		if !ok {
			continue
		}
		for _, st := range blk.List {
			if st.Pos() < lit.Pos() {
				continue
			}
			switch x := st.(type) {
			case *ast.AssignStmt:
				if assigns(x) {
					return true
				}
			case *ast.IfStmt:
				all := true
				var cur ast.Stmt = x
				for cur != nil {
					ifs, isIf := cur.(*ast.IfStmt)
					if !isIf {
						if !assigns(cur) {
							all = false
						}
						break
					}
					if !assigns(ifs.Body) {
						all = false
					}
					if ifs.Else == nil {
						all = false
					}
					cur = ifs.Else
				}
				if all {
					return true
				}
			case *ast.SwitchStmt:
				all, hasDefault := true, false
				for _, cl := range x.Body.List {
					cc := cl.(*ast.CaseClause)
					if cc.List == nil {
						hasDefault = true
					}
					if !assigns(cc) {
						all = false
					}
				}
				if all && hasDefault {
					return true
				}
			}
		}
	}
	return false
}

// c19Reason: a message function that answers with the reason alone gets something to answer with.
// SchemaError.Error falls back to the default text -- which quotes the rejected value -- when the
// customiser returns the empty string, and a reason-only customiser returns the empty string for
// an error built without a reason.
func c19Reason(r *core.Report) {
	p := r.Prog
	info := p.Pkg("openapi3").TypesInfo
	r.RunRule("C19.reason", "every validation error has a reason: each SchemaError composite literal in a function of package openapi3 that has a validation-settings parameter gives Reason (in the literal, or assigned to the variable holding it): for an error without one a reason-only message function returns the empty string and Error() falls back to the default text with the value", 25, func() {
		st := p.NamedType("openapi3", "schemaValidationSettings")
		for _, d := range p.AllDecls("openapi3") {
			if d.Body == nil {
				continue
			}
			has := false
			for _, f := range d.Type.Params.List {
				if pt, ok := info.TypeOf(f.Type).(*types.Pointer); ok && core.NamedOf(pt) == st {
					has = true
				}
			}
			if !has {
				continue
			}
			for i, el := range schemaErrLits(info, d.Body) {
				key := fmt.Sprintf("reason:%s#%d(%s)", core.FuncName(d), i+1, el.field)
				r.Check(litHasKey(info, d.Body, el.lit, "Reason"), key, p.Pos(el.lit.Pos()), "the error has a reason", fmt.Sprintf("the SchemaError (%s) built in %s has no Reason: a message function that returns the reason alone returns \"\" for it, and Error() then falls back to the default text, which quotes the rejected value", el.field, core.FuncName(d)))
			}
		}
	})
}
