// Package rules holds the repository-specific rules, one file per property.
package rules

import (
	"sort"

	"verif/internal/core"
)

var registry = map[string]func(r *core.Report){}

func register(id string, fn func(r *core.Report)) { registry[id] = fn }

// Lookup returns the rule set for a property id.
func Lookup(id string) func(r *core.Report) { return registry[id] }

// IDs lists implemented property ids.
func IDs() []string {
	var out []string
	for k := range registry {
		out = append(out, k)
	}
	sort.Strings(out)
	return out
}
