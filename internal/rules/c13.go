package rules

import (
	"fmt"
	"go/ast"
	"go/token"
	"go/types"
	"strings"

	"golang.org/x/tools/go/ssa"

	"verif/internal/core"
)

func init() { register("C13", c13) }

// ---- body consume/restore path-state analysis (structured abstract interpretation over the AST) ----

// bodyState: consumed = the request body has been read and not put back; dataSet = the bytes read
// are held in the local buffer (so `buf != nil` holds).
type bodyState struct{ consumed, dataSet, armed bool }

type bodyExit struct {
	pos   token.Pos
	state bodyState
	// readErr: the exit is the error exit of the read itself
	readErr bool
	what    string
}

type bodyInterp struct {
	info    *types.Info
	dataObj types.Object // the []byte local the body is read into
	exits   []bodyExit
	// deferred restore present?
	deferRestore bool
	reads        int
	restores     int
	callbacks    int
}

type stateSet map[bodyState]bool

func (s stateSet) clone() stateSet {
	o := stateSet{}
	for k := range s {
		o[k] = true
	}
	return o
}
func (s stateSet) union(o stateSet) stateSet {
	for k := range o {
		s[k] = true
	}
	return s
}

// isBodySel: e is X.Body where Body is a field of net/http.Request.
func isBodySel(info *types.Info, e ast.Expr) bool {
	f := core.FieldSel(info, e)
	return f != nil && f.Name() == "Body" && f.Pkg() != nil && f.Pkg().Path() == "net/http"
}

// findReadAll: the statement reads the body: `data, err = io.ReadAll(X.Body)`; returns the data object.
func (bi *bodyInterp) findReadAll(s ast.Stmt) (types.Object, bool) {
	var obj types.Object
	found := false
	ast.Inspect(s, func(n ast.Node) bool {
		as, ok := n.(*ast.AssignStmt)
		if !ok || len(as.Rhs) != 1 {
			return true
		}
		call, ok := as.Rhs[0].(*ast.CallExpr)
		if !ok || len(call.Args) != 1 {
			return true
		}
		callee := core.CalleeOf(bi.info, call)
		if callee == nil || callee.Name() != "ReadAll" || !isBodySel(bi.info, call.Args[0]) {
			return true
		}
		found = true
		if id, ok := as.Lhs[0].(*ast.Ident); ok {
			obj = bi.info.ObjectOf(id)
		}
		return false
	})
	return obj, found
}

// isRestoreIf: `if X.Body == nil { ...; X.Body, _ = X.GetBody() }` – after it the body is readable.
func (bi *bodyInterp) isRestoreIf(s ast.Stmt) bool {
	ifs, ok := s.(*ast.IfStmt)
	if !ok || ifs.Else != nil {
		return false
	}
	be, ok := ast.Unparen(ifs.Cond).(*ast.BinaryExpr)
	if !ok || be.Op != token.EQL || !isBodySel(bi.info, be.X) || !core.IsNil(bi.info, be.Y) {
		return false
	}
	return bi.assignsBodyFromGetBody(ifs.Body.List)
}

func (bi *bodyInterp) assignsBodyFromGetBody(list []ast.Stmt) bool {
	if len(list) == 0 {
		return false
	}
	as, ok := list[len(list)-1].(*ast.AssignStmt)
	if !ok || len(as.Rhs) != 1 || !isBodySel(bi.info, as.Lhs[0]) {
		return false
	}
	call, ok := as.Rhs[0].(*ast.CallExpr)
	if !ok {
		return false
	}
	f := core.FieldSel(bi.info, call.Fun)
	return f != nil && f.Name() == "GetBody"
}

// isCallback: a call of a value of named func type AuthenticationFunc (may read the body).
func (bi *bodyInterp) hasCallback(n ast.Node) bool {
	found := false
	ast.Inspect(n, func(n ast.Node) bool {
		if _, ok := n.(*ast.FuncLit); ok {
			return false
		}
		if c, ok := n.(*ast.CallExpr); ok {
			if nt := core.NamedOf(bi.info.TypeOf(c.Fun)); nt != nil && nt.Obj().Name() == "AuthenticationFunc" {
				found = true
			}
		}
		return !found
	})
	return found
}

func (bi *bodyInterp) transferSimple(s ast.Stmt, in stateSet) stateSet {
	out := stateSet{}
	if obj, ok := bi.findReadAll(s); ok {
		bi.reads++
		if obj != nil {
			bi.dataObj = obj
		}
		for range in {
			out[bodyState{consumed: true, dataSet: true}] = true
		}
		return out
	}
	if bi.hasCallback(s) {
		bi.callbacks++
		for st := range in {
			if st.dataSet {
				st.consumed = true
			}
			out[st] = true
		}
		return out
	}
	// direct `X.Body, _ = X.GetBody()` restore
	if as, ok := s.(*ast.AssignStmt); ok && bi.assignsBodyFromGetBody([]ast.Stmt{as}) {
		bi.restores++
		for st := range in {
			st.consumed = false
			out[st] = true
		}
		return out
	}
	return in.clone()
}

// condOnData evaluates conditions over the data buffer under a state: returns (canBeTrue, canBeFalse).
func (bi *bodyInterp) condOnData(cond ast.Expr, st bodyState) (bool, bool) {
	be, ok := ast.Unparen(cond).(*ast.BinaryExpr)
	if !ok || bi.dataObj == nil {
		return true, true
	}
	if id, ok := ast.Unparen(be.X).(*ast.Ident); ok && bi.info.ObjectOf(id) == bi.dataObj && core.IsNil(bi.info, be.Y) {
		if st.dataSet {
			// io.ReadAll never returns a nil slice together with a nil error
			if be.Op == token.NEQ {
				return true, false
			}
			if be.Op == token.EQL {
				return false, true
			}
		}
	}
	return true, true
}

// exec interprets a statement list; returns the fall-through states. brk/cont collect loop exits.
func (bi *bodyInterp) exec(list []ast.Stmt, in stateSet, brk, cont *stateSet, readErrCtx bool) stateSet {
	cur := in.clone()
	lastRead := false
	for _, s := range list {
		if len(cur) == 0 {
			return cur
		}
		prevRead := lastRead
		_, lastRead = bi.findReadAll(s)
		if _, isIf := s.(*ast.IfStmt); isIf {
			lastRead = false
		}
		switch x := s.(type) {
		case *ast.ReturnStmt:
			for st := range cur {
				bi.exits = append(bi.exits, bodyExit{pos: x.Pos(), state: st, readErr: readErrCtx, what: "return"})
			}
			return stateSet{}
		case *ast.BranchStmt:
			switch x.Tok {
			case token.BREAK:
				if brk != nil {
					brk.union(cur)
				}
			case token.CONTINUE:
				if cont != nil {
					cont.union(cur)
				}
			}
			return stateSet{}
		case *ast.BlockStmt:
			cur = bi.exec(x.List, cur, brk, cont, readErrCtx)
		case *ast.DeferStmt:
			// defer func() { <restore> }()
			if fl, ok := x.Call.Fun.(*ast.FuncLit); ok {
				sub := &bodyInterp{info: bi.info, dataObj: bi.dataObj}
				res := sub.exec(fl.Body.List, stateSet{bodyState{consumed: true, dataSet: true}: true}, nil, nil, false)
				allIntact := len(res) > 0
				for st := range res {
					if st.consumed {
						allIntact = false
					}
				}
				if allIntact && sub.restores > 0 {
					bi.deferRestore = true
					nxt := stateSet{}
					for st := range cur {
						st.armed = true
						nxt[st] = true
					}
					cur = nxt
				}
			}
		case *ast.IfStmt:
			if bi.isRestoreIf(x) {
				bi.restores++
				nxt := stateSet{}
				for st := range cur {
					st.consumed = false
					nxt[st] = true
				}
				cur = nxt
				continue
			}
			if x.Init != nil {
				cur = bi.transferSimple(x.Init, cur)
			}
			// is this the error test of the read itself?
			_, initReads := bi.findReadAll(stmtOrEmpty(x.Init))
			thenIn, elseIn := stateSet{}, stateSet{}
			for st := range cur {
				t, f := bi.condOnData(x.Cond, st)
				if t {
					thenIn[st] = true
				}
				if f {
					elseIn[st] = true
				}
			}
			rctx := readErrCtx || initReads || (prevRead && isErrNotNil(bi.info, x.Cond))
			thenOut := bi.exec(x.Body.List, thenIn, brk, cont, rctx)
			var elseOut stateSet
			switch e := x.Else.(type) {
			case nil:
				elseOut = elseIn
			case *ast.BlockStmt:
				elseOut = bi.exec(e.List, elseIn, brk, cont, readErrCtx)
			case *ast.IfStmt:
				elseOut = bi.exec([]ast.Stmt{e}, elseIn, brk, cont, readErrCtx)
			}
			cur = thenOut.union(elseOut)
		case *ast.ForStmt:
			cur = bi.loop(x.Body.List, cur, readErrCtx)
		case *ast.RangeStmt:
			cur = bi.loop(x.Body.List, cur, readErrCtx)
		case *ast.SwitchStmt:
			out := stateSet{}
			hasDefault := false
			for _, c := range x.Body.List {
				cc := c.(*ast.CaseClause)
				if cc.List == nil {
					hasDefault = true
				}
				b := stateSet{}
				o := bi.exec(cc.Body, cur, &b, cont, readErrCtx)
				out.union(o).union(b)
			}
			if !hasDefault {
				out.union(cur)
			}
			cur = out
		case *ast.TypeSwitchStmt:
			out := cur.clone()
			for _, c := range x.Body.List {
				b := stateSet{}
				o := bi.exec(c.(*ast.CaseClause).Body, cur, &b, cont, readErrCtx)
				out.union(o).union(b)
			}
			cur = out
		default:
			cur = bi.transferSimple(s, cur)
		}
	}
	return cur
}

func stmtOrEmpty(s ast.Stmt) ast.Stmt {
	if s == nil {
		return &ast.EmptyStmt{}
	}
	return s
}

func (bi *bodyInterp) loop(body []ast.Stmt, in stateSet, readErrCtx bool) stateSet {
	// fixpoint: states at loop head
	head := in.clone()
	exit := in.clone() // zero iterations
	for i := 0; i < 6; i++ {
		brk, cont := stateSet{}, stateSet{}
		out := bi.exec(body, head, &brk, &cont, readErrCtx)
		exit.union(out).union(brk).union(cont)
		n := len(head)
		head.union(out).union(cont)
		if len(head) == n {
			break
		}
	}
	return exit
}

func isErrNotNil(info *types.Info, cond ast.Expr) bool {
	be, ok := ast.Unparen(cond).(*ast.BinaryExpr)
	if !ok || be.Op != token.NEQ || !core.IsNil(info, be.Y) {
		return false
	}
	t := info.TypeOf(be.X)
	return t != nil && types.Identical(t, types.Universe.Lookup("error").Type())
}

func c13(r *core.Report) {
	c13Close(r)
	c13SecondPass(r)
	c13Captured(r)
	c13ReadGuard(r)
	c13IndexSpace(r)
	settingsReadOnly(r, "C13.settingsro")
	p := r.Prog
	pk := p.Pkg("openapi3filter")
	info := pk.TypesInfo
	r.Assumption("that the forwarded request re-validates, idempotence, byte identity and ContentLength/GetBody bookkeeping values are not decided")
	r.Assumption("a user AuthenticationFunc may read the request body (the code's own comment): modelled as consuming it when a body exists")

	r.RunRule("C13.body", "the request body is readable after validation, whatever the exit: path-state analysis {intact, consumed} over ValidateRequestBody and validateSecurityRequirement — io.ReadAll(req.Body) and the authentication callback consume; `if req.Body == nil {...; req.Body, _ = req.GetBody()}` (or a deferred one) restores; `buf != nil` is known true once the body was read into buf; every return other than the read's own error exit must be in state intact", 2, func() {
		for _, fname := range []string{"ValidateRequestBody", "validateSecurityRequirement"} {
			fd := p.DeclOf("openapi3filter", fname)
			bi := &bodyInterp{info: info}
			fall := bi.exec(fd.Body.List, stateSet{bodyState{}: true}, nil, nil, false)
			for st := range fall {
				bi.exits = append(bi.exits, bodyExit{pos: fd.Body.Rbrace, state: st, what: "end"})
			}
			if bi.reads == 0 {
				core.Fail("%s: no io.ReadAll(req.Body) found", fname)
			}
			if bi.restores == 0 && !bi.deferRestore {
				r.Bad("body:"+fname+"/restore", p.Pos(fd.Pos()), "the body is read but never put back")
				continue
			}
			seen := map[string]bool{}
			n := 0
			for _, e := range bi.exits {
				k := fmt.Sprintf("%d/%v/%v", e.pos, e.state.consumed, e.state.armed)
				if seen[k] {
					continue
				}
				seen[k] = true
				if !e.state.consumed || e.readErr || e.state.armed {
					continue
				}
				n++
				// key by the returned expression's shape, not by line
				r.Bad(fmt.Sprintf("body:%s/exit#%d", fname, n), p.Pos(e.pos), "this exit leaves the request body consumed: the next handler reads an empty body")
			}
			nExits := len(seen)
			if n == 0 {
				r.OK("body:"+fname, p.Pos(fd.Pos()), fmt.Sprintf("%d exits, all intact (reads=%v restores=%v deferred=%v callbacks=%v)", nExits, bi.reads > 0, bi.restores > 0, bi.deferRestore, bi.callbacks > 0))
			} else {
				r.OK("body:"+fname+"/other-exits", p.Pos(fd.Pos()), fmt.Sprintf("%d of %d exits intact", nExits-n, nExits))
			}
		}
	})

	c13Alias(r)

	r.RunRule("C13.matched", "defaults of unmatched oneOf/anyOf branches never touch the caller's value: inside the candidate loops of visitXOFOperations every visitJSON call gets a variable that, under `asreq || asrep`, was assigned deepcopy.Copy(value) in the same loop body before the call; the original value is visited only after the loop", 2, func() {
		oinfo := p.Pkg("openapi3").TypesInfo
		fd := p.DeclOf("openapi3", "Schema.visitXOFOperations")
		ff := core.NewFuncFacts(p, oinfo, fd)
		valueObj := core.ParamObj(oinfo, fd, "value")
		n := 0
		ast.Inspect(fd.Body, func(nn ast.Node) bool {
			rs, ok := nn.(*ast.RangeStmt)
			if !ok {
				return true
			}
			var tag string
			for f := range ff.Roots(rs.X, false).Fields {
				if f.Name() == "OneOf" || f.Name() == "AnyOf" {
					tag = f.Name()
				}
			}
			if tag == "" {
				return true
			}
			for _, c := range callsTo(oinfo, rs.Body, "visitJSON") {
				n++
				key := fmt.Sprintf("matched:%s#%d", tag, n)
				if len(c.Args) != 2 {
					r.Unknown(key, p.Pos(c.Pos()), "unexpected visitJSON call shape")
					continue
				}
				id, ok := ast.Unparen(c.Args[1]).(*ast.Ident)
				if !ok || oinfo.ObjectOf(id) == valueObj {
					r.Bad(key, p.Pos(c.Pos()), "a candidate branch is visited with the caller's value itself: its defaults are injected even if the branch does not match")
					continue
				}
				obj := oinfo.ObjectOf(id)
				copied := false
				for _, as := range ff.Assigns(obj) {
					st, ok := as.Stmt.(*ast.AssignStmt)
					if !ok || as.Rhs == nil || st.Pos() < rs.Body.Pos() || st.End() > c.Pos() {
						continue
					}
					call, ok := ast.Unparen(as.Rhs).(*ast.CallExpr)
					if !ok {
						continue
					}
					callee := core.CalleeOf(oinfo, call)
					if callee == nil || callee.Pkg() == nil || callee.Pkg().Path() != "github.com/mohae/deepcopy" || callee.Name() != "Copy" {
						continue
					}
					if len(call.Args) != 1 || !usesObj(oinfo, call.Args[0], valueObj) {
						continue
					}
					// guarded by asreq || asrep
					for _, a := range core.Atoms(core.GuardsAt(oinfo, rs.Body, st)) {
						s := core.ExprStr(a.Expr)
						if a.Pos && strings.Contains(s, "asreq") && strings.Contains(s, "asrep") {
							copied = true
						}
					}
				}
				r.Check(copied, key, p.Pos(c.Pos()), "candidate visited with deepcopy.Copy(value) when defaults may be set", "the candidate branch is not visited with a deep copy (github.com/mohae/deepcopy.Copy) of the value under asreq||asrep: defaults of a branch that does not match can leak into the request")
			}
			return true
		})
	})

	r.RunRule("C13.once", "defaults are reported once and the body is rewritten only when a default was set: the defaultsSet callback is invoked only through onceSettingDefaults.Do, and the re-encoding of the body in ValidateRequestBody is guarded by the flag that callback sets", 2, func() {
		oinfo := p.Pkg("openapi3").TypesInfo
		bad := token.NoPos
		viaOnce := 0
		for _, d := range p.AllDecls("openapi3") {
			ast.Inspect(d.Body, func(n ast.Node) bool {
				c, ok := n.(*ast.CallExpr)
				if !ok {
					return true
				}
				// direct call of the field value
				if f := core.FieldSel(oinfo, c.Fun); f != nil && f.Name() == "defaultsSet" {
					bad = c.Pos()
				}
				if id, ok := c.Fun.(*ast.Ident); ok {
					// local bound to the field: f := settings.defaultsSet; f()
					if v, ok := oinfo.ObjectOf(id).(*types.Var); ok {
						ff := core.NewFuncFacts(p, oinfo, d)
						for _, as := range ff.Assigns(v) {
							if as.Rhs != nil {
								if f := core.FieldSel(oinfo, as.Rhs); f != nil && f.Name() == "defaultsSet" {
									bad = c.Pos()
								}
							}
						}
					}
				}
				if callee := core.CalleeOf(oinfo, c); callee != nil && callee.Name() == "Do" && callee.Pkg() != nil && callee.Pkg().Path() == "sync" {
					if f := core.FieldSel(oinfo, c.Fun.(*ast.SelectorExpr).X); f != nil && f.Name() == "onceSettingDefaults" {
						viaOnce++
					}
				}
				return true
			})
		}
		r.Check(bad == token.NoPos && viaOnce >= 1, "once:callback", p.Pos(bad), fmt.Sprintf("defaultsSet reached only through onceSettingDefaults.Do (%d sites)", viaOnce), "the defaultsSet callback is called directly, bypassing the sync.Once")
		fd := p.DeclOf("openapi3filter", "ValidateRequestBody")
		enc := callsTo(info, fd.Body, "encodeBody")
		good := len(enc) == 1
		if good {
			good = false
			for _, a := range core.Atoms(core.GuardsAt(info, fd.Body, enc[0])) {
				if id, ok := ast.Unparen(a.Expr).(*ast.Ident); ok && a.Pos && id.Name == "defaultsSet" {
					good = true
				}
			}
		}
		r.Check(good, "once:reencode", p.Pos(fd.Pos()), "body re-encoded only under the defaultsSet flag", "the body is re-encoded without the defaultsSet flag: a request without defaults is not forwarded byte-for-byte")
	})

	r.RunRule("C13.skip", "with default-setting skipped nothing is written to the request: every statement of ValidateParameter that mutates the request (URL.RawQuery, Header.Add/Set, AddCookie) is guarded by !SkipSettingDefaults, and the DefaultsSet option is passed to the schema validator only under !SkipSettingDefaults", 4, func() {
		fd := p.DeclOf("openapi3filter", "ValidateParameter")
		n := 0
		ast.Inspect(fd.Body, func(nn ast.Node) bool {
			var site ast.Node
			what := ""
			switch x := nn.(type) {
			case *ast.AssignStmt:
				for _, l := range x.Lhs {
					if f := core.FieldSel(info, l); f != nil && f.Pkg() != nil && (f.Pkg().Path() == "net/url" || f.Pkg().Path() == "net/http") {
						site, what = x, "store to "+f.Name()
					}
				}
			case *ast.CallExpr:
				if callee := core.CalleeOf(info, x); callee != nil && callee.Pkg() != nil && callee.Pkg().Path() == "net/http" {
					switch callee.Name() {
					case "Add", "Set", "Del", "AddCookie":
						site, what = x, callee.Name()
					}
				}
			}
			if site == nil {
				return true
			}
			n++
			good := false
			for _, a := range core.Atoms(core.GuardsAt(info, fd.Body, site)) {
				if !a.Pos && optionFieldRead(info, a.Expr) == "SkipSettingDefaults" {
					good = true
				}
			}
			r.Check(good, fmt.Sprintf("skip:param-mutation#%d(%s)", n, what), p.Pos(site.Pos()), "guarded by !SkipSettingDefaults", "the request is mutated ("+what+") without the !SkipSettingDefaults guard")
			return true
		})
		if n < 3 {
			core.Fail("only %d request mutations found in ValidateParameter", n)
		}
		fb := p.DeclOf("openapi3filter", "ValidateRequestBody")
		ds := callsTo(info, fb.Body, "DefaultsSet")
		good := len(ds) == 1
		if good {
			good = false
			for _, a := range core.Atoms(core.GuardsAt(info, fb.Body, ds[0])) {
				if !a.Pos && optionFieldRead(info, a.Expr) == "SkipSettingDefaults" {
					good = true
				}
			}
		}
		r.Check(good, "skip:body-defaults", p.Pos(fb.Pos()), "DefaultsSet passed only under !SkipSettingDefaults", "body defaults can be injected although SkipSettingDefaults is set")
		// in the schema visitor defaults are written only when the DefaultsSet callback is present
		oinfo := p.Pkg("openapi3").TypesInfo
		vo := p.DeclOf("openapi3", "Schema.visitJSONObject")
		valueObj := core.ParamObj(oinfo, vo, "value")
		k := 0
		ast.Inspect(vo.Body, func(nn ast.Node) bool {
			as, ok := nn.(*ast.AssignStmt)
			if !ok || len(as.Lhs) != 1 {
				return true
			}
			ix, ok := as.Lhs[0].(*ast.IndexExpr)
			if !ok || !usesObj(oinfo, ix.X, valueObj) {
				return true
			}
			k++
			good := false
			for _, a := range core.Atoms(core.GuardsAt(oinfo, vo.Body, as)) {
				if a.Pos && strings.Contains(core.ExprStr(a.Expr), "!= nil") {
					ffv := core.NewFuncFacts(p, oinfo, vo)
					for f := range ffv.Roots(a.Expr, false).Fields {
						if f.Name() == "defaultsSet" {
							good = true
						}
					}
				}
			}
			r.Check(good, fmt.Sprintf("skip:value-write#%d", k), p.Pos(as.Pos()), "the validated object is written only when a DefaultsSet callback was supplied", "schema validation writes into the validated value without the DefaultsSet callback being requested")
			return true
		})
	})
	c13Format(r)
	c13Absent(r)
	c13ParamDefault(r)
	c13Probe(r)
}

// c13Alias: a document-owned payload is never stored into, or mutated through, a request value
// without a copy.
func c13Alias(r *core.Report) {
	p := r.Prog
	r.RunRule("C13.alias", "document-owned payloads (the `any`-typed fields of the document model: Schema.Default/Example/Enum, Parameter.Example, MediaType.Example, Example.Value, ...) never become part of a request value, and are never written through, unless copied by deepcopy.Copy: taint from loads of those fields; sinks are map updates and slice-element stores whose stored value or whose container is tainted, in functions reachable from request/response validation", 1, func() {
		p.BuildSSA()
		// traffic-reachable functions: the scope of both analyses
		var entries []*ssa.Function
		for _, e := range []string{"ValidateRequest", "ValidateResponse", "ValidateParameter", "ValidateRequestBody"} {
			entries = append(entries, p.SSAFuncOf("openapi3filter", e))
		}
		visit := p.SSAFuncOf("openapi3", "Schema.VisitJSON")
		entries = append(entries, visit)
		reach := p.Reachable(entries)
		var scope []*ssa.Function
		for _, fn := range p.RepoSSAFuncs() {
			if reach[fn] {
				scope = append(scope, fn)
			}
		}
		// sources: loads of `any`-typed (or []any) exported fields of openapi3 model structs
		srcFields := map[string]bool{}
		for _, n := range p.ModelTypes("openapi3", "T") {
			st := n.Underlying().(*types.Struct)
			for i := 0; i < st.NumFields(); i++ {
				f := st.Field(i)
				if f.Name() == "Extensions" || !f.Exported() {
					continue
				}
				ty := f.Type()
				if sl, ok := ty.Underlying().(*types.Slice); ok {
					ty = sl.Elem()
				}
				if it, ok := ty.Underlying().(*types.Interface); ok && it.Empty() {
					srcFields[n.Obj().Pkg().Path()+"."+n.Obj().Name()+"#"+f.Name()] = true
				}
			}
		}
		if len(srcFields) < 5 {
			core.Fail("only %d payload fields found", len(srcFields))
		}
		// analysis 1: "is (part of) a document-owned payload" – value flow only, no containment
		t := core.NewTaint(p)
		t.Funcs = scope
		t.NoContainment = true
		t.AliasMode = true
		t.SeedFields = srcFields
		t.Sanitizer = func(callee *ssa.Function) bool {
			return callee != nil && callee.Pkg != nil && callee.Pkg.Pkg.Path() == "github.com/mohae/deepcopy"
		}
		// A VisitJSON call whose options provably lack DefaultsSet cannot write into its value
		// (C13.skip/value-write establishes that every write into the value is guarded by the
		// DefaultsSet callback being present): the value argument does not flow as a writable
		// container through such a call. "Provably": the calling function never mentions DefaultsSet
		// and does not receive its options from a parameter.
		defaultsSetFn := p.SSAFuncOf("openapi3", "DefaultsSet")
		noDefaults := map[*ssa.Function]bool{}
		for _, fn := range scope {
			mentions := false
			for _, b := range fn.Blocks {
				for _, in := range b.Instrs {
					for _, op := range in.Operands(nil) {
						if *op == ssa.Value(defaultsSetFn) {
							mentions = true
						}
					}
				}
			}
			optsFromParam := false
			for _, prm := range fn.Params {
				if strings.Contains(prm.Type().String(), "SchemaValidationOption") {
					optsFromParam = true
				}
			}
			noDefaults[fn] = !mentions && !optsFromParam
		}
		blocked := 0
		t.BlockArg = func(site ssa.CallInstruction, callee *ssa.Function, idx int) bool {
			if callee == visit && idx == 1 && noDefaults[site.Parent()] {
				blocked++
				return true
			}
			return false
		}
		t.Run()
		r.Extra["visitjson_calls_without_defaultsset"] = blocked > 0
		// analysis 2: "is (part of) the validated request/response value"
		tv := core.NewTaint(p)
		tv.Funcs = scope
		tv.Sanitizer = t.Sanitizer
		for _, prm := range visit.Params {
			if prm.Name() == "value" {
				tv.Mark(prm, "the value given to VisitJSON")
			}
		}
		tv.Run()
		n := 0
		perFn := map[string]int{}
		for _, fn := range scope {
			for _, b := range fn.Blocks {
				for _, in := range b.Instrs {
					var val, cont ssa.Value
					switch x := in.(type) {
					case *ssa.MapUpdate:
						val, cont = x.Value, x.Map
					case *ssa.Store:
						if ia, ok := x.Addr.(*ssa.IndexAddr); ok {
							if _, isSlice := ia.X.Type().Underlying().(*types.Slice); isSlice {
								val, cont = x.Val, ia.X
							}
						}
					}
					if val == nil {
						continue
					}
					okT := false
					switch ct := cont.Type().Underlying().(type) {
					case *types.Map:
						if it, ok := ct.Elem().Underlying().(*types.Interface); ok && it.Empty() {
							okT = true
						}
					case *types.Slice:
						if it, ok := ct.Elem().Underlying().(*types.Interface); ok && it.Empty() {
							okT = true
						}
					}
					if !okT {
						continue
					}
					n++
					fname := strings.TrimPrefix(fn.String(), "(*"+core.ModPath+"/")
					fname = strings.TrimPrefix(fname, core.ModPath+"/")
					perFn[fname]++
					key := fmt.Sprintf("alias:%s#%d", fname, perFn[fname])
					switch {
					case t.Tainted(cont):
						r.Bad(key, p.Pos(in.Pos()), "a container that may be a document-owned payload (or part of one) is written through: the shared document is mutated by traffic: "+t.Why(cont))
					case t.Tainted(val) && tv.Tainted(cont):
						r.Bad(key, p.Pos(in.Pos()), "a document-owned payload is stored into the validated value without a copy (later writes to that value, e.g. nested defaults, then mutate the shared document): "+t.Why(val))
					default:
						r.OK(key, p.Pos(in.Pos()), "container is not a document payload; stored value is not a document payload stored into the validated value")
					}
				}
			}
		}
		r.Extra["alias_sources"] = len(srcFields)
		r.Extra["alias_sinks"] = n
	})
}

// c13Close: the deferred Close closes what was read, not what was put back.
func c13Close(r *core.Report) {
	p := r.Prog
	info := p.Pkg("openapi3filter").TypesInfo
	r.RunRule("C13.close", "the body handed on stays open: in every function of package openapi3filter that puts a fresh reader back into X.Body, a deferred Close of the consumed body binds its receiver when the defer statement runs (`defer X.Body.Close()`); a deferred function literal that selects X.Body only when it runs closes the reader that was just re-installed for the next handler and leaves the original open", 2, func() {
		n := 0
		for _, d := range p.AllDecls("openapi3filter") {
			// expressions whose .Body is assigned in this function (closures included)
			assigned := map[string]bool{}
			ast.Inspect(d.Body, func(nd ast.Node) bool {
				if as, ok := nd.(*ast.AssignStmt); ok {
					for _, l := range as.Lhs {
						if sel, ok := ast.Unparen(l).(*ast.SelectorExpr); ok && sel.Sel.Name == "Body" {
							if f := core.FieldSel(info, sel); f != nil && f.Pkg() != nil && f.Pkg().Path() == "net/http" {
								assigned[core.ExprStr(sel.X)] = true
							}
						}
					}
				}
				return true
			})
			if len(assigned) == 0 {
				continue
			}
			perFn := 0
			ast.Inspect(d.Body, func(nd ast.Node) bool {
				ds, ok := nd.(*ast.DeferStmt)
				if !ok {
					return true
				}
				// defer X.Body.Close(): receiver evaluated now
				if sel, ok := ds.Call.Fun.(*ast.SelectorExpr); ok && sel.Sel.Name == "Close" {
					if bs, ok := ast.Unparen(sel.X).(*ast.SelectorExpr); ok && bs.Sel.Name == "Body" && assigned[core.ExprStr(bs.X)] {
						n++
						perFn++
						r.OK(fmt.Sprintf("close:%s#%d", core.FuncName(d), perFn), p.Pos(ds.Pos()), "receiver bound when the defer statement runs")
					}
					return true
				}
				fl, ok := ds.Call.Fun.(*ast.FuncLit)
				if !ok {
					return true
				}
				ast.Inspect(fl.Body, func(m ast.Node) bool {
					c, ok := m.(*ast.CallExpr)
					if !ok {
						return true
					}
					sel, ok := c.Fun.(*ast.SelectorExpr)
					if !ok || sel.Sel.Name != "Close" {
						return true
					}
					if bs, ok := ast.Unparen(sel.X).(*ast.SelectorExpr); ok && bs.Sel.Name == "Body" && assigned[core.ExprStr(bs.X)] {
						n++
						perFn++
						r.Bad(fmt.Sprintf("close:%s#%d", core.FuncName(d), perFn), p.Pos(c.Pos()), fmt.Sprintf("the deferred function reads %s.Body when it runs, after the function has put a fresh reader there: it closes the body handed to the next handler and never closes the one that was read", core.ExprStr(bs.X)))
					}
					return true
				})
				return true
			})
		}
		if n == 0 {
			core.Fail("no deferred Close of a request/response body found")
		}
	})
}

// c13Format: a default written into the request has to read back as the same value. fmt.Sprint of a
// float64 (every number of a decoded document) switches to exponent notation at 1e+06, which the
// integer parser of the parameter decoders rejects; a list prints as `[1 2]`.
func c13Format(r *core.Report) {
	p := r.Prog
	info := p.Pkg("openapi3filter").TypesInfo
	r.RunRule("C13.format", "defaults are written in a form the decoders read back: in validate_request.go every fmt.Sprint / Sprintf(\"%v\") of a value whose static type is an interface or a type parameter (a default taken from the document) happens in a function that first handles float64 (and lists) itself — a type switch on that value with a float64 case — so that 1000000 is written `1000000`, not `1e+06`", 1, func() {
		k := 0
		for _, d := range p.AllDecls("openapi3filter") {
			if d.Body == nil || !strings.HasSuffix(p.Fset.Position(d.Pos()).Filename, "validate_request.go") {
				continue
			}
			ast.Inspect(d.Body, func(n ast.Node) bool {
				c, ok := n.(*ast.CallExpr)
				if !ok || len(c.Args) != 1 {
					return true
				}
				f := core.CalleeOf(info, c)
				if f == nil || f.FullName() != "fmt.Sprint" {
					return true
				}
				t := info.TypeOf(c.Args[0])
				_, isIface := t.Underlying().(*types.Interface)
				_, isTP := t.(*types.TypeParam)
				if !isIface && !isTP {
					return true
				}
				k++
				key := fmt.Sprintf("format:%s#%d", core.FuncName(d), k)
				// a type switch in the same function with a float64 case on the same value
				handled := false
				argObj := types.Object(nil)
				if id, ok := ast.Unparen(c.Args[0]).(*ast.Ident); ok {
					argObj = info.ObjectOf(id)
				}
				ast.Inspect(d.Body, func(m ast.Node) bool {
					ts, ok := m.(*ast.TypeSwitchStmt)
					if !ok {
						return true
					}
					var operand ast.Expr
					switch a := ts.Assign.(type) {
					case *ast.ExprStmt:
						if ta, ok := a.X.(*ast.TypeAssertExpr); ok {
							operand = ta.X
						}
					case *ast.AssignStmt:
						if ta, ok := a.Rhs[0].(*ast.TypeAssertExpr); ok {
							operand = ta.X
						}
					}
					if id, ok := ast.Unparen(operand).(*ast.Ident); !ok || argObj == nil || info.ObjectOf(id) != argObj {
						return true
					}
					for _, st := range ts.Body.List {
						for _, e := range st.(*ast.CaseClause).List {
							if tv, ok := info.Types[e]; ok && tv.IsType() {
								if b, ok := tv.Type.Underlying().(*types.Basic); ok && b.Kind() == types.Float64 {
									handled = true
								}
							}
						}
					}
					return true
				})
				if handled {
					r.OK(key, p.Pos(c.Pos()), "numbers are formatted before the general case")
				} else {
					r.Bad(key, p.Pos(c.Pos()), fmt.Sprintf("%s writes a default with fmt.Sprint(%s): a numeric default of a decoded document is a float64, which prints as `1e+06` from one million on (and a list as `[1 2]`); the rewritten request then fails the very validation that produced it", core.FuncName(d), core.ExprStr(c.Args[0])))
				}
				return true
			})
		}
		if k == 0 {
			core.Fail("no fmt.Sprint of a document value found in validate_request.go")
		}
	})
}

// c13Absent: a default stands in for an ABSENT property. An explicit null is a value the client
// sent: replacing it changes the request (and hides a null the schema forbids).
func c13Absent(r *core.Report) {
	p := r.Prog
	info := p.Pkg("openapi3").TypesInfo
	r.RunRule("C13.absent", "defaults are injected only for absent properties: every store of a schema's Default into the value being validated (`value[name] = ...Default...`) in package openapi3 is guarded by the absence of the key — a comma-ok lookup `_, present := value[name]` with `!present` — not by `value[name] == nil`, which is also true for an explicit null", 1, func() {
		k := 0
		for _, d := range p.AllDecls("openapi3") {
			if d.Body == nil {
				continue
			}
			// visitors only: functions that validate a value under settings
			isVisitor := false
			for _, f := range d.Type.Params.List {
				if pt, ok := info.TypeOf(f.Type).(*types.Pointer); ok {
					if nn := core.NamedOf(pt); nn != nil && nn.Obj().Name() == "schemaValidationSettings" {
						isVisitor = true
					}
				}
			}
			if !isVisitor {
				continue
			}
			ff := core.NewFuncFacts(p, info, d)
			ast.Inspect(d.Body, func(n ast.Node) bool {
				as, ok := n.(*ast.AssignStmt)
				if !ok || len(as.Lhs) != 1 || len(as.Rhs) != 1 {
					return true
				}
				ix, ok := ast.Unparen(as.Lhs[0]).(*ast.IndexExpr)
				if !ok {
					return true
				}
				if _, isMap := info.TypeOf(ix.X).Underlying().(*types.Map); !isMap {
					return true
				}
				// the stored value derives from a Default field
				fromDefault := false
				for f := range ff.Roots(as.Rhs[0], false).Fields {
					if f.Name() == "Default" {
						fromDefault = true
					}
				}
				if !fromDefault {
					return true
				}
				k++
				key := fmt.Sprintf("absent:%s#%d", core.FuncName(d), k)
				byPresence, byNil := false, false
				for _, a := range core.Atoms(core.GuardsAt(info, d.Body, as)) {
					if id, ok := ast.Unparen(a.Expr).(*ast.Ident); ok && !a.Pos {
						for _, asg := range ff.Assigns(info.ObjectOf(id)) {
							if asg.MapIndex != nil && core.ExprStr(asg.MapIndex.X) == core.ExprStr(ix.X) {
								byPresence = true
							}
						}
					}
					if be, ok := ast.Unparen(a.Expr).(*ast.BinaryExpr); ok {
						for _, pair := range [][2]ast.Expr{{be.X, be.Y}, {be.Y, be.X}} {
							if core.IsNil(info, pair[1]) {
								if ix2, ok := ast.Unparen(pair[0]).(*ast.IndexExpr); ok && core.ExprStr(ix2.X) == core.ExprStr(ix.X) && (be.Op == token.EQL) == a.Pos {
									byNil = true
								}
							}
						}
					}
				}
				switch {
				case byPresence:
					r.OK(key, p.Pos(as.Pos()), "guarded by the absence of the key")
				case byNil:
					r.Bad(key, p.Pos(as.Pos()), fmt.Sprintf("the default is stored when `%s == nil`: that holds for an absent property and for an explicit null alike, so `{\"a\": null}` is forwarded as `{\"a\": <default>}` — the request is changed beyond the insertion of defaults, and a null the schema forbids is never reported", core.ExprStr(as.Lhs[0])))
				default:
					r.Unknown(key, p.Pos(as.Pos()), "cannot tell under which condition the default is stored")
				}
				return true
			})
		}
		if k == 0 {
			core.Fail("no store of a schema Default into a value map found in openapi3")
		}
	})
}

// c13ParamDefault: a parameter default stands in for a parameter that is not in the request, once.
func c13ParamDefault(r *core.Report) {
	p := r.Prog
	info := p.Pkg("openapi3filter").TypesInfo
	fd := p.DeclOf("openapi3filter", "ValidateParameter")
	ff := core.NewFuncFacts(p, info, fd)
	r.RunRule("C13.paramabsent", "a parameter default is applied only to an absent parameter: in ValidateParameter every assignment of a schema's Default to the decoded value is reached only where the decoder's `found` result is false — `value == nil` alone is also true for a parameter that is present and empty (`?q=`), which then gets the default appended next to it on every validation", 1, func() {
		k := 0
		ast.Inspect(fd.Body, func(n ast.Node) bool {
			as, ok := n.(*ast.AssignStmt)
			if !ok || len(as.Lhs) != 1 || len(as.Rhs) != 1 {
				return true
			}
			sel, ok := ast.Unparen(as.Rhs[0]).(*ast.SelectorExpr)
			if !ok || sel.Sel.Name != "Default" {
				return true
			}
			k++
			key := fmt.Sprintf("paramabsent:default#%d", k)
			notFound := false
			for _, a := range core.Atoms(core.GuardsAt(info, fd.Body, as)) {
				id, ok := ast.Unparen(a.Expr).(*ast.Ident)
				if !ok || a.Pos {
					continue
				}
				// a bool assigned from a decode call's results
				for _, asg := range ff.Assigns(info.ObjectOf(id)) {
					if asg.Call != nil {
						if f := core.CalleeOf(info, asg.Call); f != nil && strings.HasPrefix(f.Name(), "decode") {
							notFound = true
						}
					}
				}
			}
			if notFound {
				r.OK(key, p.Pos(as.Pos()), "only when the decoder did not find the parameter")
			} else {
				r.Bad(key, p.Pos(as.Pos()), "the default is taken whenever the decoded value is nil, also for a parameter that is present and empty: `?q=` becomes `?q=&q=<default>`, and every further validation of the forwarded request appends another copy")
			}
			return true
		})
		if k == 0 {
			core.Fail("ValidateParameter no longer assigns a schema Default")
		}
	})
	r.RunRule("C13.querycache", "the parsed query kept with the input follows the rewritten URL: wherever openapi3filter assigns URL.RawQuery (a default was added), the same block also assigns the input's cached QueryParams — otherwise the next validation of the same input does not see the parameter and adds the default again", 1, func() {
		k := 0
		for _, d := range p.AllDecls("openapi3filter") {
			if d.Body == nil {
				continue
			}
			ast.Inspect(d.Body, func(n ast.Node) bool {
				blk, ok := n.(*ast.BlockStmt)
				var list []ast.Stmt
				if ok {
					list = blk.List
				} else if cc, isCC := n.(*ast.CaseClause); isCC {
					list = cc.Body
				} else {
					return true
				}
				for i, st := range list {
					as, ok := st.(*ast.AssignStmt)
					if !ok || len(as.Lhs) != 1 {
						continue
					}
					sel, ok := ast.Unparen(as.Lhs[0]).(*ast.SelectorExpr)
					if !ok || sel.Sel.Name != "RawQuery" {
						continue
					}
					k++
					key := fmt.Sprintf("querycache:%s#%d", core.FuncName(d), k)
					refreshed := false
					for _, st2 := range list[i+1:] {
						if as2, ok := st2.(*ast.AssignStmt); ok && len(as2.Lhs) == 1 {
							if s2, ok := ast.Unparen(as2.Lhs[0]).(*ast.SelectorExpr); ok && s2.Sel.Name == "QueryParams" {
								refreshed = true
							}
						}
					}
					if refreshed {
						r.OK(key, p.Pos(as.Pos()), "the cached query is refreshed with the URL")
					} else {
						r.Bad(key, p.Pos(as.Pos()), "the URL's query is rewritten but the query cached in the validation input (GetQueryParams) keeps the old one: validating the same input again finds the parameter missing and adds the default a second time")
					}
				}
				return true
			})
		}
		if k == 0 {
			core.Fail("no assignment to URL.RawQuery found in openapi3filter")
		}
	})
}

// c13Probe: a schema that is visited only to find out whether the value matches it -- the `not`
// schema, and each alternative of oneOf / anyOf before the match is known -- must not leave its
// defaults in the value: it is given a copy whenever defaults may be injected.
func c13Probe(r *core.Report) {
	p := r.Prog
	info := p.Pkg("openapi3").TypesInfo
	r.RunRule("C13.probe", "probing does not change the value: in visitNotOperation, and in the oneOf / anyOf loops of visitXOFOperations, the value handed to the sub-schema's visit is a variable that is assigned a deep copy of the value under `asreq || asrep` — never the visitor's own value parameter", 3, func() {
		for _, fn := range []string{"Schema.visitNotOperation", "Schema.visitXOFOperations"} {
			fd := p.DeclOf("openapi3", fn)
			ff := core.NewFuncFacts(p, info, fd)
			var valuePrm types.Object
			for _, f := range fd.Type.Params.List {
				if _, isIface := info.TypeOf(f.Type).Underlying().(*types.Interface); isIface && len(f.Names) == 1 {
					valuePrm = info.ObjectOf(f.Names[0])
				}
			}
			k := 0
			ast.Inspect(fd.Body, func(n ast.Node) bool {
				c, ok := n.(*ast.CallExpr)
				if !ok || len(c.Args) != 2 {
					return true
				}
				f := core.CalleeOf(info, c)
				if f == nil || f.Name() != "visitJSON" {
					return true
				}
				// probing calls only: those whose result decides (assigned / tested), not the final
				// `_ = x.visitJSON(settings, value)` that injects the matched alternative's defaults
				isFinal := false
				for _, anc := range core.PathTo(fd.Body, c) {
					if as, ok := anc.(*ast.AssignStmt); ok && len(as.Lhs) == 1 {
						if id, ok := as.Lhs[0].(*ast.Ident); ok && id.Name == "_" {
							isFinal = true
						}
					}
				}
				if isFinal {
					return true
				}
				// allOf members all apply: their defaults belong in the value
				inAllOf := false
				for _, anc := range core.PathTo(fd.Body, c) {
					if rs, ok := anc.(*ast.RangeStmt); ok {
						for f := range ff.Roots(rs.X, false).Fields {
							if f.Name() == "AllOf" {
								inAllOf = true
							}
						}
					}
				}
				if inAllOf {
					return true
				}
				k++
				key := fmt.Sprintf("probe:%s#%d", fn, k)
				arg := ast.Unparen(c.Args[1])
				id, isID := arg.(*ast.Ident)
				copied := false
				predicate := ""
				if isID && info.ObjectOf(id) != valuePrm {
					for _, a := range ff.Assigns(info.ObjectOf(id)) {
						if ce, ok := ast.Unparen(a.Rhs).(*ast.CallExpr); ok && a.Rhs != nil {
							if g := core.CalleeOf(info, ce); g != nil && g.Name() == "Copy" {
								copied = true
								// the copy is made whenever defaults may be set, not when some predicate over
								// the sub-schema says it declares any (such predicates miss places)
								for _, at := range core.Atoms(core.GuardsAt(info, fd.Body, a.Stmt)) {
									ast.Inspect(at.Expr, func(m ast.Node) bool {
										if cc, ok := m.(*ast.CallExpr); ok {
											if fid, ok := ast.Unparen(cc.Fun).(*ast.Ident); ok && fid.Name == "len" {
												return true
											}
											if predicate == "" {
												predicate = core.ExprStr(at.Expr)
											}
										}
										return true
									})
								}
							}
						}
					}
				}
				if copied && predicate != "" {
					r.Bad(key, p.Pos(c.Pos()), fmt.Sprintf("%s copies the value before probing a sub-schema only when `%s` holds: where that predicate is false for a sub-schema that does set a default somewhere it does not look (below array items, below additionalProperties), the sub-schema is probed with the value itself and its defaults stay in the forwarded request although it did not match", fn, predicate))
				} else if copied {
					r.OK(key, p.Pos(c.Pos()), "the sub-schema is probed with a copy when defaults may be set")
				} else {
					r.Bad(key, p.Pos(c.Pos()), fmt.Sprintf("%s probes a sub-schema with %s, the value itself: when defaults are being set, a schema that turns out not to apply (the `not` schema of a valid value, a non-matching alternative) leaves its defaults in the request that is forwarded", fn, core.ExprStr(arg)))
				}
				return true
			})
		}
	})
}

// c13SecondPass: the alternatives of oneOf / anyOf are tried on copies of the value, so that the
// defaults of an alternative that does not match stay out; the defaults of the one that matches get
// into the real value by visiting it once more. That second visit is the only way defaults below a
// composition reach the forwarded request.
func c13SecondPass(r *core.Report) {
	p := r.Prog
	info := p.Pkg("openapi3").TypesInfo
	r.RunRule("C13.secondpass", "defaults of the matched alternative reach the real value: visitXOFOperations visits the matched oneOf alternative and the matched anyOf alternative once more with its own value parameter (result discarded), and those two visits depend on nothing but the direction flags and the match itself — no predicate over the matched schema (`declaresDefaults`-style shortcuts miss defaults that sit below a nested composition, which only this second visit reaches)", 2, func() {
		fd := p.DeclOf("openapi3", "Schema.visitXOFOperations")
		valueObj := core.ParamObj(info, fd, "value")
		n := 0
		ast.Inspect(fd.Body, func(nd ast.Node) bool {
			as, ok := nd.(*ast.AssignStmt)
			if !ok || len(as.Lhs) != 1 || len(as.Rhs) != 1 || core.ExprStr(as.Lhs[0]) != "_" {
				return true
			}
			c, ok := ast.Unparen(as.Rhs[0]).(*ast.CallExpr)
			if !ok || len(c.Args) != 2 {
				return true
			}
			if f := core.CalleeOf(info, c); f == nil || f.Name() != "visitJSON" {
				return true
			}
			if id, ok := ast.Unparen(c.Args[1]).(*ast.Ident); !ok || info.ObjectOf(id) != valueObj {
				return true
			}
			n++
			key := fmt.Sprintf("secondpass:visitXOFOperations#%d", n)
			foreign := ""
			for _, a := range core.Atoms(core.GuardsAt(info, fd.Body, as)) {
				ast.Inspect(a.Expr, func(m ast.Node) bool {
					if cc, ok := m.(*ast.CallExpr); ok {
						if id, ok := ast.Unparen(cc.Fun).(*ast.Ident); ok && id.Name == "len" {
							return true
						}
						if foreign == "" {
							foreign = core.ExprStr(a.Expr)
						}
					}
					return true
				})
			}
			r.Check(foreign == "", key, p.Pos(as.Pos()), "the second visit depends on the direction and the match only", "the visit that writes the matched alternative's defaults into the real value is conditioned on `"+foreign+"`: when that is false for a schema whose defaults sit deeper (below a nested oneOf/anyOf, which validates copies), they never reach the forwarded request")
			return true
		})
		if n < 2 {
			r.Bad("secondpass:missing", p.Pos(fd.Pos()), fmt.Sprintf("visitXOFOperations visits the matched alternative with the real value %d time(s); the oneOf and the anyOf branch each need one, or the defaults of the matched alternative are lost with the copies", n))
		}
	})
}

// c13Captured: the GetBody closure that ValidateRequestBody installs reads a variable of the
// function. That variable is the request body from then on; what happens to it afterwards happens to
// the body the caller gets back.
func c13Captured(r *core.Report) {
	p := r.Prog
	info := p.Pkg("openapi3filter").TypesInfo
	r.RunRule("C13.captured", "the bytes behind the installed GetBody change only on success: in ValidateRequestBody, a variable read by a function literal stored into req.GetBody is, after that store, never assigned together with an error from the same call (`data, err = f(...)`): when the call fails its zero result replaces the body, and the request handed back with the error can no longer be read through GetBody", 1, func() {
		fd := p.DeclOf("openapi3filter", "ValidateRequestBody")
		captured := map[types.Object]token.Pos{}
		ast.Inspect(fd.Body, func(nd ast.Node) bool {
			as, ok := nd.(*ast.AssignStmt)
			if !ok || len(as.Lhs) != 1 || len(as.Rhs) != 1 {
				return true
			}
			sel, ok := ast.Unparen(as.Lhs[0]).(*ast.SelectorExpr)
			fl, isLit := ast.Unparen(as.Rhs[0]).(*ast.FuncLit)
			if !ok || !isLit || sel.Sel.Name != "GetBody" {
				return true
			}
			ast.Inspect(fl.Body, func(m ast.Node) bool {
				if id, ok := m.(*ast.Ident); ok {
					if o, isVar := info.ObjectOf(id).(*types.Var); isVar && o.Pos() < fl.Pos() && o.Pos() > fd.Pos() && !o.IsField() {
						if _, seen := captured[o]; !seen {
							captured[o] = as.Pos()
						}
					}
				}
				return true
			})
			return true
		})
		if len(captured) == 0 {
			core.Fail("ValidateRequestBody installs no GetBody closure over a local")
		}
		n := 0
		for o, since := range captured {
			n++
			key := "captured:ValidateRequestBody/" + o.Name()
			bad := ""
			ast.Inspect(fd.Body, func(nd ast.Node) bool {
				as, ok := nd.(*ast.AssignStmt)
				if !ok || as.Pos() < since || len(as.Rhs) != 1 || len(as.Lhs) < 2 {
					return true
				}
				if _, isCall := ast.Unparen(as.Rhs[0]).(*ast.CallExpr); !isCall {
					return true
				}
				hasVar, hasErr := false, false
				for _, l := range as.Lhs {
					if id, ok := ast.Unparen(l).(*ast.Ident); ok {
						if info.ObjectOf(id) == o {
							hasVar = true
						}
						if t := info.TypeOf(id); t != nil && isErrorType(t) {
							hasErr = true
						}
					}
				}
				if hasVar && hasErr && bad == "" {
					bad = p.Pos(as.Pos())
				}
				return true
			})
			r.Check(bad == "", key, p.Pos(since), o.Name()+" changes only after the call that produces its new value succeeded", fmt.Sprintf("%s, which the installed GetBody reads, is assigned together with an error at %s: when that call fails, %s holds the call's zero result and the request returned with the error has lost its body", o.Name(), bad, o.Name()))
		}
		_ = n
	})
}

// settingsReadOnly: one settings object is shared by every nested visit of a validation (and the
// sync.Once in it decides whether the caller hears about defaults). A visitor that assigns a field of
// it, even for the duration of a sub-visit, changes the validation for everything visited meanwhile
// and afterwards.
func settingsReadOnly(r *core.Report, rule string) {
	p := r.Prog
	info := p.Pkg("openapi3").TypesInfo
	r.RunRule(rule, "validation settings are read-only during a visit: no function of package openapi3 assigns a field of a schemaValidationSettings value outside the option constructors (function literals of type SchemaValidationOption) and newSchemaValidationSettings — a visitor that swaps settings.defaultsSet for the duration of a sub-visit lets that sub-visit spend the sync.Once on its substitute, and the defaults written into the real value afterwards are never reported, so the body is forwarded without them", 0, func() {
		st := p.NamedType("openapi3", "schemaValidationSettings")
		optT := p.NamedType("openapi3", "SchemaValidationOption")
		n := 0
		for _, d := range p.AllDecls("openapi3") {
			if d.Body == nil || d.Name.Name == "newSchemaValidationSettings" {
				continue
			}
			k := 0
			var visit func(nd ast.Node) bool
			visit = func(nd ast.Node) bool {
				if fl, ok := nd.(*ast.FuncLit); ok {
					// an option constructor's closure
					if len(fl.Type.Params.List) == 1 {
						if pt, ok := info.TypeOf(fl.Type.Params.List[0].Type).(*types.Pointer); ok && core.NamedOf(pt) == st {
							_ = optT
							return false
						}
					}
					return true
				}
				as, ok := nd.(*ast.AssignStmt)
				if !ok {
					return true
				}
				for _, l := range as.Lhs {
					sel, ok := ast.Unparen(l).(*ast.SelectorExpr)
					if !ok {
						continue
					}
					if core.NamedOf(info.TypeOf(sel.X)) != st {
						continue
					}
					n++
					k++
					r.Bad(fmt.Sprintf("settingsro:%s#%d(%s)", core.FuncName(d), k, sel.Sel.Name), p.Pos(as.Pos()), fmt.Sprintf("%s assigns settings.%s while a validation is under way: the settings object is the one every nested and later visit of this validation reads (and its sync.Once fires once for all of them)", core.FuncName(d), sel.Sel.Name))
				}
				return true
			}
			ast.Inspect(d.Body, visit)
		}
		if n == 0 {
			r.Trivial("settingsro:none", "-", "no field of the validation settings is assigned outside the option constructors")
		}
	})
}
