package rules

import (
	"fmt"
	"go/token"
	"go/types"
	"sort"
	"strings"

	"golang.org/x/tools/go/ssa"

	"verif/internal/core"
)

// crashNilMap: a write into a nil map panics ("assignment to entry in nil map"). Every write in
// reachable code – m[k] = v, and the library methods that write for the caller (http.Header.Add/Set,
// url.Values.Add/Set, (*http.Request).AddCookie, which adds to r.Header) – is traced to where the map
// comes from.
func crashNilMap(r *core.Report, cs *crashScope, floor int) {
	p := r.Prog
	r.RunRule(cs.id+".nilmap", "every write into a map in reachable code (m[k] = v; http.Header.Add/Set, url.Values.Add/Set, (*http.Request).AddCookie) goes to a map that is made on every path to the write: a make/literal in the function, the result of a function of the module all of whose returns are such, of net/url's Query/ParseQuery or of http.ResponseWriter.Header; a parameter or captured variable is traced to every call site in the module (depth 4); a map loaded from a struct field (req.Header of a request the caller built) needs, on every path to the write, a nil test of that field or a store of a made map into it; a map taken out of a decoded value by a type assertion or type switch is accepted (decoders do not produce typed nil maps), and so is an argument supplied by code outside the module (gorilla/mux calling a BuildVarsFunc closure) – both are stated, not decided", floor, func() {
		nm := &nilMapper{p: p, cs: cs, memo: map[string]string{}}
		perFn := map[string]int{}
		sites := 0
		for _, fn := range cs.funcs {
			for _, b := range fn.Blocks {
				for i, in := range b.Instrs {
					var m ssa.Value
					what := ""
					field := "" // the map is this field of m (AddCookie)
					switch x := in.(type) {
					case *ssa.MapUpdate:
						m, what = x.Map, "m[k] = v"
					case ssa.CallInstruction:
						sc := x.Common().StaticCallee()
						if sc == nil || core.SSAFuncInRepo(sc) || len(x.Common().Args) == 0 {
							continue
						}
						switch sc.String() {
						case "(net/http.Header).Add", "(net/http.Header).Set", "(net/url.Values).Add", "(net/url.Values).Set":
							m, what = x.Common().Args[0], sc.Name()
						case "(*net/http.Request).AddCookie":
							m, what, field = x.Common().Args[0], "AddCookie", "Header"
						default:
							continue
						}
					default:
						continue
					}
					sites++
					name := shortFn(fn)
					perFn[name]++
					key := fmt.Sprintf("nilmap:%s#%d(%s)", name, perFn[name], what)
					var why string
					var ok bool
					if field != "" {
						why, ok = nm.fieldGuarded(fn, b, i, nm.key(m)+"."+field)
					} else {
						why, ok = nm.made(m, fn, b, i, 0, map[ssa.Value]bool{})
					}
					switch {
					case ok:
						r.OK(key, p.Pos(in.Pos()), why)
					case strings.HasPrefix(why, "?"):
						r.Unknown(key, p.Pos(in.Pos()), "the origin of the map written here is not one the rule knows: "+strings.TrimPrefix(why, "?"))
					default:
						r.Bad(key, p.Pos(in.Pos()), "write into a map that may be nil: "+why+" — assignment to an entry of a nil map panics")
					}
				}
			}
		}
		r.Extra[cs.id+"_map_write_sites"] = sites
	})
}

type nilMapper struct {
	p     *core.Prog
	cs    *crashScope
	memo  map[string]string
	depth int
}

// key: a structural name of the place a value was loaded from (parameter / field chain).
func (nm *nilMapper) key(v ssa.Value) string {
	switch x := v.(type) {
	case *ssa.Parameter:
		for i, q := range x.Parent().Params {
			if q == x {
				return fmt.Sprintf("p%d", i)
			}
		}
	case *ssa.FreeVar:
		for i, q := range x.Parent().FreeVars {
			if q == x {
				return fmt.Sprintf("f%d", i)
			}
		}
	case *ssa.ChangeType:
		return nm.key(x.X)
	case *ssa.MakeInterface:
		return nm.key(x.X)
	case *ssa.FieldAddr:
		_, f := fieldNames(x.X.Type(), x.Field)
		return nm.key(x.X) + "." + f
	case *ssa.Field:
		_, f := fieldNames(x.X.Type(), x.Field)
		return nm.key(x.X) + "." + f
	case *ssa.UnOp:
		if x.Op == token.MUL {
			switch ad := x.X.(type) {
			case *ssa.FieldAddr:
				return nm.key(ad)
			case *ssa.Alloc:
				if prm := boxedParam(ad); prm != nil {
					return nm.key(prm)
				}
				return fmt.Sprintf("local:%p", ad)
			}
		}
	}
	return fmt.Sprintf("v:%p", v)
}

// made: v is a non-nil map at instruction idx of block b of fn. A reason starting with "?" means
// undecided.
func (nm *nilMapper) made(v ssa.Value, fn *ssa.Function, b *ssa.BasicBlock, idx int, depth int, seen map[ssa.Value]bool) (string, bool) {
	if seen[v] {
		return "cycle of merged values", true
	}
	seen[v] = true
	if depth > 4 {
		return "?call chain deeper than 4", false
	}
	switch x := v.(type) {
	case *ssa.MakeMap:
		return "made in the function", true
	case *ssa.Const:
		if x.IsNil() {
			return "the map is the nil constant on a path", false
		}
	case *ssa.ChangeType:
		return nm.made(x.X, fn, b, idx, depth, seen)
	case *ssa.Phi:
		for i, e := range x.Edges {
			// the edge comes out of `if e != nil` (the other edge being the make of `if m == nil { m = make(...) }`)
			if i < len(x.Block().Preds) && nilTestedEdge(x.Block().Preds[i], x.Block(), e) {
				continue
			}
			if why, ok := nm.made(e, fn, b, idx, depth, seen); !ok {
				return why, false
			}
		}
		return "made on every merged path", true
	case *ssa.TypeAssert:
		return "taken out of a decoded value by a type assertion", true
	case *ssa.Extract:
		switch t := x.Tuple.(type) {
		case *ssa.TypeAssert:
			return "taken out of a decoded value by a type assertion", true
		case *ssa.Call:
			return nm.callResult(t, x.Index, depth, seen)
		}
	case *ssa.Call:
		return nm.callResult(x, 0, depth, seen)
	case *ssa.Parameter:
		return nm.argument(fn, x, depth, seen)
	case *ssa.FreeVar:
		// the variable's cell or value bound where the closure is made
		par := fn.Parent()
		if par == nil {
			return "?free variable without a parent", false
		}
		fi := -1
		for i, q := range fn.FreeVars {
			if q == x {
				fi = i
			}
		}
		for _, pb := range par.Blocks {
			for pi, in := range pb.Instrs {
				mc, ok := in.(*ssa.MakeClosure)
				if !ok || mc.Fn != ssa.Value(fn) || fi < 0 || fi >= len(mc.Bindings) {
					continue
				}
				return nm.made(mc.Bindings[fi], par, pb, pi, depth+1, seen)
			}
		}
		return "?closure creation not found", false
	case *ssa.UnOp:
		if x.Op != token.MUL {
			break
		}
		switch ad := x.X.(type) {
		case *ssa.FieldAddr:
			if owner, f := fieldNames(ad.X.Type(), ad.Field); owner == "RouteMatch" && f == "Vars" {
				if n := core.NamedOf(ad.X.Type()); n != nil && n.Obj().Pkg() != nil && n.Obj().Pkg().Path() == "github.com/gorilla/mux" {
					return "mux.RouteMatch.Vars: (*mux.Route).Match makes the map when it reports a match (library fact, gorilla/mux v1.8.0 route.go)", true
				}
			}
			return nm.fieldGuarded(fn, b, idx, nm.key(ad))
		case *ssa.Alloc:
			if prm := boxedParam(ad); prm != nil {
				return nm.argument(fn, prm, depth, seen)
			}
			// a local variable cell: everything stored into it
			n := 0
			for _, ref := range *ad.Referrers() {
				if st, ok := ref.(*ssa.Store); ok && st.Addr == ssa.Value(ad) {
					n++
					if why, ok := nm.made(st.Val, fn, st.Block(), 0, depth, seen); !ok {
						return why, false
					}
				}
			}
			if n == 0 {
				return "a local map variable that is never assigned (nil)", false
			}
			return "every value stored in the local variable is made", true
		case *ssa.FreeVar:
			// captured variable cell: the stores in the parent
			return nm.made(ad, fn, b, idx, depth, seen)
		}
	case *ssa.Alloc:
		// the cell of a captured variable (reached through a FreeVar binding)
		n := 0
		for _, ref := range *x.Referrers() {
			if st, ok := ref.(*ssa.Store); ok && st.Addr == ssa.Value(x) {
				n++
				if why, ok := nm.made(st.Val, x.Parent(), st.Block(), 0, depth, seen); !ok {
					return why, false
				}
			}
		}
		if n == 0 {
			return "a captured map variable that is never assigned (nil)", false
		}
		return "every value stored in the captured variable is made", true
	case *ssa.Lookup:
		return "?an entry of another map", false
	}
	return fmt.Sprintf("?%T %s", v, v.String()), false
}

func (nm *nilMapper) callResult(c *ssa.Call, ridx int, depth int, seen map[ssa.Value]bool) (string, bool) {
	if c.Common().IsInvoke() {
		m := c.Common().Method
		if m.Name() == "Header" && m.Pkg() != nil && m.Pkg().Path() == "net/http" {
			return "http.ResponseWriter.Header(): the header map of the response, never nil by the interface's contract", true
		}
		return "?result of the interface method " + m.FullName(), false
	}
	sc := c.Common().StaticCallee()
	if sc == nil {
		return "?result of a dynamic call", false
	}
	switch sc.String() {
	case "(*net/url.URL).Query", "net/url.ParseQuery":
		return sc.String() + " makes the map it returns", true
	case "(net/http.Header).Clone":
		return "?Header.Clone returns nil for a nil header", false
	}
	if !core.SSAFuncInRepo(sc) {
		return "?result of " + sc.String(), false
	}
	mk := fmt.Sprintf("%s/%d", sc.String(), ridx)
	if w, ok := nm.memo[mk]; ok {
		return strings.TrimPrefix(w, "!"), !strings.HasPrefix(w, "!")
	}
	nm.memo[mk] = "recursive result" // optimistic for recursion
	res, ok := "every return of "+shortFn(sc)+" gives a made map", true
	for _, b := range sc.Blocks {
		if len(b.Instrs) == 0 {
			continue
		}
		ret, isRet := b.Instrs[len(b.Instrs)-1].(*ssa.Return)
		if !isRet || ridx >= len(ret.Results) {
			continue
		}
		// a return next to a non-nil error is not used by a caller that tests the error; not modelled:
		// every return counts
		if why, good := nm.made(ret.Results[ridx], sc, b, len(b.Instrs)-1, depth+1, seen); !good {
			res, ok = shortFn(sc)+" returns a map that may be nil ("+strings.TrimPrefix(why, "?")+")", false
			if strings.HasPrefix(why, "?") {
				res = "?" + res
			}
			break
		}
	}
	if ok {
		nm.memo[mk] = res
	} else {
		nm.memo[mk] = "!" + res
	}
	return res, ok
}

// argument: parameter prm of fn is a made map at every call site in the module.
func (nm *nilMapper) argument(fn *ssa.Function, prm *ssa.Parameter, depth int, seen map[ssa.Value]bool) (string, bool) {
	pi := -1
	for i, q := range fn.Params {
		if q == prm {
			pi = i
		}
	}
	if pi < 0 {
		return "?parameter not found", false
	}
	node := nm.p.CallGraph().Nodes[fn]
	if node == nil && fn.Origin() != nil {
		node = nm.p.CallGraph().Nodes[fn.Origin()]
	}
	if node == nil {
		return "argument supplied by code outside the module (no caller in the module)", true
	}
	type site struct {
		caller *ssa.Function
		in     ssa.CallInstruction
	}
	var sites []site
	for _, e := range node.In {
		if e.Caller == nil || e.Caller.Func == nil || e.Site == nil || !core.SSAFuncInRepo(e.Caller.Func) {
			continue
		}
		if e.Caller.Func.Synthetic != "" {
			continue
		}
		sites = append(sites, site{e.Caller.Func, e.Site})
	}
	if len(sites) == 0 {
		return "argument supplied by code outside the module (no caller in the module)", true
	}
	sort.Slice(sites, func(i, j int) bool { return sites[i].in.Pos() < sites[j].in.Pos() })
	for _, s := range sites {
		args := s.in.Common().Args
		ai := pi
		if s.in.Common().IsInvoke() {
			ai = pi - 1 // the receiver is not among Args of an invoke
		}
		if _, isGo := s.in.(*ssa.Go); isGo {
			continue
		}
		if ai < 0 || ai >= len(args) {
			return "?argument position not found at " + nm.p.Pos(s.in.Pos()), false
		}
		b := s.in.Block()
		idx := 0
		for i, in := range b.Instrs {
			if in == ssa.Instruction(s.in) {
				idx = i
			}
		}
		seen2 := map[ssa.Value]bool{}
		for k := range seen {
			seen2[k] = true
		}
		if why, ok := nm.made(args[ai], s.caller, b, idx, depth+1, seen2); !ok {
			pre := ""
			if strings.HasPrefix(why, "?") {
				pre, why = "?", strings.TrimPrefix(why, "?")
			}
			return fmt.Sprintf("%sthe argument given by %s at %s: %s", pre, shortFn(s.caller), nm.p.Pos(s.in.Pos()), why), false
		}
	}
	return fmt.Sprintf("made at every one of the %d call sites in the module", len(sites)), true
}

// fieldGuarded: on every path from the entry of fn to instruction idx of block b, the field with
// access key k was tested against nil (and the path is the non-nil one) or a made map was stored
// into it.
func (nm *nilMapper) fieldGuarded(fn *ssa.Function, b *ssa.BasicBlock, idx int, k string) (string, bool) {
	if strings.HasPrefix(k, "v:") || strings.Contains(k, "v:") {
		return "?the struct the map field belongs to is not a parameter/field chain", false
	}
	// a struct made in this function (composite literal whose field is given) is not handled: the
	// store into the field is what the scan below finds
	storeIn := func(blk *ssa.BasicBlock, upto int) bool {
		for i := upto - 1; i >= 0; i-- {
			// a helper of the module that is handed the struct and leaves the field made at every return
			if c, ok := blk.Instrs[i].(*ssa.Call); ok && !c.Common().IsInvoke() && nm.depth < 2 {
				if sc := c.Common().StaticCallee(); sc != nil && core.SSAFuncInRepo(sc) && len(sc.Blocks) > 0 {
					dot := strings.LastIndex(k, ".")
					for ai, arg := range c.Common().Args {
						if dot < 0 || nm.key(arg) != k[:dot] || ai >= len(sc.Params) {
							continue
						}
						all, n := true, 0
						nm.depth++
						for _, cb := range sc.Blocks {
							if len(cb.Instrs) == 0 {
								continue
							}
							if _, isRet := cb.Instrs[len(cb.Instrs)-1].(*ssa.Return); isRet {
								n++
								if _, good := nm.fieldGuarded(sc, cb, len(cb.Instrs)-1, fmt.Sprintf("p%d", ai)+k[dot:]); !good {
									all = false
								}
							}
						}
						nm.depth--
						if all && n > 0 {
							return true
						}
					}
				}
			}
			st, ok := blk.Instrs[i].(*ssa.Store)
			if !ok {
				continue
			}
			fa, ok := st.Addr.(*ssa.FieldAddr)
			if !ok || nm.key(fa) != k {
				continue
			}
			_, good := nm.made(st.Val, fn, blk, i, 0, map[ssa.Value]bool{})
			return good
		}
		return false
	}
	visited := map[*ssa.BasicBlock]bool{}
	var bad string
	var walk func(blk *ssa.BasicBlock, upto int) bool
	walk = func(blk *ssa.BasicBlock, upto int) bool {
		if storeIn(blk, upto) {
			return true
		}
		if len(blk.Preds) == 0 {
			bad = "a path from the entry of " + shortFn(fn) + " reaches the write without a nil test of the field and without a made map stored into it"
			return false
		}
		for _, pr := range blk.Preds {
			// the edge pr -> blk decided by a nil test of the field
			if iff, ok := pr.Instrs[len(pr.Instrs)-1].(*ssa.If); ok {
				if bo, ok := iff.Cond.(*ssa.BinOp); ok && (bo.Op == token.EQL || bo.Op == token.NEQ) {
					var other ssa.Value
					if c, ok := bo.Y.(*ssa.Const); ok && c.IsNil() {
						other = bo.X
					} else if c, ok := bo.X.(*ssa.Const); ok && c.IsNil() {
						other = bo.Y
					}
					if other != nil && nm.key(other) == k && len(pr.Succs) == 2 && pr.Succs[0] != pr.Succs[1] {
						nonNilSucc := pr.Succs[0]
						if bo.Op == token.EQL {
							nonNilSucc = pr.Succs[1]
						}
						if nonNilSucc == blk {
							continue
						}
					}
				}
			}
			if visited[pr] {
				continue
			}
			visited[pr] = true
			if !walk(pr, len(pr.Instrs)) {
				return false
			}
		}
		return true
	}
	if walk(b, idx) {
		return "the field is tested against nil, or given a made map, on every path to the write", true
	}
	return "the map is the field " + strings.TrimPrefix(k[strings.Index(k, ".")+1:], "") + " of a struct this function did not build (a request built by hand has no header map): " + bad, false
}

// nilTestedEdge: the edge pred -> blk is the one on which v was found non-nil.
func nilTestedEdge(pred, blk *ssa.BasicBlock, v ssa.Value) bool {
	if len(pred.Instrs) == 0 || len(pred.Succs) != 2 || pred.Succs[0] == pred.Succs[1] {
		return false
	}
	iff, ok := pred.Instrs[len(pred.Instrs)-1].(*ssa.If)
	if !ok {
		return false
	}
	bo, ok := iff.Cond.(*ssa.BinOp)
	if !ok || (bo.Op != token.EQL && bo.Op != token.NEQ) {
		return false
	}
	var other ssa.Value
	if c, ok := bo.Y.(*ssa.Const); ok && c.IsNil() {
		other = bo.X
	} else if c, ok := bo.X.(*ssa.Const); ok && c.IsNil() {
		other = bo.Y
	}
	if other != v {
		return false
	}
	nonNil := pred.Succs[0]
	if bo.Op == token.EQL {
		nonNil = pred.Succs[1]
	}
	return nonNil == blk
}

var _ = types.Typ
