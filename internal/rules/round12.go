package rules

import (
	"fmt"
	"go/ast"
	"go/token"
	"go/types"

	"verif/internal/core"
)

// Rules written after the twelfth round of seeded changes ("well-meant defensive changes"): each
// names the construct a guard, a skip or a friendlier error must not be put in front of.

// c14FlushStatus: the strict wrapper releases status and body together.
func c14FlushStatus(r *core.Report) {
	p := r.Prog
	info := p.Pkg("openapi3filter").TypesInfo
	r.RunRule("C14.flushstatus", "a released response carries the handler's status whatever its body: in strictResponseWrapper.flushBodyContents the call of WriteHeader on the client's writer is unconditional (not inside an if, switch or loop) and no return precedes it — a guard such as `if wr.body.Len() == 0 { return nil }` sends a valid 204 or 201 without body as an implicit 200", 1, func() {
		fd := p.DeclOf("openapi3filter", "strictResponseWrapper.flushBodyContents")
		var call *ast.CallExpr
		ast.Inspect(fd.Body, func(n ast.Node) bool {
			if c, ok := n.(*ast.CallExpr); ok {
				if f := core.CalleeOf(info, c); f != nil && f.Name() == "WriteHeader" && call == nil {
					call = c
				}
			}
			return true
		})
		if call == nil {
			r.Bad("flushstatus:WriteHeader", p.Pos(fd.Pos()), "flushBodyContents no longer writes the status at all")
			return
		}
		bad := ""
		for _, a := range core.PathTo(fd.Body, call) {
			switch a.(type) {
			case *ast.IfStmt, *ast.SwitchStmt, *ast.TypeSwitchStmt, *ast.ForStmt, *ast.RangeStmt, *ast.CaseClause:
				bad = "the WriteHeader call is conditional"
			}
		}
		ast.Inspect(fd.Body, func(n ast.Node) bool {
			if ret, ok := n.(*ast.ReturnStmt); ok && ret.Pos() < call.Pos() && bad == "" {
				bad = "a return at " + p.Pos(ret.Pos()) + " precedes the WriteHeader call"
			}
			return true
		})
		r.Check(bad == "", "flushstatus:WriteHeader", p.Pos(call.Pos()), "the status is written on every path", bad+": a response the validator accepted reaches the client with the status net/http supplies (200) instead of the handler's")
	})
}

// c07EveryRequirement: each requirement of the list is put to the callback (or found empty by
// validateSecurityRequirement itself) in turn.
func c07EveryRequirement(r *core.Report) {
	p := r.Prog
	info := p.Pkg("openapi3filter").TypesInfo
	r.RunRule("C07.everyreq", "no security requirement is skipped: in ValidateSecurityRequirements no `continue` or `break` stands, inside the loop over the requirements, before the call of validateSecurityRequirement — an empty requirement is satisfied by that call (it has no scheme to refuse), so skipping it turns `[{key: []}, {}]`, optional authentication, into mandatory authentication", 1, func() {
		fd := p.DeclOf("openapi3filter", "ValidateSecurityRequirements")
		n := 0
		ast.Inspect(fd.Body, func(nd ast.Node) bool {
			rs, ok := nd.(*ast.RangeStmt)
			if !ok {
				return true
			}
			calls := callsTo(info, rs.Body, "validateSecurityRequirement")
			if len(calls) == 0 {
				return true
			}
			n++
			first := calls[0].Pos()
			bad := ""
			ast.Inspect(rs.Body, func(m ast.Node) bool {
				if _, ok := m.(*ast.FuncLit); ok {
					return false
				}
				if b, ok := m.(*ast.BranchStmt); ok && (b.Tok == token.CONTINUE || b.Tok == token.BREAK) && b.Pos() < first && bad == "" {
					bad = "`" + b.Tok.String() + "` at " + p.Pos(b.Pos())
				}
				return true
			})
			r.Check(bad == "", "everyreq:loop", p.Pos(rs.Pos()), "every requirement reaches validateSecurityRequirement", bad+" leaves a requirement out before validateSecurityRequirement is asked: a requirement that would be satisfied (the empty one needs no authentication) no longer makes the request pass")
			return true
		})
		if n == 0 {
			core.Fail("ValidateSecurityRequirements: loop calling validateSecurityRequirement not found")
		}
	})
}

// c01NotAny: under `not`, whatever error the sub-schema reports means "does not match".
func c01NotAny(r *core.Report) {
	p := r.Prog
	info := p.Pkg("openapi3").TypesInfo
	r.RunRule("C01.notany", "a value matches `not` exactly when validating it against the sub-schema fails, whatever the failure looks like: in Schema.visitNotOperation the error of the sub-schema's visit is never returned — in fail-fast mode a mismatch is the bare sentinel errSchema, not a *SchemaError, so handing through 'errors that are not schema errors' rejects every value that is valid under `not` for IsMatching and FailFast()", 1, func() {
		fd := p.DeclOf("openapi3", "Schema.visitNotOperation")
		// variables bound to the result of a visitJSON call
		subErr := map[types.Object]bool{}
		ast.Inspect(fd.Body, func(n ast.Node) bool {
			as, ok := n.(*ast.AssignStmt)
			if !ok || len(as.Rhs) != 1 {
				return true
			}
			if c, ok := ast.Unparen(as.Rhs[0]).(*ast.CallExpr); ok {
				if f := core.CalleeOf(info, c); f != nil && (f.Name() == "visitJSON" || f.Name() == "VisitJSON") {
					for _, l := range as.Lhs {
						if id, ok := l.(*ast.Ident); ok {
							if o := info.ObjectOf(id); o != nil && isErrorType(o.Type()) {
								subErr[o] = true
							}
						}
					}
				}
			}
			return true
		})
		if len(subErr) == 0 {
			core.Fail("visitNotOperation: no error bound to a visitJSON call")
		}
		bad := ""
		ast.Inspect(fd.Body, func(n ast.Node) bool {
			ret, ok := n.(*ast.ReturnStmt)
			if !ok {
				return true
			}
			for _, e := range ret.Results {
				ast.Inspect(e, func(m ast.Node) bool {
					if id, ok := m.(*ast.Ident); ok && subErr[info.ObjectOf(id)] && bad == "" {
						bad = p.Pos(ret.Pos())
					}
					return true
				})
			}
			return true
		})
		r.Check(bad == "", "notany:visitNotOperation", p.Pos(fd.Pos()), "the sub-schema's error is only tested, never returned", "visitNotOperation returns the error of the sub-schema's visit at "+bad+": a mismatch of the `not` schema, which makes the value valid, is reported as a failure (in fail-fast mode every mismatch is the sentinel errSchema)")
	})
}

// c04IdentFail: a name that fails the pattern is refused.
func c04IdentFail(r *core.Report) {
	p := r.Prog
	info := p.Pkg("openapi3").TypesInfo
	r.RunRule("C04.identfail", "a component name that does not match IdentifierRegExp is an error on every path: in ValidateIdentifier every return that stands where the match has failed returns a non-nil error — a second look at the name (listing its invalid characters) that finds nothing to complain about, as for the empty name, must not turn the failure into a success", 1, func() {
		fd := p.DeclOf("openapi3", "ValidateIdentifier")
		n := 0
		ast.Inspect(fd.Body, func(nd ast.Node) bool {
			ret, ok := nd.(*ast.ReturnStmt)
			if !ok || len(ret.Results) != 1 {
				return true
			}
			matched := false
			for _, a := range core.Atoms(core.GuardsAt(info, fd.Body, ret)) {
				if c, ok := ast.Unparen(a.Expr).(*ast.CallExpr); ok && a.Pos {
					if f := core.CalleeOf(info, c); f != nil && f.Name() == "MatchString" {
						matched = true
					}
				}
			}
			if matched {
				return true
			}
			n++
			r.Check(!core.IsNil(info, ret.Results[0]), fmt.Sprintf("identfail:return#%d", n), p.Pos(ret.Pos()), "returns an error", "ValidateIdentifier returns nil where the name did not match the identifier pattern: such a name (the empty one) is accepted as a component key")
			return true
		})
		if n == 0 {
			core.Fail("ValidateIdentifier: no return on the failed-match path")
		}
	})
}

// c12KeyVerbatim: the path of an error is made of the keys of the value as they are.
func c12KeyVerbatim(r *core.Report) {
	p := r.Prog
	info := p.Pkg("openapi3").TypesInfo
	r.RunRule("C12.keyverbatim", "the tokens of an error's JSON pointer are the keys of the value as they stand in it: in markSchemaErrorKey what is appended to reversePath is the key parameter itself — JSONPointer() returns the tokens as a list, so a token escaped for printing (`/` as `~1`) is not a key of the value and the quoted value cannot be found at the pointer", 1, func() {
		fd := p.DeclOf("openapi3", "markSchemaErrorKey")
		key := paramAt(info, fd, 1) // (err, key)
		n := 0
		ast.Inspect(fd.Body, func(nd ast.Node) bool {
			c, ok := nd.(*ast.CallExpr)
			if !ok || len(c.Args) < 2 {
				return true
			}
			if id, ok := c.Fun.(*ast.Ident); !ok || id.Name != "append" {
				return true
			}
			if fv := core.FieldSel(info, ast.Unparen(c.Args[0])); fv == nil || fv.Name() != "reversePath" {
				return true
			}
			for _, a := range c.Args[1:] {
				n++
				id, ok := ast.Unparen(a).(*ast.Ident)
				r.Check(ok && info.ObjectOf(id) == key, fmt.Sprintf("keyverbatim:append#%d", n), p.Pos(c.Pos()), "the key itself", "markSchemaErrorKey records `"+core.ExprStr(a)+"` instead of the key it was given: the pointer of the error no longer names a location of the validated value")
			}
			return true
		})
		if n == 0 {
			core.Fail("markSchemaErrorKey: no append to reversePath found")
		}
	})
}

// c13ReadGuard: whether a request body is there to be buffered is told by req.Body alone.
func c13ReadGuard(r *core.Report) {
	p := r.Prog
	info := p.Pkg("openapi3filter").TypesInfo
	r.RunRule("C13.readguard", "a body is buffered whenever there is one: in package openapi3filter every io.ReadAll of the Body of an *http.Request stands under conditions that read no other field of net/http than Body (nil, http.NoBody) — ContentLength is 0 for a body of unknown length (a request built from a pipe or a wrapped stream), so a guard on it leaves the only copy of the body to the authentication callback and nothing for the validation and the next handler", 2, func() {
		n := 0
		for _, d := range p.AllDecls("openapi3filter") {
			if d.Body == nil {
				continue
			}
			perFn := 0
			for _, c := range callsTo(info, d.Body, "ReadAll") {
				if len(c.Args) != 1 {
					continue
				}
				f := core.FieldSel(info, ast.Unparen(c.Args[0]))
				if f == nil || f.Name() != "Body" || f.Pkg() == nil || f.Pkg().Path() != "net/http" {
					continue
				}
				if sel, ok := ast.Unparen(c.Args[0]).(*ast.SelectorExpr); ok {
					if n := core.NamedOf(info.TypeOf(sel.X)); n == nil || n.Obj().Name() != "Request" {
						continue
					}
				}
				n++
				perFn++
				var foreign []string
				for _, a := range core.Atoms(core.GuardsAt(info, d.Body, c)) {
					ast.Inspect(a.Expr, func(m ast.Node) bool {
						if sel, ok := m.(*ast.SelectorExpr); ok {
							if fv := core.FieldSel(info, sel); fv != nil && fv.Pkg() != nil && fv.Pkg().Path() == "net/http" && fv.Name() != "Body" {
								foreign = append(foreign, core.ExprStr(a.Expr))
							}
						}
						return true
					})
				}
				key := fmt.Sprintf("readguard:%s#%d", core.FuncName(d), perFn)
				bad := ""
				if len(foreign) > 0 {
					bad = foreign[0]
				}
				r.Check(bad == "", key, p.Pos(c.Pos()), "conditioned on req.Body only", "buffering the request body is conditioned on `"+bad+"`: a present body of unknown length is not buffered, is consumed by whoever reads it first and is missing afterwards")
			}
		}
		if n == 0 {
			core.Fail("no io.ReadAll of a request body found in openapi3filter")
		}
	})
}

// c04DecodeVerbatim: reading a document does not supply what the document left out.
func c04DecodeVerbatim(r *core.Report) {
	p := r.Prog
	info := p.Pkg("openapi3").TypesInfo
	r.RunRule("C04.decodeverbatim", "the decoder does not fill in what validation is there to demand: in the UnmarshalJSON methods of package openapi3 no field of the receiver is assigned a constant (true, false, a literal) — a path parameter whose `required` is left out or false must reach Parameter.Validate as it was written, not with Required already set", 40, func() {
		for _, d := range p.AllDecls("openapi3") {
			if d.Body == nil || d.Name.Name != "UnmarshalJSON" || d.Recv == nil {
				continue
			}
			recv := recvObj(info, d)
			bad := ""
			ast.Inspect(d.Body, func(n ast.Node) bool {
				as, ok := n.(*ast.AssignStmt)
				if !ok || len(as.Lhs) != len(as.Rhs) {
					return true
				}
				for i, l := range as.Lhs {
					sel, ok := ast.Unparen(l).(*ast.SelectorExpr)
					if !ok || core.FieldSel(info, sel) == nil {
						continue
					}
					id := core.RootIdent(sel.X)
					if id == nil || recv == nil || info.ObjectOf(id) != recv {
						continue
					}
					if tv, ok := info.Types[as.Rhs[i]]; ok && tv.Value != nil && bad == "" {
						bad = core.ExprStr(l) + " = " + core.ExprStr(as.Rhs[i]) + " at " + p.Pos(as.Pos())
					}
				}
				return true
			})
			r.Check(bad == "", "decodeverbatim:"+core.FuncName(d), p.Pos(d.Pos()), "no field of the receiver is set to a constant", core.FuncName(d)+" sets "+bad+": what the document leaves out (or states otherwise) is supplied while reading it, so the validator's check of that field can no longer fail")
		}
	})
}

// c17FileFormat: only `format: binary` makes a form property a file upload.
func c17FileFormat(r *core.Report) {
	p := r.Prog
	info := p.Pkg("openapi2conv").TypesInfo
	r.RunRule("C17.fileformat", "a form property comes back as a file parameter only for format binary: in package openapi2conv every condition under which the parameter type `file` is produced (a Types{\"file\"} literal) compares a Format field with no other constant than \"binary\" — `byte` is an ordinary string format in OpenAPI 2, and a base64 text field must come back as a string", 1, func() {
		n := 0
		for _, d := range p.AllDecls("openapi2conv") {
			if d.Body == nil {
				continue
			}
			perFn := 0
			ast.Inspect(d.Body, func(nd ast.Node) bool {
				cl, ok := nd.(*ast.CompositeLit)
				if !ok || len(cl.Elts) != 1 {
					return true
				}
				if s, ok := core.ConstStr(info, cl.Elts[0]); !ok || s != "file" {
					return true
				}
				if nt := core.NamedOf(info.TypeOf(cl)); nt == nil || nt.Obj().Name() != "Types" {
					return true
				}
				var formats []string
				for _, a := range core.Atoms(core.GuardsAt(info, d.Body, cl)) {
					ast.Inspect(a.Expr, func(m ast.Node) bool {
						be, ok := m.(*ast.BinaryExpr)
						if !ok || be.Op != token.EQL {
							return true
						}
						if fv := core.FieldSel(info, ast.Unparen(be.X)); fv != nil && fv.Name() == "Format" {
							if s, ok := core.ConstStr(info, be.Y); ok && s != "binary" && a.Pos {
								formats = append(formats, s)
							}
						}
						return true
					})
				}
				n++
				perFn++
				key := fmt.Sprintf("fileformat:%s#%d", core.FuncName(d), perFn)
				bad := ""
				if len(formats) > 0 {
					bad = formats[0]
				}
				r.Check(bad == "", key, p.Pos(cl.Pos()), "produced under format binary only", fmt.Sprintf("%s produces the parameter type `file` also for format %q: a string property of that format comes back from the round trip as a file upload", core.FuncName(d), bad))
				return true
			})
		}
		if n == 0 {
			core.Fail("no Types{\"file\"} literal found in openapi2conv")
		}
	})
}

// c18OptionVerbatim: tag options are compared as encoding/json compares them.
func c18OptionVerbatim(r *core.Report) {
	p := r.Prog
	info := p.Pkg("openapi3gen").TypesInfo
	r.RunRule("C18.optionverbatim", "tag options are matched exactly: in appendFields the switch (or comparison) that recognises the options \"string\" and \"omitempty\" is over the part of the tag as split at the commas, not over a trimmed, lower-cased or otherwise normalised copy — encoding/json does not normalise, so `json:\"count, string\"` leaves the field a number there while a lenient generator describes it as a string", 1, func() {
		fd := p.DeclOf("openapi3gen", "appendFields")
		n := 0
		ast.Inspect(fd.Body, func(nd ast.Node) bool {
			sw, ok := nd.(*ast.SwitchStmt)
			if !ok || sw.Tag == nil {
				return true
			}
			hasOption := false
			for _, c := range sw.Body.List {
				for _, e := range c.(*ast.CaseClause).List {
					if s, ok := core.ConstStr(info, e); ok && (s == "string" || s == "omitempty") {
						hasOption = true
					}
				}
			}
			if !hasOption {
				return true
			}
			n++
			_, isID := ast.Unparen(sw.Tag).(*ast.Ident)
			_, isIdx := ast.Unparen(sw.Tag).(*ast.IndexExpr)
			r.Check(isID || isIdx, fmt.Sprintf("optionverbatim:switch#%d", n), p.Pos(sw.Pos()), "the option as written", "appendFields recognises tag options through `"+core.ExprStr(sw.Tag)+"`: an option that encoding/json does not recognise in that spelling is honoured by the generator, and the schema describes another encoding than the one produced")
			return true
		})
		if n == 0 {
			core.Fail("appendFields: switch over tag options not found")
		}
	})
}

// c08LookupKeys: the media types Content.Get falls back to are the given one, the one without
// parameters, its type with a wildcard subtype, and the full wildcard.
func c08LookupKeys(r *core.Report) {
	p := r.Prog
	info := p.Pkg("openapi3").TypesInfo
	r.RunRule("C08.lookupkeys", "an undeclared content type stays undeclared: the keys Content.Get looks up are pieces of the given media type (the whole, the part before the parameters) or a piece followed by a constant (`type/` + `*`), or constants — never a key spliced together from two pieces of the given string (`application/` + `json` out of `application/problem+json`), which makes a response of a media type the document does not declare pass as one it does", 1, func() {
		fd := p.DeclOf("openapi3", "Content.Get")
		n := 0
		bad := ""
		ast.Inspect(fd.Body, func(nd ast.Node) bool {
			be, ok := nd.(*ast.BinaryExpr)
			if !ok || be.Op != token.ADD {
				return true
			}
			if b, ok := info.TypeOf(be).Underlying().(*types.Basic); !ok || b.Info()&types.IsString == 0 {
				return true
			}
			n++
			_, cx := core.ConstStr(info, be.X)
			_, cy := core.ConstStr(info, be.Y)
			if !cx && !cy && bad == "" {
				bad = core.ExprStr(be) + " at " + p.Pos(be.Pos())
			}
			return true
		})
		if n == 0 {
			core.Fail("Content.Get: no key construction found (type + \"/*\" expected)")
		}
		r.Check(bad == "", "lookupkeys:Content.Get", p.Pos(fd.Pos()), "keys are pieces of the given type, or a piece and a constant", "Content.Get builds the key `"+bad+"` from two pieces of the given media type: a media type that the document does not declare is looked up under another one's name and validated (and accepted) as that")
	})
}

// c06EveryPart: every part of a multipart body that was decoded is part of the decoded value.
func c06EveryPart(r *core.Report) {
	p := r.Prog
	info := p.Pkg("openapi3filter").TypesInfo
	r.RunRule("C06.everypart", "what a part decodes to is what the schema sees: in MultipartBodyDecoder's loop over the parts no `continue` stands after the call that decodes the part's body except under a test of that call's error — a part that decoded to the empty string is a property whose value is \"\", and skipping it keeps minLength, pattern and enum from ever seeing it", 1, func() {
		fd := p.DeclOf("openapi3filter", "MultipartBodyDecoder")
		n := 0
		ast.Inspect(fd.Body, func(nd ast.Node) bool {
			fs, ok := nd.(*ast.ForStmt)
			if !ok {
				return true
			}
			calls := callsTo(info, fs.Body, "decodeBody")
			if len(calls) == 0 {
				return true
			}
			n++
			dec := calls[0]
			bad := ""
			ast.Inspect(fs.Body, func(m ast.Node) bool {
				switch x := m.(type) {
				case *ast.FuncLit:
					return false
				case *ast.ForStmt, *ast.RangeStmt:
					if m != ast.Node(fs.Body) && x.Pos() > fs.Body.Pos() {
						return false // continue of an inner loop
					}
				case *ast.BranchStmt:
					if x.Tok != token.CONTINUE || x.Pos() < dec.End() || bad != "" {
						return true
					}
					// allowed under a test of an error
					underErr := false
					for _, a := range core.Atoms(core.GuardsAt(info, fs.Body, x)) {
						be, ok := ast.Unparen(a.Expr).(*ast.BinaryExpr)
						if !ok || !core.IsNil(info, be.Y) || (be.Op == token.NEQ) != a.Pos {
							continue // only "the error is not nil"
						}
						if id, ok := ast.Unparen(be.X).(*ast.Ident); ok {
							if o := info.ObjectOf(id); o != nil && isErrorType(o.Type()) {
								underErr = true
							}
						}
					}
					if !underErr {
						bad = p.Pos(x.Pos())
					}
				}
				return true
			})
			r.Check(bad == "", "everypart:loop", p.Pos(fs.Pos()), "every decoded part is recorded", "MultipartBodyDecoder skips a part with `continue` at "+bad+" after it was decoded, on a condition that is not a decoding error: the property is missing from the decoded object, so its value is never held against its schema")
			return true
		})
		if n == 0 {
			core.Fail("MultipartBodyDecoder: loop over the parts calling decodeBody not found")
		}
	})
}

// c02StopOnError: ResolveRefsIn stops its walk early only with an error in hand.
func c02StopOnError(r *core.Report) {
	p := r.Prog
	info := p.Pkg("openapi3").TypesInfo
	r.RunRule("C02.stoponerror", "resolution is all or an error: in Loader.ResolveRefsIn every return that stands inside one of the loops over the components and the path items is under the test that the function's error result is not nil (or returns a non-nil error expression) — a bare `return` on any other condition (a cancelled context) ends the walk with a nil error, and the caller gets a document whose remaining references are unresolved as if it were resolved", 5, func() {
		fd := p.DeclOf("openapi3", "Loader.ResolveRefsIn")
		var errObj types.Object
		if fd.Type.Results != nil {
			for _, f := range fd.Type.Results.List {
				for _, nm := range f.Names {
					if o := info.ObjectOf(nm); o != nil && isErrorType(o.Type()) {
						errObj = o
					}
				}
			}
		}
		n := 0
		ast.Inspect(fd.Body, func(nd ast.Node) bool {
			if _, ok := nd.(*ast.FuncLit); ok {
				return false
			}
			ret, ok := nd.(*ast.ReturnStmt)
			if !ok {
				return true
			}
			inLoop := false
			for _, a := range core.PathTo(fd.Body, ret) {
				switch a.(type) {
				case *ast.RangeStmt, *ast.ForStmt:
					inLoop = true
				}
			}
			if !inLoop {
				return true
			}
			n++
			key := fmt.Sprintf("stoponerror:return#%d", n)
			good := false
			if len(ret.Results) == 1 && !core.IsNil(info, ret.Results[0]) {
				// an error expression: a call or a variable tested non-nil below
				if _, isCall := ast.Unparen(ret.Results[0]).(*ast.CallExpr); isCall {
					good = true
				}
			}
			for _, a := range core.Atoms(core.GuardsAt(info, fd.Body, ret)) {
				be, ok := ast.Unparen(a.Expr).(*ast.BinaryExpr)
				if !ok || !core.IsNil(info, be.Y) || (be.Op == token.NEQ) != a.Pos {
					continue
				}
				if id, ok := ast.Unparen(be.X).(*ast.Ident); ok {
					o := info.ObjectOf(id)
					if o != nil && isErrorType(o.Type()) && (len(ret.Results) == 0 && o == errObj || len(ret.Results) == 1 && core.RootIdent(ret.Results[0]) != nil && info.ObjectOf(core.RootIdent(ret.Results[0])) == o) {
						good = true
					}
				}
			}
			r.Check(good, key, p.Pos(ret.Pos()), "returns with the error that stopped the walk", "ResolveRefsIn leaves its walk at "+p.Pos(ret.Pos())+" without the error result being known non-nil: the load reports success and every reference not yet visited stays unresolved")
			return true
		})
		if n == 0 {
			core.Fail("ResolveRefsIn: no return inside its loops")
		}
	})
}

// c09QueryCut: the text in which MatchURL looks for the start of the query is the encoded URL.
func c09QueryCut(r *core.Report) {
	p := r.Prog
	info := p.Pkg("openapi3").TypesInfo
	r.RunRule("C09.querycut", "a `?` that is data stays data: in Servers.MatchURL the string that is searched for `?` (and cut there) is built from the encoded form of the request URL (String(), EscapedPath(), RawPath) and not from the decoded Path field — in the decoded path an escaped `%3F` inside a segment is a bare `?`, so `/items/a%3Fb` is cut to `/items/a`, binds id=\"a\" and routes `/items/a%3Fb/history`, which matches no template", 1, func() {
		fd := p.DeclOf("openapi3", "Servers.MatchURL")
		ff := core.NewFuncFacts(p, info, fd)
		n := 0
		for _, name := range []string{"IndexByte", "Index", "IndexRune", "Cut", "SplitN", "Split"} {
			for _, c := range callsTo(info, fd.Body, name) {
				if len(c.Args) < 2 {
					continue
				}
				if s, ok := core.ConstStr(info, c.Args[1]); ok && s != "?" {
					continue
				} else if !ok {
					if tv, ok2 := info.Types[c.Args[1]]; !ok2 || tv.Value == nil || tv.Value.ExactString() != "63" {
						continue
					}
				}
				n++
				bad := false
				for f := range ff.Roots(c.Args[0], false).Fields {
					if f.Name() == "Path" && f.Pkg() != nil && f.Pkg().Path() == "net/url" {
						bad = true
					}
				}
				r.Check(!bad, fmt.Sprintf("querycut:MatchURL#%d", n), p.Pos(c.Pos()), "searched in the encoded URL", "Servers.MatchURL looks for `?` in a string built from the decoded Path of the request URL: an escaped question mark inside a path segment is taken for the start of the query, the rest of the path is dropped, and the binding returned does not reproduce the request path")
			}
		}
		if n == 0 {
			core.Fail("Servers.MatchURL: no search for '?' found")
		}
	})
}

// c03KeysVerbatim: the keys of the document's maps are data.
func c03KeysVerbatim(r *core.Report) {
	p := r.Prog
	r.RunRule("C03.keysverbatim", "map keys are read as they are written: in the UnmarshalJSON methods of packages openapi3 and openapi2 (and the helpers they share: unmarshalStringMap, unmarshalStringMapP, deepCast) no map entry is stored under a key that is the result of a function call — a key that is normalised while reading (a media type re-spelled by mime.FormatMediaType) is written back in another spelling, and two keys that normalise to the same text lose one of their entries", 5, func() {
		n := 0
		for _, rel := range []string{"openapi3", "openapi2"} {
			info := p.Pkg(rel).TypesInfo
			for _, d := range p.AllDecls(rel) {
				if d.Body == nil {
					continue
				}
				nm := d.Name.Name
				if nm != "UnmarshalJSON" && nm != "unmarshalStringMap" && nm != "unmarshalStringMapP" && nm != "deepCast" {
					continue
				}
				perFn := 0
				ast.Inspect(d.Body, func(nd ast.Node) bool {
					as, ok := nd.(*ast.AssignStmt)
					if !ok {
						return true
					}
					for _, l := range as.Lhs {
						ix, ok := ast.Unparen(l).(*ast.IndexExpr)
						if !ok {
							continue
						}
						if _, isMap := info.TypeOf(ix.X).Underlying().(*types.Map); !isMap {
							continue
						}
						n++
						perFn++
						key := fmt.Sprintf("keysverbatim:%s.%s#%d", rel, core.FuncName(d), perFn)
						bad := ""
						if c, ok := ast.Unparen(ix.Index).(*ast.CallExpr); ok {
							if tv, isConv := info.Types[c.Fun]; !isConv || !tv.IsType() {
								bad = core.ExprStr(ix.Index)
							}
						}
						r.Check(bad == "", key, p.Pos(as.Pos()), "stored under the key as read", core.FuncName(d)+" stores an entry under `"+bad+"`, a key computed from the one in the document: the document is written back with another key than it was read with, and keys that compute to the same text collapse into one entry")
					}
					return true
				})
			}
		}
		if n == 0 {
			core.Fail("no map store found in the unmarshallers")
		}
	})
}

// c09BaseTrim: routes are registered as base + template; the base has no trailing slash.
func c09BaseTrim(r *core.Report) {
	p := r.Prog
	info := p.Pkg("routers/gorillamux").TypesInfo
	r.RunRule("C09.basetrim", "a server's base path loses its trailing slash after the server URL is complete: in gorillamux.newSrv the value stored as the base of a server is a variable that is cut by one character under a test of its last byte being '/' (or passed through strings.TrimSuffix/TrimRight with \"/\") after it was taken from the parsed URL — trimming the URL template before a whole-URL variable is substituted leaves the slash of the variable's default in place, routes are registered as `/v1//items/{id}`, and no request under that server is routed", 1, func() {
		fd := p.DeclOf("routers/gorillamux", "newSrv")
		ff := core.NewFuncFacts(p, info, fd)
		n := 0
		ast.Inspect(fd.Body, func(nd ast.Node) bool {
			cl, ok := nd.(*ast.CompositeLit)
			if !ok {
				return true
			}
			for _, e := range cl.Elts {
				kv, ok := e.(*ast.KeyValueExpr)
				if !ok {
					continue
				}
				if k, ok := kv.Key.(*ast.Ident); !ok || k.Name != "base" {
					continue
				}
				n++
				trimmed := false
				isTrim := func(x ast.Expr) bool {
					switch y := ast.Unparen(x).(type) {
					case *ast.SliceExpr:
						return y.High != nil && y.Low == nil
					case *ast.CallExpr:
						if f := core.CalleeOf(info, y); f != nil && f.Pkg() != nil && f.Pkg().Path() == "strings" && (f.Name() == "TrimSuffix" || f.Name() == "TrimRight") && len(y.Args) == 2 {
							if s, ok := core.ConstStr(info, y.Args[1]); ok && s == "/" {
								return true
							}
						}
					}
					return false
				}
				if isTrim(kv.Value) {
					trimmed = true
				}
				if id, ok := ast.Unparen(kv.Value).(*ast.Ident); ok {
					for _, a := range ff.Assigns(info.ObjectOf(id)) {
						if a.Rhs != nil && isTrim(a.Rhs) {
							trimmed = true
						}
					}
				}
				r.Check(trimmed, "basetrim:newSrv", p.Pos(kv.Pos()), "the base path is trimmed after parsing", "newSrv stores the path of the parsed server URL as the base as it comes (`"+core.ExprStr(kv.Value)+"`): a server URL, or the default of a variable that stands for the whole URL, ending in `/` registers every route with a doubled slash, and nothing under that server is routed")
			}
			return true
		})
		if n == 0 {
			core.Fail("newSrv: no srv literal with a base field")
		}
	})
}
