package rules

import (
	"fmt"
	"go/ast"
	"go/token"
	"go/types"
	"sort"
	"strings"

	"golang.org/x/tools/go/ssa"

	"verif/internal/core"
)

func init() { register("C14", c14) }

func c14(r *core.Report) {
	c14NoUnwrap(r)
	c14FlushStatus(r)
	p := r.Prog
	p.BuildSSA()
	r.Assumption("behaviour over sequences of handler calls (no write at all, the strict-mode WriteHeader(0) case) is a history property of the wrapper state machine and is not decided")
	c14Retain(r)
	c14Implicit(r)
	c14Status(r)
	c14Informational(r)
	mw := p.SSAFuncOf("openapi3filter", "Validator.Middleware")
	if len(mw.AnonFuncs) != 1 {
		core.Fail("Validator.Middleware has %d closures, expected 1", len(mw.AnonFuncs))
	}
	cl := mw.AnonFuncs[0]

	find := func(fn *ssa.Function, pred func(ssa.CallInstruction) bool) []ssa.CallInstruction {
		var out []ssa.CallInstruction
		for _, s := range callSites(fn) {
			if pred(s) {
				out = append(out, s)
			}
		}
		return out
	}
	isDynField := func(s ssa.CallInstruction, field string) bool {
		c := s.Common()
		if c.IsInvoke() || c.StaticCallee() != nil {
			return false
		}
		_, f := loadedField(c.Value)
		return f == field
	}

	r.RunRule("C14.gate", "the wrapped handler runs only for valid requests: in the Middleware closure the handler's ServeHTTP is dominated by the nil edges of both FindRoute's and ValidateRequest's error, and each non-nil edge calls errFunc and returns; in ValidationHandler the handler is dominated by before()==false, before returns true exactly on validateRequest != nil, and validateRequest returns nil only past the nil edges of both calls", 8, func() {
		serve := find(cl, func(s ssa.CallInstruction) bool { return invokeName(s) == "ServeHTTP" })
		if len(serve) != 1 {
			core.Fail("expected exactly one ServeHTTP invoke in the middleware closure, found %d", len(serve))
		}
		sv := serve[0]
		frs := find(cl, func(s ssa.CallInstruction) bool { return invokeName(s) == "FindRoute" })
		vrs := find(cl, func(s ssa.CallInstruction) bool { return staticName(s) == "ValidateRequest" })
		if len(frs) != 1 || len(vrs) != 1 {
			core.Fail("FindRoute/ValidateRequest calls not found in the middleware closure (%d/%d)", len(frs), len(vrs))
		}
		frErr, vrErr := resultOf(frs[0], 2), resultOf(vrs[0], 0)
		if frErr == nil || vrErr == nil {
			core.Fail("error results of FindRoute/ValidateRequest are not used")
		}
		r.Check(core.NilEdgeDominates(frErr, sv.Block()), "gate:middleware/route-found", p.Pos(sv.Pos()), "handler dominated by FindRoute err == nil", "the handler can run although no route was found")
		r.Check(core.NilEdgeDominates(vrErr, sv.Block()), "gate:middleware/request-valid", p.Pos(sv.Pos()), "handler dominated by ValidateRequest err == nil", "the handler can run although request validation failed")
		// error edges answer with errFunc and return
		for _, e := range []struct {
			name string
			v    ssa.Value
		}{{"route-error-answered", frErr}, {"request-error-answered", vrErr}} {
			ok := false
			var pos = e.v.Pos()
			for _, s := range find(cl, func(s ssa.CallInstruction) bool { return isDynField(s, "errFunc") }) {
				if nonNilEdgeDominates(e.v, s.Block()) {
					// the block (or its unique successor chain) ends in a return without passing ServeHTTP
					ok = !reaches(s.Block(), sv.Block())
					pos = s.Pos()
				}
			}
			r.Check(ok, "gate:middleware/"+e.name, p.Pos(pos), "error edge calls errFunc and cannot reach the handler", "on the error edge the middleware does not answer through errFunc, or can still reach the handler")
		}
		// ValidationHandler
		for _, fname := range []string{"ValidationHandler.ServeHTTP", "ValidationHandler.Middleware"} {
			fn := p.SSAFuncOf("openapi3filter", fname)
			target := fn
			if fname == "ValidationHandler.Middleware" {
				if len(fn.AnonFuncs) != 1 {
					core.Fail("%s: expected one closure", fname)
				}
				target = fn.AnonFuncs[0]
			}
			sv := find(target, func(s ssa.CallInstruction) bool { return invokeName(s) == "ServeHTTP" })
			bf := find(target, func(s ssa.CallInstruction) bool { return staticName(s) == "ValidationHandler.before" })
			if len(sv) != 1 || len(bf) != 1 {
				core.Fail("%s: ServeHTTP/before calls not found (%d/%d)", fname, len(sv), len(bf))
			}
			r.Check(boolEdgeDominates(resultOf(bf[0], 0), false, sv[0].Block()), "gate:"+fname, p.Pos(sv[0].Pos()), "handler dominated by before() == false", "the next handler can run although before() reported the request as handled (invalid)")
		}
		// before: returns true iff validateRequest != nil
		bf := p.SSAFuncOf("openapi3filter", "ValidationHandler.before")
		vr := find(bf, func(s ssa.CallInstruction) bool { return staticName(s) == "ValidationHandler.validateRequest" })
		if len(vr) != 1 {
			core.Fail("before: validateRequest call not found")
		}
		verr := resultOf(vr[0], 0)
		okB := true
		nret := 0
		for _, b := range bf.Blocks {
			ret, ok := b.Instrs[len(b.Instrs)-1].(*ssa.Return)
			if !ok {
				continue
			}
			nret++
			c, isC := ret.Results[0].(*ssa.Const)
			if !isC {
				okB = false
				continue
			}
			if c.Value.String() == "true" && !nonNilEdgeDominates(verr, b) {
				okB = false
			}
			if c.Value.String() == "false" && !core.NilEdgeDominates(verr, b) {
				okB = false
			}
		}
		r.Check(okB && nret == 2, "gate:before", p.Pos(bf.Pos()), "before() == (validateRequest() != nil)", "before() does not return true exactly when validateRequest fails")
		// validateRequest: nil only after both nil edges
		vq := p.SSAFuncOf("openapi3filter", "ValidationHandler.validateRequest")
		fr := find(vq, func(s ssa.CallInstruction) bool { return invokeName(s) == "FindRoute" })
		vv := find(vq, func(s ssa.CallInstruction) bool { return staticName(s) == "ValidateRequest" })
		if len(fr) != 1 || len(vv) != 1 {
			core.Fail("validateRequest: FindRoute/ValidateRequest not found")
		}
		e1, e2 := resultOf(fr[0], 2), resultOf(vv[0], 0)
		okV := true
		for _, b := range vq.Blocks {
			ret, ok := b.Instrs[len(b.Instrs)-1].(*ssa.Return)
			if !ok {
				continue
			}
			if c, isC := ret.Results[0].(*ssa.Const); isC && c.IsNil() {
				if !(core.NilEdgeDominates(e1, b) && core.NilEdgeDominates(e2, b)) {
					okV = false
				}
			} else if ret.Results[0] != e1 && ret.Results[0] != e2 {
				// returns something else: must be provably one of the errors; phi of them is fine
				if phi, ok := ret.Results[0].(*ssa.Phi); ok {
					for _, ed := range phi.Edges {
						if ed != e1 && ed != e2 {
							okV = false
						}
					}
				} else {
					okV = false
				}
			}
		}
		r.Check(okV, "gate:validateRequest", p.Pos(vq.Pos()), "nil only after FindRoute and ValidateRequest both succeeded", "validateRequest can return nil although routing or validation failed")
	})

	r.RunRule("C14.wrap", "the handler is given the response wrapper, never the raw writer: the ResponseWriter argument of ServeHTTP in the middleware originates only from the strict wrapper literal and from newWarnResponseWrapper; the strict flag selects the strict wrapper", 2, func() {
		serve := find(cl, func(s ssa.CallInstruction) bool { return invokeName(s) == "ServeHTTP" })
		sv := serve[0]
		arg := sv.Common().Args[0]
		warnCtor := p.SSAFuncOf("openapi3filter", "newWarnResponseWrapper")
		origins := p.Origins(arg, core.ProvOpts{StopAt: func(c *ssa.Function) bool { return c == warnCtor }, IsEntry: func(fn *ssa.Function) bool { return fn == cl }})
		var bad, oks []string
		for _, o := range origins {
			switch {
			case o.Kind == "alloc":
				if n := core.NamedOf(o.Val.Type()); n != nil && n.Obj().Name() == "strictResponseWrapper" {
					oks = append(oks, "strictResponseWrapper literal")
				} else {
					bad = append(bad, o.String())
				}
			case o.Kind == "call" && o.Callee == warnCtor:
				oks = append(oks, "newWarnResponseWrapper(w)")
			default:
				bad = append(bad, o.String())
			}
		}
		sort.Strings(oks)
		r.Check(len(bad) == 0 && len(oks) == 2, "wrap:middleware", p.Pos(sv.Pos()), strings.Join(oks, " | "), "the handler's ResponseWriter can be something other than the two wrappers: "+strings.Join(bad, "; "))
		// strict flag selects strict wrapper
		okSel := false
		for _, b := range cl.Blocks {
			for _, in := range b.Instrs {
				if al, ok := in.(*ssa.Alloc); ok {
					if n := core.NamedOf(al.Type()); n != nil && n.Obj().Name() == "strictResponseWrapper" {
						// dominated by true edge of load of field strict
						for _, b2 := range cl.Blocks {
							if ifi, ok := b2.Instrs[len(b2.Instrs)-1].(*ssa.If); ok {
								if _, f := loadedField(ifi.Cond); f == "strict" && b2.Succs[0].Dominates(b) && len(b2.Succs[0].Preds) == 1 {
									okSel = true
								}
							}
						}
					}
				}
			}
		}
		r.Check(okSel, "wrap:strict-selects", p.Pos(cl.Pos()), "strict wrapper built on the v.strict edge", "the strict wrapper is not selected by the strict flag")
		// and only the strict flag: the pass-through wrapper is built on the `!strict` edge alone
		okOnly := false
		for _, s := range find(cl, func(s ssa.CallInstruction) bool { return s.Common().StaticCallee() == warnCtor }) {
			for _, b2 := range cl.Blocks {
				if ifi, ok := b2.Instrs[len(b2.Instrs)-1].(*ssa.If); ok {
					if _, f := loadedField(ifi.Cond); f == "strict" && len(b2.Succs[1].Preds) == 1 && b2.Succs[1].Dominates(s.Block()) {
						okOnly = true
					}
				}
			}
		}
		r.Check(okOnly, "wrap:strict-only", p.Pos(cl.Pos()), "the pass-through wrapper is built only when strict is off", "in strict mode the pass-through wrapper can still be chosen (the choice depends on something besides the strict flag): the handler's status and body then reach the client before the response was validated, and the server error is appended after them")
	})

	r.RunRule("C14.strict", "in strict mode nothing the handler wrote reaches the client before the response validated: among strictResponseWrapper's methods only flushBodyContents writes to the wrapped writer (Write/WriteHeader/Flush on field w), flushBodyContents is called only from the middleware closure and only on the `ValidateResponse == nil` edge; on the failing edge errFunc gets the raw writer under the strict flag; the recorded status is first-call-wins (as net/http)", 6, func() {
		strictT := p.NamedType("openapi3filter", "strictResponseWrapper")
		ms := p.SSA.MethodSets.MethodSet(types.NewPointer(strictT))
		nm := 0
		for i := 0; i < ms.Len(); i++ {
			fn := p.SSA.MethodValue(ms.At(i))
			if fn == nil || fn.Blocks == nil || fn.Synthetic != "" {
				continue
			}
			nm++
			for _, s := range callSites(fn) {
				name := invokeName(s)
				if name == "" {
					continue
				}
				_, f := loadedField(s.Common().Value)
				if f != "w" {
					continue
				}
				writes := name == "Write" || name == "WriteHeader" || name == "Flush" || name == "ReadFrom" || name == "Hijack" || name == "WriteString"
				if !writes {
					continue
				}
				key := fmt.Sprintf("strict-write:%s/%s", fn.Name(), name)
				r.Check(fn.Name() == "flushBodyContents", key, p.Pos(s.Pos()), "write-through inside flushBodyContents", "strictResponseWrapper."+fn.Name()+" writes to the client ("+name+") outside flushBodyContents: handler output can escape before the response is validated")
			}
		}
		if nm < 6 {
			core.Fail("strictResponseWrapper has only %d source methods", nm)
		}
		// callers of flushBodyContents
		fl := p.SSAFuncOf("openapi3filter", "strictResponseWrapper.flushBodyContents")
		var callers []string
		okCallers := true
		if n := p.CallGraph().Nodes[fl]; n != nil {
			for _, e := range n.In {
				c := e.Caller.Func
				if !core.SSAFuncInRepo(c) || c.Synthetic != "" {
					// synthetic wrapper: look one level up
					if c.Synthetic != "" {
						if n2 := p.CallGraph().Nodes[c]; n2 != nil {
							for _, e2 := range n2.In {
								callers = append(callers, e2.Caller.Func.String())
								if e2.Caller.Func != cl {
									okCallers = false
								}
							}
						}
					}
					continue
				}
				callers = append(callers, c.String())
				if c != cl {
					okCallers = false
				}
			}
		}
		r.Check(okCallers && len(callers) > 0, "strict-flush:callers", p.Pos(fl.Pos()), "flushBodyContents called only from the middleware closure", "flushBodyContents is called from elsewhere: "+strings.Join(callers, ", "))
		// flush dominated by ValidateResponse nil edge
		vresp := find(cl, func(s ssa.CallInstruction) bool { return staticName(s) == "ValidateResponse" })
		flush := find(cl, func(s ssa.CallInstruction) bool { return invokeName(s) == "flushBodyContents" })
		if len(vresp) != 1 || len(flush) != 1 {
			core.Fail("ValidateResponse/flushBodyContents not found in the middleware closure (%d/%d)", len(vresp), len(flush))
		}
		verr := resultOf(vresp[0], 0)
		r.Check(core.NilEdgeDominates(verr, flush[0].Block()), "strict-flush:after-valid-response", p.Pos(flush[0].Pos()), "flush dominated by ValidateResponse err == nil", "the buffered response can be flushed to the client although response validation failed")
		// the handler call precedes ValidateResponse, flush follows
		serve := find(cl, func(s ssa.CallInstruction) bool { return invokeName(s) == "ServeHTTP" })
		r.Check(serve[0].Block().Dominates(vresp[0].Block()), "strict-flush:validate-after-handler", p.Pos(vresp[0].Pos()), "ValidateResponse runs after the handler on every path", "ValidateResponse is not dominated by the handler call")
		// failing edge: errFunc with raw writer under strict
		okErr := false
		for _, s := range find(cl, func(s ssa.CallInstruction) bool { return isDynField(s, "errFunc") }) {
			if nonNilEdgeDominates(verr, s.Block()) {
				args := s.Common().Args
				if len(args) >= 2 {
					if prm, ok := args[1].(*ssa.Parameter); ok && prm.Parent() == cl {
						// under strict
						for _, b2 := range cl.Blocks {
							if ifi, ok := b2.Instrs[len(b2.Instrs)-1].(*ssa.If); ok {
								if _, f := loadedField(ifi.Cond); f == "strict" && b2.Succs[0].Dominates(s.Block()) {
									okErr = true
								}
							}
						}
					}
				}
			}
		}
		r.Check(okErr, "strict-flush:server-error", p.Pos(cl.Pos()), "invalid response answered through errFunc on the raw writer when strict", "on an invalid response in strict mode errFunc is not called with the raw writer")
		// first-call-wins status in both wrappers
		for _, tn := range []string{"strictResponseWrapper", "warnResponseWrapper"} {
			fn := p.SSAFuncOf("openapi3filter", tn+".WriteHeader")
			okOnce := false
			n := 0
			for _, b := range fn.Blocks {
				for _, in := range b.Instrs {
					st, ok := in.(*ssa.Store)
					if !ok {
						continue
					}
					fa, ok := st.Addr.(*ssa.FieldAddr)
					if !ok {
						continue
					}
					if _, f := fieldNames(fa.X.Type(), fa.Field); f == "status" {
						n++
						// dominated by the false edge of a load of headerWritten
						for _, b2 := range fn.Blocks {
							if ifi, ok := b2.Instrs[len(b2.Instrs)-1].(*ssa.If); ok {
								cond := ifi.Cond
								if _, f := loadedField(cond); f == "headerWritten" && b2.Succs[1].Dominates(b) && len(b2.Succs[1].Preds) == 1 {
									okOnce = true
								}
								if boolEdgeDominatesField(ifi, "headerWritten", false, b) {
									okOnce = true
								}
							}
						}
					}
				}
			}
			r.Check(okOnce && n == 1, "status-once:"+tn, p.Pos(fn.Pos()), "status stored only when the header was not written yet", "the recorded status can be overwritten by a later WriteHeader: the status validated and sent is not the one net/http would send (first call wins)")
		}
	})

	r.RunRule("C14.warn", "non-strict mode passes the handler's output through: warnResponseWrapper.WriteHeader calls the wrapped writer's WriteHeader on every path, Write writes to the tee on every path, and the tee's first sink is the wrapped writer", 3, func() {
		wh := p.SSAFuncOf("openapi3filter", "warnResponseWrapper.WriteHeader")
		// every return is dominated by a forwarding call (there may be several, on disjoint paths)
		var fwd []*ssa.BasicBlock
		for _, s := range callSites(wh) {
			if invokeName(s) == "WriteHeader" {
				if _, f := loadedField(s.Common().Value); f == "w" {
					fwd = append(fwd, s.Block())
				}
			}
		}
		ok1 := len(fwd) > 0
		for _, b := range wh.Blocks {
			if len(b.Instrs) == 0 {
				continue
			}
			if _, isRet := b.Instrs[len(b.Instrs)-1].(*ssa.Return); !isRet {
				continue
			}
			covered := false
			for _, fb := range fwd {
				if fb.Dominates(b) {
					covered = true
				}
			}
			if !covered {
				ok1 = false
			}
		}
		r.Check(ok1, "warn:WriteHeader", p.Pos(wh.Pos()), "forwards on every path", "warnResponseWrapper.WriteHeader does not forward to the wrapped writer on every path")
		wf := p.SSAFuncOf("openapi3filter", "warnResponseWrapper.Write")
		ok2 := false
		for _, s := range callSites(wf) {
			if invokeName(s) == "Write" {
				if _, f := loadedField(s.Common().Value); f == "tee" && dominatesAllReturns(s.Block(), wf) {
					ok2 = true
				}
			}
		}
		r.Check(ok2, "warn:Write", p.Pos(wf.Pos()), "writes to the tee on every path", "warnResponseWrapper.Write does not write through on every path")
		ctor := p.SSAFuncOf("openapi3filter", "newWarnResponseWrapper")
		ok3 := false
		for _, s := range callSites(ctor) {
			if sc := s.Common().StaticCallee(); sc != nil && sc.Name() == "MultiWriter" && len(s.Common().Args) == 1 {
				if sl, ok := s.Common().Args[0].(*ssa.Slice); ok {
					if al, ok := sl.X.(*ssa.Alloc); ok {
						for _, ref := range *al.Referrers() {
							if ia, ok := ref.(*ssa.IndexAddr); ok {
								for _, r2 := range *ia.Referrers() {
									if st, ok := r2.(*ssa.Store); ok {
										for _, o := range p.Origins(st.Val, core.ProvOpts{IsEntry: func(fn *ssa.Function) bool { return fn == ctor }}) {
											if o.Kind == "param" && o.Val.Name() == "w" {
												ok3 = true
											}
										}
									}
								}
							}
						}
					}
				}
			}
		}
		r.Check(ok3, "warn:tee", p.Pos(ctor.Pos()), "tee = MultiWriter(w, &body)", "the tee of the warn wrapper does not include the wrapped writer")
	})
}

// reaches: some path from a to b in the CFG.
func reaches(a, b *ssa.BasicBlock) bool {
	seen := map[*ssa.BasicBlock]bool{}
	var dfs func(x *ssa.BasicBlock) bool
	dfs = func(x *ssa.BasicBlock) bool {
		if x == b {
			return true
		}
		if seen[x] {
			return false
		}
		seen[x] = true
		for _, s := range x.Succs {
			if dfs(s) {
				return true
			}
		}
		return false
	}
	return dfs(a)
}

// boolEdgeDominatesField: the If tests (possibly negated) a load of the named field; reports whether
// blk is dominated by the edge on which the field == want.
func boolEdgeDominatesField(ifi *ssa.If, field string, want bool, blk *ssa.BasicBlock) bool {
	cond := ifi.Cond
	neg := false
	if u, ok := cond.(*ssa.UnOp); ok && u.Op.String() == "!" {
		cond = u.X
		neg = true
	}
	if _, f := loadedField(cond); f != field {
		return false
	}
	b := ifi.Block()
	takeTrue := want != neg
	succ := b.Succs[1]
	if takeTrue {
		succ = b.Succs[0]
	}
	return succ.Dominates(blk) && len(succ.Preds) == 1
}

// c14Retain: io.Writer's contract — Write must not retain p.
func c14Retain(r *core.Report) {
	p := r.Prog
	r.RunRule("C14.retain", "the response wrappers copy what the handler writes: in every Write([]byte) method of package openapi3filter the parameter slice (or a buffer constructed around it, bytes.NewBuffer(b)) is never stored into a field of the receiver — a handler may reuse its buffer for the next Write (io.Writer's contract), and a retained slice makes the body that is validated and flushed differ from what the handler wrote", 2, func() {
		n := 0
		for _, fn := range p.RepoSSAFuncs() {
			if fn.Pkg == nil || core.RelPkg(fn.Pkg.Pkg) != "openapi3filter" || fn.Name() != "Write" || fn.Signature.Recv() == nil || len(fn.Params) != 2 {
				continue
			}
			if sl, ok := fn.Params[1].Type().Underlying().(*types.Slice); !ok || !types.Identical(sl.Elem(), types.Typ[types.Byte]) {
				continue
			}
			n++
			key := "retain:" + shortFn(fn)
			prm := fn.Params[1]
			// values that alias the parameter's backing array
			alias := map[ssa.Value]bool{prm: true}
			changed := true
			for changed {
				changed = false
				for _, b := range fn.Blocks {
					for _, in := range b.Instrs {
						v, ok := in.(ssa.Value)
						if !ok || alias[v] {
							continue
						}
						switch x := in.(type) {
						case *ssa.Slice:
							if alias[x.X] {
								alias[v] = true
								changed = true
							}
						case *ssa.Call:
							if sc := x.Common().StaticCallee(); sc != nil && sc.Pkg != nil && sc.Pkg.Pkg.Path() == "bytes" && (sc.Name() == "NewBuffer" || sc.Name() == "NewReader") && len(x.Common().Args) == 1 && alias[x.Common().Args[0]] {
								alias[v] = true
								changed = true
							}
						case *ssa.UnOp:
							if alias[x.X] {
								alias[v] = true
								changed = true
							}
						case *ssa.Phi:
							for _, e := range x.Edges {
								if alias[e] {
									alias[v] = true
									changed = true
								}
							}
						case *ssa.MakeInterface:
							if alias[x.X] {
								alias[v] = true
								changed = true
							}
						}
					}
				}
			}
			bad := ""
			for _, b := range fn.Blocks {
				for _, in := range b.Instrs {
					st, ok := in.(*ssa.Store)
					if !ok || !alias[st.Val] {
						continue
					}
					if _, isLocal := st.Addr.(*ssa.Alloc); isLocal {
						continue
					}
					bad = p.Pos(st.Pos())
				}
			}
			r.Check(bad == "", key, p.Pos(fn.Pos()), "the written bytes are copied, not retained", "Write stores the caller's slice (or a buffer built around it) into the wrapper at "+bad+": a handler that reuses its buffer overwrites what was 'written' before it is validated and flushed")
		}
		if n == 0 {
			core.Fail("no Write method found in openapi3filter")
		}
	})
}

// c14Implicit: the first Write fixes the status. net/http sends an implicit 200 with the first
// Write, after which a WriteHeader call changes nothing; a wrapper that records the status must
// behave the same, or a late WriteHeader replaces the status the response is validated (and
// flushed) under.
func c14Implicit(r *core.Report) {
	p := r.Prog
	pkg := p.Pkg("openapi3filter")
	info := pkg.TypesInfo
	r.RunRule("C14.implicit", "the first Write fixes the status: in every response wrapper of package openapi3filter whose WriteHeader records the status once (it sets a boolean field of the receiver), Write either calls the receiver's WriteHeader or sets that field itself on every path, so that a WriteHeader after the first Write cannot change the recorded status", 2, func() {
		type wrap struct {
			write, hdr *ast.FuncDecl
		}
		ws := map[string]*wrap{}
		var names []string
		for _, d := range p.AllDecls("openapi3filter") {
			if d.Recv == nil || len(d.Recv.List) == 0 {
				continue
			}
			n := core.NamedOf(info.TypeOf(d.Recv.List[0].Type))
			if n == nil {
				continue
			}
			tn := n.Obj().Name()
			if d.Name.Name != "Write" && d.Name.Name != "WriteHeader" {
				continue
			}
			if ws[tn] == nil {
				ws[tn] = &wrap{}
				names = append(names, tn)
			}
			if d.Name.Name == "Write" {
				ws[tn].write = d
			} else {
				ws[tn].hdr = d
			}
		}
		sort.Strings(names)
		for _, tn := range names {
			w := ws[tn]
			if w.write == nil || w.hdr == nil || w.write.Body == nil || w.hdr.Body == nil {
				continue
			}
			recvObj := func(d *ast.FuncDecl) types.Object {
				if len(d.Recv.List[0].Names) == 0 {
					return nil
				}
				return info.ObjectOf(d.Recv.List[0].Names[0])
			}
			// the flag(s): boolean fields of the receiver that WriteHeader sets to true
			flags := map[string]bool{}
			hr := recvObj(w.hdr)
			ast.Inspect(w.hdr.Body, func(n ast.Node) bool {
				as, ok := n.(*ast.AssignStmt)
				if !ok {
					return true
				}
				for i, l := range as.Lhs {
					sel, ok := ast.Unparen(l).(*ast.SelectorExpr)
					if !ok || i >= len(as.Rhs) {
						continue
					}
					if id, ok := ast.Unparen(sel.X).(*ast.Ident); !ok || info.ObjectOf(id) != hr {
						continue
					}
					if v, ok := constBool(info, as.Rhs[i]); ok && v {
						flags[sel.Sel.Name] = true
					}
				}
				return true
			})
			key := "implicit:" + tn
			if len(flags) == 0 {
				r.Trivial(key, p.Pos(w.hdr.Pos()), "WriteHeader keeps no once-only flag")
				continue
			}
			// Write: a statement at the top level of the body (possibly under `if !recv.flag`) that calls
			// recv.WriteHeader or assigns recv.flag = true
			wr := recvObj(w.write)
			establishes := func(n ast.Node) bool {
				found := false
				ast.Inspect(n, func(m ast.Node) bool {
					switch x := m.(type) {
					case *ast.CallExpr:
						if sel, ok := ast.Unparen(x.Fun).(*ast.SelectorExpr); ok && sel.Sel.Name == "WriteHeader" {
							if id, ok := ast.Unparen(sel.X).(*ast.Ident); ok && info.ObjectOf(id) == wr {
								found = true
							}
						}
					case *ast.AssignStmt:
						for i, l := range x.Lhs {
							if sel, ok := ast.Unparen(l).(*ast.SelectorExpr); ok && flags[sel.Sel.Name] && i < len(x.Rhs) {
								if id, ok := ast.Unparen(sel.X).(*ast.Ident); ok && info.ObjectOf(id) == wr {
									if v, ok := constBool(info, x.Rhs[i]); ok && v {
										found = true
									}
								}
							}
						}
					}
					return true
				})
				return found
			}
			ok := false
			for _, st := range w.write.Body.List {
				switch x := st.(type) {
				case *ast.IfStmt:
					// `if !recv.flag { ... }` without else: the body must establish the flag
					cond := core.ExprStr(x.Cond)
					guardIsFlag := false
					for f := range flags {
						if strings.Contains(cond, "."+f) && strings.HasPrefix(strings.TrimSpace(cond), "!") {
							guardIsFlag = true
						}
					}
					if guardIsFlag && x.Else == nil && establishes(x.Body) {
						ok = true
					}
				case *ast.ExprStmt, *ast.AssignStmt:
					if establishes(x) {
						ok = true
					}
				case *ast.ReturnStmt:
					// nothing after the first return counts
				}
				if _, isRet := st.(*ast.ReturnStmt); isRet {
					break
				}
			}
			var fl []string
			for f := range flags {
				fl = append(fl, f)
			}
			sort.Strings(fl)
			if ok {
				r.OK(key, p.Pos(w.write.Pos()), "Write marks the header as written ("+strings.Join(fl, ", ")+") before it buffers the body")
			} else {
				r.Bad(key, p.Pos(w.write.Pos()), fmt.Sprintf("%s.Write does not mark the header as written (neither a call of its WriteHeader nor %s = true before the body is taken): a WriteHeader call after the first Write then replaces the status, and the response is validated and sent under a status the handler's implicit 200 never had", tn, strings.Join(fl, "/")))
			}
		}
	})
}

// c14Status: the status handed to the wrapped writer is a real status. A handler that returns
// without writing leaves the recorded status at 0; net/http answers 200 for such a handler, while
// WriteHeader(0) panics ("invalid WriteHeader code 0").
func c14Status(r *core.Report) {
	p := r.Prog
	info := p.Pkg("openapi3filter").TypesInfo
	r.RunRule("C14.status", "the wrapped writer is never given status 0: in the response wrappers of openapi3filter, every WriteHeader call on the wrapped http.ResponseWriter passes the method's own parameter (the handler's code, forwarded), a constant, or a value read through an accessor that substitutes 200 for an unwritten (zero) status; and that accessor is what the middleware validates the response under", 2, func() {
		// accessors: methods returning int that return a constant under a `== 0` test of a receiver field
		defaulting := map[*types.Func]bool{}
		for _, d := range p.AllDecls("openapi3filter") {
			if d.Recv == nil || d.Body == nil || d.Type.Results == nil || len(d.Type.Results.List) != 1 {
				continue
			}
			if b, ok := info.TypeOf(d.Type.Results.List[0].Type).Underlying().(*types.Basic); !ok || b.Kind() != types.Int {
				continue
			}
			ok := false
			ast.Inspect(d.Body, func(n ast.Node) bool {
				is, isIf := n.(*ast.IfStmt)
				if !isIf {
					return true
				}
				be, isBE := ast.Unparen(is.Cond).(*ast.BinaryExpr)
				if !isBE || be.Op != token.EQL {
					return true
				}
				if z, isZ := intConst(info, be.Y); !isZ || z != 0 {
					return true
				}
				for _, st := range is.Body.List {
					if ret, isRet := st.(*ast.ReturnStmt); isRet && len(ret.Results) == 1 {
						if v, isC := intConst(info, ret.Results[0]); isC && v >= 100 {
							ok = true
						}
					}
				}
				return true
			})
			if ok {
				if f, isF := info.Defs[d.Name].(*types.Func); isF {
					defaulting[f] = true
				}
			}
		}
		perFn := map[string]int{}
		for _, d := range p.AllDecls("openapi3filter") {
			if d.Recv == nil || d.Body == nil {
				continue
			}
			ast.Inspect(d.Body, func(n ast.Node) bool {
				c, ok := n.(*ast.CallExpr)
				if !ok || len(c.Args) != 1 {
					return true
				}
				sel, ok := ast.Unparen(c.Fun).(*ast.SelectorExpr)
				if !ok || sel.Sel.Name != "WriteHeader" {
					return true
				}
				// on a value of interface type http.ResponseWriter (the wrapped writer)
				nn := core.NamedOf(info.TypeOf(sel.X))
				if nn == nil || nn.Obj().Name() != "ResponseWriter" || nn.Obj().Pkg().Path() != "net/http" {
					return true
				}
				fname := core.FuncName(d)
				perFn[fname]++
				key := fmt.Sprintf("status:%s#%d", fname, perFn[fname])
				arg := ast.Unparen(c.Args[0])
				good := ""
				if _, isC := intConst(info, arg); isC {
					good = "a constant"
				}
				if id, isId := arg.(*ast.Ident); isId {
					for _, f := range d.Type.Params.List {
						for _, nm := range f.Names {
							if info.ObjectOf(nm) == info.ObjectOf(id) {
								good = "the code the handler passed, forwarded"
							}
						}
					}
				}
				if d.Name.Name == "WriteHeader" && good == "" {
					if fs, isSel := arg.(*ast.SelectorExpr); isSel && core.FieldSel(info, fs) != nil {
						good = "inside the wrapper's own WriteHeader: a code the handler passed (the first one recorded) is forwarded"
					}
				}
				if ce, isCall := arg.(*ast.CallExpr); isCall {
					if f := core.CalleeOf(info, ce); f != nil && defaulting[f] {
						good = "read through " + f.Name() + "(), which substitutes a real status for 0"
					}
				}
				if good != "" {
					r.OK(key, p.Pos(c.Pos()), good)
				} else {
					r.Bad(key, p.Pos(c.Pos()), fmt.Sprintf("%s hands %s to the wrapped writer's WriteHeader: when the handler returned without writing anything that value is 0, and net/http panics with `invalid WriteHeader code 0` (the response should be the implicit 200)", fname, core.ExprStr(arg)))
				}
				return true
			})
		}
	})
}

// c14Informational: a 1xx code is not the status of the response. net/http sends 100-199 (except
// 101) ahead of the response and lets the handler call WriteHeader again; a wrapper that records
// the first call as "the" status validates and answers under 103 instead of the 201 that follows.
func c14Informational(r *core.Report) {
	p := r.Prog
	info := p.Pkg("openapi3filter").TypesInfo
	r.RunRule("C14.informational", "an informational status is not recorded as the response's status: in every WriteHeader method of openapi3filter that stores its parameter into a field of the receiver, the store is reached only where a condition on that parameter (a range test, or a predicate applied to it) excluded the 1xx codes", 2, func() {
		for _, d := range p.AllDecls("openapi3filter") {
			if d.Recv == nil || d.Body == nil || d.Name.Name != "WriteHeader" || d.Type.Params.NumFields() != 1 || len(d.Type.Params.List[0].Names) != 1 {
				continue
			}
			prm := info.ObjectOf(d.Type.Params.List[0].Names[0])
			k := 0
			ast.Inspect(d.Body, func(n ast.Node) bool {
				as, ok := n.(*ast.AssignStmt)
				if !ok {
					return true
				}
				for i, l := range as.Lhs {
					if _, isSel := ast.Unparen(l).(*ast.SelectorExpr); !isSel || i >= len(as.Rhs) {
						continue
					}
					id, ok := ast.Unparen(as.Rhs[i]).(*ast.Ident)
					if !ok || info.ObjectOf(id) != prm {
						continue
					}
					k++
					key := fmt.Sprintf("informational:%s#%d", core.FuncName(d), k)
					tested := false
					for _, a := range core.Atoms(core.GuardsAt(info, d.Body, as)) {
						ast.Inspect(a.Expr, func(m ast.Node) bool {
							if x, ok := m.(*ast.Ident); ok && info.ObjectOf(x) == prm {
								tested = true
							}
							return true
						})
					}
					if tested {
						r.OK(key, p.Pos(as.Pos()), "recorded only after the code was tested")
					} else {
						r.Bad(key, p.Pos(as.Pos()), fmt.Sprintf("%s records whatever code the first call passes: after WriteHeader(103) the final WriteHeader(201) is ignored, the response is validated under status 103 (usually undeclared, so anything passes) and the client is answered with the wrong status", core.FuncName(d)))
					}
				}
				return true
			})
		}
	})
}

// c14NoUnwrap: in strict mode nothing reaches the client before the response validated. The
// wrapper that buffers the response must not give the handler a way to the client's writer:
// http.ResponseController follows Unwrap() and flushes (commits the header of) whatever it finds.
func c14NoUnwrap(r *core.Report) {
	p := r.Prog
	info := p.Pkg("openapi3filter").TypesInfo
	r.RunRule("C14.nounwrap", "the strict wrapper keeps the client's writer to itself: no method of strictResponseWrapper returns an http.ResponseWriter (an Unwrap() lets http.NewResponseController(w).Flush() commit the header, status 200, before the response was validated; the 500 that should replace an invalid response then arrives as a 200)", 1, func() {
		st := p.NamedType("openapi3filter", "strictResponseWrapper")
		bad := ""
		n := 0
		for _, d := range p.AllDecls("openapi3filter") {
			if d.Recv == nil || d.Type.Results == nil {
				continue
			}
			rt := info.TypeOf(d.Recv.List[0].Type)
			if pt, ok := rt.(*types.Pointer); ok {
				rt = pt.Elem()
			}
			if core.NamedOf(rt) != st {
				continue
			}
			n++
			for _, res := range d.Type.Results.List {
				if nn := core.NamedOf(info.TypeOf(res.Type)); nn != nil && nn.Obj().Pkg() != nil && nn.Obj().Pkg().Path() == "net/http" && nn.Obj().Name() == "ResponseWriter" {
					bad = core.FuncName(d)
				}
			}
		}
		if n == 0 {
			core.Fail("strictResponseWrapper has no methods")
		}
		r.Check(bad == "", "nounwrap:strictResponseWrapper", "openapi3filter/middleware.go", "no method hands out a ResponseWriter", "strictResponseWrapper."+bad+" returns an http.ResponseWriter: a handler (or http.ResponseController on its behalf) reaches the client's writer behind the buffer, and what it flushes is on the wire before the response was validated")
	})
}
