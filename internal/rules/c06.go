package rules

import (
	"bytes"
	"fmt"
	"go/ast"
	"go/printer"
	"go/token"
	"go/types"
	"regexp"
	"sort"
	"strings"

	"verif/internal/core"
)

func init() { register("C06", c06) }

func render(fset *token.FileSet, n ast.Node) string {
	var b bytes.Buffer
	printer.Fprint(&b, fset, n)
	return strings.Join(strings.Fields(b.String()), " ")
}

var mirrorPairs = [][2]string{
	{"asreq", "asrep"}, {"ReadOnly", "WriteOnly"}, {"readOnly", "writeOnly"},
	{"readOnlyValidationDisabled", "writeOnlyValidationDisabled"}, {"request", "response"}, {"reqRO", "repWO"},
}

func mirrorString(s string) string {
	// swap each pair using placeholders, whole words only (inside string literals too)
	for i, pr := range mirrorPairs {
		a := regexp.MustCompile(`\b` + pr[0] + `\b`)
		b := regexp.MustCompile(`\b` + pr[1] + `\b`)
		ph1, ph2 := fmt.Sprintf("\x00%dA\x00", i), fmt.Sprintf("\x00%dB\x00", i)
		s = a.ReplaceAllString(s, ph1)
		s = b.ReplaceAllString(s, ph2)
		s = strings.ReplaceAll(s, ph1, pr[1])
		s = strings.ReplaceAll(s, ph2, pr[0])
	}
	return s
}

func mentionsMirrorTerm(s string) bool {
	for _, pr := range mirrorPairs {
		for _, t := range pr {
			if regexp.MustCompile(`\b` + t + `\b`).MatchString(s) {
				return true
			}
		}
	}
	return false
}

// c06Mirror: request-side and response-side rules in visitJSONObject are mirror images.
func c06Mirror(r *core.Report, ruleID string) {
	p := r.Prog
	info := p.Pkg("openapi3").TypesInfo
	r.RunRule(ruleID, "request-side and response-side rules are mirror images: in visitJSONObject, swapping asreq<->asrep, ReadOnly<->WriteOnly, the two *ValidationDisabled settings and \"request\"<->\"response\" maps the set of conditions and statements that mention any of them onto itself; the `required` exemption depends only on ReadOnly/WriteOnly and the direction, never on the *ValidationDisabled options", 5, func() {
		fd := p.DeclOf("openapi3", "Schema.visitJSONObject")
		var units []string
		pos := map[string]token.Pos{}
		add := func(n ast.Node, s string) {
			if mentionsMirrorTerm(s) {
				units = append(units, s)
				pos[s] = n.Pos()
			}
		}
		ast.Inspect(fd.Body, func(n ast.Node) bool {
			switch x := n.(type) {
			case *ast.IfStmt:
				h := "if "
				if x.Init != nil {
					h += render(p.Fset, x.Init) + "; "
				}
				add(x, h+render(p.Fset, x.Cond))
			case *ast.AssignStmt:
				add(x, render(p.Fset, x))
				return false
			case *ast.ExprStmt:
				add(x, render(p.Fset, x))
				return false
			}
			return true
		})
		if len(units) < 4 {
			core.Fail("only %d request/response-specific statements found in visitJSONObject", len(units))
		}
		canon := func(u string) string {
			toks := regexp.MustCompile(`[A-Za-z0-9_%"]+|[^\sA-Za-z0-9_]+`).FindAllString(u, -1)
			sort.Strings(toks)
			return strings.Join(toks, " ")
		}
		set := map[string]int{}
		for _, u := range units {
			set[canon(u)]++
		}
		sort.Strings(units)
		seen := map[string]bool{}
		for _, u := range units {
			if seen[u] {
				continue
			}
			seen[u] = true
			m := mirrorString(u)
			key := "mirror:" + shorten(u)
			if set[canon(m)] == set[canon(u)] {
				if canon(m) == canon(u) {
					r.OK(key, p.Pos(pos[u]), "self-symmetric")
				} else {
					r.OK(key, p.Pos(pos[u]), "mirror image present: "+shorten(m))
				}
			} else {
				r.Bad(key, p.Pos(pos[u]), "no mirror image for this request/response-specific construct; expected: "+m)
			}
		}
		// required exemption independent of the *ValidationDisabled options
		ff := core.NewFuncFacts(p, info, fd)
		st := p.NamedType("openapi3", "Schema").Underlying().(*types.Struct)
		reqField := core.FieldByJSON(st, "required")
		found := false
		ast.Inspect(fd.Body, func(n ast.Node) bool {
			rs, ok := n.(*ast.RangeStmt)
			if !ok || !ff.Roots(rs.X, false).Fields[reqField] {
				return true
			}
			found = true
			bad := ""
			ast.Inspect(rs.Body, func(nn ast.Node) bool {
				if ifs, ok := nn.(*ast.IfStmt); ok {
					rs2 := ff.Roots(ifs.Cond, false)
					for f := range rs2.Fields {
						if strings.HasSuffix(f.Name(), "ValidationDisabled") {
							bad = render(p.Fset, ifs.Cond)
						}
					}
					// helpers the condition calls (settings methods): the fields they read
					for callee := range rs2.Funcs {
						if !core.InRepo(callee.Pkg()) {
							continue
						}
						cd := p.Decl(callee)
						if cd == nil || cd.Body == nil {
							continue
						}
						cinfo := p.InfoFor(callee.Pkg())
						ast.Inspect(cd.Body, func(m ast.Node) bool {
							if sel, ok := m.(*ast.SelectorExpr); ok {
								if f := core.FieldSel(cinfo, sel); f != nil && strings.HasSuffix(f.Name(), "ValidationDisabled") {
									bad = render(p.Fset, ifs.Cond) + " (through " + callee.Name() + ")"
								}
							}
							return true
						})
					}
				}
				return true
			})
			r.Check(bad == "", "mirror:required-exemption-scope", p.Pos(rs.Pos()), "the required exemption does not read the *ValidationDisabled options", "the `required` rule depends on an exclusion option ("+bad+"): the option changes more than the read-only/write-only presence check it names")
			return true
		})
		if !found {
			core.Fail("loop over required not found")
		}
	})
}

func shorten(s string) string {
	if len(s) > 90 {
		return s[:90] + "..."
	}
	return s
}

func c06(r *core.Report) {
	lookupFolding(r, "C06.lookup")
	requiredExemption(r, "C06.reqexempt")
	c06RawHeader(r)
	c06ExactFirst(r)
	c06EveryPart(r)
	c06Streams(r)
	p := r.Prog
	pk := p.Pkg("openapi3filter")
	info := pk.TypesInfo
	na := core.NewNilAnalysis(p)
	r.Assumption("media-type precedence inside Content.Get is a value-level string function and is not decided; what each decoder decodes and the schema verdict are not decided (C01, C05)")

	r.RunRule("C06.err", "a decoding error reaches the caller: for every call of a decode-family function (closure of decodeBody, decodeStyledParameter, decodeContentParameter, the body decoders and the valueDecoder implementations) the error result is returned/wrapped on its non-nil branch; it may be discarded or skipped with `continue` only inside a loop over schema alternatives (anyOf/oneOf), whose outcome is checked after the loop", 40, func() {
		// decode family
		decls := map[*types.Func]*ast.FuncDecl{}
		for _, d := range p.AllDecls("openapi3filter") {
			if o, ok := info.Defs[d.Name].(*types.Func); ok {
				decls[o] = d
			}
		}
		family := map[*types.Func]bool{}
		var work []*types.Func
		push := func(f *types.Func) {
			if f == nil || family[f] || decls[f] == nil {
				return
			}
			family[f] = true
			work = append(work, f)
		}
		for _, n := range []string{"decodeBody", "decodeStyledParameter", "decodeContentParameter", "defaultContentParameterDecoder"} {
			push(p.FuncObj("openapi3filter", n))
		}
		bodyDec := p.NamedType("openapi3filter", "BodyDecoder")
		for f, d := range decls {
			if d.Recv == nil && types.AssignableTo(f.Type(), bodyDec.Underlying()) {
				push(f)
			}
		}
		vd := p.NamedType("openapi3filter", "valueDecoder").Underlying().(*types.Interface)
		for f, d := range decls {
			if d.Recv != nil {
				sig := f.Type().(*types.Signature)
				if types.Implements(sig.Recv().Type(), vd) {
					push(f)
				}
			}
		}
		for len(work) > 0 {
			f := work[len(work)-1]
			work = work[:len(work)-1]
			ast.Inspect(decls[f].Body, func(n ast.Node) bool {
				if c, ok := n.(*ast.CallExpr); ok {
					push(core.CalleeOf(info, c))
				}
				return true
			})
		}
		errT := types.Universe.Lookup("error").Type()
		returnsErr := func(f *types.Func) int {
			sig := f.Type().(*types.Signature)
			if n := sig.Results().Len(); n > 0 && types.Identical(sig.Results().At(n-1).Type(), errT) {
				return n - 1
			}
			return -1
		}
		if len(family) < 30 {
			core.Fail("decode family has only %d members", len(family))
		}
		// every caller in the package (incl. validate_request / validate_response)
		perFn := map[string]int{}
		for _, d := range p.AllDecls("openapi3filter") {
			ff := core.NewFuncFacts(p, info, d)
			ast.Inspect(d.Body, func(n ast.Node) bool {
				c, ok := n.(*ast.CallExpr)
				if !ok {
					return true
				}
				callee := core.CalleeOf(info, c)
				if callee == nil {
					return true
				}
				isFam := family[callee]
				// interface method of valueDecoder
				if !isFam {
					if sig, ok := callee.Type().(*types.Signature); ok && sig.Recv() != nil {
						if _, isI := sig.Recv().Type().Underlying().(*types.Interface); isI && strings.HasPrefix(callee.Name(), "Decode") && callee.Pkg() == pk.Types {
							isFam = true
						}
					}
				}
				if !isFam {
					return true
				}
				k := returnsErr(callee)
				if k < 0 {
					return true
				}
				fn := core.FuncName(d)
				perFn[fn+"/"+callee.Name()]++
				key := fmt.Sprintf("err:%s->%s#%d", fn, callee.Name(), perFn[fn+"/"+callee.Name()])
				verdict, why := errHandling(p, na, ff, d, c, k)
				if verdict {
					r.OK(key, p.Pos(c.Pos()), why)
				} else {
					r.Bad(key, p.Pos(c.Pos()), why)
				}
				return true
			})
		}
	})

	c06Mirror(r, "C06.mirror")

	r.RunRule("C06.absent", "an absent property stays absent: in the body decoders of package openapi3filter, a value obtained from the styled-value decoder (decodeProperty / decodeValue / a valueDecoder method) is stored into the decoded object under a property name only where it is known to be non-nil (or the decoder reported it found); storing the nil of an absent form field makes the validator see `null`, and a body that merely omits an optional property is rejected", 1, func() {
		n := 0
		for _, d := range p.AllDecls("openapi3filter") {
			ff := core.NewFuncFacts(p, info, d)
			perFn := 0
			ast.Inspect(d.Body, func(nd ast.Node) bool {
				as, ok := nd.(*ast.AssignStmt)
				if !ok || len(as.Lhs) != 1 || len(as.Rhs) != 1 {
					return true
				}
				ix, ok := ast.Unparen(as.Lhs[0]).(*ast.IndexExpr)
				if !ok {
					return true
				}
				mt, isMap := info.TypeOf(ix.X).Underlying().(*types.Map)
				if !isMap {
					return true
				}
				if it, ok := mt.Elem().Underlying().(*types.Interface); !ok || !it.Empty() {
					return true
				}
				vid, ok := ast.Unparen(as.Rhs[0]).(*ast.Ident)
				if !ok {
					return true
				}
				vo := info.ObjectOf(vid)
				// the stored variable is result 0 of a decode call
				var foundObj types.Object
				fromDecode := false
				for _, a := range ff.Assigns(vo) {
					if a.Call == nil || a.Idx != 0 {
						continue
					}
					callee := core.CalleeOf(info, a.Call)
					if callee == nil {
						continue
					}
					if callee.Name() == "decodeProperty" || callee.Name() == "decodeValue" || strings.HasPrefix(callee.Name(), "Decode") {
						fromDecode = true
						if st, ok := a.Stmt.(*ast.AssignStmt); ok && len(st.Lhs) >= 2 {
							if fid, ok := st.Lhs[1].(*ast.Ident); ok && fid.Name != "_" {
								foundObj = info.ObjectOf(fid)
							}
						}
					}
				}
				if !fromDecode {
					return true
				}
				n++
				perFn++
				key := fmt.Sprintf("absent:%s#%d", core.FuncName(d), perFn)
				guarded := false
				for _, a := range core.Atoms(core.GuardsAt(info, d.Body, as)) {
					switch x := ast.Unparen(a.Expr).(type) {
					case *ast.BinaryExpr:
						if core.IsNil(info, x.Y) {
							if id, ok := ast.Unparen(x.X).(*ast.Ident); ok && info.ObjectOf(id) == vo {
								if (x.Op == token.NEQ && a.Pos) || (x.Op == token.EQL && !a.Pos) {
									guarded = true
								}
							}
						}
					case *ast.Ident:
						if foundObj != nil && info.ObjectOf(x) == foundObj && a.Pos {
							guarded = true
						}
					}
				}
				r.Check(guarded, key, p.Pos(as.Pos()), "stored only when a value was decoded", fmt.Sprintf("%s stores the decoder's result under the property name without knowing that a value was present: an absent form field becomes `null` in the decoded object and an optional, non-nullable property is rejected", core.FuncName(d)))
				return true
			})
		}
		if n == 0 {
			core.Fail("no store of a decoded property value found (decodeSchemaConstructs expected)")
		}
	})

	r.RunRule("C06.wire", "filter options reach the schema validator unchanged in meaning on the request side", 8, func() {
		checkWiring(r, "ValidateRequestBody", []wiringRow{
			{"VisitAsRequest", "", true},
			{"DefaultsSet", "SkipSettingDefaults", false},
			{"MultiErrors", "MultiError", true},
			{"SetSchemaErrorMessageCustomizer", "customSchemaErrorFunc", true},
			{"DisableReadOnlyValidation", "ExcludeReadOnlyValidations", true},
			{"SetSchemaRegexCompiler", "RegexCompiler", true},
		}, []string{"VisitAsResponse", "DisableWriteOnlyValidation"})
		checkWiring(r, "ValidateParameter", []wiringRow{
			{"MultiErrors", "MultiError", true},
			{"SetSchemaErrorMessageCustomizer", "customSchemaErrorFunc", true},
		}, []string{"VisitAsResponse", "DisableWriteOnlyValidation", "DefaultsSet"})
	})

	r.RunRule("C06.required", "a missing required body and an undeclared content type are rejected: the body is read whenever a body is present (the read is conditioned on req.Body only, not on ContentLength, which is 0 for unknown length); ErrInvalidRequired is returned exactly under len(data)==0 && requestBody.Required and before content lookup; the `unexpected Content-Type` error is returned exactly when Content.Get(header) is nil", 4, func() {
		fd := p.DeclOf("openapi3filter", "ValidateRequestBody")
		ff := core.NewFuncFacts(p, info, fd)
		reads := callsTo(info, fd.Body, "ReadAll")
		if len(reads) != 1 {
			core.Fail("ValidateRequestBody: %d ReadAll calls", len(reads))
		}
		var foreign []string
		for _, a := range core.Atoms(core.GuardsAt(info, fd.Body, reads[0])) {
			onlyBody := true
			ast.Inspect(a.Expr, func(n ast.Node) bool {
				if sel, ok := n.(*ast.SelectorExpr); ok {
					if f := core.FieldSel(info, sel); f != nil && f.Pkg() != nil && f.Pkg().Path() == "net/http" && f.Name() != "Body" {
						onlyBody = false
					}
				}
				return true
			})
			if !onlyBody {
				foreign = append(foreign, core.ExprStr(a.Expr))
			}
		}
		r.Check(len(foreign) == 0, "required:read-guard", p.Pos(reads[0].Pos()), "the body is read whenever req.Body is present", "reading the body is conditioned on "+strings.Join(foreign, ", ")+": a present body can be treated as missing (required body rejected, optional body accepted unvalidated)")
		// ErrInvalidRequired
		var reqRet *ast.ReturnStmt
		ast.Inspect(fd.Body, func(n ast.Node) bool {
			if ret, ok := n.(*ast.ReturnStmt); ok && len(ret.Results) == 1 {
				found := false
				ast.Inspect(ret, func(nn ast.Node) bool {
					if id, ok := nn.(*ast.Ident); ok && id.Name == "ErrInvalidRequired" {
						found = true
					}
					return true
				})
				if found {
					reqRet = ret
				}
			}
			return true
		})
		get := callsTo(info, fd.Body, "Get")
		var contentGet *ast.CallExpr
		for _, g := range get {
			if callee := core.CalleeOf(info, g); callee != nil && core.InRepo(callee.Pkg()) {
				contentGet = g
			}
		}
		if reqRet == nil || contentGet == nil {
			core.Fail("ErrInvalidRequired return or Content.Get call not found")
		}
		var hasLen, hasReq bool
		extra := ""
		for _, a := range core.Atoms(core.GuardsAt(info, fd.Body, reqRet)) {
			s := core.ExprStr(a.Expr)
			if a.Pos && strings.HasPrefix(s, "len(") && strings.HasSuffix(s, "== 0") {
				hasLen = true
				continue
			}
			if f := core.FieldSel(info, a.Expr); f != nil && f.Name() == "Required" && a.Pos {
				hasReq = true
				continue
			}
			if a.Pos {
				extra = s // a further condition narrows the rejection
			}
		}
		r.Check(extra == "", "required:missing-body-exact", p.Pos(reqRet.Pos()), "no further condition on the missing-body rejection", "the missing-required-body rejection is additionally conditioned on `"+extra+"`: some missing required bodies are accepted")
		r.Check(hasLen && hasReq && na.Classify(ff, reqRet.Results[0], reqRet) == core.NonNil, "required:missing-body", p.Pos(reqRet.Pos()), "ErrInvalidRequired under len(data)==0 && Required", "the missing-required-body error is not returned exactly under len(data) == 0 && requestBody.Required")
		r.Check(reqRet.Pos() < contentGet.Pos(), "required:before-lookup", p.Pos(reqRet.Pos()), "required check precedes content lookup", "the required-body check does not precede the content-type lookup")
		// undeclared content type
		okCT := false
		ast.Inspect(fd.Body, func(n ast.Node) bool {
			ifs, ok := n.(*ast.IfStmt)
			if !ok {
				return true
			}
			be, ok := ast.Unparen(ifs.Cond).(*ast.BinaryExpr)
			if !ok || be.Op != token.EQL || !core.IsNil(info, be.Y) {
				return true
			}
			usesGet := false
			for _, e := range ff.Roots(be.X, false).Exprs {
				if e == ast.Expr(contentGet) {
					usesGet = true
				}
			}
			if usesGet && len(ifs.Body.List) == 1 {
				if ret, ok := ifs.Body.List[0].(*ast.ReturnStmt); ok && na.Classify(ff, ret.Results[0], ret) == core.NonNil {
					okCT = true
				}
			}
			return true
		})
		r.Check(okCT, "required:undeclared-content-type", p.Pos(contentGet.Pos()), "error when Content.Get(header) == nil", "an undeclared content type is not rejected exactly when Content.Get returns nil")
		// the header passed to Get is the request's Content-Type
		okHdr := false
		if len(contentGet.Args) == 1 {
			for _, e := range ff.Roots(contentGet.Args[0], false).Exprs {
				if c, ok := e.(*ast.CallExpr); ok && len(c.Args) == 1 && headerConst(p, info, c.Args[0]) == "Content-Type" {
					okHdr = true
				}
			}
		}
		r.Check(okHdr, "required:content-type-header", p.Pos(contentGet.Pos()), "lookup keyed by the request's Content-Type header", "the media type is not looked up by the request's Content-Type header")
	})
}

// errHandling classifies how the error result (index k) of call c in d is handled.
func errHandling(p *core.Prog, na *core.NilAnalysis, ff *core.FuncFacts, d *ast.FuncDecl, c *ast.CallExpr, k int) (bool, string) {
	info := ff.Info
	path := core.PathTo(d.Body, c)
	// direct return / argument of another call in a return
	var stmt ast.Stmt
	for i := len(path) - 1; i >= 0; i-- {
		if s, ok := path[i].(ast.Stmt); ok {
			stmt = s
			break
		}
	}
	inAlternatives := func(n ast.Node) bool {
		for _, a := range core.PathTo(d.Body, n) {
			rs, ok := a.(*ast.RangeStmt)
			if !ok {
				continue
			}
			rts := ff.Roots(rs.X, false)
			for f := range rts.Fields {
				if f.Name() == "AnyOf" || f.Name() == "OneOf" {
					return true
				}
			}
			// the loop ranges over a parameter: alternatives only if every caller in the package
			// passes an anyOf/oneOf list
			for o := range rts.Objs {
				idx := -1
				k := 0
				for _, fl := range d.Type.Params.List {
					for _, nm := range fl.Names {
						if info.Defs[nm] == o {
							idx = k
						}
						k++
					}
				}
				if idx < 0 {
					continue
				}
				self, _ := info.Defs[d.Name].(*types.Func)
				all, any := true, false
				for _, d2 := range p.AllDecls("openapi3filter") {
					ff2 := core.NewFuncFacts(p, info, d2)
					ast.Inspect(d2.Body, func(nn ast.Node) bool {
						c2, ok := nn.(*ast.CallExpr)
						if !ok || core.CalleeOf(info, c2) != self || idx >= len(c2.Args) {
							return true
						}
						if d2 == d {
							return true // recursive call passes a sub-list of the same kind
						}
						any = true
						okArg := false
						for f := range ff2.Roots(c2.Args[idx], false).Fields {
							if f.Name() == "AnyOf" || f.Name() == "OneOf" {
								okArg = true
							}
							if f.Name() == "AllOf" || f.Name() == "Properties" {
								all = false
							}
						}
						if !okArg {
							all = false
						}
						return true
					})
				}
				if any && all {
					return true
				}
			}
		}
		return false
	}
	switch s := stmt.(type) {
	case *ast.ReturnStmt:
		return true, "returned directly"
	case *ast.AssignStmt:
		if len(s.Rhs) != 1 || ast.Unparen(s.Rhs[0]) != ast.Expr(c) {
			return true, "nested in an expression whose result is assigned" // e.g. argument of append: the callee's error is part of a tuple only when direct
		}
		if k >= len(s.Lhs) {
			return false, "error result not bound"
		}
		id, ok := s.Lhs[k].(*ast.Ident)
		if !ok {
			// stored into a field (e.g. `if req.Body, err = ...`)
			return true, "error bound to a non-identifier"
		}
		if id.Name == "_" {
			if inAlternatives(s) {
				return true, "discarded inside a loop over schema alternatives (anyOf/oneOf)"
			}
			return false, "the decoding error is discarded (`_`) outside a loop over schema alternatives"
		}
		obj := info.ObjectOf(id)
		returned, swallowed := false, ""
		ast.Inspect(d.Body, func(n ast.Node) bool {
			switch x := n.(type) {
			case *ast.ReturnStmt:
				if x.Pos() > s.Pos() || true {
					for _, res := range x.Results {
						if usesObj(info, res, obj) {
							returned = true
						}
					}
					if len(x.Results) == 0 && isNamedResultObj(d, info, obj) {
						returned = true
					}
				}
			case *ast.IfStmt:
				if x.Pos() < s.Pos() && !(x.Init == ast.Stmt(s)) {
					return true
				}
				be, ok := ast.Unparen(x.Cond).(*ast.BinaryExpr)
				if !ok || be.Op != token.NEQ || !core.IsNil(info, be.Y) || !usesObj(info, be.X, obj) {
					return true
				}
				// only the test that follows this assignment (same if-init or next statements)
				if len(x.Body.List) > 0 {
					if br, ok := x.Body.List[len(x.Body.List)-1].(*ast.BranchStmt); ok && br.Tok == token.CONTINUE {
						usesErr := false
						for _, st := range x.Body.List {
							if usesObj(info, st, obj) {
								usesErr = true
							}
						}
						if !usesErr && !inAlternatives(x) && nearestAssignIs(ff, d, x, obj, s) {
							swallowed = p.Pos(x.Pos())
						}
					}
				}
			}
			return true
		})
		if swallowed != "" {
			return false, "the decoding error is skipped with `continue` at " + swallowed + " in a loop that does not range over schema alternatives: the item that failed to decode is silently dropped"
		}
		if returned {
			return true, "error variable reaches a return"
		}
		if inAlternatives(s) {
			return true, "tested inside a loop over schema alternatives (anyOf/oneOf); the outcome is decided after the loop"
		}
		if isNamedResultObj(d, info, obj) {
			return true, "assigned to the named error result"
		}
		// closures: error returned by the enclosing func literal
		return false, "the decoding error is bound but never returned"
	case *ast.ExprStmt:
		return false, "the decoding call's results are ignored"
	case *ast.IfStmt, *ast.SwitchStmt:
		return true, "used in a condition"
	}
	return true, "other use"
}

func isNamedResultObj(d *ast.FuncDecl, info *types.Info, o types.Object) bool {
	if d.Type.Results == nil {
		return false
	}
	for _, fl := range d.Type.Results.List {
		for _, n := range fl.Names {
			if info.Defs[n] == o {
				return true
			}
		}
	}
	return false
}

// nearestAssignIs: the latest assignment to obj textually before the if statement is s.
func nearestAssignIs(ff *core.FuncFacts, d *ast.FuncDecl, ifs *ast.IfStmt, obj types.Object, s *ast.AssignStmt) bool {
	var best ast.Node
	for _, a := range ff.Assigns(obj) {
		if a.Stmt.Pos() <= ifs.Pos() || a.Stmt == ast.Node(ifs.Init) {
			if best == nil || a.Stmt.Pos() > best.Pos() {
				best = a.Stmt
			}
		}
	}
	return best == ast.Node(s)
}

// headerConst resolves a constant string, or a package-level variable initialised with
// http.CanonicalHeaderKey(<const>), to its string.
func headerConst(p *core.Prog, info *types.Info, e ast.Expr) string {
	if v := constVal(info, e); v != "" {
		return v
	}
	id, ok := ast.Unparen(e).(*ast.Ident)
	if !ok {
		return ""
	}
	v, ok := info.ObjectOf(id).(*types.Var)
	if !ok || v.Pkg() == nil || v.Parent() != v.Pkg().Scope() {
		return ""
	}
	pk := p.Pkgs[v.Pkg().Path()]
	if pk == nil {
		return ""
	}
	out := ""
	for _, f := range pk.Syntax {
		ast.Inspect(f, func(n ast.Node) bool {
			vs, ok := n.(*ast.ValueSpec)
			if !ok {
				return true
			}
			for i, nm := range vs.Names {
				if pk.TypesInfo.Defs[nm] == v && i < len(vs.Values) {
					if c, ok := vs.Values[i].(*ast.CallExpr); ok && len(c.Args) == 1 {
						if callee := core.CalleeOf(pk.TypesInfo, c); callee != nil && callee.Name() == "CanonicalHeaderKey" {
							out = constVal(pk.TypesInfo, c.Args[0])
						}
					}
				}
			}
			return true
		})
	}
	return out
}

// printSrc renders a node as source text (single line, comments dropped).
func printSrc(b *strings.Builder, n ast.Node) {
	var buf bytes.Buffer
	printer.Fprint(&buf, token.NewFileSet(), n)
	b.WriteString(buf.String())
}

// lookupFolding: the keys of the document's maps are the strings written in the document; a lookup
// that normalises only the incoming key (lower-casing the request's media type) can no longer
// find an entry whose key is spelled with another case.
func lookupFolding(r *core.Report, rule string) {
	p := r.Prog
	info := p.Pkg("openapi3").TypesInfo
	r.RunRule(rule, "lookups in the document's maps do not fold the case of the incoming key only: in every method of package openapi3 whose receiver is a map keyed by strings (Content and the other collections) and that indexes the receiver with a key computed from a parameter, the key does not pass through strings.ToLower / ToUpper / ToTitle — the stored keys are spelled as the document spells them (Content.Get is where a request's or response's Content-Type selects the media type entry)", 1, func() {
		n := 0
		for _, d := range p.AllDecls("openapi3") {
			if d.Recv == nil || d.Body == nil || len(d.Recv.List[0].Names) == 0 {
				continue
			}
			recv := info.ObjectOf(d.Recv.List[0].Names[0])
			mt, ok := recv.Type().Underlying().(*types.Map)
			if !ok {
				continue
			}
			if b, ok := mt.Key().Underlying().(*types.Basic); !ok || b.Info()&types.IsString == 0 {
				continue
			}
			if d.Type.Params.NumFields() == 0 {
				continue
			}
			dynamic := false
			ast.Inspect(d.Body, func(nd ast.Node) bool {
				if ix, ok := nd.(*ast.IndexExpr); ok {
					if id, ok := ast.Unparen(ix.X).(*ast.Ident); ok && info.ObjectOf(id) == recv {
						if _, isConst := strConst(info, ix.Index); !isConst {
							dynamic = true
						}
					}
				}
				return true
			})
			if !dynamic {
				continue
			}
			n++
			key := "lookup:" + core.FuncName(d)
			fold := ""
			ast.Inspect(d.Body, func(nd ast.Node) bool {
				if c, ok := nd.(*ast.CallExpr); ok {
					if f := core.CalleeOf(info, c); f != nil && f.Pkg() != nil && f.Pkg().Path() == "strings" {
						switch f.Name() {
						case "ToLower", "ToUpper", "ToTitle", "Title":
							fold = fmt.Sprintf("strings.%s at %s", f.Name(), p.Pos(c.Pos()))
						}
					}
				}
				return true
			})
			if fold != "" {
				r.Bad(key, p.Pos(d.Pos()), fmt.Sprintf("%s folds the case of the key it looks up (%s) while the receiver's keys stay as written in the document: an entry declared with an upper-case letter (`application/json; charset=UTF-8`, `application/vnd.Acme+json`) is no longer found, and the lookup falls through to a less specific entry or to none", core.FuncName(d), fold))
			} else {
				r.OK(key, p.Pos(d.Pos()), "keys are looked up as spelled")
			}
		}
		if n == 0 {
			core.Fail("no map-receiver method with a computed lookup key found in openapi3 (Content.Get expected)")
		}
	})
}

// c06Streams: two ways of reading a stream that change what is decoded. (readn) Read fills only
// the first n bytes of the buffer; using the whole buffer appends stale bytes of the previous
// round. (single) a JSON body is one value: a decoder stops after the first value and leaves the
// rest unread unless it is asked.
func c06Streams(r *core.Report) {
	p := r.Prog
	info := p.Pkg("openapi3filter").TypesInfo
	r.RunRule("C06.readn", "only the bytes that were read are used: after `n, err := x.Read(buf)` in package openapi3filter every use of buf before the next Read is the slice buf[:n]", 1, func() {
		k := 0
		for _, d := range p.AllDecls("openapi3filter") {
			if d.Body == nil {
				continue
			}
			ast.Inspect(d.Body, func(nd ast.Node) bool {
				as, ok := nd.(*ast.AssignStmt)
				if !ok || len(as.Rhs) != 1 || len(as.Lhs) != 2 {
					return true
				}
				c, ok := ast.Unparen(as.Rhs[0]).(*ast.CallExpr)
				if !ok || len(c.Args) != 1 {
					return true
				}
				sel, ok := ast.Unparen(c.Fun).(*ast.SelectorExpr)
				if !ok || sel.Sel.Name != "Read" {
					return true
				}
				bufID, ok := ast.Unparen(c.Args[0]).(*ast.Ident)
				if !ok {
					return true
				}
				nID, ok := as.Lhs[0].(*ast.Ident)
				if !ok {
					return true
				}
				buf, nObj := info.ObjectOf(bufID), info.ObjectOf(nID)
				k++
				key := fmt.Sprintf("readn:%s#%d", core.FuncName(d), k)
				// the statements that follow in the same block
				var block *ast.BlockStmt
				for _, anc := range core.PathTo(d.Body, as) {
					if b, ok := anc.(*ast.BlockStmt); ok {
						block = b
					}
				}
				bad := ""
				if block != nil {
					after := false
					for _, st := range block.List {
						if st == ast.Stmt(as) {
							after = true
							continue
						}
						if !after {
							continue
						}
						ast.Inspect(st, func(m ast.Node) bool {
							switch x := m.(type) {
							case *ast.SliceExpr:
								if id, ok := ast.Unparen(x.X).(*ast.Ident); ok && info.ObjectOf(id) == buf {
									if h, ok := x.High.(*ast.Ident); ok && info.ObjectOf(h) == nObj && x.Low == nil {
										return false // buf[:n]
									}
								}
							case *ast.Ident:
								if info.ObjectOf(x) == buf {
									bad = p.Pos(x.Pos())
								}
							}
							return true
						})
					}
				}
				if bad != "" {
					r.Bad(key, p.Pos(as.Pos()), fmt.Sprintf("after `%s` the whole buffer %s is used at %s instead of %s[:%s]: a short read (the last chunk of every entry) appends the stale tail of the previous chunk, so the decoded content is not the content that was sent", core.ExprStr(as.Rhs[0]), bufID.Name, bad, bufID.Name, nID.Name))
				} else {
					r.OK(key, p.Pos(as.Pos()), "only "+bufID.Name+"[:"+nID.Name+"] is used")
				}
				return true
			})
		}
	})
	r.RunRule("C06.parts", "multipart parts are read decoded: the body decoders obtain parts with (*multipart.Reader).NextPart, which undoes a quoted-printable Content-Transfer-Encoding, never with NextRawPart, which hands the encoded bytes to the part's decoder and to validation", 1, func() {
		k := 0
		for _, d := range p.AllDecls("openapi3filter") {
			if d.Body == nil {
				continue
			}
			ast.Inspect(d.Body, func(nd ast.Node) bool {
				c, ok := nd.(*ast.CallExpr)
				if !ok {
					return true
				}
				f := core.CalleeOf(info, c)
				if f == nil {
					return true
				}
				switch f.FullName() {
				case "(*mime/multipart.Reader).NextPart":
					k++
					r.OK(fmt.Sprintf("parts:%s#%d", core.FuncName(d), k), p.Pos(c.Pos()), "NextPart")
				case "(*mime/multipart.Reader).NextRawPart":
					k++
					r.Bad(fmt.Sprintf("parts:%s#%d", core.FuncName(d), k), p.Pos(c.Pos()), "NextRawPart does not decode `Content-Transfer-Encoding: quoted-printable`: the part's decoder and the schema see `caf=C3=A9` where the client sent `café`")
				}
				return true
			})
		}
	})
	r.RunRule("C06.single", "a JSON body is exactly one JSON value: every function of openapi3filter that decodes a body with a json.Decoder (`dec.Decode(&v)`) asks the same decoder for what follows (`dec.Token()` until io.EOF, or `dec.Buffered()`; `dec.More()` alone is false before `]` and `}` and does not count) before it returns the value — trailing bytes after the first value are an error, not ignored input", 1, func() {
		k := 0
		for _, d := range p.AllDecls("openapi3filter") {
			if d.Body == nil {
				continue
			}
			var dec types.Object
			ast.Inspect(d.Body, func(nd ast.Node) bool {
				as, ok := nd.(*ast.AssignStmt)
				if !ok || len(as.Rhs) != 1 || len(as.Lhs) != 1 {
					return true
				}
				if c, ok := ast.Unparen(as.Rhs[0]).(*ast.CallExpr); ok {
					if f := core.CalleeOf(info, c); f != nil && f.FullName() == "encoding/json.NewDecoder" {
						if id, ok := as.Lhs[0].(*ast.Ident); ok {
							dec = info.ObjectOf(id)
						}
					}
				}
				return true
			})
			if dec == nil {
				continue
			}
			decodes, asks, weak := false, false, false
			ast.Inspect(d.Body, func(nd ast.Node) bool {
				c, ok := nd.(*ast.CallExpr)
				if !ok {
					return true
				}
				sel, ok := ast.Unparen(c.Fun).(*ast.SelectorExpr)
				if !ok {
					return true
				}
				if id, ok := ast.Unparen(sel.X).(*ast.Ident); !ok || info.ObjectOf(id) != dec {
					return true
				}
				switch sel.Sel.Name {
				case "Decode":
					decodes = true
				case "Token", "Buffered", "InputOffset":
					asks = true
				case "More":
					// More() is false when the next byte is ] or }: `{"a":1}}` passes such a test
					weak = true
				}
				return true
			})
			if !decodes {
				continue
			}
			k++
			key := "single:" + core.FuncName(d)
			if asks {
				r.OK(key, p.Pos(d.Pos()), "the decoder is asked for what follows the value")
			} else if weak {
				r.Bad(key, p.Pos(d.Pos()), fmt.Sprintf("%s asks the decoder only whether there is More(): that is false when the next byte is `]` or `}`, so `{\"name\":\"x\"}}` and `[\"x\"]]` are accepted with their trailing bytes", core.FuncName(d)))
			} else {
				r.Bad(key, p.Pos(d.Pos()), fmt.Sprintf("%s decodes the first JSON value of the body and returns it without looking at what follows: `{\"name\":\"x\"} trailing garbage` and `{\"name\":\"x\"}{\"name\":5}` are accepted as the body {\"name\":\"x\"}", core.FuncName(d)))
			}
		}
		if k == 0 {
			core.Fail("no body decoder using json.NewDecoder found in openapi3filter")
		}
	})
}

// requiredExemption: a read-only property is not something a request can carry, a write-only
// property not something a response can: `required` does not ask for them on that side. That is a
// fact about the property and the direction, not about the options: switching the read-only /
// write-only *check* off must not bring the requirement back.
func requiredExemption(r *core.Report, rule string) {
	p := r.Prog
	info := p.Pkg("openapi3").TypesInfo
	r.RunRule(rule, "the `required` loop of visitJSONObject skips a missing property exactly by direction and annotation: inside the loop over schema.Required there is a `continue` whose conditions are the property's ReadOnly and settings.asreq, and one with WriteOnly and settings.asrep, and neither depends on anything else (not on the options that disable the readOnly/writeOnly check, not on a set computed under them)", 2, func() {
		fd := p.DeclOf("openapi3", "Schema.visitJSONObject")
		var loop *ast.RangeStmt
		ast.Inspect(fd.Body, func(nd ast.Node) bool {
			if rs, ok := nd.(*ast.RangeStmt); ok {
				if f := core.FieldSel(info, rs.X); f != nil && f.Name() == "Required" {
					loop = rs
				}
			}
			return true
		})
		if loop == nil {
			core.Fail("visitJSONObject: no loop over schema.Required")
		}
		// the property scan: a read-only property "is in the request" when its key is, null included
		for _, lit := range []string{"readOnly property", "writeOnly property"} {
			var site ast.Node
			ast.Inspect(fd.Body, func(nd ast.Node) bool {
				if bl, ok := nd.(*ast.BasicLit); ok && bl.Kind == token.STRING && strings.Contains(bl.Value, lit) {
					site = bl
				}
				return true
			})
			if site == nil {
				continue
			}
			key := "reqexempt:presence/" + strings.Fields(lit)[0]
			byKey, byNil := false, false
			for _, a := range core.Atoms(core.GuardsAt(info, fd.Body, site)) {
				if id, ok := ast.Unparen(a.Expr).(*ast.Ident); ok && a.Pos {
					for _, as := range core.NewFuncFacts(p, info, fd).Assigns(info.ObjectOf(id)) {
						if as.MapIndex != nil {
							byKey = true
						}
					}
				}
				if be, ok := ast.Unparen(a.Expr).(*ast.BinaryExpr); ok && core.IsNil(info, be.Y) {
					if _, isIx := ast.Unparen(be.X).(*ast.IndexExpr); isIx {
						byNil = true
					}
				}
			}
			r.Check(byKey && !byNil, key, p.Pos(site.Pos()), "presence of the key decides", "whether a "+strings.Fields(lit)[0]+" property is present is decided by `value[k] != nil`: a property sent as null counts as absent and passes, although it must not be sent at all")
		}
		type want struct{ annot, dir string }
		for _, w := range []want{{"ReadOnly", "asreq"}, {"WriteOnly", "asrep"}} {
			key := "reqexempt:" + w.annot + "/" + w.dir
			found, foreign, mixed := false, "", ""
			ast.Inspect(loop.Body, func(nd ast.Node) bool {
				br, ok := nd.(*ast.BranchStmt)
				if !ok || br.Tok != token.CONTINUE {
					return true
				}
				hasAnnot, hasDir := false, false
				var others []string
				for _, a := range core.Atoms(core.GuardsAt(info, loop.Body, br)) {
					mentions := func(name string) bool {
						m := false
						ast.Inspect(a.Expr, func(k ast.Node) bool {
							if sel, ok := k.(*ast.SelectorExpr); ok && sel.Sel.Name == name {
								m = true
							}
							return true
						})
						return m
					}
					otherAnnot, otherDir := "WriteOnly", "asrep"
					if w.annot == "WriteOnly" {
						otherAnnot, otherDir = "ReadOnly", "asreq"
					}
					switch {
					case mentions(w.annot) && a.Pos && !mentions(otherAnnot):
						hasAnnot = true
					case mentions(w.dir) && a.Pos && !mentions(otherDir):
						hasDir = true
					case mentions(w.annot) || mentions(w.dir):
						// `ReadOnly || WriteOnly`, `asreq || asrep`: the annotation of one direction
						// waives the requirement in the other
						others = append(others, core.ExprStr(a.Expr))
					default:
						s := core.ExprStr(a.Expr)
						// the lookups that lead to the property (value[k] absent, schema.Properties[k] != nil)
						if strings.Contains(s, "!= nil") || s == "ok" || strings.Contains(s, "value[") {
							continue
						}
						others = append(others, s)
					}
				}
				if hasAnnot && hasDir {
					found = true
					if len(others) > 0 {
						foreign = strings.Join(others, ", ")
					}
				} else if len(others) > 0 && foreign == "" {
					mixed = strings.Join(others, ", ")
				}
				return true
			})
			switch {
			case !found && mixed != "":
				r.Bad(key, p.Pos(loop.Pos()), fmt.Sprintf("the exemption of a missing %s property from `required` is decided by %s, which mixes the two directions: a response that leaves out a required read-only property (or a request without a required write-only one) is accepted", w.annot, mixed))
			case !found:
				r.Bad(key, p.Pos(loop.Pos()), fmt.Sprintf("the `required` loop has no `continue` under the property's %s and settings.%s: whether a missing %s property is demanded is decided by something else (a set computed elsewhere, an option), so it is demanded — or waived — for the wrong requests", w.annot, w.dir, w.annot))
			case foreign != "":
				r.Bad(key, p.Pos(loop.Pos()), fmt.Sprintf("the exemption of a missing %s property from `required` also depends on %s", w.annot, foreign))
			default:
				r.OK(key, p.Pos(loop.Pos()), "continue under "+w.annot+" && settings."+w.dir)
			}
		}
	})
}

// c06RawHeader: the content lookup sees the Content-Type header as sent. Content.Get has its own
// precedence (exact string, then the type without parameters, then wildcards): handing it a header
// that was already stripped of its parameters makes the first level unreachable.
func c06RawHeader(r *core.Report) {
	p := r.Prog
	info := p.Pkg("openapi3filter").TypesInfo
	r.RunRule("C06.rawheader", "the declared media types are looked up with the header as it was sent: in ValidateRequestBody and ValidateResponse the argument of Content.Get is what Header.Get returned for Content-Type, not the result of a function applied to it (parseMediaType and the like strip the parameters, after which a declared `application/json; charset=utf-8` can no longer be found by its own name and a less specific declaration, with another schema, is used instead)", 2, func() {
		for _, fname := range []string{"ValidateRequestBody", "ValidateResponse"} {
			fd := p.DeclOf("openapi3filter", fname)
			ff := core.NewFuncFacts(p, info, fd)
			n := 0
			for _, c := range callsTo(info, fd.Body, "Get") {
				callee := core.CalleeOf(info, c)
				if callee == nil || !core.InRepo(callee.Pkg()) || len(c.Args) != 1 {
					continue
				}
				n++
				key := fmt.Sprintf("rawheader:%s#%d", fname, n)
				rs := ff.Roots(c.Args[0], false)
				viaHeader, viaRepoFunc := false, ""
				for f := range rs.Funcs {
					if f.Pkg() != nil && f.Pkg().Path() == "net/http" && f.Name() == "Get" {
						viaHeader = true
					}
					if core.InRepo(f.Pkg()) {
						viaRepoFunc = f.Name()
					}
				}
				switch {
				case viaRepoFunc != "":
					r.Bad(key, p.Pos(c.Pos()), fmt.Sprintf("%s looks the declared media types up with a value that went through %s: the exact-string level of Content.Get's precedence is out of reach for a declared media type with parameters", fname, viaRepoFunc))
				case viaHeader:
					r.OK(key, p.Pos(c.Pos()), "looked up with the header value as sent")
				default:
					r.Unknown(key, p.Pos(c.Pos()), "the argument of Content.Get does not come from Header.Get")
				}
			}
			if n == 0 {
				core.Fail("%s: no Content.Get call", fname)
			}
		}
	})
}

// c06ExactFirst: the first level of Content.Get's precedence is the string as given.
func c06ExactFirst(r *core.Report) {
	p := r.Prog
	info := p.Pkg("openapi3").TypesInfo
	r.RunRule("C06.exactfirst", "the exact media type string is tried first, untouched: in Content.Get the first lookup in the map that can return is indexed with the parameter itself, before any assignment to the parameter or a value derived from it (a lookup string that was normalised first — whitespace around `;` removed — no longer finds a key that was declared with that whitespace, and a less specific declaration with another schema is used)", 1, func() {
		fd := p.DeclOf("openapi3", "Content.Get")
		prm := info.ObjectOf(fd.Type.Params.List[0].Names[0])
		firstLookup, firstAssign := token.NoPos, token.NoPos
		derived := false
		ast.Inspect(fd.Body, func(nd ast.Node) bool {
			switch x := nd.(type) {
			case *ast.IndexExpr:
				if _, isMap := info.TypeOf(x.X).Underlying().(*types.Map); !isMap {
					return true
				}
				if _, isConst := core.ConstStr(info, x.Index); isConst {
					return true
				}
				if firstLookup == token.NoPos {
					firstLookup = x.Pos()
					if id, ok := ast.Unparen(x.Index).(*ast.Ident); !ok || info.ObjectOf(id) != prm {
						derived = true
					}
				}
			case *ast.AssignStmt:
				for _, l := range x.Lhs {
					if id, ok := ast.Unparen(l).(*ast.Ident); ok && info.ObjectOf(id) == prm && firstAssign == token.NoPos {
						firstAssign = x.Pos()
					}
				}
			}
			return true
		})
		if firstLookup == token.NoPos {
			core.Fail("Content.Get: no lookup by a non-constant key")
		}
		ok := !derived && (firstAssign == token.NoPos || firstLookup < firstAssign)
		r.Check(ok, "exactfirst:Content.Get", p.Pos(firstLookup), "first lookup uses the string as given", "Content.Get does not try the media type string as it was given first: the string is changed (or replaced by a derived one) before the first lookup, so a media type declared with exactly that spelling is not found by its own name")
	})
}
