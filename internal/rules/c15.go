package rules

import (
	"fmt"
	"go/ast"
	"go/token"
	"go/types"
	"sort"
	"strings"

	"golang.org/x/tools/go/callgraph"
	"golang.org/x/tools/go/ssa"

	"verif/internal/core"
)

func init() { register("C15", c15) }

// genEntries: schema generation for Go types.
func genEntries(p *core.Prog) []*ssa.Function {
	var out []*ssa.Function
	for _, n := range []string{"NewSchemaRefForValue", "NewGenerator", "Generator.GenerateSchemaRef", "Generator.NewSchemaRefForValue"} {
		out = append(out, p.SSAFuncOf("openapi3gen", n))
	}
	return out
}

func c15(r *core.Report) {
	p := r.Prog
	p.BuildSSA()
	entries := append(trafficEntries(p, true), genEntries(p)...)
	reach := p.Reachable(entries)
	var scope []*ssa.Function
	for _, fn := range p.RepoSSAFuncs() {
		if reach[fn] {
			scope = append(scope, fn)
		}
	}
	sort.Slice(scope, func(i, j int) bool {
		if scope[i].String() != scope[j].String() {
			return scope[i].String() < scope[j].String()
		}
		return scope[i].Pos() < scope[j].Pos()
	})
	r.Extra["reachable_functions"] = len(scope)
	r.Assumption("claim: absence of unsynchronised writes to shared objects on the concurrent paths (route finding, request/response validation, VisitJSON, schema generation): no write to a package-level variable outside its lock, no store into a document-model object, route or router that is not a fresh local, no package-level object escaping into a per-call structure that is later written; this is a sufficient condition for race freedom on that state under the stated aliasing assumptions (pointers hidden in `any` and recovered by reflection are not tracked), not an exploration of schedules; 'every call returns the verdict it returns alone' follows only as far as there is no shared mutable state; races inside third-party packages are not decided; the document-payload aliasing clause is decided by C13.alias")
	if len(scope) < 200 {
		r.RunRule("C15.scope", "reachability floor", 1, func() {
			r.Bad("scope", "-", fmt.Sprintf("only %d functions reachable from the concurrent entry points", len(scope)))
		})
		return
	}
	c15Globals(r, scope)
	c15Shared(r, scope)
	c15Escape(r, scope)
	c15Pool(r)
	c15CacheKey(r)
	c15Publish(r, scope)
	c15PublishOnce(r, scope)
	c15AppendAlias(r, scope)
}

// globalRoot: the package-level variable an address or container value is rooted at (through field,
// index and load steps), and whether the path passes through a load (the written object is reached
// from the variable rather than being the variable itself).
func globalRoot(v ssa.Value, depth int) (*ssa.Global, bool) {
	if depth > 10 {
		return nil, false
	}
	switch x := v.(type) {
	case *ssa.Global:
		return x, false
	case *ssa.FieldAddr:
		return globalRoot(x.X, depth+1)
	case *ssa.IndexAddr:
		return globalRoot(x.X, depth+1)
	case *ssa.Field:
		return globalRoot(x.X, depth+1)
	case *ssa.UnOp:
		g, _ := globalRoot(x.X, depth+1)
		return g, g != nil
	case *ssa.Slice:
		return globalRoot(x.X, depth+1)
	case *ssa.ChangeType:
		return globalRoot(x.X, depth+1)
	}
	return nil, false
}

// lockHeld: a Lock/RLock call on a package-level mutex dominates instr and no Unlock of that mutex
// lies between (same block after the lock, or a block on the way that dominates instr).
func lockHeld(in ssa.Instruction) (string, bool) {
	fn := in.Parent()
	blk := in.Block()
	idx := -1
	for i, x := range blk.Instrs {
		if x == in {
			idx = i
		}
	}
	type ev struct {
		b    *ssa.BasicBlock
		i    int
		name string
		lock bool
		rw   bool
	}
	var evs []ev
	for _, b := range fn.Blocks {
		for i, x := range b.Instrs {
			c, ok := x.(*ssa.Call)
			if !ok {
				continue
			}
			sc := c.Common().StaticCallee()
			if sc == nil || sc.Pkg == nil || sc.Pkg.Pkg.Path() != "sync" || len(c.Common().Args) == 0 {
				continue
			}
			g, _ := globalRoot(c.Common().Args[0], 0)
			if g == nil {
				continue
			}
			switch sc.Name() {
			case "Lock", "RLock":
				evs = append(evs, ev{b, i, g.Name(), true, sc.Name() == "RLock"})
			case "Unlock", "RUnlock":
				evs = append(evs, ev{b, i, g.Name(), false, false})
			}
		}
	}
	for _, l := range evs {
		if !l.lock {
			continue
		}
		before := (l.b == blk && l.i < idx) || (l.b != blk && l.b.Dominates(blk))
		if !before {
			continue
		}
		released := false
		for _, u := range evs {
			if u.lock || u.name != l.name {
				continue
			}
			// an unlock after the lock and before the instruction, on a dominating path
			afterLock := (u.b == l.b && u.i > l.i) || (u.b != l.b && l.b.Dominates(u.b))
			beforeIn := (u.b == blk && u.i < idx) || (u.b != blk && u.b.Dominates(blk))
			if afterLock && beforeIn {
				released = true
			}
		}
		if !released {
			return l.name, l.rw
		}
	}
	return "", false
}

func syncType(t types.Type) bool {
	n := core.NamedOf(t)
	if n == nil || n.Obj().Pkg() == nil {
		return false
	}
	pp := n.Obj().Pkg().Path()
	return pp == "sync" || pp == "sync/atomic"
}

func c15Globals(r *core.Report, scope []*ssa.Function) {
	p := r.Prog
	r.RunRule("C15.globals", "package-level state is written only under its lock: every store to a package-level variable of the library (the variable itself, a field or element of it, or a map held in it) in a function reachable from route finding, request/response validation, VisitJSON or schema generation is made while a package-level sync.Mutex/RWMutex is held (Lock dominates, no Unlock in between) — always the same mutex for the same variable — or the variable is a sync.Map / atomic value; and once a variable is written on those paths, every read of it there (lookup, range, len, load) holds that mutex as well", 3, func() {
		type access struct {
			fn    *ssa.Function
			in    ssa.Instruction
			write bool
			what  string
		}
		acc := map[*ssa.Global][]access{}
		for _, fn := range scope {
			for _, b := range fn.Blocks {
				for _, in := range b.Instrs {
					switch x := in.(type) {
					case *ssa.Store:
						if g, via := globalRoot(x.Addr, 0); g != nil && core.InRepo(g.Pkg.Pkg) {
							what := "store to " + g.Name()
							if via {
								what = "store into the object held in " + g.Name()
							}
							acc[g] = append(acc[g], access{fn, in, true, what})
						}
					case *ssa.MapUpdate:
						if g, _ := globalRoot(x.Map, 0); g != nil && core.InRepo(g.Pkg.Pkg) {
							acc[g] = append(acc[g], access{fn, in, true, "map update of " + g.Name()})
						}
					case *ssa.Call:
						if b, ok := x.Common().Value.(*ssa.Builtin); ok && b.Name() == "delete" {
							if g, _ := globalRoot(x.Common().Args[0], 0); g != nil && core.InRepo(g.Pkg.Pkg) {
								acc[g] = append(acc[g], access{fn, in, true, "delete from " + g.Name()})
							}
						}
					case *ssa.Lookup:
						if g, _ := globalRoot(x.X, 0); g != nil && core.InRepo(g.Pkg.Pkg) {
							acc[g] = append(acc[g], access{fn, in, false, "lookup in " + g.Name()})
						}
					case *ssa.Range:
						if g, _ := globalRoot(x.X, 0); g != nil && core.InRepo(g.Pkg.Pkg) {
							acc[g] = append(acc[g], access{fn, in, false, "range over " + g.Name()})
						}
					case *ssa.UnOp:
						if g, ok := x.X.(*ssa.Global); ok && core.InRepo(g.Pkg.Pkg) {
							acc[g] = append(acc[g], access{fn, in, false, "read of " + g.Name()})
						}
					}
				}
			}
		}
		var gs []*ssa.Global
		for g := range acc {
			gs = append(gs, g)
		}
		sort.Slice(gs, func(i, j int) bool { return gs[i].String() < gs[j].String() })
		nWritten := 0
		for _, g := range gs {
			written := false
			for _, a := range acc[g] {
				if a.write {
					written = true
				}
			}
			if !written {
				continue
			}
			nWritten++
			gname := core.RelPkg(g.Pkg.Pkg) + "." + g.Name()
			if syncType(g.Type().(*types.Pointer).Elem()) {
				r.OK("globals:"+gname, p.Pos(g.Pos()), "a sync / atomic value")
				continue
			}
			lockName := ""
			perFn := map[string]int{}
			for _, a := range acc[g] {
				name := shortFn(a.fn)
				kind := "read"
				if a.write {
					kind = "write"
				}
				perFn[name+kind]++
				key := fmt.Sprintf("globals:%s/%s/%s#%d", gname, name, kind, perFn[name+kind])
				held, rOnly := lockHeld(a.in)
				pos := p.Pos(a.in.Pos())
				switch {
				case held == "":
					if a.write {
						r.Bad(key, pos, a.what+" with no lock held: concurrent calls race on it")
					} else {
						r.Bad(key, pos, a.what+" with no lock held while the same paths write it under a lock: the read races with the write")
					}
				case a.write && rOnly:
					r.Bad(key, pos, a.what+" under a read lock only")
				case lockName != "" && held != lockName:
					r.Bad(key, pos, fmt.Sprintf("%s under %s, other accesses use %s: the two do not exclude each other", a.what, held, lockName))
				default:
					lockName = held
					r.OK(key, pos, a.what+" under "+held)
				}
			}
		}
		r.Extra["globals_written_on_concurrent_paths"] = nWritten
		if nWritten == 0 {
			core.Fail("no written package-level variable found on the concurrent paths (typeInfos expected)")
		}
	})
}

// sharedType: objects that outlive a call and are visible to other goroutines.
func sharedTypes(p *core.Prog) map[*types.Named]bool {
	out := map[*types.Named]bool{}
	for _, n := range p.ModelTypes("openapi3", "T") {
		out[n] = true
	}
	for _, q := range [][2]string{{"routers", "Route"}, {"routers/gorillamux", "Router"}, {"routers/legacy", "Router"}, {"routers/legacy/pathpattern", "Node"}, {"openapi3filter", "Validator"}, {"openapi3filter", "Options"}, {"openapi3filter", "ValidationHandler"}} {
		out[p.NamedType(q[0], q[1])] = true
	}
	return out
}

// freshLocal: the pointer is to an object created by this activation (an allocation, a composite
// literal, or the result of a constructor call made here).
func freshLocal(v ssa.Value, depth int) bool {
	if depth > 8 {
		return false
	}
	switch x := v.(type) {
	case *ssa.Alloc:
		return true
	case *ssa.MakeMap, *ssa.MakeSlice:
		return true
	case *ssa.Call:
		// result of a call: a value the callee produced (constructors, copies); an accessor that
		// returns a shared object is recognised by name below
		if sc := x.Common().StaticCallee(); sc != nil {
			n := sc.Name()
			if strings.HasPrefix(n, "New") || strings.HasPrefix(n, "new") || strings.HasPrefix(n, "With") || n == "Copy" {
				return true
			}
		}
		return false
	case *ssa.Extract:
		return freshLocal(x.Tuple, depth+1)
	case *ssa.FieldAddr:
		return freshLocal(x.X, depth+1)
	case *ssa.IndexAddr:
		return freshLocal(x.X, depth+1)
	case *ssa.Slice:
		return freshLocal(x.X, depth+1)
	case *ssa.Phi:
		for _, e := range x.Edges {
			if !freshLocal(e, depth+1) {
				return false
			}
		}
		return true
	case *ssa.UnOp:
		// load of a local variable cell that only ever holds fresh values
		if al, ok := x.X.(*ssa.Alloc); ok {
			all, n := true, 0
			for _, ref := range *al.Referrers() {
				if st, ok := ref.(*ssa.Store); ok && st.Addr == ssa.Value(al) {
					n++
					if !freshLocal(st.Val, depth+1) {
						all = false
					}
				}
			}
			return all && n > 0
		}
	}
	return false
}

// c15SharedExcuse: one symbol, one reason.
var c15SharedExcuse = map[string]string{
	"(*routers/legacy.Router).node": "lazy initialisation of pathNode: every Router is built by NewRouter, which calls node() before the router is handed out, so on a router in use the branch that stores is dead",
}

func c15Shared(r *core.Report, scope []*ssa.Function) {
	p := r.Prog
	c15Graph = p.CallGraph()
	shared := sharedTypes(p)
	// whatever is put into a package-level container becomes shared: the types of the values stored
	// into package-level sync.Maps by the reachable code
	for _, fn := range scope {
		for _, b := range fn.Blocks {
			for _, in := range b.Instrs {
				c, ok := in.(*ssa.Call)
				if !ok {
					continue
				}
				sc := c.Common().StaticCallee()
				if sc == nil || sc.Pkg == nil || sc.Pkg.Pkg.Path() != "sync" || len(c.Common().Args) < 3 {
					continue
				}
				if _, isG := c.Common().Args[0].(*ssa.Global); !isG {
					continue
				}
				var stored []ssa.Value
				switch sc.Name() {
				case "Store", "LoadOrStore", "Swap":
					stored = append(stored, c.Common().Args[2])
				case "CompareAndSwap":
					if len(c.Common().Args) >= 4 {
						stored = append(stored, c.Common().Args[3])
					}
				}
				for _, v := range stored {
					if mi, ok := v.(*ssa.MakeInterface); ok {
						if n := core.NamedOf(mi.X.Type()); n != nil && n.Obj().Pkg() != nil && core.InRepo(n.Obj().Pkg()) {
							if _, isStruct := n.Underlying().(*types.Struct); isStruct {
								shared[n.Origin()] = true
							}
						}
					}
					// an interface-typed value (error): the concrete repo types that flow into it
					if _, isIface := v.Type().Underlying().(*types.Interface); isIface {
						for _, t := range concreteTypesOf(v, 0) {
							if n := core.NamedOf(t); n != nil && n.Obj().Pkg() != nil && core.InRepo(n.Obj().Pkg()) {
								if _, isStruct := n.Underlying().(*types.Struct); isStruct {
									shared[n.Origin()] = true
								}
							}
						}
					}
				}
			}
		}
	}
	r.RunRule("C15.shared", "nothing reachable from route finding, request/response validation, VisitJSON or schema generation stores into a shared object: every field store, element store or map update whose container is (a field of) a document-model struct, a routers.Route, a router, a pattern-tree node, a Validator or Options must be on an object created by the same activation (an allocation, a composite literal, the result of a New*/With*/Copy call made there, or a local copy such as `route := *r.routes[i]`); a store through a parameter, receiver or loaded field of such a type writes memory other goroutines read", 1, func() {
		n := 0
		perFn := map[string]int{}
		for _, fn := range scope {
			name := shortFn(fn)
			// constructors and option setters build or configure an object before it is shared
			top := fn
			for top.Parent() != nil {
				top = top.Parent()
			}
			for _, b := range fn.Blocks {
				for _, in := range b.Instrs {
					var base ssa.Value
					what := ""
					switch x := in.(type) {
					case *ssa.Store:
						switch a := x.Addr.(type) {
						case *ssa.FieldAddr:
							base = a.X
							_, f := fieldNames(a.X.Type(), a.Field)
							what = "store to field " + f
						case *ssa.IndexAddr:
							// element of a slice/array that belongs to a shared struct
							if u, ok := a.X.(*ssa.UnOp); ok {
								if fa, ok := u.X.(*ssa.FieldAddr); ok {
									base = fa.X
									_, f := fieldNames(fa.X.Type(), fa.Field)
									what = "store to an element of field " + f
								}
							}
						}
					case *ssa.MapUpdate:
						// the map may have travelled through locals and phis: any origin that is a field of a
						// shared struct makes this an update of that field's map
						for _, fa := range mapFieldOrigins(x.Map, 0, map[ssa.Value]bool{}) {
							bn2 := core.NamedOf(fa.X.Type())
							if bn2 == nil || !shared[bn2.Origin()] {
								continue
							}
							base = fa.X
							_, f := fieldNames(fa.X.Type(), fa.Field)
							what = "update of the map in field " + f
						}
					}
					if base == nil {
						continue
					}
					bn := core.NamedOf(base.Type())
					if bn == nil || !shared[bn.Origin()] {
						continue
					}
					n++
					perFn[name]++
					key := fmt.Sprintf("shared:%s/%s#%d", name, bn.Obj().Name(), perFn[name])
					pos := p.Pos(in.Pos())
					if freshLocal(base, 0) {
						r.OK(key, pos, what+" of an object created by this call")
						continue
					}
					if why, ok := c15SharedExcuse[name]; ok {
						if bad := c15VerifyNodeExcuse(p); bad != "" {
							r.Bad(key, pos, "the reason this store was accepted no longer holds: "+bad)
						} else {
							r.OK(key, pos, why)
						}
						continue
					}
					if why := perCallContainerElement(base, shared); why != "" {
						r.OK(key, pos, what+" of "+why)
						continue
					}
					if prm, ok := base.(*ssa.Parameter); ok {
						// a builder (With*/Set*): the object is the caller's; every caller in scope must own it
						if bad, nCallers := callersPassFresh(p, fn, prm, scopeSet(scope)); nCallers > 0 && bad == "" {
							r.OK(key, pos, what+" of a parameter; every caller on the concurrent paths passes an object it created")
							continue
						} else if bad != "" {
							r.Bad(key, pos, fmt.Sprintf("%s of a %s received as a parameter, and %s passes one it did not create", what, bn.Obj().Name(), bad))
							continue
						}
					}
					r.Bad(key, pos, fmt.Sprintf("%s of a %s that this call did not create: other goroutines using the same document/router read it concurrently", what, bn.Obj().Name()))
				}
			}
		}
		r.Extra["stores_into_shared_types"] = n
		if n == 0 {
			core.Fail("no store into a shared type found (gorillamux.FindRoute's local route copy expected)")
		}
	})
}

// c15Escape: a package-level object must not be planted into a per-call structure.
func c15Escape(r *core.Report, scope []*ssa.Function) {
	p := r.Prog
	r.RunRule("C15.escape", "package-level document objects do not escape into per-call structures: in the reachable code a pointer loaded from a package-level variable that points to a document-model struct is never stored into a map, slice, field or composite value (the holder is later rewritten as if it owned what it holds: schema generation clears Ref/Value of every reference it collected); it may be read and dereferenced", 1, func() {
		model := map[*types.Named]bool{}
		for _, n := range p.ModelTypes("openapi3", "T") {
			model[n] = true
		}
		isModelPtrGlobal := func(v ssa.Value) *ssa.Global {
			u, ok := v.(*ssa.UnOp)
			if !ok {
				return nil
			}
			g, ok := u.X.(*ssa.Global)
			if !ok || !core.InRepo(g.Pkg.Pkg) {
				return nil
			}
			if _, isPtr := u.Type().Underlying().(*types.Pointer); !isPtr {
				return nil
			}
			if n := core.NamedOf(u.Type()); n != nil && model[n.Origin()] {
				return g
			}
			return nil
		}
		nLoads := 0
		perFn := map[string]int{}
		for _, fn := range scope {
			for _, b := range fn.Blocks {
				for _, in := range b.Instrs {
					u, ok := in.(*ssa.UnOp)
					if !ok {
						continue
					}
					g := isModelPtrGlobal(u)
					if g == nil {
						continue
					}
					nLoads++
					name := shortFn(fn)
					perFn[name]++
					key := fmt.Sprintf("escape:%s/%s#%d", name, g.Name(), perFn[name])
					bad := ""
					for _, ref := range *u.Referrers() {
						switch x := ref.(type) {
						case *ssa.Store:
							if x.Val == ssa.Value(u) {
								if _, isLocal := x.Addr.(*ssa.Alloc); !isLocal {
									bad = "stored into memory"
								} else {
									// a local variable holding the pointer: its uses
									for _, r2 := range *x.Addr.(*ssa.Alloc).Referrers() {
										if ld, ok := r2.(*ssa.UnOp); ok {
											for _, r3 := range *ld.Referrers() {
												switch y := r3.(type) {
												case *ssa.MapUpdate:
													if y.Key == ssa.Value(ld) || y.Value == ssa.Value(ld) {
														bad = "stored into a map"
													}
												case *ssa.Store:
													if y.Val == ssa.Value(ld) {
														bad = "stored into memory"
													}
												}
											}
										}
									}
								}
							}
						case *ssa.MapUpdate:
							if x.Key == ssa.Value(u) || x.Value == ssa.Value(u) {
								bad = "stored into a map"
							}
						}
					}
					if bad != "" {
						r.Bad(key, p.Pos(in.Pos()), fmt.Sprintf("the package-level %s is %s of a per-call structure: whatever rewrites that structure writes the shared object (concurrent calls race, and the change persists)", g.Name(), bad))
					} else {
						r.OK(key, p.Pos(in.Pos()), "read only")
					}
				}
			}
		}
		if nLoads == 0 {
			core.Fail("no load of a package-level document object found (RefSchemaRef in generateWithoutSaving expected)")
		}
	})
}

func scopeSet(scope []*ssa.Function) map[*ssa.Function]bool {
	m := map[*ssa.Function]bool{}
	for _, f := range scope {
		m[f] = true
	}
	return m
}

// callersPassFresh: every call of fn from a function in scope passes, for parameter prm, an object
// the caller created. Returns the first offending caller.
func callersPassFresh(p *core.Prog, fn *ssa.Function, prm *ssa.Parameter, in map[*ssa.Function]bool) (string, int) {
	idx := -1
	for i, q := range fn.Params {
		if q == prm {
			idx = i
		}
	}
	if idx < 0 {
		return "", 0
	}
	n := 0
	nd := p.CallGraph().Nodes[fn]
	if nd == nil {
		return "", 0
	}
	for _, e := range nd.In {
		if e.Site == nil || !in[e.Caller.Func] {
			continue
		}
		c := e.Site.Common()
		var args []ssa.Value
		if c.IsInvoke() {
			args = append(args, c.Value)
		}
		args = append(args, c.Args...)
		if idx >= len(args) {
			continue
		}
		n++
		if !freshLocal(args[idx], 0) {
			return shortFn(e.Caller.Func), n
		}
	}
	return "", n
}

// perCallContainerElement: the object is an element (range key or value, lookup result) of a map or
// slice held in a field of a struct that is itself not shared (the generator's own collections).
func perCallContainerElement(v ssa.Value, shared map[*types.Named]bool) string {
	var cont ssa.Value
	switch x := v.(type) {
	case *ssa.Extract:
		if nx, ok := x.Tuple.(*ssa.Next); ok {
			if rg, ok := nx.Iter.(*ssa.Range); ok {
				cont = rg.X
			}
		}
	case *ssa.Lookup:
		cont = x.X
	}
	if cont == nil {
		return ""
	}
	u, ok := cont.(*ssa.UnOp)
	if !ok {
		return ""
	}
	fa, ok := u.X.(*ssa.FieldAddr)
	if !ok {
		return ""
	}
	owner := core.NamedOf(fa.X.Type())
	if owner == nil || shared[owner.Origin()] {
		return ""
	}
	_, f := fieldNames(fa.X.Type(), fa.Field)
	return "an element of " + owner.Obj().Name() + "." + f + ", a collection owned by the per-call " + owner.Obj().Name() + " (package-level objects are kept out of it: C15.escape)"
}

// c15VerifyNodeExcuse: legacy.NewRouter calls node() on the router it returns, and Router has no
// exported field through which pathNode could be reset.
func c15VerifyNodeExcuse(p *core.Prog) string {
	fd := p.DeclOf("routers/legacy", "NewRouter")
	info := p.Pkg("routers/legacy").TypesInfo
	calls := false
	ast.Inspect(fd.Body, func(n ast.Node) bool {
		if c, ok := n.(*ast.CallExpr); ok {
			if callee := core.CalleeOf(info, c); callee != nil && callee.Name() == "node" {
				calls = true
			}
		}
		return true
	})
	if !calls {
		return "legacy.NewRouter no longer calls node() before returning the router"
	}
	st := p.NamedType("routers/legacy", "Router").Underlying().(*types.Struct)
	for i := 0; i < st.NumFields(); i++ {
		if st.Field(i).Name() == "pathNode" && st.Field(i).Exported() {
			return "Router.pathNode is exported"
		}
	}
	return ""
}

// c15Pool: an object recycled through a sync.Pool is indistinguishable from a fresh one.
func c15Pool(r *core.Report) {
	p := r.Prog
	r.RunRule("C15.pool", "recycled objects carry nothing over: for every sync.Pool of the library packages, the function that calls Put(x) assigns every field of x's struct type (or overwrites *x) before the Put; a field left as it was leaks one call's configuration into an unrelated later call that draws the object from the pool (today the library has no pool: the per-call settings and routes are fresh allocations)", 0, func() {
		n := 0
		for _, rel := range []string{"openapi3", "openapi3filter", "openapi3gen", "routers", "routers/gorillamux", "routers/legacy", "routers/legacy/pathpattern", "openapi2", "openapi2conv"} {
			pk := p.PkgOpt(rel)
			if pk == nil {
				continue
			}
			info := pk.TypesInfo
			for _, d := range p.AllDecls(rel) {
				ast.Inspect(d.Body, func(nd ast.Node) bool {
					c, ok := nd.(*ast.CallExpr)
					if !ok || len(c.Args) != 1 {
						return true
					}
					callee := core.CalleeOf(info, c)
					if callee == nil || callee.Name() != "Put" || callee.Pkg() == nil || callee.Pkg().Path() != "sync" {
						return true
					}
					n++
					key := fmt.Sprintf("pool:%s/%s", rel, core.FuncName(d))
					arg := ast.Unparen(c.Args[0])
					id, ok := arg.(*ast.Ident)
					if !ok {
						r.Unknown(key, p.Pos(c.Pos()), "Put of a value that is not a variable")
						return true
					}
					o := info.ObjectOf(id)
					st := core.StructOf(o.Type())
					if st == nil {
						r.Trivial(key, p.Pos(c.Pos()), "the pooled value has no fields")
						return true
					}
					assigned := map[string]bool{}
					whole := false
					ast.Inspect(d.Body, func(m ast.Node) bool {
						as, ok := m.(*ast.AssignStmt)
						if !ok || as.Pos() > c.Pos() {
							return true
						}
						for _, l := range as.Lhs {
							switch x := ast.Unparen(l).(type) {
							case *ast.SelectorExpr:
								if xid, ok := ast.Unparen(x.X).(*ast.Ident); ok && info.ObjectOf(xid) == o {
									assigned[x.Sel.Name] = true
								}
							case *ast.StarExpr:
								if xid, ok := ast.Unparen(x.X).(*ast.Ident); ok && info.ObjectOf(xid) == o {
									whole = true
								}
							}
						}
						return true
					})
					var missing []string
					for i := 0; i < st.NumFields(); i++ {
						if !whole && !assigned[st.Field(i).Name()] {
							missing = append(missing, st.Field(i).Name())
						}
					}
					r.Check(len(missing) == 0, key, p.Pos(c.Pos()), "every field is reset before the object returns to the pool", fmt.Sprintf("the object goes back to the pool with field(s) %s untouched: the next call that draws it inherits them", strings.Join(missing, ", ")))
					return true
				})
			}
		}
		if n == 0 {
			r.Trivial("pool:none", "-", "the library packages use no sync.Pool")
		}
	})
}

// concreteTypesOf: the static types converted into the interface value v along its local definitions.
func concreteTypesOf(v ssa.Value, depth int) []types.Type {
	if depth > 6 {
		return nil
	}
	switch x := v.(type) {
	case *ssa.MakeInterface:
		if _, isIface := x.X.Type().Underlying().(*types.Interface); isIface {
			return concreteTypesOf(x.X, depth+1)
		}
		return []types.Type{x.X.Type()}
	case *ssa.Phi:
		var out []types.Type
		for _, e := range x.Edges {
			out = append(out, concreteTypesOf(e, depth+1)...)
		}
		return out
	case *ssa.UnOp:
		// load of a local cell (named result): the stored values
		if al, ok := x.X.(*ssa.Alloc); ok {
			var out []types.Type
			for _, ref := range *al.Referrers() {
				if st, ok := ref.(*ssa.Store); ok && st.Addr == ssa.Value(al) {
					out = append(out, concreteTypesOf(st.Val, depth+1)...)
				}
			}
			return out
		}
	case *ssa.ChangeInterface:
		return concreteTypesOf(x.X, depth+1)
	}
	return nil
}

// mapFieldOrigins: the field loads a map value may come from (through phis, local cells and type
// changes).
func mapFieldOrigins(v ssa.Value, depth int, seen map[ssa.Value]bool) []*ssa.FieldAddr {
	if depth > 8 || seen[v] {
		return nil
	}
	seen[v] = true
	switch x := v.(type) {
	case *ssa.UnOp:
		if fa, ok := x.X.(*ssa.FieldAddr); ok {
			return []*ssa.FieldAddr{fa}
		}
		if al, ok := x.X.(*ssa.Alloc); ok {
			var out []*ssa.FieldAddr
			for _, ref := range *al.Referrers() {
				if st, ok := ref.(*ssa.Store); ok && st.Addr == ssa.Value(al) {
					out = append(out, mapFieldOrigins(st.Val, depth+1, seen)...)
				}
				// closures that share the variable may assign it too
				if mc, ok := ref.(*ssa.MakeClosure); ok {
					cf := mc.Fn.(*ssa.Function)
					for i, bnd := range mc.Bindings {
						if bnd == ssa.Value(al) && i < len(cf.FreeVars) {
							for _, v := range cellStores(cf.FreeVars[i]) {
								out = append(out, mapFieldOrigins(v, depth+1, seen)...)
							}
						}
					}
				}
			}
			return out
		}
		if fv, ok := x.X.(*ssa.FreeVar); ok {
			var out []*ssa.FieldAddr
			for _, v := range cellStores(fv) {
				out = append(out, mapFieldOrigins(v, depth+1, seen)...)
			}
			return out
		}
	case *ssa.Phi:
		var out []*ssa.FieldAddr
		for _, e := range x.Edges {
			out = append(out, mapFieldOrigins(e, depth+1, seen)...)
		}
		return out
	case *ssa.ChangeType:
		return mapFieldOrigins(x.X, depth+1, seen)
	case *ssa.Parameter:
		// what the callers pass
		if c15Graph == nil || x.Parent() == nil {
			return nil
		}
		idx := -1
		for i, prm := range x.Parent().Params {
			if prm == x {
				idx = i
			}
		}
		var out []*ssa.FieldAddr
		if n := c15Graph.Nodes[x.Parent()]; n != nil && idx >= 0 {
			for _, e := range n.In {
				if e.Site == nil {
					continue
				}
				c := e.Site.Common()
				var args []ssa.Value
				if c.IsInvoke() {
					args = append(args, c.Value)
				}
				args = append(args, c.Args...)
				if idx < len(args) {
					out = append(out, mapFieldOrigins(args[idx], depth+1, seen)...)
				}
			}
		}
		return out
	case *ssa.Call:
		// a library function that hands back one of the maps it was given
		sc := x.Common().StaticCallee()
		if sc == nil || !core.SSAFuncInRepo(sc) || sc.Signature.Results().Len() != 1 {
			return nil
		}
		var out []*ssa.FieldAddr
		for _, b := range sc.Blocks {
			for _, in := range b.Instrs {
				if ret, ok := in.(*ssa.Return); ok && len(ret.Results) == 1 {
					out = append(out, mapFieldOrigins(ret.Results[0], depth+1, seen)...)
				}
			}
		}
		return out
	}
	return nil
}

// c15Graph: the call graph used to follow map parameters to what callers pass (set by c15Shared).
var c15Graph *callgraph.Graph

// cellStores: every value stored into the variable cell a closure captured (in the function that
// declares the variable and in all closures that share it).
func cellStores(fv *ssa.FreeVar) []ssa.Value {
	fn := fv.Parent()
	if fn == nil || fn.Parent() == nil {
		return nil
	}
	idx := -1
	for i, f := range fn.FreeVars {
		if f == fv {
			idx = i
		}
	}
	var cell ssa.Value
	outer := fn.Parent()
	for _, b := range outer.Blocks {
		for _, in := range b.Instrs {
			if mc, ok := in.(*ssa.MakeClosure); ok && mc.Fn == ssa.Value(fn) && idx >= 0 && idx < len(mc.Bindings) {
				cell = mc.Bindings[idx]
			}
		}
	}
	if cell == nil {
		return nil
	}
	var out []ssa.Value
	collect := func(addr ssa.Value) {
		if addr.Referrers() == nil {
			return
		}
		for _, ref := range *addr.Referrers() {
			if st, ok := ref.(*ssa.Store); ok && st.Addr == addr {
				out = append(out, st.Val)
			}
		}
	}
	collect(cell)
	for _, b := range outer.Blocks {
		for _, in := range b.Instrs {
			mc, ok := in.(*ssa.MakeClosure)
			if !ok {
				continue
			}
			cf := mc.Fn.(*ssa.Function)
			for i, bnd := range mc.Bindings {
				if bnd == cell && i < len(cf.FreeVars) {
					collect(cf.FreeVars[i])
				}
			}
		}
	}
	return out
}

// c15CacheKey: what a process-wide cache returns depends on the key alone.
func c15CacheKey(r *core.Report) {
	p := r.Prog
	r.RunRule("C15.cachekey", "a process-wide cache returns the same thing to every caller: for every Store / LoadOrStore / Swap / CompareAndSwap on a package-level sync.Map of the library, each parameter of the enclosing function that the stored value depends on is also a dependency of the key, or is known to be nil where the store happens (a per-call option such as a custom regex compiler must not shape an entry that later calls without that option will load); CompareAndSwap(k, nil, v) never stores for an absent key and is not counted", 0, func() {
		n := 0
		for _, rel := range []string{"openapi3", "openapi3filter", "openapi3gen", "routers/gorillamux", "routers/legacy", "openapi2conv"} {
			pk := p.PkgOpt(rel)
			if pk == nil {
				continue
			}
			info := pk.TypesInfo
			for _, d := range p.AllDecls(rel) {
				ff := core.NewFuncFacts(p, info, d)
				perFn := 0
				ast.Inspect(d.Body, func(nd ast.Node) bool {
					c, ok := nd.(*ast.CallExpr)
					if !ok {
						return true
					}
					sel, ok := c.Fun.(*ast.SelectorExpr)
					if !ok {
						return true
					}
					callee := core.CalleeOf(info, c)
					if callee == nil || callee.Pkg() == nil || callee.Pkg().Path() != "sync" {
						return true
					}
					id, ok := ast.Unparen(sel.X).(*ast.Ident)
					if !ok {
						return true
					}
					gv, ok := info.ObjectOf(id).(*types.Var)
					if !ok || gv.Parent() != gv.Pkg().Scope() {
						return true
					}
					var keyE, valE ast.Expr
					switch callee.Name() {
					case "Store", "LoadOrStore", "Swap":
						if len(c.Args) == 2 {
							keyE, valE = c.Args[0], c.Args[1]
						}
					case "CompareAndSwap":
						if len(c.Args) == 3 {
							if core.IsNil(info, c.Args[1]) {
								return true // never stores for an absent key
							}
							keyE, valE = c.Args[0], c.Args[2]
						}
					}
					if keyE == nil {
						return true
					}
					n++
					perFn++
					key := fmt.Sprintf("cachekey:%s/%s#%d", core.FuncName(d), gv.Name(), perFn)
					kr := ff.Roots(keyE, true)
					vr := ff.Roots(valE, true)
					var extra []string
					for o := range vr.Objs {
						if kr.Objs[o] {
							continue
						}
						v, isVar := o.(*types.Var)
						if !isVar || v.Parent() == v.Pkg().Scope() {
							continue // package-level state is the same for every caller
						}
						// receiver fields reached through the receiver are compared field-wise below
						if recv := recvObj(info, d); recv != nil && o == recv {
							continue
						}
						// known nil at the store?
						isNilHere := false
						for _, a := range core.Atoms(core.GuardsAt(info, d.Body, c)) {
							if be, ok := ast.Unparen(a.Expr).(*ast.BinaryExpr); ok && core.IsNil(info, be.Y) {
								if xid, ok := ast.Unparen(be.X).(*ast.Ident); ok && info.ObjectOf(xid) == o {
									if (be.Op == token.EQL && a.Pos) || (be.Op == token.NEQ && !a.Pos) {
										isNilHere = true
									}
								}
							}
						}
						if !isNilHere {
							extra = append(extra, o.Name())
						}
					}
					// receiver fields the value depends on must be among the key's
					for f := range vr.Fields {
						if !kr.Fields[f] {
							extra = append(extra, "field "+f.Name())
						}
					}
					sort.Strings(extra)
					r.Check(len(extra) == 0, key, p.Pos(c.Pos()), "the stored value is a function of the key", fmt.Sprintf("the value stored into the process-wide cache %s depends on %s, which is not part of the key: a call made with another %s loads an entry shaped by this one", gv.Name(), strings.Join(extra, ", "), strings.Join(extra, ", ")))
					return true
				})
			}
		}
		if n == 0 {
			r.Trivial("cachekey:none", "-", "no store into a package-level sync.Map (the compiled-pattern cache is only ever filled by CompareAndSwap against nil, which never stores for an absent key)")
		}
	})
}

// c15Publish: an object handed to other goroutines through a package-level map is complete when it
// is stored there. A field assigned after the store is written while readers that found the entry
// already use it (and outside whatever lock guarded the store).
// c15PublishOnce: objects that are compared by identity are published once. Two goroutines that
// both miss a cache and both publish what they built leave two objects for one key in circulation:
// whoever holds the first and later looks the key up gets the second, and an identity comparison
// between them (the generator's cycle detection compares type infos by pointer) fails.
func c15PublishOnce(r *core.Report, scope []*ssa.Function) {
	p := r.Prog
	r.RunRule("C15.publishonce", "first publication wins: every store of a pointer into a package-level map in the concurrently used code stands on the miss edge of a comma-ok lookup of the same map made after the write lock was taken (lookup and store in one critical section) — a store that relies on a lookup made under an earlier read lock lets two goroutines publish two objects for the same key", 1, func() {
		perFn := map[string]int{}
		for _, fn := range scope {
			for _, b := range fn.Blocks {
				for _, in := range b.Instrs {
					mu, ok := in.(*ssa.MapUpdate)
					if !ok {
						continue
					}
					g, ok := globalRoot(mu.Map, 0)
					if !ok || g == nil {
						continue
					}
					if _, isPtr := mu.Value.Type().Underlying().(*types.Pointer); !isPtr {
						continue
					}
					name := shortFn(fn)
					perFn[name]++
					key := fmt.Sprintf("publishonce:%s/%s#%d", name, g.Name(), perFn[name])
					good := false
					for _, b2 := range fn.Blocks {
						locked := false
						for _, in2 := range b2.Instrs {
							if c, isCall := in2.(ssa.CallInstruction); isCall {
								if sc := c.Common().StaticCallee(); sc != nil && sc.Pkg != nil && sc.Pkg.Pkg.Path() == "sync" {
									switch sc.Name() {
									case "Lock":
										locked = true
									case "Unlock", "RUnlock", "RLock":
										locked = false
									}
								}
							}
							lk, isLk := in2.(*ssa.Lookup)
							if !isLk || !lk.CommaOk || !locked {
								continue
							}
							if g2, ok := globalRoot(lk.X, 0); !ok || g2 != g {
								continue
							}
							if lk.Referrers() == nil {
								continue
							}
							for _, ref := range *lk.Referrers() {
								if ex, isEx := ref.(*ssa.Extract); isEx && ex.Index == 1 && boolEdgeDominates(ex, false, b) {
									good = true
								}
							}
						}
					}
					if good {
						r.OK(key, p.Pos(mu.Pos()), "stored on the miss edge of a lookup made under the write lock")
					} else {
						r.Bad(key, p.Pos(mu.Pos()), fmt.Sprintf("the object is stored into the package-level map %s without looking the key up again under the write lock: two goroutines that both missed the earlier lookup each publish their own object, the second replacing the first — callers that compare the objects by identity (the schema generator's cycle detection) then get a different result than the same call run alone", g.Name()))
					}
				}
			}
		}
	})
}

func c15Publish(r *core.Report, scope []*ssa.Function) {
	p := r.Prog
	r.RunRule("C15.publish", "publish after construction: for every store of a pointer into a package-level map in the concurrently used code, no field of the pointed-to object is assigned on a path that continues from the store (the object is built first, then published)", 1, func() {
		perFn := map[string]int{}
		for _, fn := range scope {
			for _, b := range fn.Blocks {
				for i, in := range b.Instrs {
					mu, ok := in.(*ssa.MapUpdate)
					if !ok {
						continue
					}
					g, ok := globalRoot(mu.Map, 0)
					if !ok || g == nil {
						continue
					}
					if _, isPtr := mu.Value.Type().Underlying().(*types.Pointer); !isPtr {
						continue
					}
					name := shortFn(fn)
					perFn[name]++
					key := fmt.Sprintf("publish:%s/%s#%d", name, g.Name(), perFn[name])
					// aliases of the published pointer: the value itself, phis it flows into, loads of the cell it came from
					alias := map[ssa.Value]bool{mu.Value: true}
					if ld, ok := mu.Value.(*ssa.UnOp); ok {
						if al, ok := ld.X.(*ssa.Alloc); ok && al.Referrers() != nil {
							for _, ref := range *al.Referrers() {
								if l2, ok := ref.(*ssa.UnOp); ok && l2.Op == token.MUL {
									alias[l2] = true
								}
							}
						}
					}
					if mu.Value.Referrers() != nil {
						for _, ref := range *mu.Value.Referrers() {
							if ph, ok := ref.(*ssa.Phi); ok {
								alias[ph] = true
							}
						}
					}
					bad := ""
					for _, b2 := range fn.Blocks {
						for j, in2 := range b2.Instrs {
							st, ok := in2.(*ssa.Store)
							if !ok {
								continue
							}
							fa, ok := st.Addr.(*ssa.FieldAddr)
							if !ok || !alias[fa.X] {
								continue
							}
							after := (b2 == b && j > i) || (b2 != b && reaches(b, b2))
							if after {
								_, f := fieldNames(fa.X.Type(), fa.Field)
								bad = fmt.Sprintf("field %s is assigned at %s", f, p.Pos(st.Pos()))
							}
						}
					}
					if bad != "" {
						r.Bad(key, p.Pos(mu.Pos()), fmt.Sprintf("the object stored into the package-level map %s is still being built: %s, after the store — a goroutine that looks the entry up in between gets the unfinished object (and the later write races with its reads)", g.Name(), bad))
					} else {
						r.OK(key, p.Pos(mu.Pos()), "the object is complete when it is published")
					}
				}
			}
		}
	})
}
