package rules

import (
	"fmt"
	"go/ast"
	"go/types"
	"strings"

	"verif/internal/core"
)

// c05Joined: DecodeObject joins the values of a repeated key with a private delimiter
// (props[k] = strings.Join(values, urlDecoderDelimiter)); makeObject is where that text is taken
// apart again or refused.
func c05Joined(r *core.Report) {
	p := r.Prog
	info := p.Pkg("openapi3filter").TypesInfo
	r.RunRule("C05.joined", "the text DecodeObject joins repeated values into never becomes a decoded value: in makeObject every use of the value variable of the range over `props` (stored into a map, handed to deepSet or any other call) stands where `strings.Contains(value, urlDecoderDelimiter)` has been tested and found false, or is that test itself, or a strings.Split by the delimiter — otherwise `filter[name]=a&filter[name]=b` decodes to the single string \"a\\x1fb\"", 1, func() {
		fd := p.DeclOf("openapi3filter", "makeObject")
		props := paramAt(info, fd, 0) // (props, schema)
		if props == nil {
			core.Fail("makeObject: parameter props not found")
		}
		n := 0
		ast.Inspect(fd.Body, func(nd ast.Node) bool {
			rs, ok := nd.(*ast.RangeStmt)
			if !ok || rs.Value == nil {
				return true
			}
			if id, ok := ast.Unparen(rs.X).(*ast.Ident); !ok || info.ObjectOf(id) != props {
				return true
			}
			vid, ok := rs.Value.(*ast.Ident)
			if !ok {
				return true
			}
			vobj := info.ObjectOf(vid)
			isDelimTest := func(e ast.Expr) bool {
				c, ok := ast.Unparen(e).(*ast.CallExpr)
				if !ok || len(c.Args) != 2 {
					return false
				}
				f := core.CalleeOf(info, c)
				if f == nil || f.Pkg() == nil || f.Pkg().Path() != "strings" || (f.Name() != "Contains" && f.Name() != "Split" && f.Name() != "Index" && f.Name() != "SplitN") {
					return false
				}
				a0, ok := ast.Unparen(c.Args[0]).(*ast.Ident)
				if !ok || info.ObjectOf(a0) != vobj {
					return false
				}
				if cs, ok := core.ConstStr(info, c.Args[1]); !ok || cs != "\x1f" {
					return false
				}
				return true
			}
			perUse := 0
			var stack []ast.Node
			ast.Inspect(rs.Body, func(m ast.Node) bool {
				if m == nil {
					stack = stack[:len(stack)-1]
					return true
				}
				stack = append(stack, m)
				id, ok := m.(*ast.Ident)
				if !ok || info.ObjectOf(id) != vobj {
					return true
				}
				// the use is an argument of the delimiter test / split itself
				if len(stack) >= 2 {
					if c, ok := stack[len(stack)-2].(*ast.CallExpr); ok && isDelimTest(c) {
						return true
					}
				}
				perUse++
				n++
				key := fmt.Sprintf("joined:makeObject/use#%d", perUse)
				tested := false
				for _, a := range core.Atoms(core.GuardsAt(info, fd.Body, id)) {
					if !a.Pos && isDelimTest(a.Expr) {
						if c := ast.Unparen(a.Expr).(*ast.CallExpr); strings.HasPrefix(core.CalleeOf(info, c).Name(), "Contains") {
							tested = true
						}
					}
				}
				r.Check(tested, key, p.Pos(id.Pos()), "used where the value is known not to contain the delimiter", "the value of a props entry is used here without the test `strings.Contains(value, urlDecoderDelimiter)` having failed on this path: the values of a repeated key are joined with that delimiter by DecodeObject, so `filter[name]=a&filter[name]=b` reaches the decoded object as the one string \"a\\x1fb\" and is validated as such")
				return true
			})
			return true
		})
		if n == 0 {
			core.Fail("makeObject: no use of the value of a props entry found")
		}
	})
}

var _ = types.Typ
