package rules

import (
	"go/ast"
	"go/types"
	"sort"

	"verif/internal/core"
)

// c05NumKinds: the Go types a decoded primitive arrives as are known to the validator, in both
// places where it looks at the type.
func c05NumKinds(r *core.Report) {
	p := r.Prog
	finfo := p.Pkg("openapi3filter").TypesInfo
	info := p.Pkg("openapi3").TypesInfo
	r.RunRule("C05.numkinds", "the decoders' and the validator's tables of Go types agree: (a) every type parsePrimitiveCase returns a value as (int32 for format int32, int64, float64, bool, string) is a case of the type switch in Schema.visitJSON; (b) every type that switch hands to visitJSONNumber after a conversion to float64 is also a case of the type switch in Schema.visitEnumOperation — a number that arrives as an integer type without such a case is compared with the enum's float64 items by reflect.DeepEqual and equals none of them, so a parameter `format: int32, enum: [1,2]` rejects 1", 5, func() {
		// the cases of a type switch over `value` in a function
		cases := func(fd *ast.FuncDecl, inf *types.Info, numericOnly bool) map[string]bool {
			out := map[string]bool{}
			ast.Inspect(fd.Body, func(n ast.Node) bool {
				ts, ok := n.(*ast.TypeSwitchStmt)
				if !ok {
					return true
				}
				for _, c := range ts.Body.List {
					cc := c.(*ast.CaseClause)
					callsNumber := false
					for _, st := range cc.Body {
						ast.Inspect(st, func(m ast.Node) bool {
							if ce, ok := m.(*ast.CallExpr); ok {
								if f := core.CalleeOf(inf, ce); f != nil && f.Name() == "visitJSONNumber" {
									callsNumber = true
								}
							}
							return true
						})
					}
					if numericOnly && !callsNumber {
						continue
					}
					for _, e := range cc.List {
						if t := inf.TypeOf(e); t != nil {
							out[t.String()] = true
						}
					}
				}
				return true
			})
			return out
		}
		visit := p.DeclOf("openapi3", "Schema.visitJSON")
		enum := p.DeclOf("openapi3", "Schema.visitEnumOperation")
		visitCases := cases(visit, info, false)
		numberCases := cases(visit, info, true)
		enumCases := cases(enum, info, false)
		// a helper of the package that the enum check hands the value to may hold the switch
		ast.Inspect(enum.Body, func(n ast.Node) bool {
			if ce, ok := n.(*ast.CallExpr); ok {
				if f := core.CalleeOf(info, ce); f != nil && f.Pkg() != nil && core.InRepo(f.Pkg()) && f.Name() != "visitJSON" {
					if hd := p.Decl(f); hd != nil && hd.Body != nil {
						for t := range cases(hd, p.InfoFor(f.Pkg()), false) {
							enumCases[t] = true
						}
					}
				}
			}
			return true
		})
		if len(numberCases) < 2 || len(enumCases) == 0 {
			core.Fail("visitJSON / visitEnumOperation: type switches over the value not found")
		}
		// (a)
		prim := p.DeclOf("openapi3filter", "parsePrimitiveCase")
		produced := map[string]string{}
		ast.Inspect(prim.Body, func(n ast.Node) bool {
			if _, ok := n.(*ast.FuncLit); ok {
				return false
			}
			rs, ok := n.(*ast.ReturnStmt)
			if !ok || len(rs.Results) == 0 {
				return true
			}
			t := finfo.TypeOf(rs.Results[0])
			if t == nil || core.IsNil(finfo, rs.Results[0]) {
				return true
			}
			if _, isIface := t.Underlying().(*types.Interface); isIface {
				return true
			}
			if _, seen := produced[t.String()]; !seen {
				produced[t.String()] = p.Pos(rs.Pos())
			}
			return true
		})
		var names []string
		for t := range produced {
			names = append(names, t)
		}
		sort.Strings(names)
		for _, t := range names {
			r.Check(visitCases[t], "numkinds:produced/"+t, produced[t], "a case of visitJSON's type switch", "parsePrimitiveCase returns a "+t+", which the type switch of Schema.visitJSON has no case for: every such parameter value is rejected as an unhandled type")
		}
		// (b)
		names = names[:0]
		for t := range numberCases {
			names = append(names, t)
		}
		sort.Strings(names)
		for _, t := range names {
			if t == "float64" {
				continue // enum items are float64: DeepEqual compares like with like
			}
			r.Check(enumCases[t], "numkinds:enum/"+t, p.Pos(enum.Pos()), "a case of visitEnumOperation's type switch", "Schema.visitJSON treats a "+t+" as a number, but the type switch of visitEnumOperation has no case for it: the value is compared with the enum's float64 items by reflect.DeepEqual and equals none (a query parameter `type: integer, format: int32, enum: [1,2]` rejects `1`)")
		}
	})
}
