package rules

import (
	"fmt"
	"go/ast"
	"go/token"
	"go/types"

	"verif/internal/core"
)

// c20DrillNil: the fragment drill-down tests its cursor for a nil pointer once per step, at the end
// of the loop body; a step must not leave the body before that test.
func c20DrillNil(r *core.Report) {
	p := r.Prog
	info := p.Pkg("openapi3").TypesInfo
	r.RunRule("C20.drillnil", "every step of the fragment drill-down ends in the typed-nil test: in package openapi3, a loop whose body tests an interface variable with reflect.ValueOf(x).IsNil() (resolveComponent's walk along the parts of a JSON pointer) assigns that variable only before the test, and no `continue` of that loop stands between an assignment to it and the test — a step that takes a pointer out of the document (additionalProperties of a schema that has none) and skips the test hands a nil pointer inside a non-nil interface to the next step or to the caller, where the first method call on it panics", 1, func() {
		n := 0
		for _, d := range p.AllDecls("openapi3") {
			if d.Body == nil {
				continue
			}
			perFn := 0
			ast.Inspect(d.Body, func(nd ast.Node) bool {
				var body *ast.BlockStmt
				switch x := nd.(type) {
				case *ast.RangeStmt:
					body = x.Body
				case *ast.ForStmt:
					body = x.Body
				default:
					return true
				}
				// the typed-nil test among the direct statements of the body
				var cursor types.Object
				var test *ast.IfStmt
				for _, st := range body.List {
					ifs, ok := st.(*ast.IfStmt)
					if !ok {
						continue
					}
					ast.Inspect(ifs.Cond, func(m ast.Node) bool {
						be, ok := m.(*ast.BinaryExpr)
						if !ok || be.Op != token.EQL || !core.IsNil(info, be.Y) {
							return true
						}
						if id, ok := ast.Unparen(be.X).(*ast.Ident); ok {
							if o := info.ObjectOf(id); o != nil && reflectNilTested(info, ifs.Cond, ifs.Init, o) {
								cursor, test = o, ifs
							}
						}
						return true
					})
				}
				if test == nil {
					return true
				}
				n++
				perFn++
				key := fmt.Sprintf("drillnil:%s#%d", core.FuncName(d), perFn)
				bad := ""
				var firstAssign token.Pos
				var ptrAssigns []*ast.AssignStmt
				var continues []*ast.BranchStmt
				// assignments to the cursor and continues of this loop, in source order
				var walk func(node ast.Node, nested bool)
				walk = func(node ast.Node, nested bool) {
					ast.Inspect(node, func(m ast.Node) bool {
						switch x := m.(type) {
						case *ast.FuncLit:
							return false
						case *ast.ForStmt, *ast.RangeStmt:
							if m != node {
								walk(m, true)
								return false
							}
						case *ast.AssignStmt:
							for li, l := range x.Lhs {
								if id, ok := ast.Unparen(l).(*ast.Ident); ok && info.ObjectOf(id) == cursor {
									// what is assigned can be a nil pointer: a pointer, an interface, or a call result
									ptrLike := true
									if len(x.Rhs) == len(x.Lhs) {
										if t := info.TypeOf(x.Rhs[li]); t != nil {
											switch t.Underlying().(type) {
											case *types.Pointer, *types.Interface:
											default:
												ptrLike = false
											}
										}
									}
									if ptrLike {
										ptrAssigns = append(ptrAssigns, x)
									}
									if x.Pos() > test.End() && bad == "" {
										bad = "the cursor is assigned at " + p.Pos(x.Pos()) + ", after the test of this step"
									}
								}
							}
						case *ast.BranchStmt:
							if x.Tok == token.CONTINUE && !nested && x.Label == nil && x.Pos() < test.Pos() {
								continues = append(continues, x)
							}
						}
						return true
					})
				}
				walk(body, false)
				// a continue counts when an assignment stands before it in a block that encloses it
				for _, c := range continues {
					pc := core.PathTo(body, c)
					for _, as := range ptrAssigns {
						if as.Pos() >= c.Pos() || bad != "" {
							continue
						}
						// the lowest node both stand under: statements of one list run in sequence; the
						// clauses of a switch and the arms of an if do not
						pa := core.PathTo(body, as)
						k := 0
						for k < len(pa) && k < len(pc) && pa[k] == pc[k] {
							k++
						}
						if k == 0 {
							continue
						}
						sequential := false
						switch lca := pa[k-1].(type) {
						case *ast.CaseClause, *ast.CommClause:
							sequential = true
						case *ast.BlockStmt:
							sequential = true
							if k < len(pa) {
								if _, isClause := pa[k].(*ast.CaseClause); isClause {
									sequential = false // the body of a switch: two different clauses
								}
							}
							_ = lca
						}
						if sequential {
							firstAssign = as.Pos()
							bad = "the `continue` at " + p.Pos(c.Pos()) + " leaves the step after the cursor was assigned at " + p.Pos(firstAssign) + " and before the test"
						}
					}
				}
				r.Check(bad == "", key, p.Pos(test.Pos()), "every assignment of the step is followed by the test", "a step of the walk can end without the typed-nil test: "+bad+"; a pointer field that is nil (a schema without additionalProperties, reached by `#/components/schemas/A/additionalProperties`) is then returned inside a non-nil interface and dereferenced by the caller")
				return true
			})
		}
		if n == 0 {
			core.Fail("no loop with a typed-nil test found (resolveComponent's drill expected)")
		}
	})
}

// c20DefaultGate: document validation visits values (defaults, examples) against schemas that it
// has not finished validating; the recursion rule's invariant "a validated schema does not include
// itself through composition" does not cover them yet.
func c20DefaultGate(r *core.Report) {
	p := r.Prog
	info := p.Pkg("openapi3").TypesInfo
	r.RunRule("C20.defaultgate", "no value is visited against a schema graph that may still contain a composition cycle: in Schema.validate every call that checks a value against the schema (VisitJSON, validateExampleValue) stands after a test that no schema reachable from it — through properties, items and additionalProperties as well as through the compositions — includes itself through oneOf/anyOf/allOf/not (a call of reachesCompositionCycle whose true branch returns) — the schema's own composition check and the `stack` of ancestors do not cover a property of an ancestor that is still waiting to be validated, and visiting a default through such a property recursed until the stack overflowed", 2, func() {
		fd := p.DeclOf("openapi3", "Schema.validate")
		n := 0
		ast.Inspect(fd.Body, func(nd ast.Node) bool {
			c, ok := nd.(*ast.CallExpr)
			if !ok {
				return true
			}
			f := core.CalleeOf(info, c)
			if f == nil || (f.Name() != "VisitJSON" && f.Name() != "visitJSON" && f.Name() != "validateExampleValue") {
				return true
			}
			n++
			gated := false
			for _, a := range core.Atoms(core.GuardsAt(info, fd.Body, c)) {
				if a.Pos {
					continue
				}
				ast.Inspect(a.Expr, func(m ast.Node) bool {
					if cc, ok := m.(*ast.CallExpr); ok {
						if g := core.CalleeOf(info, cc); g != nil && g.Name() == "reachesCompositionCycle" {
							gated = true
						}
					}
					return true
				})
			}
			r.Check(gated, fmt.Sprintf("defaultgate:%s#%d", f.Name(), n), p.Pos(c.Pos()), "after the test for a composition cycle below", "Schema.validate checks a value with "+f.Name()+" without having tested that no schema below includes itself through composition: a default that leads through a not yet validated property of an ancestor into such a schema makes document validation recurse until the stack overflows")
			return true
		})
		if n == 0 {
			core.Fail("Schema.validate: no value check found (default / example expected)")
		}
	})
}
