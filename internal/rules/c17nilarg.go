package rules

import (
	"fmt"
	"go/ast"
	"go/token"
	"go/types"

	"verif/internal/core"
)

// c17NilArg: a converter that is handed a literal nil for a pointer parameter must not dereference
// that parameter on a path the call can take.
func c17NilArg(r *core.Report) {
	p := r.Prog
	info := p.Pkg("openapi2conv").TypesInfo
	r.RunRule("C17.nilarg", "a nil argument is never dereferenced: for every call in package openapi2conv that passes the literal nil for a pointer parameter of a function of the package, every dereference of that parameter in the callee (a field selection or *p) is under a test `p != nil`, or under a condition `q.F != \"\"` on a field of another parameter that the call site refutes (the call stands where the same field of the argument is known to be empty) — FromV3RequestBodyFormData converts the items of a form array with FromV3SchemaRef(items, nil), and a $ref there made the conversion panic", 2, func() {
		n := 0
		for _, d := range p.AllDecls("openapi2conv") {
			if d.Body == nil {
				continue
			}
			perFn := 0
			ast.Inspect(d.Body, func(nd ast.Node) bool {
				call, ok := nd.(*ast.CallExpr)
				if !ok {
					return true
				}
				callee := core.CalleeOf(info, call)
				if callee == nil || callee.Pkg() == nil || callee.Pkg().Path() != core.ModPath+"/openapi2conv" {
					return true
				}
				sig := callee.Type().(*types.Signature)
				cd := p.Decl(callee)
				if cd == nil || cd.Body == nil {
					return true
				}
				for ai, arg := range call.Args {
					if !core.IsNil(info, arg) || ai >= sig.Params().Len() {
						continue
					}
					prm := sig.Params().At(ai)
					if _, isPtr := prm.Type().Underlying().(*types.Pointer); !isPtr {
						continue
					}
					n++
					perFn++
					key := fmt.Sprintf("nilarg:%s/%s(%s)#%d", core.FuncName(d), callee.Name(), prm.Name(), perFn)
					bad := nilParamDeref(p, info, cd, prm, sig, call, d)
					r.Check(bad == "", key, p.Pos(call.Pos()), "every dereference of the parameter is guarded, or on a path this call cannot take", fmt.Sprintf("%s passes nil for %s of %s, which dereferences it %s", core.FuncName(d), prm.Name(), callee.Name(), bad))
				}
				return true
			})
		}
		if n == 0 {
			core.Fail("no call with a literal nil pointer argument found in openapi2conv (FromV3SchemaRef(val.Items, nil) expected)")
		}
	})
}

// nilParamDeref: where the callee dereferences prm on a path that the call does not exclude.
func nilParamDeref(p *core.Prog, info *types.Info, cd *ast.FuncDecl, prm *types.Var, sig *types.Signature, call *ast.CallExpr, caller *ast.FuncDecl) string {
	ff := core.NewFuncFacts(p, info, cd)
	isPrm := func(e ast.Expr) bool {
		id, ok := ast.Unparen(e).(*ast.Ident)
		return ok && info.ObjectOf(id) == types.Object(prm)
	}
	// field of another parameter that an expression stands for: (parameter index, field name)
	var fieldOfParam func(e ast.Expr, depth int) (int, string)
	fieldOfParam = func(e ast.Expr, depth int) (int, string) {
		e = ast.Unparen(e)
		if depth > 2 {
			return -1, ""
		}
		switch x := e.(type) {
		case *ast.SelectorExpr:
			if id := core.RootIdent(x.X); id != nil {
				for j := 0; j < sig.Params().Len(); j++ {
					if info.ObjectOf(id) == types.Object(sig.Params().At(j)) {
						return j, x.Sel.Name
					}
				}
			}
		case *ast.Ident:
			if o := info.ObjectOf(x); o != nil {
				for _, a := range ff.Assigns(o) {
					if a.Rhs != nil {
						if j, f := fieldOfParam(a.Rhs, depth+1); j >= 0 {
							return j, f
						}
					}
				}
			}
		}
		return -1, ""
	}
	callerGuards := core.Atoms(core.GuardsAt(info, caller.Body, call))
	refuted := func(j int, f string) bool {
		if j >= len(call.Args) {
			return false
		}
		root := core.RootIdent(stripAddr(call.Args[j]))
		if root == nil {
			return false
		}
		for _, a := range callerGuards {
			be, ok := ast.Unparen(a.Expr).(*ast.BinaryExpr)
			if !ok || (be.Op != token.NEQ && be.Op != token.EQL) {
				continue
			}
			if s, ok := core.ConstStr(info, be.Y); !ok || s != "" {
				continue
			}
			// known empty: `x.F != ""` false, or `x.F == ""` true
			if (be.Op == token.NEQ) == a.Pos {
				continue
			}
			var sel *ast.SelectorExpr
			switch x := ast.Unparen(be.X).(type) {
			case *ast.SelectorExpr:
				sel = x
			case *ast.Ident:
				// `if ref := header.Ref; ref != ""`
				cff := core.NewFuncFacts(p, info, caller)
				if o := info.ObjectOf(x); o != nil {
					for _, as := range cff.Assigns(o) {
						if s, ok := ast.Unparen(as.Rhs).(*ast.SelectorExpr); ok && as.Rhs != nil {
							sel = s
						}
					}
				}
			}
			if sel == nil || sel.Sel.Name != f {
				continue
			}
			if id := core.RootIdent(sel.X); id != nil && info.ObjectOf(id) == info.ObjectOf(root) {
				return true
			}
		}
		return false
	}
	bad := ""
	ast.Inspect(cd.Body, func(n ast.Node) bool {
		if bad != "" {
			return false
		}
		var at ast.Node
		switch x := n.(type) {
		case *ast.SelectorExpr:
			if isPrm(x.X) {
				if s, ok := info.Selections[x]; ok && s.Kind() == types.FieldVal {
					at = x
				}
			}
		case *ast.StarExpr:
			if isPrm(x.X) {
				at = x
			}
		}
		if at == nil {
			return true
		}
		for _, a := range core.Atoms(core.GuardsAt(info, cd.Body, at)) {
			be, ok := ast.Unparen(a.Expr).(*ast.BinaryExpr)
			if !ok {
				continue
			}
			// p != nil
			if isPrm(be.X) && core.IsNil(info, be.Y) && ((be.Op == token.NEQ) == a.Pos) {
				return true
			}
			// q.F != "" that the call refutes
			if s, ok := core.ConstStr(info, be.Y); ok && s == "" && ((be.Op == token.NEQ) == a.Pos) {
				if j, f := fieldOfParam(be.X, 0); j >= 0 && refuted(j, f) {
					return true
				}
			}
		}
		bad = "at " + p.Pos(at.Pos()) + " without a nil test, on a path this call can take: nil pointer dereference"
		return true
	})
	return bad
}

func stripAddr(e ast.Expr) ast.Expr {
	e = ast.Unparen(e)
	if u, ok := e.(*ast.UnaryExpr); ok && u.Op == token.AND {
		return ast.Unparen(u.X)
	}
	return e
}
