package rules

import (
	"fmt"
	"go/ast"
	"go/token"
	"go/types"
	"strings"

	"verif/internal/core"
)

func init() { register("C12", c12) }

var c12Visitors = []string{
	"Schema.visitJSON", "Schema.visitEnumOperation", "Schema.visitNotOperation", "Schema.visitXOFOperations",
	"Schema.visitJSONNull", "Schema.visitJSONBoolean", "Schema.visitJSONNumber", "Schema.visitJSONString",
	"Schema.visitJSONArray", "Schema.visitJSONObject", "Schema.expectedType",
}

// modeFlagRead reports whether e is `settings.failfast` or `settings.multiError` (a field of the
// schema validation settings with one of the two mode names, resolved through types).
func modeFlagRead(info *types.Info, e ast.Expr) string {
	sel, ok := ast.Unparen(e).(*ast.SelectorExpr)
	if !ok {
		return ""
	}
	f := core.FieldSel(info, sel)
	if f == nil || !core.InRepo(f.Pkg()) {
		return ""
	}
	if f.Name() == "failfast" || f.Name() == "multiError" {
		return f.Name()
	}
	return ""
}

// isErrSliceAppend: `X = append(X, ...)` where X is a slice of error; returns X's object and args.
func isErrSliceAppend(info *types.Info, s ast.Stmt) (types.Object, []ast.Expr) {
	as, ok := s.(*ast.AssignStmt)
	if !ok || len(as.Lhs) != 1 || len(as.Rhs) != 1 {
		return nil, nil
	}
	call, ok := as.Rhs[0].(*ast.CallExpr)
	if !ok || !core.IsBuiltin(info, call, "append") || len(call.Args) < 2 {
		return nil, nil
	}
	id, ok := as.Lhs[0].(*ast.Ident)
	if !ok {
		return nil, nil
	}
	sl, ok := info.TypeOf(id).Underlying().(*types.Slice)
	if !ok || !types.Identical(sl.Elem(), types.Universe.Lookup("error").Type()) {
		return nil, nil
	}
	// the failure accumulator is the one of named type MultiError; other error slices (the
	// candidate errors of oneOf) are not failures of this schema
	if nt := core.NamedOf(info.TypeOf(id)); nt == nil || nt.Obj().Name() != "MultiError" {
		return nil, nil
	}
	return info.ObjectOf(id), call.Args[1:]
}

// listOf returns the statement list directly containing stmt, and its index.
func listOf(body ast.Node, stmt ast.Node) ([]ast.Stmt, int) {
	path := core.PathTo(body, stmt)
	for i := len(path) - 2; i >= 0; i-- {
		var list []ast.Stmt
		switch b := path[i].(type) {
		case *ast.BlockStmt:
			list = b.List
		case *ast.CaseClause:
			list = b.Body
		case *ast.CommClause:
			list = b.Body
		default:
			continue
		}
		for j, s := range list {
			if s == path[i+1] {
				return list, j
			}
		}
	}
	return nil, -1
}

// definitelyFails: the statement list suffix records a failure on every path that falls through it:
// it contains, as a top-level statement, an append to an error accumulator or a provably non-nil return
// (an `if` whose both... is not needed by the code base). `continue` after an append is fine.
func definitelyFails(na *core.NilAnalysis, ff *core.FuncFacts, list []ast.Stmt) (bool, string) {
	info := ff.Info
	for _, s := range list {
		if o, _ := isErrSliceAppend(info, s); o != nil {
			return true, "appends to the multi-error accumulator"
		}
		if ret, ok := s.(*ast.ReturnStmt); ok {
			if len(ret.Results) >= 1 && na.Classify(ff, ret.Results[0], ret) == core.NonNil {
				return true, "returns a non-nil error"
			}
			return false, "reaches a return that may be nil"
		}
		if ifs, ok := s.(*ast.IfStmt); ok {
			// if/else whose branches both record the failure
			if eb, ok := ifs.Else.(*ast.BlockStmt); ok {
				b1, _ := definitelyFails(na, ff, ifs.Body.List)
				b2, _ := definitelyFails(na, ff, eb.List)
				if b1 && b2 {
					return true, "both branches record the failure"
				}
			}
			// if cond { ...; append; continue } : keep scanning the fall-through path
		}
	}
	return false, "falls through without recording the failure"
}

func c12(r *core.Report) {
	p := r.Prog
	pk := p.Pkg("openapi3")
	info := pk.TypesInfo
	na := core.NewNilAnalysis(p)
	r.Assumption("equality of verdicts where a data difference (not a mode flag) makes one mode reach a failure point another does not is not decided")
	r.Assumption("whether the JSON pointer resolves inside the value for oneOf sub-errors and message customiser behaviour are not decided")

	c12ErrKind(r)
	c12KeyVerbatim(r)
	nMode, nLit := 0, 0
	r.RunRule("C12.modes", "once a keyword has failed every mode returns non-nil: (M1) every `if` on a mode flag (failfast/multiError) has the flag as its whole condition and a body that is a single return of a provably non-nil error; (M5) the statements following it in the same list record the failure on the fall-through path (append to the accumulator or non-nil return); (M2) every non-empty SchemaError literal is returned directly or bound to a local that is then returned or appended unconditionally in the same list; (M3) a function with an accumulator ends with `if len(me) > 0 { return me }; return nil` and has no other possibly-nil return after the first append; mode flags are read nowhere else", 90, func() {
		for _, vn := range c12Visitors {
			fd := p.DeclOf("openapi3", vn)
			ff := core.NewFuncFacts(p, info, fd)
			short := strings.TrimPrefix(vn, "Schema.")
			// --- every read of a mode flag
			type flagIf struct {
				ifs  *ast.IfStmt
				flag string
			}
			inMode := map[ast.Node]bool{}
			var ifsList []flagIf
			ast.Inspect(fd.Body, func(n ast.Node) bool {
				ifs, ok := n.(*ast.IfStmt)
				if !ok {
					return true
				}
				c := ast.Unparen(ifs.Cond)
				if u, ok := c.(*ast.UnaryExpr); ok && u.Op == token.NOT {
					c = ast.Unparen(u.X)
				}
				if fl := modeFlagRead(info, c); fl != "" {
					ifsList = append(ifsList, flagIf{ifs, fl})
					inMode[c] = true
				}
				return true
			})
			// reads elsewhere
			k := 0
			ast.Inspect(fd.Body, func(n ast.Node) bool {
				e, ok := n.(ast.Expr)
				if !ok {
					return true
				}
				if fl := modeFlagRead(info, e); fl != "" && !inMode[ast.Unparen(e)] {
					k++
					r.Bad(fmt.Sprintf("modeflag-elsewhere:%s#%d", short, k), p.Pos(e.Pos()), "mode flag "+fl+" is read outside the `if flag { return err }` form: a mode may decide whether a check runs, not only how it is reported")
				}
				return true
			})
			for i, fi := range ifsList {
				nMode++
				key := fmt.Sprintf("modeif:%s#%d(%s)", short, i+1, fi.flag)
				body := fi.ifs.Body.List
				if fi.ifs.Else != nil || fi.ifs.Init != nil || len(body) != 1 {
					r.Bad(key, p.Pos(fi.ifs.Pos()), "mode-flag `if` must be `if flag { return err }` with no else/init")
					continue
				}
				ret, ok := body[0].(*ast.ReturnStmt)
				if !ok || len(ret.Results) < 1 {
					r.Bad(key, p.Pos(fi.ifs.Pos()), "mode-flag `if` body is not a return of an error")
					continue
				}
				if na.Classify(ff, ret.Results[0], ret) != core.NonNil {
					r.Bad(key, p.Pos(ret.Pos()), "in this mode the failed keyword returns a value that may be nil ("+core.ExprStr(ret.Results[0])+"): the verdict differs between modes")
					continue
				}
				list, idx := listOf(fd.Body, fi.ifs)
				if list == nil {
					r.Unknown(key, p.Pos(fi.ifs.Pos()), "cannot locate enclosing statement list")
					continue
				}
				ok2, why := definitelyFails(na, ff, list[idx+1:])
				if !ok2 {
					r.Bad(key, p.Pos(fi.ifs.Pos()), "after this mode test the other modes do not record the failure: "+why)
					continue
				}
				r.OK(key, p.Pos(fi.ifs.Pos()), "returns non-nil; fall-through "+why)
			}
			// --- M2 literals
			for i, el := range schemaErrLits(info, fd.Body) {
				nLit++
				key := fmt.Sprintf("errlit:%s#%d(%s)", short, i+1, el.field)
				// find the statement containing the literal
				path := core.PathTo(fd.Body, el.lit)
				var stmt ast.Stmt
				for j := len(path) - 1; j >= 0; j-- {
					if s, ok := path[j].(ast.Stmt); ok {
						stmt = s
						break
					}
				}
				switch s := stmt.(type) {
				case *ast.ReturnStmt:
					if len(s.Results) >= 1 && na.Classify(ff, s.Results[0], s) == core.NonNil {
						r.OK(key, p.Pos(el.lit.Pos()), "returned directly")
					} else {
						r.Bad(key, p.Pos(el.lit.Pos()), "SchemaError built in a return that may yield nil")
					}
				case *ast.AssignStmt:
					if len(s.Lhs) != 1 {
						r.Unknown(key, p.Pos(el.lit.Pos()), "unexpected assignment shape")
						continue
					}
					id, ok := s.Lhs[0].(*ast.Ident)
					if !ok {
						r.Unknown(key, p.Pos(el.lit.Pos()), "SchemaError assigned to a non-identifier")
						continue
					}
					v := info.ObjectOf(id)
					list, idx := listOf(fd.Body, s)
					rec := false
					for _, t := range list[idx+1:] {
						if o, args := isErrSliceAppend(info, t); o != nil {
							for _, a := range args {
								if aid, ok := ast.Unparen(a).(*ast.Ident); ok && info.ObjectOf(aid) == v {
									rec = true
								}
							}
						}
						if ret, ok := t.(*ast.ReturnStmt); ok && len(ret.Results) >= 1 {
							if rid, ok := ast.Unparen(ret.Results[0]).(*ast.Ident); ok && info.ObjectOf(rid) == v {
								rec = true
							}
							break
						}
						// a conditional fill-in of fields (e.Origin = ...) is fine
					}
					r.Check(rec, key, p.Pos(el.lit.Pos()), "bound to "+id.Name+" and then returned/appended unconditionally", "the SchemaError bound to "+id.Name+" is neither returned nor appended to the accumulator on the fall-through path: the failure is lost in multi-error mode")
				default:
					r.Bad(key, p.Pos(el.lit.Pos()), "SchemaError literal in an unexpected statement form")
				}
			}
			// --- M3 accumulator epilogue
			var acc types.Object
			firstAppend := token.NoPos
			ast.Inspect(fd.Body, func(n ast.Node) bool {
				if s, ok := n.(ast.Stmt); ok {
					if o, _ := isErrSliceAppend(info, s); o != nil {
						if acc == nil {
							acc = o
							firstAppend = s.Pos()
						}
					}
				}
				return true
			})
			if acc != nil {
				key := "epilogue:" + short
				top := fd.Body.List
				okEp := false
				if len(top) >= 2 {
					if ifs, ok := top[len(top)-2].(*ast.IfStmt); ok && len(ifs.Body.List) == 1 {
						if ret, ok := ifs.Body.List[0].(*ast.ReturnStmt); ok && len(ret.Results) == 1 {
							if rid, ok := ast.Unparen(ret.Results[0]).(*ast.Ident); ok && info.ObjectOf(rid) == acc && na.Classify(ff, ret.Results[0], ret) == core.NonNil {
								okEp = true
							}
						}
					}
				}
				r.Check(okEp, key, p.Pos(top[len(top)-1].Pos()), "ends with `if len(acc) > 0 { return acc }` before the final return", "the function accumulates errors but does not end with `if len(acc) > 0 { return acc }`: accumulated failures can be dropped")
				// other possibly-nil returns after the first append
				bad := token.NoPos
				ast.Inspect(fd.Body, func(n ast.Node) bool {
					ret, ok := n.(*ast.ReturnStmt)
					if !ok || ret == top[len(top)-1] || ret.Pos() < firstAppend {
						return true
					}
					if len(ret.Results) >= 1 && na.Classify(ff, ret.Results[0], ret) != core.NonNil {
						bad = ret.Pos()
					}
					return true
				})
				r.Check(bad == token.NoPos, "midreturn:"+short, p.Pos(bad), "no possibly-nil return after the first append", "a return that may be nil occurs after errors may have been accumulated: they are dropped")
			}
		}
		// IsMatching* use FailFast only
		for _, fd := range p.AllDecls("openapi3") {
			if !strings.HasPrefix(fd.Name.Name, "IsMatching") || fd.Recv == nil {
				continue
			}
			key := "ismatching:" + fd.Name.Name
			good := false
			ast.Inspect(fd.Body, func(n ast.Node) bool {
				c, ok := n.(*ast.CallExpr)
				if !ok {
					return true
				}
				if callee := core.CalleeOf(info, c); callee != nil && callee.Name() == "newSchemaValidationSettings" {
					if len(c.Args) == 1 {
						if ac, ok := c.Args[0].(*ast.CallExpr); ok {
							if a := core.CalleeOf(info, ac); a != nil && a.Name() == "FailFast" {
								good = true
							}
						}
					}
				}
				return true
			})
			r.Check(good, key, p.Pos(fd.Pos()), "settings built with FailFast() only", "boolean matching helper does not build its settings with exactly FailFast()")
		}
	})
	r.Extra["mode_tests"] = nMode
	r.Extra["schema_error_literals"] = nLit

	r.RunRule("C12.floor", "floors confirmed by reading: >= 44 mode tests, >= 30 non-empty SchemaError literals in 11 visitor functions", 2, func() {
		r.Check(nMode >= 44, "mode-tests", "-", fmt.Sprint(nMode), fmt.Sprintf("only %d mode tests seen", nMode))
		r.Check(nLit >= 30, "literals", "-", fmt.Sprint(nLit), fmt.Sprintf("only %d SchemaError literals seen", nLit))
	})

	r.RunRule("C12.path", "an error leaving a container level carries that level's key: in visitJSONArray/visitJSONObject every error obtained from a nested visitJSON on an element/property that reaches a return or the accumulator has first been passed through markSchemaErrorIndex/markSchemaErrorKey with the enclosing loop's index/key variable (the fail-fast sentinel carries no pointer and is exempt)", 3, func() {
		for _, vn := range []string{"Schema.visitJSONArray", "Schema.visitJSONObject"} {
			fd := p.DeclOf("openapi3", vn)
			short := strings.TrimPrefix(vn, "Schema.")
			k := 0
			ast.Inspect(fd.Body, func(n ast.Node) bool {
				ifs, ok := n.(*ast.IfStmt)
				if !ok || ifs.Init == nil {
					return true
				}
				as, ok := ifs.Init.(*ast.AssignStmt)
				if !ok || len(as.Rhs) != 1 || len(as.Lhs) != 1 {
					return true
				}
				call, ok := as.Rhs[0].(*ast.CallExpr)
				if !ok {
					return true
				}
				callee := core.CalleeOf(info, call)
				if callee == nil || callee.Name() != "visitJSON" {
					return true
				}
				errID, ok := as.Lhs[0].(*ast.Ident)
				if !ok {
					return true
				}
				errObj := info.ObjectOf(errID)
				// only nested visits inside a loop over the container
				var loopKeys []types.Object
				for _, a := range core.PathTo(fd.Body, ifs) {
					if rs, ok := a.(*ast.RangeStmt); ok {
						for _, e := range []ast.Expr{rs.Key, rs.Value} {
							if id, ok := e.(*ast.Ident); ok && id.Name != "_" {
								loopKeys = append(loopKeys, info.ObjectOf(id))
							}
						}
					}
				}
				if len(loopKeys) == 0 {
					return true
				}
				k++
				key := fmt.Sprintf("mark:%s#%d", short, k)
				// walk the body's top-level list: uses of err in return/append must come after a marking assignment
				marked := false
				okAll := true
				why := ""
				var scan func(list []ast.Stmt, marked bool)
				scan = func(list []ast.Stmt, marked bool) {
					for _, s := range list {
						switch x := s.(type) {
						case *ast.AssignStmt:
							if len(x.Lhs) == 1 && len(x.Rhs) == 1 {
								if id, ok := x.Lhs[0].(*ast.Ident); ok && info.ObjectOf(id) == errObj {
									if c, ok := x.Rhs[0].(*ast.CallExpr); ok {
										if cal := core.CalleeOf(info, c); cal != nil && (cal.Name() == "markSchemaErrorKey" || cal.Name() == "markSchemaErrorIndex") && len(c.Args) == 2 {
											a0, _ := ast.Unparen(c.Args[0]).(*ast.Ident)
											a1, _ := ast.Unparen(c.Args[1]).(*ast.Ident)
											isKey := false
											for _, lk := range loopKeys {
												if a1 != nil && info.ObjectOf(a1) == lk {
													isKey = true
												}
											}
											if a0 != nil && info.ObjectOf(a0) == errObj && isKey {
												marked = true
												continue
											}
											okAll = false
											why = "marked with something other than the enclosing loop's key/index"
										}
									}
								}
							}
							if o, args := isErrSliceAppend(info, x); o != nil {
								for _, a := range args {
									if usesObj(info, a, errObj) && !marked {
										okAll = false
										why = "appended to the accumulator before being marked with the key"
									}
								}
							}
						case *ast.ReturnStmt:
							for _, res := range x.Results {
								if usesObj(info, res, errObj) && !marked {
									okAll = false
									why = "returned before being marked with the key"
								}
							}
						case *ast.IfStmt:
							if x.Init != nil {
								scan([]ast.Stmt{x.Init}, marked)
							}
							scan(x.Body.List, marked)
							if b, ok := x.Else.(*ast.BlockStmt); ok {
								scan(b.List, marked)
							}
						case *ast.BlockStmt:
							scan(x.List, marked)
						}
					}
				}
				_ = marked
				scan(ifs.Body.List, false)
				r.Check(okAll, key, p.Pos(ifs.Pos()), "nested error is marked with the loop key before it leaves", "nested error is "+why+": its JSON pointer will not resolve in the validated value")
				return true
			})
		}
		// markSchemaErrorIndex delegates to markSchemaErrorKey with the decimal index
		fd := p.DeclOf("openapi3", "markSchemaErrorIndex")
		good := false
		ast.Inspect(fd.Body, func(n ast.Node) bool {
			if c, ok := n.(*ast.CallExpr); ok {
				if cal := core.CalleeOf(info, c); cal != nil && cal.Name() == "markSchemaErrorKey" {
					good = true
				}
			}
			return true
		})
		r.Check(good, "mark:index-delegates", p.Pos(fd.Pos()), "markSchemaErrorIndex delegates to markSchemaErrorKey", "markSchemaErrorIndex does not go through markSchemaErrorKey")
		// the required failure is marked with its key
		fdo := p.DeclOf("openapi3", "Schema.visitJSONObject")
		for _, el := range schemaErrLits(info, fdo.Body) {
			if el.field != "required" {
				continue
			}
			path := core.PathTo(fdo.Body, el.lit)
			good := false
			for _, a := range path {
				if c, ok := a.(*ast.CallExpr); ok {
					if cal := core.CalleeOf(info, c); cal != nil && cal.Name() == "markSchemaErrorKey" {
						good = true
					}
				}
			}
			r.Check(good, "mark:required", p.Pos(el.lit.Pos()), "required failure is wrapped in markSchemaErrorKey", "the missing-required-property error is not marked with the property key")
		}
	})

	r.RunRule("C12.value", "in every SchemaError literal of the visitors the Value field is the function's own value parameter, a value derived only from it, or absent/nil: the quoted value is the one at the error's location", 25, func() {
		for _, vn := range c12Visitors {
			fd := p.DeclOf("openapi3", vn)
			ff := core.NewFuncFacts(p, info, fd)
			short := strings.TrimPrefix(vn, "Schema.")
			valueObj := core.ParamObj(info, fd, "value")
			for i, el := range schemaErrLits(info, fd.Body) {
				key := fmt.Sprintf("value:%s#%d(%s)", short, i+1, el.field)
				var vexpr ast.Expr
				for _, e := range el.lit.Elts {
					if kv, ok := e.(*ast.KeyValueExpr); ok {
						if id, ok := kv.Key.(*ast.Ident); ok && id.Name == "Value" {
							vexpr = kv.Value
						}
					}
				}
				if vexpr == nil || core.IsNil(info, vexpr) {
					if valueObj == nil {
						r.Trivial(key, p.Pos(el.lit.Pos()), "no Value (the function has no value)")
						continue
					}
					r.Check(litHasKey(info, fd.Body, el.lit, "Value"), key, p.Pos(el.lit.Pos()), "Value assigned to the error", "the SchemaError ("+el.field+") built in "+short+" quotes no value although the function is checking one: the error's location holds a value and the error says nil")
					continue
				}
				rs := ff.Roots(vexpr, false)
				onlyValue := valueObj != nil && rs.Objs[valueObj]
				for o := range rs.Objs {
					if o != valueObj {
						// the discriminator property name (from the schema) indexes the value: allowed as index only
						if _, isVar := o.(*types.Var); isVar && o != recvObj(info, fd) {
							onlyValue = false
						}
					}
				}
				r.Check(onlyValue, key, p.Pos(el.lit.Pos()), "Value derives from the value parameter", "SchemaError.Value ("+core.ExprStr(vexpr)+") does not derive from this function's value parameter")
				// a member of the value (fetched from it by key) is quoted: the error points at that member
				if id, isID := ast.Unparen(vexpr).(*ast.Ident); isID && onlyValue {
					for _, a := range ff.Assigns(info.ObjectOf(id)) {
						if a.MapIndex == nil {
							continue
						}
						want := core.ExprStr(a.MapIndex.Index)
						marked := false
						for _, anc := range core.PathTo(fd.Body, el.lit) {
							if c, ok := anc.(*ast.CallExpr); ok && len(c.Args) == 2 {
								if f := core.CalleeOf(info, c); f != nil && f.Name() == "markSchemaErrorKey" && core.ExprStr(c.Args[1]) == want {
									marked = true
								}
							}
						}
						r.Check(marked, key+"/member", p.Pos(el.lit.Pos()), "the error is marked with the member's key", "the SchemaError ("+el.field+") quotes "+id.Name+", the member of the value under the key "+want+", but is not marked with that key (markSchemaErrorKey): its pointer resolves to the enclosing object, not to the value it quotes")
					}
				}
			}
		}
	})

	r.RunRule("C12.foreignvalue", "an error built where no value is at hand gets the value where it is used: in the visitors, the error returned by compilePattern (a SchemaError about the schema's pattern) has its Value set from the visitor's value parameter before it is returned or collected", 1, func() {
		n := 0
		for _, vn := range c12Visitors {
			fd := p.DeclOf("openapi3", vn)
			valueObj := core.ParamObj(info, fd, "value")
			short := strings.TrimPrefix(vn, "Schema.")
			for i, call := range callsTo(info, fd.Body, "compilePattern") {
				n++
				key := fmt.Sprintf("foreignvalue:%s/compilePattern#%d", short, i+1)
				// the innermost if statement whose init or condition holds the call
				var body *ast.BlockStmt
				for _, nd := range core.PathTo(fd.Body, call) {
					if ifs, ok := nd.(*ast.IfStmt); ok {
						body = ifs.Body
					}
				}
				ok := false
				if body != nil && valueObj != nil {
					ast.Inspect(body, func(nd ast.Node) bool {
						if as, isAs := nd.(*ast.AssignStmt); isAs && len(as.Lhs) == 1 && len(as.Rhs) == 1 {
							if sel, isSel := ast.Unparen(as.Lhs[0]).(*ast.SelectorExpr); isSel && sel.Sel.Name == "Value" {
								if nt := core.NamedOf(info.TypeOf(sel.X)); nt != nil && nt.Obj().Name() == "SchemaError" {
									if id, isID := ast.Unparen(as.Rhs[0]).(*ast.Ident); isID && info.ObjectOf(id) == valueObj {
										ok = true
									}
								}
							}
						}
						return true
					})
				}
				r.Check(ok, key, p.Pos(call.Pos()), "the pattern error gets the visitor's value", "the error of compilePattern leaves "+short+" as it was built, without a value: the error points at a string and quotes nil")
			}
		}
		if n == 0 {
			core.Fail("no compilePattern call in the visitors")
		}
	})
}

func usesObj(info *types.Info, e ast.Node, o types.Object) bool {
	found := false
	ast.Inspect(e, func(n ast.Node) bool {
		if id, ok := n.(*ast.Ident); ok && info.ObjectOf(id) == o {
			found = true
		}
		return !found
	})
	return found
}

// c12ErrKind: in fail-fast mode a failing sub-visit returns the plain sentinel errSchema, in the
// other modes a *SchemaError or a MultiError. A visitor that looks at the KIND of a sub-visit's
// error to decide something decides differently per mode; the verdict of a sub-visit is err == nil.
func c12ErrKind(r *core.Report) {
	p := r.Prog
	info := p.Pkg("openapi3").TypesInfo
	r.RunRule("C12.errkind", "the verdict of a sub-visit is `err == nil`: in the visitor family no type switch is taken on the error returned by a visit call, and no type assertion on such an error guards a return — the fail-fast sentinel is a plain error, neither *SchemaError nor MultiError (flattening a MultiError into the list of collected errors is not a decision and is allowed)", 5, func() {
		isVisit := func(c *ast.CallExpr) bool {
			f := core.CalleeOf(info, c)
			return f != nil && strings.HasPrefix(f.Name(), "visit") && f.Pkg() != nil && f.Pkg().Name() == "openapi3"
		}
		for _, vn := range c12Visitors {
			fd := p.DeclOf("openapi3", vn)
			if fd == nil || fd.Body == nil {
				continue
			}
			ff := core.NewFuncFacts(p, info, fd)
			fromVisit := func(e ast.Expr) bool {
				e = ast.Unparen(e)
				if c, ok := e.(*ast.CallExpr); ok {
					return isVisit(c)
				}
				if id, ok := e.(*ast.Ident); ok {
					for _, a := range ff.Assigns(info.ObjectOf(id)) {
						if c, ok := ast.Unparen(a.Rhs).(*ast.CallExpr); ok && a.Rhs != nil && isVisit(c) {
							return true
						}
						if a.Call != nil && isVisit(a.Call) {
							return true
						}
					}
				}
				return false
			}
			k := 0
			nvis := 0
			ast.Inspect(fd.Body, func(n ast.Node) bool {
				switch x := n.(type) {
				case *ast.CallExpr:
					if isVisit(x) {
						nvis++
					}
				case *ast.TypeSwitchStmt:
					var operand ast.Expr
					switch a := x.Assign.(type) {
					case *ast.ExprStmt:
						if ta, ok := a.X.(*ast.TypeAssertExpr); ok {
							operand = ta.X
						}
					case *ast.AssignStmt:
						if ta, ok := a.Rhs[0].(*ast.TypeAssertExpr); ok {
							operand = ta.X
						}
					}
					if x.Init != nil {
						if as, ok := x.Init.(*ast.AssignStmt); ok && len(as.Rhs) == 1 {
							if c, ok := ast.Unparen(as.Rhs[0]).(*ast.CallExpr); ok && isVisit(c) {
								operand = as.Rhs[0]
							}
						}
					}
					if operand != nil && fromVisit(operand) {
						k++
						r.Bad(fmt.Sprintf("errkind:%s#%d", vn, k), p.Pos(x.Pos()), fmt.Sprintf("%s switches on the type of the error a sub-visit returned: in fail-fast mode (and in IsMatching*) a failing sub-visit returns the plain sentinel errSchema, which matches none of the *SchemaError / MultiError cases, so the verdict differs between modes", vn))
					}
				case *ast.IfStmt:
					// if v, ok := err.(T); ok { ... return ... }
					as, ok := x.Init.(*ast.AssignStmt)
					if !ok || len(as.Rhs) != 1 {
						return true
					}
					ta, ok := ast.Unparen(as.Rhs[0]).(*ast.TypeAssertExpr)
					if !ok || !fromVisit(ta.X) {
						return true
					}
					returns := false
					ast.Inspect(x.Body, func(m ast.Node) bool {
						if _, isRet := m.(*ast.ReturnStmt); isRet {
							returns = true
						}
						return true
					})
					if returns {
						k++
						r.Bad(fmt.Sprintf("errkind:%s#%d", vn, k), p.Pos(x.Pos()), fmt.Sprintf("%s returns depending on the dynamic type of a sub-visit's error: the fail-fast sentinel has neither type, so the modes disagree", vn))
					}
				}
				return true
			})
			if k == 0 && nvis > 0 {
				r.OK("errkind:"+vn, p.Pos(fd.Pos()), fmt.Sprintf("%d sub-visit(s), none judged by the type of its error", nvis))
			}
		}
	})
}
