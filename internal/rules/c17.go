package rules

import (
	"fmt"
	"go/ast"
	"go/token"
	"go/types"
	"sort"
	"strings"

	"verif/internal/core"
)

func init() { register("C17", c17) }

func c17(r *core.Report) {
	r.Assumption("claim: structural necessary conditions of 'conversion preserves the API': every field the two specification versions share by JSON name is carried over at every site that builds one version's object from the other's, nothing that can hold a $ref is copied across without going through a conversion function, the security-scheme mappings cover the same cases in both directions and are inverse on the flow names, and the method accessors of openapi2.PathItem agree (C09.methods); semantic equality of the converted documents, the body/form merging logic, servers from host/basePath/schemes and validity of the result are not decided")
	c17Copy(r)
	c17Refs(r)
	c17Sec(r)
	c17Order(r)
	c17Content(r)
	c17Pure(r)
	c17Servers(r)
	c17Complete(r)
	c17NilArg(r)
	c17FileFormat(r)
	c17LoopCopy(r)
	scratchEscapes(r, "C17.fresh", 1, "openapi2conv")
	c17Required(r)
	c17SubRefs(r)
}

// c17Required: what the target version's Validate refuses to find nil, the converter always gives.
func c17Required(r *core.Report) {
	p := r.Prog
	info := p.Pkg("openapi2conv").TypesInfo
	r.RunRule("C17.required", "the converted object passes the check its own Validate makes for a missing field: for every model struct T of openapi3/openapi2 whose Validate returns an error under `recv.F == nil`, each composite literal of T in package openapi2conv gives F a value that is not nil (make, a literal, an address), in the literal or by an assignment in the same block — a field filled only when the source has entries (`if len(x) != 0 { t.F = ... }`) turns a valid source with an empty collection into a target its Validate rejects", 1, func() {
		type req struct {
			t *types.Named
			f string
		}
		var reqs []req
		for _, rel := range []string{"openapi3", "openapi2"} {
			pinfo := p.Pkg(rel).TypesInfo
			for _, d := range p.AllDecls(rel) {
				if d.Body == nil || d.Recv == nil || d.Name.Name != "Validate" {
					continue
				}
				recv := recvObj(pinfo, d)
				if recv == nil {
					continue
				}
				rn := core.NamedOf(recv.Type())
				if rn == nil || core.StructOf(rn) == nil {
					continue
				}
				for _, st := range d.Body.List {
					ifs, ok := st.(*ast.IfStmt)
					if !ok || ifs.Init != nil || len(ifs.Body.List) != 1 {
						continue
					}
					be, ok := ast.Unparen(ifs.Cond).(*ast.BinaryExpr)
					if !ok || be.Op != token.EQL || !core.IsNil(pinfo, be.Y) {
						continue
					}
					sel, ok := ast.Unparen(be.X).(*ast.SelectorExpr)
					if !ok {
						continue
					}
					if id, ok := ast.Unparen(sel.X).(*ast.Ident); !ok || pinfo.ObjectOf(id) != recv {
						continue
					}
					if ret, ok := ifs.Body.List[0].(*ast.ReturnStmt); ok && len(ret.Results) > 0 && !core.IsNil(pinfo, ret.Results[len(ret.Results)-1]) {
						reqs = append(reqs, req{rn, sel.Sel.Name})
					}
				}
			}
		}
		if len(reqs) == 0 {
			core.Fail("no `recv.F == nil` rejection found in any Validate (OAuthFlow.Scopes expected)")
		}
		nonNil := func(e ast.Expr) bool {
			switch x := ast.Unparen(e).(type) {
			case *ast.CompositeLit:
				return true
			case *ast.UnaryExpr:
				return x.Op == token.AND
			case *ast.CallExpr:
				if id, ok := ast.Unparen(x.Fun).(*ast.Ident); ok && id.Name == "make" {
					return true
				}
			}
			return false
		}
		n := 0
		for _, d := range p.AllDecls("openapi2conv") {
			if d.Body == nil {
				continue
			}
			ff := core.NewFuncFacts(p, info, d)
			perFn := 0
			ast.Inspect(d.Body, func(nd ast.Node) bool {
				cl, ok := nd.(*ast.CompositeLit)
				if !ok {
					return true
				}
				tn := core.NamedOf(info.TypeOf(cl))
				for _, rq := range reqs {
					if tn != rq.t {
						continue
					}
					n++
					perFn++
					key := fmt.Sprintf("required:%s/%s.%s#%d", core.FuncName(d), rq.t.Obj().Name(), rq.f, perFn)
					ok := false
					for _, e := range cl.Elts {
						if kv, isKV := e.(*ast.KeyValueExpr); isKV {
							if id, isID := kv.Key.(*ast.Ident); isID && id.Name == rq.f {
								v := ast.Unparen(kv.Value)
								if nonNil(v) {
									ok = true
								} else if vid, isID := v.(*ast.Ident); isID {
									as := ff.Assigns(info.ObjectOf(vid))
									if len(as) == 1 && as[0].Rhs != nil && nonNil(as[0].Rhs) {
										ok = true
									}
								}
							}
						}
					}
					if !ok {
						// given later through the variable holding the object: `holder.F = <non-nil>` or a
						// method of the object that assigns F, under no other condition than the presence
						// (`!= nil`) of something in the source
						var holder types.Object
						for _, nn := range core.PathTo(d.Body, cl) {
							if as, isAs := nn.(*ast.AssignStmt); isAs && len(as.Lhs) == 1 {
								if id, isID := ast.Unparen(as.Lhs[0]).(*ast.Ident); isID {
									holder = info.ObjectOf(id)
								}
							}
						}
						own := map[string]bool{}
						for _, a := range core.Atoms(core.GuardsAt(info, d.Body, cl)) {
							own[core.ExprStr(a.Expr)] = true
						}
						presenceOnly := func(at ast.Node) bool {
							for _, a := range core.Atoms(core.GuardsAt(info, d.Body, at)) {
								if own[core.ExprStr(a.Expr)] {
									continue
								}
								be, isBin := ast.Unparen(a.Expr).(*ast.BinaryExpr)
								if !isBin || !core.IsNil(info, be.Y) || !((be.Op == token.NEQ && a.Pos) || (be.Op == token.EQL && !a.Pos)) {
									return false
								}
							}
							return true
						}
						if holder != nil {
							ast.Inspect(d.Body, func(m ast.Node) bool {
								switch x := m.(type) {
								case *ast.AssignStmt:
									if len(x.Lhs) == 1 && len(x.Rhs) == 1 && x.Pos() > cl.Pos() {
										if sel, isSel := ast.Unparen(x.Lhs[0]).(*ast.SelectorExpr); isSel && sel.Sel.Name == rq.f {
											if id, isID := ast.Unparen(sel.X).(*ast.Ident); isID && info.ObjectOf(id) == holder && nonNil(x.Rhs[0]) && presenceOnly(x) {
												ok = true
											}
										}
									}
								case *ast.CallExpr:
									sel, isSel := ast.Unparen(x.Fun).(*ast.SelectorExpr)
									if !isSel || x.Pos() < cl.Pos() {
										return true
									}
									if id, isID := ast.Unparen(sel.X).(*ast.Ident); !isID || info.ObjectOf(id) != holder {
										return true
									}
									if callee := core.CalleeOf(info, x); callee != nil && core.InRepo(callee.Pkg()) && methodAssignsField(p, callee, rq.f) && presenceOnly(x) {
										ok = true
									}
								}
								return true
							})
						}
					}
					r.Check(ok, key, p.Pos(cl.Pos()), rq.f+" is always given", fmt.Sprintf("%s builds a %s whose %s is not given on every path (only under a condition, or from a value that can be nil): %s.Validate rejects the converted document with a nil %s although the source was valid", core.FuncName(d), rq.t.Obj().Name(), rq.f, rq.t.Obj().Name(), rq.f))
				}
				return true
			})
		}
		if n == 0 {
			core.Fail("no literal of a type with a required field in openapi2conv")
		}
	})
}

// methodAssignsField: the method's body assigns the field of its receiver (a With* setter).
func methodAssignsField(p *core.Prog, m *types.Func, field string) bool {
	d := p.Decl(m)
	if d == nil || d.Body == nil {
		return false
	}
	info := p.InfoFor(m.Pkg())
	recv := recvObj(info, d)
	found := false
	ast.Inspect(d.Body, func(n ast.Node) bool {
		if as, ok := n.(*ast.AssignStmt); ok {
			for _, l := range as.Lhs {
				if sel, ok := ast.Unparen(l).(*ast.SelectorExpr); ok && sel.Sel.Name == field {
					if id, ok := ast.Unparen(sel.X).(*ast.Ident); ok && info.ObjectOf(id) == recv {
						found = true
					}
				}
			}
		}
		return true
	})
	return found
}

// c17SubRefs: a function that rewrites the references of a schema written the OpenAPI 3 way visits
// every place of that schema which can hold one.
func c17SubRefs(r *core.Report) {
	p := r.Prog
	info := p.Pkg("openapi2conv").TypesInfo
	r.RunRule("C17.subrefs", "references are rewritten at every depth: a function of openapi2conv that takes an *openapi3.SchemaRef, rewrites its Ref and copies its Value (the additionalProperties schema, which is kept the OpenAPI 3 way in both versions) mentions every field of openapi3.Schema that can hold a schema reference (Items, Properties, AdditionalProperties, Not, OneOf, AnyOf, AllOf) — a field it does not descend into keeps references of the other version, which do not resolve", 1, func() {
		schemaT := p.NamedType("openapi3", "Schema")
		refT := p.NamedType("openapi3", "SchemaRef")
		st := schemaT.Underlying().(*types.Struct)
		var holders []string
		var reaches func(t types.Type, depth int) bool
		reaches = func(t types.Type, depth int) bool {
			if depth > 4 {
				return false
			}
			switch x := t.(type) {
			case *types.Pointer:
				return reaches(x.Elem(), depth+1)
			case *types.Named:
				if x == refT {
					return true
				}
				if s, ok := x.Underlying().(*types.Struct); ok && x != schemaT && core.InRepo(x.Obj().Pkg()) {
					for i := 0; i < s.NumFields(); i++ {
						if reaches(s.Field(i).Type(), depth+1) {
							return true
						}
					}
					return false
				}
				return reaches(x.Underlying(), depth+1)
			case *types.Map:
				return reaches(x.Elem(), depth+1)
			case *types.Slice:
				return reaches(x.Elem(), depth+1)
			}
			return false
		}
		for i := 0; i < st.NumFields(); i++ {
			if f := st.Field(i); f.Exported() && reaches(f.Type(), 0) {
				holders = append(holders, f.Name())
			}
		}
		if len(holders) < 7 {
			core.Fail("only %d reference-holding fields of openapi3.Schema found: %v", len(holders), holders)
		}
		n := 0
		for _, d := range p.AllDecls("openapi2conv") {
			if d.Body == nil || len(d.Type.Params.List) == 0 {
				continue
			}
			takesRef := false
			for _, f := range d.Type.Params.List {
				if pt, ok := info.TypeOf(f.Type).(*types.Pointer); ok && core.NamedOf(pt.Elem()) == refT {
					takesRef = true
				}
			}
			if !takesRef {
				continue
			}
			// rewrites Ref (an assignment to a .Ref of a SchemaRef) and copies the value (`v := *from.Value`)
			writesRef, copiesValue := false, false
			mentioned := map[string]bool{}
			ast.Inspect(d.Body, func(nd ast.Node) bool {
				switch x := nd.(type) {
				case *ast.AssignStmt:
					for _, l := range x.Lhs {
						if sel, ok := ast.Unparen(l).(*ast.SelectorExpr); ok && sel.Sel.Name == "Ref" && core.NamedOf(info.TypeOf(sel.X)) == refT {
							writesRef = true
						}
					}
					for _, rh := range x.Rhs {
						if st, ok := ast.Unparen(rh).(*ast.StarExpr); ok && core.NamedOf(info.TypeOf(st)) == schemaT {
							copiesValue = true
						}
					}
				case *ast.SelectorExpr:
					if f := core.FieldSel(info, x); f != nil && core.NamedOf(info.TypeOf(x.X)) == schemaT {
						mentioned[f.Name()] = true
					}
				}
				return true
			})
			if !writesRef || !copiesValue {
				continue
			}
			n++
			// the value of a reference belongs to its target: no descent into it (a loaded document
			// has Value set on references, and a recursive schema would be descended into for ever)
			firstSelf, refReturn := token.NoPos, token.NoPos
			ast.Inspect(d.Body, func(nd ast.Node) bool {
				switch x := nd.(type) {
				case *ast.CallExpr:
					if f := core.CalleeOf(info, x); f != nil && f.Name() == d.Name.Name && firstSelf == token.NoPos {
						firstSelf = x.Pos()
					}
				case *ast.IfStmt:
					if be, ok := ast.Unparen(x.Cond).(*ast.BinaryExpr); ok && be.Op == token.NEQ && strings.HasSuffix(core.ExprStr(be.X), ".Ref") && core.ExprStr(be.Y) == `""` && core.Terminates(info, x.Body.List) && refReturn == token.NoPos {
						refReturn = x.Pos()
					}
				}
				return true
			})
			if firstSelf != token.NoPos {
				r.Check(refReturn != token.NoPos && refReturn < firstSelf, "subrefs:"+core.FuncName(d)+"/reference", p.Pos(d.Pos()), "returns for a reference before any descent", core.FuncName(d)+" descends into the value of a schema that is a reference (no `if x.Ref != \"\" { return }` before its first recursive call): on a loaded document the value is the target itself, and a schema that refers to itself through additionalProperties (a tree) is walked until the stack overflows")
			}
			var missing []string
			for _, h := range holders {
				if !mentioned[h] {
					missing = append(missing, h)
				}
			}
			r.Check(len(missing) == 0, "subrefs:"+core.FuncName(d), p.Pos(d.Pos()), fmt.Sprintf("all %d reference-holding fields are visited", len(holders)), fmt.Sprintf("%s rewrites the reference of a schema and copies its value but never touches %s: references below those keep the other version's form (`#/definitions/...` in an OpenAPI 3 document) and the converted document does not resolve", core.FuncName(d), strings.Join(missing, ", ")))
		}
		if n == 0 {
			core.Fail("no reference-rewriting schema copier found in openapi2conv")
		}
	})
}

// c17Counterparts: which source struct (other specification version) a target struct literal is a
// conversion of. Keyed by target type name; values are source type names.
var c17Counterparts = map[string][]string{
	"Schema":         {"Schema"},
	"Parameter":      {"Parameter", "Schema"},
	"Header":         {"Header"},
	"Response":       {"Response"},
	"Operation":      {"Operation"},
	"SecurityScheme": {"SecurityScheme"},
	"T":              {"T"},
}

// c17Translated: (source type.field -> target type) pairs whose JSON names coincide but whose
// meaning is carried another way; each with its rule.
var c17Translated = map[string]string{
	"v3.Schema.required->v2.Parameter":          "a property's requiredness is its name in the parent's required list; the parameter's own `required` flag is computed from that list",
	"v3.Schema.type->v2.Parameter":              "string+binary becomes type file",
	"v3.Schema.format->v2.Parameter":            "format binary is expressed by type file",
	"v2.Parameter.required->v3.Schema":          "for a form field the flag moves to the parent object's required list (formDataBody)",
	"v2.Parameter.in->v3.Schema":                "not a schema property",
	"v2.Parameter.name->v3.Schema":              "the property name in the form object",
	"v2.Parameter.schema->v3.Schema":            "the body schema is converted by ToV3SchemaRef, not copied field-wise",
	"v3.Schema.items->v2.Parameter":             "arrays of files are not expressible; items are not converted for file parameters",
	"v3.Schema.properties->v2.Parameter":        "not applicable to a primitive form field",
	"v3.Schema.pattern->v2.Parameter":           "the only schemas turned into parameters here are binary strings (type file), for which a textual pattern has no meaning",
	"v2.SecurityScheme.type->v3.SecurityScheme": "mapped case by case (basic -> http/basic, apiKey, oauth2): C17.sec",
	"v3.SecurityScheme.type->v2.SecurityScheme": "mapped case by case (http/basic -> basic, other http -> apiKey header, apiKey, oauth2): C17.sec",
}

type c17Lit struct {
	lit    *ast.CompositeLit
	typ    *types.Named
	holder types.Object          // variable the literal is stored in (nil when returned directly)
	values map[string][]ast.Expr // target field name -> value expressions (literal + later assignments)
}

func versionOf(n *types.Named) string {
	if n == nil || n.Obj().Pkg() == nil {
		return ""
	}
	switch core.RelPkg(n.Obj().Pkg()) {
	case "openapi2":
		return "v2"
	case "openapi3":
		return "v3"
	}
	return ""
}

// collectLits: composite literals of document-model structs in fd and the later assignments to
// their fields.
func collectLits(p *core.Prog, info *types.Info, fd *ast.FuncDecl) []*c17Lit {
	var out []*c17Lit
	byHolder := map[types.Object]*c17Lit{}
	ast.Inspect(fd.Body, func(n ast.Node) bool {
		cl, ok := n.(*ast.CompositeLit)
		if !ok {
			return true
		}
		t := core.NamedOf(info.TypeOf(cl))
		if t == nil || versionOf(t) == "" {
			return true
		}
		if _, isStruct := t.Underlying().(*types.Struct); !isStruct {
			return true
		}
		l := &c17Lit{lit: cl, typ: t, values: map[string][]ast.Expr{}}
		for _, e := range cl.Elts {
			if kv, ok := e.(*ast.KeyValueExpr); ok {
				if id, ok := kv.Key.(*ast.Ident); ok {
					l.values[id.Name] = append(l.values[id.Name], kv.Value)
				}
			}
		}
		// holder: x := &T{...} / x := T{...} / var x = ...
		path := core.PathTo(fd.Body, cl)
		for i := len(path) - 2; i >= 0 && i >= len(path)-4; i-- {
			if as, ok := path[i].(*ast.AssignStmt); ok && len(as.Lhs) == 1 && len(as.Rhs) == 1 {
				if id, ok := as.Lhs[0].(*ast.Ident); ok {
					r := ast.Unparen(as.Rhs[0])
					if u, ok := r.(*ast.UnaryExpr); ok && u.Op == token.AND {
						r = ast.Unparen(u.X)
					}
					if r == ast.Expr(cl) {
						l.holder = info.ObjectOf(id)
						byHolder[l.holder] = l
					}
				}
			}
		}
		out = append(out, l)
		return true
	})
	// builder methods called on the holder: x.AddOperation(path, method, op) feeds the fields the
	// method writes on its receiver
	ast.Inspect(fd.Body, func(n ast.Node) bool {
		c, ok := n.(*ast.CallExpr)
		if !ok {
			return true
		}
		sel, ok := c.Fun.(*ast.SelectorExpr)
		if !ok {
			return true
		}
		id, ok := ast.Unparen(sel.X).(*ast.Ident)
		if !ok {
			return true
		}
		l := byHolder[info.ObjectOf(id)]
		if l == nil {
			return true
		}
		callee := core.CalleeOf(info, c)
		if callee == nil || !core.InRepo(callee.Pkg()) {
			return true
		}
		md := p.Decl(callee)
		if md == nil || md.Body == nil || md.Recv == nil {
			return true
		}
		minfo := p.InfoFor(callee.Pkg())
		mrecv := recvObj(minfo, md)
		written := map[string]bool{}
		ast.Inspect(md.Body, func(m ast.Node) bool {
			as, ok := m.(*ast.AssignStmt)
			if !ok {
				return true
			}
			for _, lh := range as.Lhs {
				e := ast.Unparen(lh)
				if ix, ok := e.(*ast.IndexExpr); ok {
					e = ast.Unparen(ix.X)
				}
				if s2, ok := e.(*ast.SelectorExpr); ok {
					if rid, ok := ast.Unparen(s2.X).(*ast.Ident); ok && minfo.ObjectOf(rid) == mrecv {
						written[s2.Sel.Name] = true
					}
				}
			}
			return true
		})
		for f := range written {
			l.values[f] = append(l.values[f], c.Args...)
		}
		return true
	})
	// later assignments x.f = e, x.f[k] = e, x.f = append(x.f, e)
	ast.Inspect(fd.Body, func(n ast.Node) bool {
		as, ok := n.(*ast.AssignStmt)
		if !ok {
			return true
		}
		for i, lh := range as.Lhs {
			e := ast.Unparen(lh)
			if ix, ok := e.(*ast.IndexExpr); ok {
				e = ast.Unparen(ix.X)
			}
			sel, ok := e.(*ast.SelectorExpr)
			if !ok {
				continue
			}
			id, ok := ast.Unparen(sel.X).(*ast.Ident)
			if !ok {
				continue
			}
			l := byHolder[info.ObjectOf(id)]
			if l == nil {
				continue
			}
			if len(as.Rhs) == len(as.Lhs) {
				l.values[sel.Sel.Name] = append(l.values[sel.Sel.Name], as.Rhs[i])
			} else if len(as.Rhs) == 1 {
				l.values[sel.Sel.Name] = append(l.values[sel.Sel.Name], as.Rhs[0])
			}
		}
		return true
	})
	return out
}

func tagOfField(st *types.Struct, i int) string {
	tag, _ := core.JSONTag(st.Tag(i))
	if tag == "-" {
		return ""
	}
	return tag
}

// comparableFieldTypes: the two fields can carry the same information (same basic type, or the
// same-named model type of the other version, or collections thereof).
func comparableFieldTypes(a, b types.Type) bool {
	a, b = types.Unalias(a), types.Unalias(b)
	if types.Identical(a, b) {
		return true
	}
	switch x := a.(type) {
	case *types.Pointer:
		if y, ok := b.(*types.Pointer); ok {
			return comparableFieldTypes(x.Elem(), y.Elem())
		}
	case *types.Slice:
		if y, ok := b.(*types.Slice); ok {
			return comparableFieldTypes(x.Elem(), y.Elem())
		}
	case *types.Map:
		if y, ok := b.(*types.Map); ok {
			return comparableFieldTypes(x.Elem(), y.Elem())
		}
	case *types.Named:
		if y, ok := b.(*types.Named); ok {
			if x.Obj().Name() == y.Obj().Name() {
				return true
			}
			return comparableFieldTypes(x.Underlying(), y.Underlying())
		}
		return comparableFieldTypes(x.Underlying(), b)
	}
	if y, ok := b.(*types.Named); ok {
		return comparableFieldTypes(a, y.Underlying())
	}
	return false
}

func c17Copy(r *core.Report) {
	p := r.Prog
	info := p.Pkg("openapi2conv").TypesInfo
	r.RunRule("C17.copy", "field-copy completeness: at every site of package openapi2conv that builds an object of one specification version (a composite literal of a document-model struct, plus the later assignments to its fields) from an object of the other version (at least three of its fields are fed from fields of the counterpart struct), every field of the source struct whose JSON name also names a field of the target struct, with a type that can carry the same information, feeds that target field; the exceptions are the named translations (nullable <-> x-nullable, file <-> binary, required flag <-> parent's required list), each listed with its rule", 120, func() {
		for _, fd := range p.AllDecls("openapi2conv") {
			fn := core.FuncName(fd)
			ff := core.NewFuncFacts(p, info, fd)
			lits := collectLits(p, info, fd)
			perType := map[string]int{}
			for _, l := range lits {
				tv := versionOf(l.typ)
				tst := l.typ.Underlying().(*types.Struct)
				// which source fields feed which target field
				feeds := map[string]map[*types.Var]bool{} // target field -> source fields
				srcCount := map[*types.Named]int{}
				for tf, exprs := range l.values {
					feeds[tf] = map[*types.Var]bool{}
					for _, e := range exprs {
						rs := ff.Roots(e, true)
						for sf := range rs.Fields {
							feeds[tf][sf] = true
						}
					}
				}
				// owner struct of every source field that feeds something
				owners := map[*types.Var]*types.Named{}
				ast.Inspect(fd.Body, func(n ast.Node) bool {
					sel, ok := n.(*ast.SelectorExpr)
					if !ok {
						return true
					}
					if fv := core.FieldSel(info, sel); fv != nil {
						if s, ok := info.Selections[sel]; ok {
							if on := core.NamedOf(s.Recv()); on != nil {
								// the struct that declares the field (embedding)
								owners[fv] = declaringStruct(on, fv)
							}
						}
					}
					return true
				})
				for _, m := range feeds {
					seen := map[*types.Named]bool{}
					for sf := range m {
						if on := owners[sf]; on != nil && !seen[on] {
							seen[on] = true
						}
					}
					for on := range seen {
						srcCount[on]++
					}
				}
				for _, sname := range c17Counterparts[l.typ.Obj().Name()] {
					// the counterpart of the other version that feeds at least three fields
					var src *types.Named
					for on, c := range srcCount {
						if on.Obj().Name() == sname && versionOf(on) != "" && versionOf(on) != tv && c >= 3 {
							src = on
						}
					}
					if src == nil {
						continue
					}
					perType[l.typ.Obj().Name()+"<-"+sname]++
					site := fmt.Sprintf("%s/%s.%s<-%s.%s#%d", fn, tv, l.typ.Obj().Name(), versionOf(src), sname, perType[l.typ.Obj().Name()+"<-"+sname])
					sst := src.Underlying().(*types.Struct)
					for i := 0; i < sst.NumFields(); i++ {
						sf := sst.Field(i)
						tag := tagOfField(sst, i)
						if sf.Name() == "Extensions" {
							tag = "x-* (Extensions)" // json:"-": written by the codecs key by key
						}
						if tag == "" || sf.Name() == "Origin" {
							continue
						}
						// target field with the same JSON name
						var tf *types.Var
						for j := 0; j < tst.NumFields(); j++ {
							if tagOfField(tst, j) == tag || (sf.Name() == "Extensions" && tst.Field(j).Name() == "Extensions") {
								tf = tst.Field(j)
							}
						}
						if tf == nil {
							continue
						}
						key := "copy:" + site + "/" + tag
						pos := p.Pos(l.lit.Pos())
						if why, ok := c17Translated[versionOf(src)+"."+sname+"."+tag+"->"+tv+"."+l.typ.Obj().Name()]; ok {
							if tag == "required" && tv == "v2" && l.typ.Obj().Name() == "Parameter" {
								if bad := requiredFromOwner(ff, info, l); bad != "" {
									r.Bad(key, pos, bad)
									continue
								}
							}
							r.OK(key, pos, "translated: "+why)
							continue
						}
						_ = comparableFieldTypes
						if feeds[tf.Name()][sf] {
							r.OK(key, pos, "carried over")
						} else {
							r.Bad(key, pos, fmt.Sprintf("%s builds a %s %s from a %s %s but `%s` (%s.%s) never reaches %s.%s: a document that uses this field loses it in the conversion", fn, tv, l.typ.Obj().Name(), versionOf(src), sname, tag, sname, sf.Name(), l.typ.Obj().Name(), tf.Name()))
						}
					}
				}
			}
		}
	})
}

// declaringStruct: the named struct that declares field f, searching n and the structs it embeds.
func declaringStruct(n *types.Named, f *types.Var) *types.Named {
	st, ok := n.Underlying().(*types.Struct)
	if !ok {
		return n
	}
	for i := 0; i < st.NumFields(); i++ {
		if st.Field(i) == f {
			return n
		}
	}
	for i := 0; i < st.NumFields(); i++ {
		if st.Field(i).Embedded() {
			if en := core.NamedOf(st.Field(i).Type()); en != nil {
				if d := declaringStruct(en, f); d != nil {
					if dst, ok := d.Underlying().(*types.Struct); ok {
						for j := 0; j < dst.NumFields(); j++ {
							if dst.Field(j) == f {
								return d
							}
						}
					}
				}
			}
		}
	}
	return n
}

// containsRef: values of type t can hold a `$ref` string somewhere inside.
func containsRef(t types.Type, depth int, seen map[types.Type]bool) bool {
	if depth > 6 || seen[t] {
		return false
	}
	seen[t] = true
	switch x := types.Unalias(t).(type) {
	case *types.Pointer:
		return containsRef(x.Elem(), depth+1, seen)
	case *types.Slice:
		return containsRef(x.Elem(), depth+1, seen)
	case *types.Map:
		return containsRef(x.Elem(), depth+1, seen)
	case *types.Named:
		if versionOf(x) == "" {
			return false
		}
		if _, isW := core.IsRefWrapper(x); isW {
			return true
		}
		if st, ok := x.Underlying().(*types.Struct); ok {
			for i := 0; i < st.NumFields(); i++ {
				if st.Field(i).Name() == "Ref" {
					if b, ok := st.Field(i).Type().Underlying().(*types.Basic); ok && b.Kind() == types.String {
						return true
					}
				}
				if containsRef(st.Field(i).Type(), depth+1, seen) {
					return true
				}
			}
			return false
		}
		return containsRef(x.Underlying(), depth+1, seen)
	}
	return false
}

func c17Refs(r *core.Report) {
	p := r.Prog
	info := p.Pkg("openapi2conv").TypesInfo
	r.RunRule("C17.refs", "nothing that can hold a $ref crosses versions unconverted: in package openapi2conv, a field of a target object whose type can contain a reference (a reference wrapper, or a struct/collection reaching one) is never assigned a field of the source object directly — the value passes through a function of the package (ToV3SchemaRef, FromV3SchemaRef, toV3AdditionalProperties, ToV3Ref, FromV3Ref, ...), which is where '#/definitions/' and '#/components/schemas/' are rewritten", 2, func() {
		n := 0
		for _, fd := range p.AllDecls("openapi2conv") {
			fn := core.FuncName(fd)
			if fn == "convertRefsInV3SchemaRef" || fn == "toV3AdditionalProperties" {
				continue // the rewriting helpers themselves
			}
			perFn := 0
			for _, l := range collectLits(p, info, fd) {
				tst := l.typ.Underlying().(*types.Struct)
				for i := 0; i < tst.NumFields(); i++ {
					tf := tst.Field(i)
					if !containsRef(tf.Type(), 0, map[types.Type]bool{}) {
						continue
					}
					for _, e := range l.values[tf.Name()] {
						e = ast.Unparen(e)
						// a direct copy: selector chain ending in a field, no call
						sel, ok := e.(*ast.SelectorExpr)
						if !ok {
							continue
						}
						sf := core.FieldSel(info, sel)
						if sf == nil {
							continue
						}
						n++
						perFn++
						key := fmt.Sprintf("refs:%s/%s.%s#%d", fn, l.typ.Obj().Name(), tf.Name(), perFn)
						// same-version copies inside one document are fine (v3 value into a v3 wrapper)
						var srcOwner *types.Named
						if s, ok := info.Selections[sel]; ok {
							srcOwner = core.NamedOf(s.Recv())
						}
						if srcOwner != nil && versionOf(srcOwner) == versionOf(l.typ) {
							// same version on both sides: still a cross-document copy when the function converts
							if strings.HasPrefix(fn, "ToV3") || strings.HasPrefix(fn, "FromV3") || strings.HasPrefix(fn, "fromV3") || strings.HasPrefix(fn, "toV3") {
								// only a problem when the source object as a whole belongs to the other document;
								// decided by the root parameter's version
								rootV := ""
								if id := core.RootIdent(sel); id != nil {
									if rt := core.NamedOf(info.TypeOf(id)); rt != nil {
										rootV = versionOf(rt)
									}
								}
								if rootV == versionOf(l.typ) || rootV == "" {
									r.Trivial(key, p.Pos(e.Pos()), "same document version")
									continue
								}
							} else {
								r.Trivial(key, p.Pos(e.Pos()), "same document version")
								continue
							}
						}
						r.Bad(key, p.Pos(e.Pos()), fmt.Sprintf("%s copies %s straight into %s.%s, whose type can hold a $ref: a reference inside keeps the other version's prefix", fn, core.ExprStr(e), l.typ.Obj().Name(), tf.Name()))
					}
				}
			}
		}
		r.Extra["direct_copies_into_ref_capable_fields"] = n
	})
}

func c17Sec(r *core.Report) {
	p := r.Prog
	info := p.Pkg("openapi2conv").TypesInfo
	r.RunRule("C17.sec", "security schemes map both ways: ToV3SecurityScheme and FromV3SecurityScheme each handle the types basic, apiKey and oauth2, the four OAuth2 flows appear in both (implicit, password, application<->clientCredentials, accessCode<->authorizationCode) and the two flow-name mappings are inverse of each other; inside ToV3SecurityScheme every flow object receives both URLs the flow needs (authorizationUrl and tokenUrl are both carried)", 8, func() {
		to := p.DeclOf("openapi2conv", "ToV3SecurityScheme")
		from := p.DeclOf("openapi2conv", "FromV3SecurityScheme")
		// case constants per function
		caseConsts := func(fd *ast.FuncDecl) map[string]bool {
			out := map[string]bool{}
			ast.Inspect(fd.Body, func(n ast.Node) bool {
				if cc, ok := n.(*ast.CaseClause); ok {
					for _, e := range cc.List {
						if s, ok := strConst(info, e); ok {
							out[s] = true
						}
					}
				}
				return true
			})
			return out
		}
		tc := caseConsts(to)
		_ = from
		for _, ty := range []string{"basic", "apiKey", "oauth2"} {
			r.Check(tc[ty], "sec:to/type/"+ty, p.Pos(to.Pos()), "handled", "ToV3SecurityScheme has no case for type "+ty)
		}
		for _, fl := range []string{"implicit", "password", "application", "accessCode"} {
			r.Check(tc[fl], "sec:to/flow/"+fl, p.Pos(to.Pos()), "handled", "ToV3SecurityScheme has no case for the OpenAPI 2 flow "+fl)
		}
		// v3 -> v2: flows are read from fields Implicit, Password, ClientCredentials, AuthorizationCode and
		// named by string constants assigned to Flow
		v3Flows := map[string]string{"Implicit": "implicit", "Password": "password", "ClientCredentials": "application", "AuthorizationCode": "accessCode"}
		fieldToFlow := map[string]string{}
		scan := func(conds []ast.Node, body []ast.Stmt) {
			fld := ""
			for _, c := range conds {
				if c == nil {
					continue
				}
				ast.Inspect(c, func(m ast.Node) bool {
					if sel, ok := m.(*ast.SelectorExpr); ok {
						if _, ok := v3Flows[sel.Sel.Name]; ok {
							fld = sel.Sel.Name
						}
					}
					return true
				})
			}
			if fld == "" {
				return
			}
			for _, st := range body {
				ast.Inspect(st, func(m ast.Node) bool {
					if as, ok := m.(*ast.AssignStmt); ok && len(as.Lhs) == 1 && len(as.Rhs) == 1 {
						if sel, ok := ast.Unparen(as.Lhs[0]).(*ast.SelectorExpr); ok && sel.Sel.Name == "Flow" {
							if s, ok := strConst(info, as.Rhs[0]); ok {
								fieldToFlow[fld] = s
							}
						}
					}
					return true
				})
			}
		}
		ast.Inspect(from.Body, func(n ast.Node) bool {
			switch x := n.(type) {
			case *ast.IfStmt:
				scan([]ast.Node{x.Init, x.Cond}, x.Body.List)
			case *ast.CaseClause:
				var conds []ast.Node
				for _, e := range x.List {
					conds = append(conds, e)
				}
				scan(conds, x.Body)
			}
			return true
		})
		for fld, want := range v3Flows {
			got, ok := fieldToFlow[fld]
			r.Check(ok && got == want, "sec:from/flow/"+fld, p.Pos(from.Pos()), "mapped to "+want, fmt.Sprintf("FromV3SecurityScheme maps the %s flow to %q, expected %q", fld, got, want))
		}
		// v2 -> v3: the case for flow X assigns the field v3Flows^-1(X)
		inv := map[string]string{}
		for f, n := range v3Flows {
			inv[n] = f
		}
		ast.Inspect(to.Body, func(n ast.Node) bool {
			cc, ok := n.(*ast.CaseClause)
			if !ok {
				return true
			}
			for _, e := range cc.List {
				s, ok := strConst(info, e)
				if !ok || inv[s] == "" {
					continue
				}
				assigned := ""
				for _, st := range cc.Body {
					ast.Inspect(st, func(m ast.Node) bool {
						if as, ok := m.(*ast.AssignStmt); ok {
							for _, l := range as.Lhs {
								if sel, ok := ast.Unparen(l).(*ast.SelectorExpr); ok {
									if _, isFlow := v3Flows[sel.Sel.Name]; isFlow {
										assigned = sel.Sel.Name
									}
								}
							}
						}
						return true
					})
				}
				r.Check(assigned == inv[s], "sec:to/flowfield/"+s, p.Pos(cc.Pos()), "stored as "+inv[s], fmt.Sprintf("ToV3SecurityScheme stores the OpenAPI 2 flow %s as %q, expected %s (FromV3SecurityScheme reads it back from there)", s, assigned, inv[s]))
			}
			return true
		})
		// each flow object receives the URLs that flow needs
		need := map[string][]string{"implicit": {"AuthorizationURL"}, "password": {"TokenURL"}, "application": {"TokenURL"}, "accessCode": {"AuthorizationURL", "TokenURL"}}
		ff := core.NewFuncFacts(p, info, to)
		lits := collectLits(p, info, to)
		ast.Inspect(to.Body, func(n ast.Node) bool {
			cc, ok := n.(*ast.CaseClause)
			if !ok {
				return true
			}
			for _, e := range cc.List {
				flow, ok := strConst(info, e)
				if !ok || need[flow] == nil {
					continue
				}
				// the value stored into flows.<Field>
				var val ast.Expr
				for _, st := range cc.Body {
					if as, ok := st.(*ast.AssignStmt); ok && len(as.Lhs) == 1 && len(as.Rhs) == 1 {
						if sel, ok := ast.Unparen(as.Lhs[0]).(*ast.SelectorExpr); ok {
							if _, isFlow := v3Flows[sel.Sel.Name]; isFlow {
								val = as.Rhs[0]
							}
						}
					}
				}
				if val == nil {
					continue
				}
				var lit *c17Lit
				v := ast.Unparen(val)
				if u, ok := v.(*ast.UnaryExpr); ok {
					v = ast.Unparen(u.X)
				}
				for _, l := range lits {
					if l.typ.Obj().Name() != "OAuthFlow" {
						continue
					}
					if ast.Expr(l.lit) == v {
						lit = l
					}
					if id, ok := v.(*ast.Ident); ok && l.holder != nil && info.ObjectOf(id) == l.holder {
						lit = l
					}
				}
				for _, u := range need[flow] {
					okU := false
					if lit != nil {
						for _, ve := range lit.values[u] {
							// a value assigned inside another flow's case does not count for this one
							foreign := false
							for _, anc := range core.PathTo(to.Body, ve) {
								if occ, ok := anc.(*ast.CaseClause); ok && occ != cc {
									for _, oe := range occ.List {
										if of, ok := strConst(info, oe); ok && need[of] != nil {
											foreign = true
										}
									}
								}
							}
							if !foreign && ff.Roots(ve, false).HasFieldNamed(u) {
								okU = true
							}
						}
					}
					r.Check(okU, "sec:to/url/"+flow+"/"+u, p.Pos(cc.Pos()), "carried over", fmt.Sprintf("the %s flow built by ToV3SecurityScheme does not receive %s, which that flow requires: the converted scheme is invalid", flow, u))
				}
			}
			return true
		})
	})
	_ = sort.Strings
}

// c17Order: components.schemas is used as a classifier while the document is converted.
func c17Order(r *core.Report) {
	p := r.Prog
	info := p.Pkg("openapi2conv").TypesInfo
	r.RunRule("C17.order", "form-field classification sees only form-field schemas: the conversion functions that probe components.Schemas[name] to decide whether a reference names a shared form-data parameter (found by that lookup) run, in ToV3WithLoader, before the OpenAPI 2 definitions are stored into components.Schemas; once the definitions are in that map a shared parameter whose key equals a definition name is taken for a form field", 1, func() {
		// functions that look a name up in Components.Schemas
		lookers := map[*types.Func]bool{}
		decls := map[*types.Func]*ast.FuncDecl{}
		for _, d := range p.AllDecls("openapi2conv") {
			o, _ := info.Defs[d.Name].(*types.Func)
			if o == nil {
				continue
			}
			decls[o] = d
			if !strings.HasPrefix(d.Name.Name, "ToV3") && !strings.HasPrefix(d.Name.Name, "toV3") && d.Name.Name != "onlyOneReqBodyParam" && d.Name.Name != "formDataBody" {
				continue
			}
			ast.Inspect(d.Body, func(n ast.Node) bool {
				ix, ok := n.(*ast.IndexExpr)
				if !ok {
					return true
				}
				sel, ok := ast.Unparen(ix.X).(*ast.SelectorExpr)
				if !ok || sel.Sel.Name != "Schemas" {
					return true
				}
				if on := core.NamedOf(info.TypeOf(sel.X)); on == nil || on.Obj().Name() != "Components" {
					return true
				}
				// a read: not the left-hand side of an assignment
				path := core.PathTo(d.Body, ix)
				if len(path) >= 2 {
					if as, ok := path[len(path)-2].(*ast.AssignStmt); ok {
						for _, l := range as.Lhs {
							if ast.Unparen(l) == ast.Expr(ix) {
								return true
							}
						}
					}
				}
				lookers[o] = true
				return true
			})
		}
		// transitive callers inside the package
		changed := true
		for changed {
			changed = false
			for o, d := range decls {
				if lookers[o] {
					continue
				}
				ast.Inspect(d.Body, func(n ast.Node) bool {
					if c, ok := n.(*ast.CallExpr); ok {
						if callee := core.CalleeOf(info, c); callee != nil && lookers[callee] {
							lookers[o] = true
							changed = true
						}
					}
					return true
				})
			}
		}
		top := p.DeclOf("openapi2conv", "ToV3WithLoader")
		self, _ := info.Defs[top.Name].(*types.Func)
		delete(lookers, self)
		if len(lookers) == 0 {
			core.Fail("no function probing components.Schemas found")
		}
		ff := core.NewFuncFacts(p, info, top)
		lastLook, firstDefs := -1, -1
		for i, st := range top.Body.List {
			ast.Inspect(st, func(n ast.Node) bool {
				switch x := n.(type) {
				case *ast.CallExpr:
					if callee := core.CalleeOf(info, x); callee != nil && lookers[callee] {
						if i > lastLook {
							lastLook = i
						}
					}
				case *ast.AssignStmt:
					for k, l := range x.Lhs {
						e := ast.Unparen(l)
						if ix, ok := e.(*ast.IndexExpr); ok {
							e = ast.Unparen(ix.X)
						}
						sel, ok := e.(*ast.SelectorExpr)
						if !ok || sel.Sel.Name != "Schemas" {
							continue
						}
						var rhs ast.Expr
						if len(x.Rhs) == len(x.Lhs) {
							rhs = x.Rhs[k]
						} else if len(x.Rhs) == 1 {
							rhs = x.Rhs[0]
						}
						if rhs != nil && ff.Roots(rhs, true).HasFieldNamed("Definitions") {
							if firstDefs < 0 || i < firstDefs {
								firstDefs = i
							}
						}
					}
				}
				return true
			})
		}
		if lastLook < 0 || firstDefs < 0 {
			r.Unknown("order:definitions-after-classification", p.Pos(top.Pos()), "could not locate the classification calls or the store of the definitions in ToV3WithLoader")
			return
		}
		r.Check(firstDefs > lastLook, "order:definitions-after-classification", p.Pos(top.Body.List[firstDefs].Pos()), "the definitions enter components.Schemas after the last classification", "the OpenAPI 2 definitions are stored into components.Schemas before the parameters and paths are converted: a '#/parameters/X' reference whose X is also a definition name is converted as a form field (the parameter disappears and a request body appears)")
	})
}

// requiredFromOwner: a form field's `required` flag is its name's membership in the `required` list
// of the object schema that owns the properties map the field was taken from — not in the field's
// own schema. Returns why the literal's Required value violates that ("" when fine).
func requiredFromOwner(ff *core.FuncFacts, info *types.Info, l *c17Lit) string {
	// chain of the source object: taken from another copied field (Description, Enum, ...)
	var objChain []string
	for _, f := range []string{"Description", "Enum", "Default", "MinLength"} {
		for _, e := range l.values[f] {
			for _, ch := range fieldChains(ff, info, e) {
				if len(ch) >= 2 {
					objChain = ch[:len(ch)-1]
				}
			}
		}
	}
	isProperty := false
	cut := -1
	for i, s := range objChain {
		if s == "Properties" {
			isProperty = true
			cut = i
		}
	}
	if !isProperty {
		return "" // the schema is not reached through a properties map: its own list is all there is
	}
	owner := strings.Join(objChain[:cut], ".")
	// where the Required value comes from: the range expressions controlling its assignments
	for _, e := range l.values["Required"] {
		id, ok := ast.Unparen(e).(*ast.Ident)
		if !ok {
			continue
		}
		for _, a := range ff.Assigns(info.ObjectOf(id)) {
			for _, rg := range a.Ranges {
				for _, ch := range fieldChains(ff, info, rg) {
					if len(ch) == 0 || ch[len(ch)-1] != "Required" {
						continue
					}
					got := strings.Join(ch[:len(ch)-1], ".")
					if got != owner {
						return fmt.Sprintf("the form field's required flag is looked up in the `required` list at %s, but the field was taken from the properties of %s: the list that says which properties are required is the owner's, so every form field comes back optional", got, owner)
					}
					return ""
				}
			}
		}
	}
	return "the form field's required flag is not derived from a `required` list"
}

// c17Content: the way back does not assume one media type.
func c17Content(r *core.Report) {
	p := r.Prog
	info := p.Pkg("openapi2conv").TypesInfo
	r.RunRule("C17.content", "what ToV3 spreads over the media types of `produces`/`consumes`, FromV3 finds again whatever the media type: in the FromV3* functions a lookup of an openapi3.Content map by a constant media type is only a preference — the same function also iterates over the map (or looks further entries up) so that a schema stored under another media type is not lost on the way back", 1, func() {
		n := 0
		for _, d := range p.AllDecls("openapi2conv") {
			if !strings.HasPrefix(d.Name.Name, "FromV3") && !strings.HasPrefix(d.Name.Name, "fromV3") {
				continue
			}
			perFn := 0
			ast.Inspect(d.Body, func(nd ast.Node) bool {
				ix, ok := nd.(*ast.IndexExpr)
				if !ok {
					return true
				}
				ct := core.NamedOf(info.TypeOf(ix.X))
				if ct == nil || ct.Obj().Name() != "Content" {
					return true
				}
				if _, ok := strConst(info, ix.Index); !ok {
					return true
				}
				n++
				perFn++
				key := fmt.Sprintf("content:%s#%d", d.Name.Name, perFn)
				// a range over the same map expression in the function
				ranged := false
				ast.Inspect(d.Body, func(m ast.Node) bool {
					if rs, ok := m.(*ast.RangeStmt); ok && core.ExprStr(rs.X) == core.ExprStr(ix.X) {
						ranged = true
					}
					return true
				})
				r.Check(ranged, key, p.Pos(ix.Pos()), "the constant media type is only the preferred entry", fmt.Sprintf("%s reads the content map only at %s: a response or body that ToV3 stored under another media type (produces/consumes) loses its schema on the way back", d.Name.Name, core.ExprStr(ix.Index)))
				return true
			})
		}
		if n == 0 {
			r.Trivial("content:none", "-", "no constant media-type lookup in the FromV3 functions")
		}
	})
}

// c17Pure: converting does not change the document being converted.
func c17Pure(r *core.Report) {
	p := r.Prog
	info := p.Pkg("openapi2conv").TypesInfo
	r.RunRule("C17.pure", "the source document is read-only: in the ToV3*/FromV3* functions no assignment writes a field or element reached from a parameter that holds (part of) the document being converted, and no element is written into a target map that was taken over from the source without a copy; a conversion that edits its input gives a different result when the same object is converted again (a schema shared by several media types, a second FromV3)", 1, func() {
		n := 0
		for _, d := range p.AllDecls("openapi2conv") {
			name := d.Name.Name
			var srcV string
			switch {
			case strings.HasPrefix(name, "ToV3") || strings.HasPrefix(name, "toV3"):
				srcV = "v2"
			case strings.HasPrefix(name, "FromV3") || strings.HasPrefix(name, "fromV3"):
				srcV = "v3"
			default:
				continue
			}
			// parameters of the source version
			srcParams := map[types.Object]bool{}
			for _, fl := range d.Type.Params.List {
				for _, nm := range fl.Names {
					o := info.Defs[nm]
					if o == nil {
						continue
					}
					if nn := core.NamedOf(o.Type()); nn != nil && versionOf(nn) == srcV {
						// openapi3 types are used inside openapi2 documents too (additionalProperties):
						// a v3-typed parameter of a ToV3 function is still source material
						srcParams[o] = true
					}
					if srcV == "v2" {
						if nn := core.NamedOf(o.Type()); nn != nil && versionOf(nn) == "v3" && (nn.Obj().Name() == "AdditionalProperties" || nn.Obj().Name() == "SchemaRef") && strings.HasPrefix(name, "toV3") {
							srcParams[o] = true
						}
					}
				}
			}
			if len(srcParams) == 0 {
				continue
			}
			ff := core.NewFuncFacts(p, info, d)
			lits := collectLits(p, info, d)
			perFn := 0
			ast.Inspect(d.Body, func(nd ast.Node) bool {
				if c, ok := nd.(*ast.CallExpr); ok && core.IsBuiltin(info, c, "delete") && len(c.Args) == 2 {
					m := ast.Unparen(c.Args[0])
					root := core.RootIdent(m)
					if root != nil {
						ro := info.ObjectOf(root)
						src := srcParams[ro] || aliasesSource(ff, info, ro, srcParams)
						if !src {
							// a target field that still holds the source's map
							if sel, ok := m.(*ast.SelectorExpr); ok {
								for _, lt := range lits {
									if lt.holder != nil && lt.holder == ro {
										for _, ve := range lt.values[sel.Sel.Name] {
											if vs, ok := ast.Unparen(ve).(*ast.SelectorExpr); ok && ve.Pos() < c.Pos() {
												if vr := core.RootIdent(vs); vr != nil && (srcParams[info.ObjectOf(vr)] || aliasesSource(ff, info, info.ObjectOf(vr), srcParams)) {
													src = true
												}
											}
										}
									}
								}
							}
						}
						if src {
							n++
							perFn++
							r.Bad(fmt.Sprintf("pure:%s#%d", name, perFn), p.Pos(c.Pos()), fmt.Sprintf("%s deletes from %s, a map of the document it is converting", name, core.ExprStr(m)))
						}
					}
					return true
				}
				as, ok := nd.(*ast.AssignStmt)
				if !ok {
					return true
				}
				for _, l := range as.Lhs {
					e := ast.Unparen(l)
					isIndex := false
					if ix, ok := e.(*ast.IndexExpr); ok {
						e = ast.Unparen(ix.X)
						isIndex = true
					}
					sel, ok := e.(*ast.SelectorExpr)
					if !ok {
						continue
					}
					root := core.RootIdent(sel)
					if root == nil {
						continue
					}
					ro := info.ObjectOf(root)
					// (a) a write below a source parameter (or a local that aliases part of it)
					if srcParams[ro] || aliasesSource(ff, info, ro, srcParams) {
						n++
						perFn++
						r.Bad(fmt.Sprintf("pure:%s#%d", name, perFn), p.Pos(as.Pos()), fmt.Sprintf("%s assigns %s, part of the document it is converting: the input is different after the conversion", name, core.ExprStr(l)))
						continue
					}
					// (b) an element written into a target map that is the source's own map
					if isIndex {
						for _, lt := range lits {
							if lt.holder == nil || lt.holder != ro {
								continue
							}
							for _, ve := range lt.values[sel.Sel.Name] {
								if vs, ok := ast.Unparen(ve).(*ast.SelectorExpr); ok {
									if vr := core.RootIdent(vs); vr != nil && (srcParams[info.ObjectOf(vr)] || aliasesSource(ff, info, info.ObjectOf(vr), srcParams)) {
										if _, isMap := info.TypeOf(vs).Underlying().(*types.Map); isMap && ve.Pos() < as.Pos() {
											// unless the field was re-assigned a fresh map in between on every path: look for a dominating unconditional reassignment
											fresh := false
											for _, ve2 := range lt.values[sel.Sel.Name] {
												if ve2.Pos() > ve.Pos() && ve2.Pos() < as.Pos() {
													if _, isSel := ast.Unparen(ve2).(*ast.SelectorExpr); !isSel && ve2 != as.Rhs[0] {
														// a reassignment exists; it protects only if it is not under a condition the store is not under
														sp := core.PathTo(d.Body, ve2)
														cond := false
														for _, anc := range sp {
															if ifs, ok := anc.(*ast.IfStmt); ok && !(ifs.Pos() <= as.Pos() && as.End() <= ifs.End() && containsNode(ifs.Body, as)) {
																cond = true
															}
														}
														if !cond {
															fresh = true
														}
													}
												}
											}
											if !fresh {
												n++
												perFn++
												r.Bad(fmt.Sprintf("pure:%s#%d", name, perFn), p.Pos(as.Pos()), fmt.Sprintf("%s writes %s, but %s.%s still is the source's own map (%s): the element lands in the document being converted", name, core.ExprStr(l), root.Name, sel.Sel.Name, core.ExprStr(ve)))
											}
										}
									}
								}
							}
						}
					}
				}
				return true
			})
		}
		// helpers that receive a source map must not edit it in place
		for _, d := range p.AllDecls("openapi2conv") {
			perFn := 0
			mapParams := map[types.Object]bool{}
			for _, fl := range d.Type.Params.List {
				for _, nm := range fl.Names {
					if o := info.Defs[nm]; o != nil {
						// extension maps (map[string]any) are handed over from the source document as they are
						if mt, isMap := o.Type().Underlying().(*types.Map); isMap {
							if it, ok := mt.Elem().Underlying().(*types.Interface); ok && it.Empty() {
								mapParams[o] = true
							}
						}
					}
				}
			}
			if len(mapParams) == 0 {
				continue
			}
			ast.Inspect(d.Body, func(nd ast.Node) bool {
				switch x := nd.(type) {
				case *ast.CallExpr:
					if core.IsBuiltin(info, x, "delete") && len(x.Args) == 2 {
						if id, ok := ast.Unparen(x.Args[0]).(*ast.Ident); ok && mapParams[info.ObjectOf(id)] {
							n++
							perFn++
							r.Bad(fmt.Sprintf("pure:%s/param#%d", d.Name.Name, perFn), p.Pos(x.Pos()), d.Name.Name+" deletes from the map it was given: its callers pass maps of the document being converted")
						}
					}
				case *ast.AssignStmt:
					for _, l := range x.Lhs {
						if ix, ok := ast.Unparen(l).(*ast.IndexExpr); ok {
							if id, ok := ast.Unparen(ix.X).(*ast.Ident); ok && mapParams[info.ObjectOf(id)] {
								// writing into a map the caller created for the result is fine when the parameter is the result collector
								if strings.HasPrefix(d.Name.Name, "add") {
									continue
								}
								n++
								perFn++
								r.Bad(fmt.Sprintf("pure:%s/param#%d", d.Name.Name, perFn), p.Pos(x.Pos()), d.Name.Name+" writes into the map it was given: its callers pass maps of the document being converted")
							}
						}
					}
				}
				return true
			})
		}
		if n == 0 {
			r.OK("pure:openapi2conv", "-", "no conversion function writes into its source")
		}
	})
}

func containsNode(root ast.Node, n ast.Node) bool {
	found := false
	ast.Inspect(root, func(m ast.Node) bool {
		if m == n {
			found = true
		}
		return !found
	})
	return found
}

// aliasesSource: local o is only ever assigned (pointers into) a source parameter: x := param.Value,
// x := param.Field[k], range element of a source collection.
func aliasesSource(ff *core.FuncFacts, info *types.Info, o types.Object, src map[types.Object]bool) bool {
	as := ff.Assigns(o)
	if len(as) == 0 {
		return false
	}
	for _, a := range as {
		var e ast.Expr
		switch {
		case a.Rhs != nil:
			e = a.Rhs
		case a.RangeOf != nil && !a.IsKey:
			e = a.RangeOf
		case a.MapIndex != nil:
			e = a.MapIndex
		default:
			return false
		}
		// pointer-typed or map-typed alias only (a copied value is not an alias)
		switch o.Type().Underlying().(type) {
		case *types.Pointer, *types.Map, *types.Slice:
		default:
			return false
		}
		// must be a plain access path, not a call result
		ok := true
		ast.Inspect(e, func(n ast.Node) bool {
			if _, isCall := n.(*ast.CallExpr); isCall {
				ok = false
			}
			return ok
		})
		if !ok {
			return false
		}
		root := core.RootIdent(e)
		if root == nil || !src[info.ObjectOf(root)] {
			return false
		}
	}
	return true
}

// c17Servers: host, base path and schemes become server URLs and come back. ToV3 builds each URL
// from its components (url.URL{Scheme, Host, Path}); the way back must read the same components of
// the parsed URL -- Host carries the port, Hostname() does not.
func c17Servers(r *core.Report) {
	p := r.Prog
	info := p.Pkg("openapi2conv").TypesInfo
	r.RunRule("C17.servers", "host and base path come back from the components they were put into: every assignment to the Host / BasePath field of an openapi2.T in package openapi2conv takes the Host / Path field of a parsed url.URL (not Hostname(), which drops the port, nor a re-assembled string), mirroring the url.URL{Scheme, Host, Path} literal ToV3 builds the server URLs from", 2, func() {
		want := map[string]string{"Host": "Host", "BasePath": "Path"}
		perField := map[string]int{}
		for _, d := range p.AllDecls("openapi2conv") {
			if d.Body == nil {
				continue
			}
			ast.Inspect(d.Body, func(n ast.Node) bool {
				as, ok := n.(*ast.AssignStmt)
				if !ok {
					return true
				}
				for i, l := range as.Lhs {
					sel, ok := ast.Unparen(l).(*ast.SelectorExpr)
					if !ok || i >= len(as.Rhs) {
						continue
					}
					w, ok := want[sel.Sel.Name]
					if !ok {
						continue
					}
					if nn := core.NamedOf(info.TypeOf(sel.X)); nn == nil || nn.Obj().Name() != "T" || nn.Obj().Pkg().Name() != "openapi2" {
						continue
					}
					perField[sel.Sel.Name]++
					key := fmt.Sprintf("servers:%s.%s#%d", core.FuncName(d), sel.Sel.Name, perField[sel.Sel.Name])
					rhs := ast.Unparen(as.Rhs[i])
					good := false
					if rs, ok := rhs.(*ast.SelectorExpr); ok && rs.Sel.Name == w {
						if nn := core.NamedOf(info.TypeOf(rs.X)); nn != nil && nn.Obj().Pkg() != nil && nn.Obj().Pkg().Path() == "net/url" {
							good = true
						}
					}
					if good {
						r.OK(key, p.Pos(as.Pos()), "taken from url.URL."+w)
					} else {
						r.Bad(key, p.Pos(as.Pos()), fmt.Sprintf("%s of the OpenAPI 2 document is set from %s instead of the %s field of the parsed server URL: what ToV3 put into the URL does not come back (Hostname() drops an explicit port: `admin.example.com:8443` returns as `admin.example.com`)", sel.Sel.Name, core.ExprStr(rhs), w))
					}
				}
				return true
			})
		}
	})
}

// scratchEscapes: a variable declared outside a loop that each iteration refills in place (resliced
// to length zero, or handed by address to a call that decodes into it) and then stores, whole, into
// a container that outlives the iteration. Every stored copy shares the variable's backing array
// (or, for a value not overwritten this time, carries the previous iteration's content).
func scratchEscapes(r *core.Report, rule string, floor int, rels ...string) {
	p := r.Prog
	r.RunRule(rule, "no reused scratch value is kept: inside a loop, a slice-, map- or type-parameter-typed variable declared outside the loop and refilled in place in the iteration (`v = v[:0]`, or `&v` passed to a call) is not stored whole into a map entry, a field, a slice element or an appended list — each stored value must be the iteration's own", floor, func() {
		for _, rel := range rels {
			pkg := p.PkgOpt(rel)
			if pkg == nil {
				continue
			}
			info := pkg.TypesInfo
			loops := 0
			defer func(rel string) {
				if loops > 0 {
					r.OK("fresh:"+rel+":loops", "-", fmt.Sprintf("%d loops examined in package %s", loops, rel))
				}
			}(rel)
			for _, d := range p.AllDecls(rel) {
				if d.Body == nil {
					continue
				}
				k := 0
				ast.Inspect(d.Body, func(nd ast.Node) bool {
					var body *ast.BlockStmt
					switch x := nd.(type) {
					case *ast.RangeStmt:
						body = x.Body
					case *ast.ForStmt:
						body = x.Body
					}
					if body == nil {
						return true
					}
					loops++
					outer := func(o types.Object) bool {
						return o != nil && (o.Pos() < body.Pos() || o.Pos() > body.End())
					}
					aggregate := func(t types.Type) bool {
						switch t.Underlying().(type) {
						case *types.Slice, *types.Map:
							return true
						}
						_, isTP := t.(*types.TypeParam)
						return isTP
					}
					refilled := map[types.Object]string{}
					stored := map[types.Object]ast.Node{}
					ast.Inspect(body, func(m ast.Node) bool {
						if _, isLit := m.(*ast.FuncLit); isLit {
							return false
						}
						switch x := m.(type) {
						case *ast.AssignStmt:
							for i, l := range x.Lhs {
								if i >= len(x.Rhs) {
									break
								}
								// v = v[:0]
								if lid, ok := ast.Unparen(l).(*ast.Ident); ok {
									if se, ok := ast.Unparen(x.Rhs[i]).(*ast.SliceExpr); ok && se.Low == nil {
										if sid, ok := ast.Unparen(se.X).(*ast.Ident); ok && info.ObjectOf(sid) == info.ObjectOf(lid) {
											if z, ok := intConst(info, se.High); ok && z == 0 && outer(info.ObjectOf(lid)) {
												refilled[info.ObjectOf(lid)] = "resliced to length 0 (" + core.ExprStr(l) + " = " + core.ExprStr(x.Rhs[i]) + ")"
											}
										}
									}
								}
								// container[..] = v / x.F = v
								if rid, ok := ast.Unparen(x.Rhs[i]).(*ast.Ident); ok {
									o := info.ObjectOf(rid)
									if v, isVar := o.(*types.Var); isVar && outer(o) && aggregate(v.Type()) {
										switch ast.Unparen(l).(type) {
										case *ast.IndexExpr, *ast.SelectorExpr:
											stored[o] = x
										}
									}
								}
							}
						case *ast.CallExpr:
							for _, a := range x.Args {
								if u, ok := ast.Unparen(a).(*ast.UnaryExpr); ok && u.Op == token.AND {
									if id, ok := ast.Unparen(u.X).(*ast.Ident); ok {
										o := info.ObjectOf(id)
										if v, isVar := o.(*types.Var); isVar && outer(o) && aggregate(v.Type()) {
											refilled[o] = "filled in place through &" + id.Name + " (" + core.ExprStr(x.Fun) + ")"
										}
									}
								}
							}
						}
						return true
					})
					var objs []types.Object
					for o := range stored {
						objs = append(objs, o)
					}
					sort.Slice(objs, func(i, j int) bool { return objs[i].Pos() < objs[j].Pos() })
					for _, o := range objs {
						k++
						key := fmt.Sprintf("fresh:%s.%s/%s#%d", rel, core.FuncName(d), o.Name(), k)
						if how, ok := refilled[o]; ok {
							r.Bad(key, p.Pos(stored[o].Pos()), fmt.Sprintf("%s is declared outside the loop, %s in every iteration and stored whole at %s: the values stored in earlier iterations share its storage and are overwritten by later ones (or keep an earlier iteration's content)", o.Name(), how, core.ExprStr(stored[o].(*ast.AssignStmt).Lhs[0])))
						} else {
							r.OK(key, p.Pos(stored[o].Pos()), "stored variable is not refilled in place inside the loop")
						}
					}
					return true
				})
			}
		}
	})
}

// c17Complete: a converter that builds its result in steps (a literal, then `result.F = ...` for the
// fields that need work) must not hand the result back between the steps.
func c17Complete(r *core.Report) {
	p := r.Prog
	info := p.Pkg("openapi2conv").TypesInfo
	r.RunRule("C17.complete", "a converter returns its result only when it is complete: in every function of openapi2conv that initialises a result variable with a composite literal and later assigns further fields of it, no `return result, nil` stands before the last of those field assignments (returns on an error branch excepted) — what is assigned after such a return is lost for the inputs that take it", 10, func() {
		for _, d := range p.AllDecls("openapi2conv") {
			if d.Body == nil || d.Type.Results == nil {
				continue
			}
			// result variables: `x := &T{...}` / `x := T{...}` at the top level of the body
			for _, st := range d.Body.List {
				as, ok := st.(*ast.AssignStmt)
				if !ok || as.Tok != token.DEFINE || len(as.Lhs) != 1 || len(as.Rhs) != 1 {
					continue
				}
				e := ast.Unparen(as.Rhs[0])
				if u, ok := e.(*ast.UnaryExpr); ok && u.Op == token.AND {
					e = ast.Unparen(u.X)
				}
				if _, isLit := e.(*ast.CompositeLit); !isLit {
					continue
				}
				id, ok := as.Lhs[0].(*ast.Ident)
				if !ok {
					continue
				}
				res := info.ObjectOf(id)
				// the last field assignment through the variable
				last := token.NoPos
				ast.Inspect(d.Body, func(m ast.Node) bool {
					if a2, ok := m.(*ast.AssignStmt); ok {
						for _, l := range a2.Lhs {
							if sel, ok := ast.Unparen(l).(*ast.SelectorExpr); ok {
								if x, ok := ast.Unparen(sel.X).(*ast.Ident); ok && info.ObjectOf(x) == res && a2.Pos() > last {
									last = a2.Pos()
								}
							}
						}
					}
					return true
				})
				if last == token.NoPos {
					continue
				}
				// is the variable what the function returns?
				returned := false
				early := token.NoPos
				ast.Inspect(d.Body, func(m ast.Node) bool {
					if _, isLit := m.(*ast.FuncLit); isLit {
						return false
					}
					ret, ok := m.(*ast.ReturnStmt)
					if !ok || len(ret.Results) == 0 {
						return true
					}
					x, ok := ast.Unparen(ret.Results[0]).(*ast.Ident)
					if !ok || info.ObjectOf(x) != res {
						return true
					}
					returned = true
					// a success return: the error result is nil
					if len(ret.Results) >= 2 && !core.IsNil(info, ret.Results[len(ret.Results)-1]) {
						return true
					}
					if ret.Pos() < last && early == token.NoPos {
						// a branch that fills the result its own way before returning is an alternative to
						// what follows, not a shortcut past it
						own := false
						path := core.PathTo(d.Body, ret)
						for i := len(path) - 1; i >= 0; i-- {
							blk, ok := path[i].(*ast.BlockStmt)
							if !ok {
								continue
							}
							for _, st2 := range blk.List {
								if st2.Pos() >= ret.Pos() {
									break
								}
								if a2, ok := st2.(*ast.AssignStmt); ok {
									for _, l := range a2.Lhs {
										if sel, ok := ast.Unparen(l).(*ast.SelectorExpr); ok {
											if x2, ok := ast.Unparen(sel.X).(*ast.Ident); ok && info.ObjectOf(x2) == res {
												own = true
											}
										}
									}
								}
							}
							break
						}
						if !own {
							early = ret.Pos()
						}
					}
					return true
				})
				if !returned {
					continue
				}
				key := fmt.Sprintf("complete:%s/%s", core.FuncName(d), id.Name)
				if early != token.NoPos {
					r.Bad(key, p.Pos(early), fmt.Sprintf("%s returns %s at %s although fields of it are still assigned further down (last at %s): for the inputs that take this return those fields are lost (a response without a schema loses its headers)", core.FuncName(d), id.Name, p.Pos(early), p.Pos(last)))
				} else {
					r.OK(key, p.Pos(as.Pos()), "returned after its last field assignment")
				}
			}
		}
	})
}
