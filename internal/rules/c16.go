package rules

import (
	"fmt"
	"go/ast"
	"go/token"
	"go/types"
	"sort"
	"strings"

	"golang.org/x/tools/go/ssa"

	"verif/internal/core"
)

func init() { register("C16", c16) }

// internalizeFamily: the deref*/add*ToSpec methods of *T.
func internalizeFamily(p *core.Prog) (walkerFamily, map[*types.Named]*types.Func) {
	info := p.Pkg("openapi3").TypesInfo
	tT := p.NamedType("openapi3", "T")
	adders := map[*types.Named]*types.Func{} // wrapper -> add*ToSpec
	for i := 0; i < tT.NumMethods(); i++ {
		m := tT.Method(i)
		if !strings.HasPrefix(m.Name(), "add") || !strings.HasSuffix(m.Name(), "ToSpec") {
			continue
		}
		sig := m.Type().(*types.Signature)
		if sig.Params().Len() < 1 {
			continue
		}
		if n := core.NamedOf(sig.Params().At(0).Type()); n != nil {
			adders[n] = m
		}
	}
	decl := func(name string) *ast.FuncDecl { return p.DeclOf("openapi3", "T."+name) }
	pathItemT := p.NamedType("openapi3", "PathItem")
	fam := walkerFamily{
		name: "internaliser",
		walkersOf: func(u *types.Named) []walkerAlt {
			switch u.Obj().Name() {
			case "T":
				return []walkerAlt{{decl("InternalizeRefs"), ""}}
			case "Components":
				return []walkerAlt{{decl("InternalizeRefs"), "Components"}}
			case "PathItem":
				return []walkerAlt{{decl("derefPaths"), ""}}
			case "Operation":
				return []walkerAlt{{decl("derefPaths"), "Operations"}}
			case "Callback":
				return []walkerAlt{{decl("derefPaths"), "Operations.Callbacks"}, {decl("InternalizeRefs"), "Components.Callbacks"}}
			case "Schema":
				return []walkerAlt{{decl("derefSchema"), ""}}
			case "Parameter":
				return []walkerAlt{{decl("derefParameter"), ""}}
			case "Header":
				return []walkerAlt{{decl("derefHeaders"), ""}}
			case "RequestBody":
				return []walkerAlt{{decl("derefRequestBody"), ""}}
			case "Response":
				return []walkerAlt{{decl("derefResponse"), ""}}
			}
			return nil
		},
		handles: func(_ *types.Info, c *ast.CallExpr, w *types.Named) ast.Expr {
			callee := core.CalleeOf(info, c)
			if callee == nil || len(c.Args) < 1 {
				return nil
			}
			if w == pathItemT {
				if callee.Name() == "derefPaths" {
					return c.Args[0]
				}
				return nil
			}
			if adders[w] == callee {
				return c.Args[0]
			}
			return nil
		},
		isHelper: func(f *types.Func) bool {
			sig := f.Type().(*types.Signature)
			if sig.Recv() == nil || core.NamedOf(sig.Recv().Type()) != tT {
				return false
			}
			return strings.HasPrefix(f.Name(), "deref") && f.Name() != "derefPaths" && f.Name() != "derefSchema"
		},
	}
	return fam, adders
}

func c16(r *core.Report) {
	c16SameTarget(r)
	p := r.Prog
	pk := p.Pkg("openapi3")
	info := pk.TypesInfo
	r.Assumption("equivalence of verdicts before and after, injectivity of generated names beyond the resolver's inputs and the reload with external references disallowed are not decided")
	fam, adders := internalizeFamily(p)
	c16AddFirst(r, adders)
	c16VisitedCtx(r, adders)
	c16EarlyExit(r)
	c16CtxFlow(r)
	c16IdentChars(r)
	c16ExternalDef(r)

	units, _ := refUnits(p, "openapi3")
	r.RunRule("C16.cover", "internalising reaches every reference position: for every path of fields from a unit to a field that can hold a $ref (same enumeration as C02.cover), the unit's deref function hands that field to the add*ToSpec of the position's wrapper (path items: to derefPaths); units without reference positions of their own need no walker", 29, func() {
		hasWalker := map[string]bool{}
		for _, u := range units {
			if len(fam.walkersOf(u)) > 0 {
				hasWalker[u.Obj().Name()] = true
			}
		}
		coverage(r, "openapi3", fam, "refpos:")
	})

	r.RunRule("C16.kind", "add-to-components coherence: each add*ToSpec is a no-op for nil/internal references, asks the name resolver, reuses an existing component of that name, creates Components and the map when absent, stores a fresh wrapper holding the value, and rewrites Ref — where the Components field written, the collection segment of the string assigned to Ref and the wrapper's CollectionName() constant are the same JSON name (three-way agreement)", 27, func() {
		compT := p.NamedType("openapi3", "Components")
		compSt := compT.Underlying().(*types.Struct)
		var wrappers []*types.Named
		for w := range adders {
			wrappers = append(wrappers, w)
		}
		sort.Slice(wrappers, func(i, j int) bool { return wrappers[i].Obj().Name() < wrappers[j].Obj().Name() })
		if len(wrappers) < 9 {
			core.Fail("only %d add*ToSpec functions", len(wrappers))
		}
		for _, w := range wrappers {
			m := adders[w]
			fd := p.Decl(m)
			name := m.Name()
			// CollectionName constant
			coll := ""
			if cn := core.HasMethod(w, "CollectionName"); cn != nil {
				cd := p.Decl(cn)
				ast.Inspect(cd.Body, func(n ast.Node) bool {
					if ret, ok := n.(*ast.ReturnStmt); ok && len(ret.Results) == 1 {
						coll, _ = core.ConstStr(info, ret.Results[0])
					}
					return true
				})
			}
			// Ref assignments: "#/components/<seg>/" + name
			segs := map[string]bool{}
			nRefAssign := 0
			ast.Inspect(fd.Body, func(n ast.Node) bool {
				as, ok := n.(*ast.AssignStmt)
				if !ok || len(as.Lhs) != 1 {
					return true
				}
				if f := core.FieldSel(info, as.Lhs[0]); f != nil && f.Name() == "Ref" {
					nRefAssign++
					if be, ok := ast.Unparen(as.Rhs[0]).(*ast.BinaryExpr); ok && be.Op == token.ADD {
						if s, ok := core.ConstStr(info, be.X); ok && strings.HasPrefix(s, "#/components/") && strings.HasSuffix(s, "/") {
							segs[strings.TrimSuffix(strings.TrimPrefix(s, "#/components/"), "/")] = true
						} else {
							segs["?"] = true
						}
					} else {
						segs["?"] = true
					}
				}
				return true
			})
			// Components fields stored into (map index assignment) and looked up
			stored, looked := map[string]bool{}, map[string]bool{}
			ast.Inspect(fd.Body, func(n ast.Node) bool {
				switch x := n.(type) {
				case *ast.AssignStmt:
					for _, l := range x.Lhs {
						if ix, ok := l.(*ast.IndexExpr); ok {
							if f := core.FieldSel(info, ix.X); f != nil {
								stored[core.TagOfField(compSt, f)] = true
							}
						}
					}
					if len(x.Rhs) == 1 {
						if ix, ok := ast.Unparen(x.Rhs[0]).(*ast.IndexExpr); ok && len(x.Lhs) == 2 {
							if f := core.FieldSel(info, ix.X); f != nil {
								looked[core.TagOfField(compSt, f)] = true
							}
						}
					}
				}
				return true
			})
			one := func(m map[string]bool) string {
				var ks []string
				for k := range m {
					ks = append(ks, k)
				}
				sort.Strings(ks)
				return strings.Join(ks, ",")
			}
			r.Check(coll != "" && one(segs) == coll && one(stored) == coll && nRefAssign >= 1, "kind:"+name+"/collection", p.Pos(fd.Pos()),
				fmt.Sprintf("CollectionName=%q = Ref segment = Components field", coll),
				fmt.Sprintf("collection names disagree: CollectionName()=%q, Ref segment(s)=%q, Components field(s) written=%q: the rewritten $ref does not point at the component that was stored", coll, one(segs), one(stored)))
			r.Check(one(looked) == coll, "kind:"+name+"/existing-name", p.Pos(fd.Pos()), "an existing component of the generated name is reused, not overwritten",
				"no existing-name check on Components."+coll+": a second, different target that maps to the same name silently replaces the first (distinct external targets merged under one name)")
			// guard: nil / !isExternalRef => no-op
			okGuard := false
			if len(fd.Body.List) > 0 {
				if ifs, ok := fd.Body.List[0].(*ast.IfStmt); ok && core.Terminates(info, ifs.Body.List) {
					s := core.ExprStr(ifs.Cond)
					if strings.Contains(s, "== nil") && strings.Contains(s, "isExternalRef") {
						okGuard = true
					}
				}
			}
			r.Check(okGuard, "kind:"+name+"/guard", p.Pos(fd.Pos()), "no-op for nil and for references that are already internal", "add*ToSpec does not start with the nil / !isExternalRef no-op guard")
			// fresh wrapper holding the value
			okFresh := false
			ast.Inspect(fd.Body, func(n ast.Node) bool {
				as, ok := n.(*ast.AssignStmt)
				if !ok || len(as.Lhs) != 1 || len(as.Rhs) != 1 {
					return true
				}
				if _, isIdx := as.Lhs[0].(*ast.IndexExpr); !isIdx {
					return true
				}
				rhs := ast.Unparen(as.Rhs[0])
				if u, ok := rhs.(*ast.UnaryExpr); ok && u.Op == token.AND {
					if cl, ok := u.X.(*ast.CompositeLit); ok {
						for _, el := range cl.Elts {
							if kv, ok := el.(*ast.KeyValueExpr); ok {
								if id, ok := kv.Key.(*ast.Ident); ok && id.Name == "Value" {
									if f := core.FieldSel(info, kv.Value); f != nil && f.Name() == "Value" {
										okFresh = true
									}
								}
							}
						}
					}
				}
				if c, ok := rhs.(*ast.CallExpr); ok {
					if callee := core.CalleeOf(info, c); callee != nil && callee.Name() == "NewRef" {
						okFresh = true
					}
				}
				return true
			})
			r.Check(okFresh, "kind:"+name+"/fresh-wrapper", p.Pos(fd.Pos()), "the component stored is a fresh wrapper around the resolved value (no $ref)", "the component stored is not a fresh, reference-free wrapper around the value")
		}
	})

	r.RunRule("C16.top", "the top-level component loops of InternalizeRefs agree: for every kind of component the entry is handed to add*ToSpec, its own Ref is cleared (a top-level component that was a reference to an external file must not become a reference to itself) and its value is descended into", 9, func() {
		fd := p.DeclOf("openapi3", "T.InternalizeRefs")
		ff := core.NewFuncFacts(p, info, fd)
		compT := p.NamedType("openapi3", "Components")
		compSt := compT.Underlying().(*types.Struct)
		for i := 0; i < compSt.NumFields(); i++ {
			f := compSt.Field(i)
			tag := core.TagOfField(compSt, f)
			if tag == "" || tag == "__origin__" {
				continue
			}
			key := "top:" + tag
			// is the field handed (directly or through a deref helper) to an adder, and is Ref cleared?
			handed, cleared := false, false
			var pos token.Pos = fd.Pos()
			ast.Inspect(fd.Body, func(n ast.Node) bool {
				switch x := n.(type) {
				case *ast.CallExpr:
					callee := core.CalleeOf(info, x)
					if callee == nil || len(x.Args) == 0 {
						return true
					}
					if strings.HasPrefix(callee.Name(), "add") || strings.HasPrefix(callee.Name(), "deref") {
						for _, ch := range fieldChains(ff, info, x.Args[0]) {
							for _, s := range ch {
								if s == f.Name() {
									if strings.HasPrefix(callee.Name(), "add") {
										handed = true
										pos = x.Pos()
									} else if helperAdds(p, info, callee) {
										handed = true
										pos = x.Pos()
									}
								}
							}
						}
					}
				case *ast.AssignStmt:
					if len(x.Lhs) == 1 && len(x.Rhs) == 1 {
						if rf := core.FieldSel(info, x.Lhs[0]); rf != nil && rf.Name() == "Ref" {
							if s, ok := core.ConstStr(info, x.Rhs[0]); ok && s == "" {
								for _, ch := range fieldChains(ff, info, x.Lhs[0].(*ast.SelectorExpr).X) {
									for _, s := range ch {
										if s == f.Name() {
											cleared = true
										}
									}
								}
							}
						}
					}
				}
				return true
			})
			// clearing inside the helper the collection is handed to (derefHeaders etc.) also counts
			if handed && !cleared {
				cleared = helperClearsRef(p, info, fd, ff, f.Name())
			}
			switch {
			case !handed:
				r.Bad(key, p.Pos(pos), "components."+tag+" is never internalised by InternalizeRefs")
			case !cleared:
				r.Bad(key, p.Pos(pos), "the top-level entries of components."+tag+" keep their own $ref after being internalised: a component that was a reference to an external file is rewritten into a reference to itself")
			default:
				r.OK(key, p.Pos(pos), "added, Ref cleared, descended")
			}
		}
	})

	r.RunRule("C16.parent", "the external context is propagated: in every deref function, each nested deref call made for an object that was just handed to add*ToSpec receives `isExternal || parentIsExternal` (in either order) where isExternal is that add call's result — a descent that drops the parent's flag leaves file-relative references inside an internalised component", 15, func() {
		tT := p.NamedType("openapi3", "T")
		n := 0
		for i := 0; i < tT.NumMethods(); i++ {
			m := tT.Method(i)
			if !strings.HasPrefix(m.Name(), "deref") && m.Name() != "InternalizeRefs" {
				continue
			}
			fd := p.Decl(m)
			ff := core.NewFuncFacts(p, info, fd)
			parentObj := core.ParamObj(info, fd, "parentIsExternal")
			k := 0
			ast.Inspect(fd.Body, func(nd ast.Node) bool {
				c, ok := nd.(*ast.CallExpr)
				if !ok {
					return true
				}
				callee := core.CalleeOf(info, c)
				if callee == nil || !strings.HasPrefix(callee.Name(), "deref") || len(c.Args) < 3 {
					return true
				}
				last := c.Args[len(c.Args)-1]
				k++
				n++
				key := fmt.Sprintf("parent:%s->%s#%d", m.Name(), callee.Name(), k)
				// the flag expression's own operands (no expansion through the add call's arguments)
				operands := map[types.Object]bool{}
				ast.Inspect(last, func(x ast.Node) bool {
					if id, ok := x.(*ast.Ident); ok {
						if v, ok := info.ObjectOf(id).(*types.Var); ok {
							operands[v] = true
						}
					}
					return true
				})
				usesParent := parentObj == nil || operands[parentObj]
				if !usesParent {
					// a local that inherits the parent flag: `x := parentIsExternal || ...`
					usesParent = ctxInherits(info, ff, last, parentObj, 0)
				}
				if m.Name() == "InternalizeRefs" {
					usesParent = true // top level: there is no parent
				}
				addRes := addResultFor(info, ff, fd, c)
				usesAdd := addRes == nil || operands[addRes]
				switch {
				case !usesParent:
					r.Bad(key, p.Pos(c.Pos()), "the nested descent does not receive the parent's external flag: references inside an internalised component stay relative to the external file")
				case !usesAdd:
					r.Bad(key, p.Pos(c.Pos()), "the nested descent ignores the result of the add*ToSpec call for this object: its content is not treated as coming from the external file")
				default:
					r.OK(key, p.Pos(c.Pos()), "flag = own add result || parent flag")
				}
				return true
			})
		}
		if n < 15 {
			core.Fail("only %d nested deref calls", n)
		}
	})

	r.RunRule("C16.term", "internalising terminates: recursion over schemas and headers is cut by the visited sets, the paths->callbacks->paths recursion must be cut as well, and the loop that trims the common directory in DefaultRefNameResolver has an exit for each fixpoint of path.Dir (\".\" and \"/\")", 3, func() {
		p.BuildSSA()
		// recursion edges among deref* functions
		var entries []*ssa.Function
		entries = append(entries, p.SSAFuncOf("openapi3", "T.InternalizeRefs"))
		cs := newCrashScope(p, "C16", entries)
		// reuse the recursion analysis but on all model pointer parameters: here we check directly
		cg := p.CallGraph()
		for _, fn := range cs.funcs {
			if !strings.HasPrefix(fn.Name(), "deref") {
				continue
			}
			// does fn reach itself?
			if !reachesSelf(cg, cs, fn) {
				continue
			}
			key := "term:" + fn.Name()
			guarded := false
			for _, b := range fn.Blocks {
				for _, in := range b.Instrs {
					if call, ok := in.(*ssa.Call); ok {
						if sc := call.Common().StaticCallee(); sc != nil && strings.HasPrefix(sc.Name(), "isVisited") {
							// its true result must leave (return / continue) before the recursive descent
							guarded = true
						}
					}
				}
			}
			if !guarded {
				// a callee on every cycle through fn may be guarded instead
				guarded = everyCycleGuarded(cg, cs, fn)
			}
			r.Check(guarded, key, p.Pos(fn.Pos()), "every cycle through this function passes a visited-set test", "this function is on a call cycle (e.g. paths -> operation callbacks -> paths) with no visited-set test: a callback that references itself recurses until the stack overflows")
		}
		// fixpoint loop
		fd := p.DeclOf("openapi3", "DefaultRefNameResolver")
		found := false
		ast.Inspect(fd.Body, func(n ast.Node) bool {
			fs, ok := n.(*ast.ForStmt)
			if !ok || fs.Cond != nil {
				return true
			}
			// loop variable re-assigned path.Dir(x)
			var lv types.Object
			ast.Inspect(fs.Body, func(x ast.Node) bool {
				if as, ok := x.(*ast.AssignStmt); ok && len(as.Lhs) == 1 && len(as.Rhs) == 1 {
					if c, ok := as.Rhs[0].(*ast.CallExpr); ok {
						if callee := core.CalleeOf(info, c); callee != nil && callee.Name() == "Dir" && len(c.Args) == 1 {
							if id, ok := as.Lhs[0].(*ast.Ident); ok {
								if aid, ok := c.Args[0].(*ast.Ident); ok && info.ObjectOf(id) == info.ObjectOf(aid) {
									lv = info.ObjectOf(id)
								}
							}
						}
					}
				}
				return true
			})
			if lv == nil {
				return true
			}
			found = true
			exits := map[string]bool{}
			ast.Inspect(fs.Body, func(x ast.Node) bool {
				ifs, ok := x.(*ast.IfStmt)
				if !ok || !core.Terminates(info, ifs.Body.List) {
					return true
				}
				ast.Inspect(ifs.Cond, func(y ast.Node) bool {
					if be, ok := y.(*ast.BinaryExpr); ok && be.Op == token.EQL {
						if id, ok := ast.Unparen(be.X).(*ast.Ident); ok && info.ObjectOf(id) == lv {
							if s, ok := core.ConstStr(info, be.Y); ok {
								exits[s] = true
							}
						}
					}
					return true
				})
				return true
			})
			r.Check(exits["."] && exits["/"], "term:DefaultRefNameResolver/dir-loop", p.Pos(fs.Pos()), "exits for both fixpoints of path.Dir", fmt.Sprintf("the loop `x = path.Dir(x)` exits only for %v: for an absolute path path.Dir converges to \"/\", never to \".\", and the loop does not end", keysOf(exits)))
			return true
		})
		if !found {
			r.Trivial("term:DefaultRefNameResolver/dir-loop", p.Pos(fd.Pos()), "no unconditional path.Dir loop")
		}
	})

	r.RunRule("C16.refpath", "the location recorded for a whole-file reference is the file that was loaded: in every resolver the value given to setRefPath in the whole-file branch derives from the result of loadSingleElementFromURI, not from the containing document's path (component names are derived from RefPath: two external files must not get the same name)", 9, func() {
		loaderT := p.NamedType("openapi3", "Loader")
		for i := 0; i < loaderT.NumMethods(); i++ {
			m := loaderT.Method(i)
			if !strings.HasPrefix(m.Name(), "resolve") || !strings.HasSuffix(m.Name(), "Ref") || m.Name() == "resolveRef" || m.Name() == "resolvePathItemRef" {
				continue
			}
			sig := m.Type().(*types.Signature)
			if sig.Params().Len() < 3 {
				continue
			}
			fd := p.Decl(m)
			key := "refpath:" + m.Name()
			// find: if isSingleRefElement(ref) { ...loadSingleElementFromURI...; component.setRefPath(X) }
			var verdict string
			pos := fd.Pos()
			ast.Inspect(fd.Body, func(n ast.Node) bool {
				ifs, ok := n.(*ast.IfStmt)
				if !ok {
					return true
				}
				c, ok := ast.Unparen(ifs.Cond).(*ast.CallExpr)
				if !ok {
					return true
				}
				if callee := core.CalleeOf(info, c); callee == nil || callee.Name() != "isSingleRefElement" {
					return true
				}
				// result variable of loadSingleElementFromURI
				var resObj types.Object
				discarded := false
				for _, lc := range callsTo(info, ifs.Body, "loadSingleElementFromURI") {
					for _, anc := range core.PathTo(ifs.Body, lc) {
						if as, ok := anc.(*ast.AssignStmt); ok && len(as.Lhs) == 2 {
							if id, ok := as.Lhs[0].(*ast.Ident); ok {
								if id.Name == "_" {
									discarded = true
								} else {
									resObj = info.ObjectOf(id)
								}
							}
						}
					}
				}
				for _, sc := range callsTo(info, ifs.Body, "setRefPath") {
					pos = sc.Pos()
					if len(sc.Args) != 1 {
						continue
					}
					id, _ := ast.Unparen(sc.Args[0]).(*ast.Ident)
					switch {
					case id != nil && resObj != nil && info.ObjectOf(id) == resObj && !discarded:
						verdict = "ok"
					default:
						verdict = "bad"
					}
				}
				return true
			})
			switch verdict {
			case "ok":
				r.OK(key, p.Pos(pos), "RefPath = location returned by loadSingleElementFromURI")
			case "bad":
				r.Bad(key, p.Pos(pos), "in the whole-file branch the location of the loaded file is discarded and the containing document's path is recorded as RefPath: two different external files referenced from one document get the same internalised name")
			default:
				r.Bad(key, p.Pos(pos), "no whole-file branch with setRefPath found")
			}
		}
	})
}

func keysOf(m map[string]bool) []string {
	var out []string
	for k := range m {
		out = append(out, fmt.Sprintf("%q", k))
	}
	sort.Strings(out)
	return out
}

// helperAdds: a deref helper that hands elements of its first parameter to an add*ToSpec.
func helperAdds(p *core.Prog, info *types.Info, f *types.Func) bool {
	fd := p.Decl(f)
	found := false
	ast.Inspect(fd.Body, func(n ast.Node) bool {
		if c, ok := n.(*ast.CallExpr); ok {
			if callee := core.CalleeOf(info, c); callee != nil {
				if strings.HasPrefix(callee.Name(), "add") && strings.HasSuffix(callee.Name(), "ToSpec") {
					found = true
				}
				if strings.HasPrefix(callee.Name(), "deref") && callee != f && callee.Name() != "derefSchema" && callee.Name() != "derefParameter" {
					if helperAdds(p, info, callee) {
						found = true
					}
				}
			}
		}
		return true
	})
	return found
}

// helperClearsRef: the collection field is handed to a deref helper that clears the Ref of the
// elements it adds.
func helperClearsRef(p *core.Prog, info *types.Info, fd *ast.FuncDecl, ff *core.FuncFacts, field string) bool {
	cleared := false
	ast.Inspect(fd.Body, func(n ast.Node) bool {
		c, ok := n.(*ast.CallExpr)
		if !ok || len(c.Args) == 0 {
			return true
		}
		callee := core.CalleeOf(info, c)
		if callee == nil || !strings.HasPrefix(callee.Name(), "deref") {
			return true
		}
		match := false
		for _, ch := range fieldChains(ff, info, c.Args[0]) {
			for _, s := range ch {
				if s == field {
					match = true
				}
			}
		}
		if !match {
			return true
		}
		hd := p.Decl(callee)
		ast.Inspect(hd.Body, func(x ast.Node) bool {
			if as, ok := x.(*ast.AssignStmt); ok && len(as.Lhs) == 1 && len(as.Rhs) == 1 {
				if rf := core.FieldSel(info, as.Lhs[0]); rf != nil && rf.Name() == "Ref" {
					if s, ok := core.ConstStr(info, as.Rhs[0]); ok && s == "" {
						cleared = true
					}
				}
			}
			return true
		})
		return true
	})
	return cleared
}

// addResultFor: for a nested deref call, the boolean result variable of the add*ToSpec call made
// for the same object in the same block (nil when there is none).
func addResultFor(info *types.Info, ff *core.FuncFacts, fd *ast.FuncDecl, c *ast.CallExpr) types.Object {
	// the enclosing statement list; search backwards for `x := doc.add*ToSpec(obj, ...)`
	path := core.PathTo(fd.Body, c)
	objRoots := func(e ast.Expr) map[types.Object]bool {
		out := map[types.Object]bool{}
		ast.Inspect(e, func(n ast.Node) bool {
			if id, ok := n.(*ast.Ident); ok {
				if v, ok := info.ObjectOf(id).(*types.Var); ok && !v.IsField() {
					out[v] = true
				}
			}
			return true
		})
		return out
	}
	want := objRoots(c.Args[0])
	for i := len(path) - 1; i >= 0; i-- {
		var list []ast.Stmt
		switch b := path[i].(type) {
		case *ast.BlockStmt:
			list = b.List
		case *ast.CaseClause:
			list = b.Body
		default:
			continue
		}
		for j := len(list) - 1; j >= 0; j-- {
			s := list[j]
			if s.Pos() > c.Pos() {
				continue
			}
			as, ok := s.(*ast.AssignStmt)
			if !ok || len(as.Lhs) != 1 || len(as.Rhs) != 1 {
				continue
			}
			ac, ok := as.Rhs[0].(*ast.CallExpr)
			if !ok || len(ac.Args) == 0 {
				continue
			}
			callee := core.CalleeOf(info, ac)
			if callee == nil || !strings.HasPrefix(callee.Name(), "add") || !strings.HasSuffix(callee.Name(), "ToSpec") {
				continue
			}
			// the add call concerns the same object when the deref argument is that object or
			// something below it (s2 -> s2.Value, param -> *param.Value, mediatype.Schema -> mediatype.Schema.Value)
			norm := func(e ast.Expr) string {
				s := core.ExprStr(e)
				s = strings.TrimLeft(s, "*&(")
				return strings.TrimRight(s, ")")
			}
			a, d := norm(ac.Args[0]), norm(c.Args[0])
			same := d == a || strings.HasPrefix(d, a+".") || strings.HasPrefix(d, a+")")
			if !same {
				continue
			}
			for o := range objRoots(ac.Args[0]) {
				if want[o] {
					if id, ok := as.Lhs[0].(*ast.Ident); ok {
						return info.ObjectOf(id)
					}
				}
			}
		}
	}
	return nil
}

func reachesSelf(cg interface{}, cs *crashScope, fn *ssa.Function) bool {
	p := cs
	_ = p
	seen := map[*ssa.Function]bool{}
	var dfs func(f *ssa.Function) bool
	dfs = func(f *ssa.Function) bool {
		for _, g := range calleesIn(cs, f) {
			if g == fn {
				return true
			}
			if !seen[g] {
				seen[g] = true
				if dfs(g) {
					return true
				}
			}
		}
		return false
	}
	return dfs(fn)
}

func calleesIn(cs *crashScope, f *ssa.Function) []*ssa.Function {
	var out []*ssa.Function
	for _, b := range f.Blocks {
		for _, in := range b.Instrs {
			if c, ok := in.(ssa.CallInstruction); ok {
				if sc := c.Common().StaticCallee(); sc != nil && cs.reach[sc] {
					out = append(out, sc)
				}
			}
		}
	}
	return out
}

// everyCycleGuarded: every cycle through fn passes a function that calls an isVisited* test.
func everyCycleGuarded(cg interface{}, cs *crashScope, fn *ssa.Function) bool {
	hasGuard := func(f *ssa.Function) bool {
		for _, g := range calleesIn(cs, f) {
			if strings.HasPrefix(g.Name(), "isVisited") {
				return true
			}
		}
		return false
	}
	// search for a cycle fn -> ... -> fn avoiding guarded functions
	seen := map[*ssa.Function]bool{}
	var dfs func(f *ssa.Function) bool
	dfs = func(f *ssa.Function) bool {
		for _, g := range calleesIn(cs, f) {
			if g == fn {
				return true // unguarded cycle found
			}
			if seen[g] || hasGuard(g) || !strings.HasPrefix(g.Name(), "deref") {
				continue
			}
			seen[g] = true
			if dfs(g) {
				return true
			}
		}
		return false
	}
	if hasGuard(fn) {
		return true
	}
	return !dfs(fn)
}

// c16SameTarget: two references designate the same thing only when their whole locations agree.
func c16SameTarget(r *core.Report) {
	p := r.Prog
	info := p.Pkg("openapi3").TypesInfo
	r.RunRule("C16.sametarget", "a reference is replaced by a root component only when both designate the same target: refersToSameDocument (case 2 of ReferencesComponentInRootDocument, which DefaultRefNameResolver uses to reuse a root component's name) hands the two recorded locations to referenceURIMatch as they are, and neither of the two functions clears or ignores the fragment of what it compares (the comparison is on the full URL text); a reference to an element inside a file (`file.yml#/properties/x`) otherwise matches a root component that is a reference to the whole file, and is rewritten to point at it", 2, func() {
		for _, name := range []string{"refersToSameDocument", "referenceURIMatch"} {
			fd := p.DeclOf("openapi3", name)
			bad := ""
			ast.Inspect(fd.Body, func(n ast.Node) bool {
				as, ok := n.(*ast.AssignStmt)
				if !ok {
					return true
				}
				for _, l := range as.Lhs {
					if sel, ok := ast.Unparen(l).(*ast.SelectorExpr); ok {
						if f := core.FieldSel(info, sel); f != nil && f.Pkg() != nil && f.Pkg().Path() == "net/url" && (f.Name() == "Fragment" || f.Name() == "RawFragment") {
							bad = p.Pos(as.Pos())
						}
					}
				}
				return true
			})
			r.Check(bad == "", "sametarget:"+name+"/fragment", p.Pos(fd.Pos()), "the fragment takes part in the comparison", name+" clears the fragment of a location it compares ("+bad+"): a reference to an element of a file is taken for a reference to the whole file")
		}
		// referenceURIMatch compares the full text
		fd := p.DeclOf("openapi3", "referenceURIMatch")
		okCmp := false
		forEachReturnStmt(fd.Body, func(ret *ast.ReturnStmt) {
			if len(ret.Results) == 1 {
				if be, ok := ast.Unparen(ret.Results[0]).(*ast.BinaryExpr); ok && be.Op == token.EQL && strings.HasSuffix(core.ExprStr(be.X), ".String()") && strings.HasSuffix(core.ExprStr(be.Y), ".String()") {
					okCmp = true
				}
			}
		})
		r.Check(okCmp, "sametarget:referenceURIMatch/full-text", p.Pos(fd.Pos()), "compares the full URL text", "referenceURIMatch no longer compares the complete text of the two locations")
	})
}

// c16AddFirst: a reference is rewritten wherever it stands, whether or not its target was seen
// before. The visited sets are keyed by the target object: they may cut the descent INTO an object
// already walked, but the reference that led there must have been handed to add*ToSpec first, or
// the second and later references to one external object keep their external $ref.
func c16AddFirst(r *core.Report, adders map[*types.Named]*types.Func) {
	p := r.Prog
	info := p.Pkg("openapi3").TypesInfo
	r.RunRule("C16.addfirst", "every reference is rewritten, also the second one to the same object: no call of an add*ToSpec function is conditional on a visited-set test (a bool method of T that looks its pointer argument up in a map of T and records it) of the object that the reference being added leads to — the test may only guard the descent that follows the call", 15, func() {
		isAdder := map[*types.Func]bool{}
		for _, f := range adders {
			isAdder[f] = true
		}
		visitedTest := visitedTests(p)
		if len(visitedTest) < 2 {
			core.Fail("only %d visited-set test methods found in openapi3", len(visitedTest))
		}
		perFn := map[string]int{}
		for _, d := range p.AllDecls("openapi3") {
			if d.Body == nil {
				continue
			}
			ast.Inspect(d.Body, func(n ast.Node) bool {
				c, ok := n.(*ast.CallExpr)
				if !ok {
					return true
				}
				f := core.CalleeOf(info, c)
				if f == nil || !isAdder[f] {
					return true
				}
				fname := core.FuncName(d)
				perFn[fname+f.Name()]++
				key := fmt.Sprintf("addfirst:%s/%s#%d", fname, f.Name(), perFn[fname+f.Name()])
				bad := ""
				for _, a := range core.Atoms(core.GuardsAt(info, d.Body, c)) {
					ast.Inspect(a.Expr, func(m ast.Node) bool {
						if vc, ok := m.(*ast.CallExpr); ok && len(vc.Args) >= 1 && len(c.Args) > 0 {
							if vf := core.CalleeOf(info, vc); vf != nil && visitedTest[vf] {
								// the test is about the object the reference being added leads to
								// (same root variable), not about the object that contains the reference
								tr, ar := core.RootIdent(vc.Args[0]), core.RootIdent(c.Args[0])
								if tr != nil && ar != nil && info.ObjectOf(tr) == info.ObjectOf(ar) {
									bad = core.ExprStr(vc)
								}
							}
						}
						return true
					})
				}
				if bad != "" {
					r.Bad(key, p.Pos(c.Pos()), fmt.Sprintf("%s is reached only when %s says the target was not seen before: the visited set is keyed by the target object, so every later reference to the same external object is skipped before it is rewritten and keeps its external $ref", f.Name(), bad))
				} else {
					r.OK(key, p.Pos(c.Pos()), "not conditional on a visited-set test")
				}
				return true
			})
		}
	})
}

// c16VisitedCtx: the meaning of a "#/components/..." reference depends on the document the object
// that holds it belongs to. An object can be reached first through a reference within the root
// document and later as part of the external document it really belongs to; a visited set that
// ignores this context stops the second walk, and the object's own references are never rewritten.
func c16VisitedCtx(r *core.Report, adders map[*types.Named]*types.Func) {
	p := r.Prog
	info := p.Pkg("openapi3").TypesInfo
	r.RunRule("C16.visitedctx", "the visited sets know the context: every visited-set test called from a function that carries the external-document flag (the bool it hands to add*ToSpec) receives an argument computed from that flag, and the test method's decision depends on its bool parameter — an object walked in the root context is walked again in the external one", 3, func() {
		isAdder := map[*types.Func]bool{}
		for _, f := range adders {
			isAdder[f] = true
		}
		vts := visitedTests(p)
		n := 0
		for _, d := range p.AllDecls("openapi3") {
			if d.Body == nil {
				continue
			}
			// the context flag(s): bool parameters or locals that are passed as the last argument of an adder
			ctx := map[types.Object]bool{}
			ast.Inspect(d.Body, func(nd ast.Node) bool {
				if c, ok := nd.(*ast.CallExpr); ok && len(c.Args) > 0 {
					if f := core.CalleeOf(info, c); f != nil && isAdder[f] {
						ast.Inspect(c.Args[len(c.Args)-1], func(m ast.Node) bool {
							if id, ok := m.(*ast.Ident); ok {
								if o := info.ObjectOf(id); o != nil {
									if b, ok := o.Type().Underlying().(*types.Basic); ok && b.Kind() == types.Bool {
										ctx[o] = true
									}
								}
							}
							return true
						})
					}
				}
				return true
			})
			if len(ctx) == 0 {
				continue
			}
			k := 0
			ast.Inspect(d.Body, func(nd ast.Node) bool {
				c, ok := nd.(*ast.CallExpr)
				if !ok {
					return true
				}
				f := core.CalleeOf(info, c)
				if f == nil || !vts[f] {
					return true
				}
				n++
				k++
				key := fmt.Sprintf("visitedctx:%s#%d", core.FuncName(d), k)
				uses := false
				for _, a := range c.Args {
					ast.Inspect(a, func(m ast.Node) bool {
						if id, ok := m.(*ast.Ident); ok {
							if o := info.ObjectOf(id); o != nil {
								if b, ok := o.Type().Underlying().(*types.Basic); ok && b.Kind() == types.Bool {
									uses = true
								}
							}
						}
						return true
					})
				}
				// and the method looks at its bool parameter
				looks := false
				if fd := p.Decl(f); fd != nil && fd.Body != nil {
					for _, fl := range fd.Type.Params.List {
						for _, nm := range fl.Names {
							o := info.ObjectOf(nm)
							if b, ok := o.Type().Underlying().(*types.Basic); !ok || b.Kind() != types.Bool {
								continue
							}
							ast.Inspect(fd.Body, func(m ast.Node) bool {
								switch x := m.(type) {
								case *ast.IfStmt:
									ast.Inspect(x.Cond, func(q ast.Node) bool {
										if id, ok := q.(*ast.Ident); ok && info.ObjectOf(id) == o {
											looks = true
										}
										return true
									})
								}
								return true
							})
						}
					}
				}
				if uses && looks {
					r.OK(key, p.Pos(c.Pos()), "the test is told, and takes into account, whether the walk is inside an external document")
				} else {
					r.Bad(key, p.Pos(c.Pos()), fmt.Sprintf("%s decides on the object alone: an object of an external document that an earlier component of the root document refers to is marked visited in the root context, where its own `#/components/...` references are left alone, and the later walk in the external context — the one that would rewrite them — is skipped; the internalised document then refers to components that do not exist", core.ExprStr(c)))
				}
				return true
			})
		}
		if n == 0 {
			core.Fail("no visited-set test call found in a function that carries the external-document flag")
		}
	})
}

// visitedTests: the visited-set test methods of package openapi3 -- bool methods whose first
// parameter is a pointer that the body looks up in a map and records there.
func visitedTests(p *core.Prog) map[*types.Func]bool {
	info := p.Pkg("openapi3").TypesInfo
	// visited-set tests: bool methods with one pointer parameter whose body indexes a map with it
	// and stores into the same map
	visitedTest := map[*types.Func]bool{}
	for _, d := range p.AllDecls("openapi3") {
		if d.Recv == nil || d.Type.Results == nil || len(d.Type.Results.List) != 1 || d.Type.Params.NumFields() < 1 || d.Body == nil {
			continue
		}
		if b, ok := info.TypeOf(d.Type.Results.List[0].Type).Underlying().(*types.Basic); !ok || b.Kind() != types.Bool {
			continue
		}
		if len(d.Type.Params.List[0].Names) != 1 {
			continue
		}
		if _, isPtr := info.TypeOf(d.Type.Params.List[0].Type).(*types.Pointer); !isPtr {
			continue
		}
		prm := info.ObjectOf(d.Type.Params.List[0].Names[0])
		lookups, stores := false, false
		ast.Inspect(d.Body, func(n ast.Node) bool {
			switch x := n.(type) {
			case *ast.IndexExpr:
				if id, ok := ast.Unparen(x.Index).(*ast.Ident); ok && info.ObjectOf(id) == prm {
					if _, isMap := info.TypeOf(x.X).Underlying().(*types.Map); isMap {
						lookups = true
					}
				}
			case *ast.AssignStmt:
				for _, l := range x.Lhs {
					if ix, ok := ast.Unparen(l).(*ast.IndexExpr); ok {
						if id, ok := ast.Unparen(ix.Index).(*ast.Ident); ok && info.ObjectOf(id) == prm {
							stores = true
						}
					}
				}
			}
			return true
		})
		if lookups && stores {
			if f, ok := info.Defs[d.Name].(*types.Func); ok {
				visitedTest[f] = true
			}
		}
	}
	return visitedTest
}

// c16EarlyExit: a shortcut that leaves a deref function before its descents ("nothing below this
// object") has to look at everything the function would have walked. A condition that lists the
// sub-objects one by one and forgets one turns every object that has only that one into a leaf.
func c16EarlyExit(r *core.Report) {
	p := r.Prog
	info := p.Pkg("openapi3").TypesInfo
	r.RunRule("C16.earlyexit", "a leaf shortcut covers every descent: in every function of internalize_refs.go whose first statements return (or continue) under a condition that tests fields of the object being walked for emptiness, each field of that object that the rest of the function reads is among the fields tested", 5, func() {
		n := 0
		for _, d := range p.AllDecls("openapi3") {
			if d.Body == nil || !strings.HasSuffix(p.Fset.Position(d.Pos()).Filename, "internalize_refs.go") {
				continue
			}
			n++
			k := 0
			for _, st := range d.Body.List {
				is, ok := st.(*ast.IfStmt)
				if !ok || is.Else != nil || !core.Terminates(info, is.Body.List) {
					continue
				}
				// fields tested, by root object
				tested := map[types.Object]map[string]bool{}
				ast.Inspect(is.Cond, func(m ast.Node) bool {
					if sel, ok := m.(*ast.SelectorExpr); ok {
						if f := core.FieldSel(info, sel); f != nil {
							if id, ok := ast.Unparen(sel.X).(*ast.Ident); ok {
								o := info.ObjectOf(id)
								if tested[o] == nil {
									tested[o] = map[string]bool{}
								}
								tested[o][f.Name()] = true
							}
						}
					}
					return true
				})
				for o, fs := range tested {
					if len(fs) < 2 {
						continue // a single nil test (x.Value == nil) is not a leaf shortcut
					}
					k++
					key := fmt.Sprintf("earlyexit:%s#%d", core.FuncName(d), k)
					var missing []string
					seenF := map[string]bool{}
					ast.Inspect(d.Body, func(m ast.Node) bool {
						sel, ok := m.(*ast.SelectorExpr)
						if !ok || sel.Pos() < is.End() {
							return true
						}
						f := core.FieldSel(info, sel)
						if f == nil {
							return true
						}
						if id, ok := ast.Unparen(sel.X).(*ast.Ident); ok && info.ObjectOf(id) == o && !fs[f.Name()] && !seenF[f.Name()] {
							seenF[f.Name()] = true
							missing = append(missing, f.Name())
						}
						return true
					})
					sort.Strings(missing)
					if len(missing) > 0 {
						r.Bad(key, p.Pos(is.Pos()), fmt.Sprintf("%s leaves early when %s, but goes on to walk %s.%s, which the condition does not look at: an object that has only that is treated as a leaf, and the references below it are never rewritten", core.FuncName(d), core.ExprStr(is.Cond), o.Name(), strings.Join(missing, ", "+o.Name()+".")))
					} else {
						r.OK(key, p.Pos(is.Pos()), "the shortcut tests every field the function walks")
					}
				}
			}
			// the same inside a loop: `if item.F == nil { continue }` at the head of the body, and the
			// rest of the body reading other fields of the item
			ast.Inspect(d.Body, func(m ast.Node) bool {
				rs, ok := m.(*ast.RangeStmt)
				if !ok {
					return true
				}
				for _, st := range rs.Body.List {
					is, ok := st.(*ast.IfStmt)
					if !ok {
						continue // (the item may be fetched first: `mediatype := c[name]`)
					}
					if is.Else != nil || len(is.Body.List) == 0 {
						break
					}
					br, isBr := is.Body.List[len(is.Body.List)-1].(*ast.BranchStmt)
					if !isBr || br.Tok != token.CONTINUE {
						break
					}
					// the item: a variable of this iteration (the range variable, or one defined in the body)
					var item types.Object
					fs := map[string]bool{}
					ast.Inspect(is.Cond, func(c ast.Node) bool {
						if sel, ok := c.(*ast.SelectorExpr); ok {
							if f := core.FieldSel(info, sel); f != nil {
								if id, ok := ast.Unparen(sel.X).(*ast.Ident); ok {
									if o := info.ObjectOf(id); o != nil && o.Pos() >= rs.Pos() && o.Pos() < is.Pos() && (item == nil || item == o) {
										item = o
										fs[f.Name()] = true
									}
								}
							}
						}
						return true
					})
					if item == nil || len(fs) == 0 {
						break
					}
					k++
					key := fmt.Sprintf("earlyexit:%s#%d(loop)", core.FuncName(d), k)
					var missing []string
					seenF := map[string]bool{}
					ast.Inspect(rs.Body, func(c ast.Node) bool {
						sel, ok := c.(*ast.SelectorExpr)
						if !ok || sel.Pos() < is.End() {
							return true
						}
						f := core.FieldSel(info, sel)
						if f == nil {
							return true
						}
						if id, ok := ast.Unparen(sel.X).(*ast.Ident); ok && info.ObjectOf(id) == item && !fs[f.Name()] && !seenF[f.Name()] {
							seenF[f.Name()] = true
							missing = append(missing, f.Name())
						}
						return true
					})
					sort.Strings(missing)
					if len(missing) > 0 {
						r.Bad(key, p.Pos(is.Pos()), fmt.Sprintf("%s skips an item when %s, but goes on to walk %s.%s, which the condition does not look at: an item that has only that (a media type with examples and no schema) is skipped, and the references below it are never rewritten", core.FuncName(d), core.ExprStr(is.Cond), item.Name(), strings.Join(missing, ", "+item.Name()+".")))
					} else {
						r.OK(key, p.Pos(is.Pos()), "the skip tests every field of the item that the loop walks")
					}
				}
				return true
			})
			if k == 0 {
				r.OK("earlyexit:"+core.FuncName(d), p.Pos(d.Pos()), "no leaf shortcut")
			}
		}
		if n == 0 {
			core.Fail("no function found in internalize_refs.go")
		}
	})
}

// c16CtxFlow: "inside an external document" is inherited. Whatever a deref function hands down as
// the context of a nested walk has to contain its own context: an object below an external object
// is external whether or not it is itself a reference.
// c16IdentChars: the names InternalizeRefs invents must pass the check document validation makes on
// component names: one character table for both.
func c16IdentChars(r *core.Report) {
	p := r.Prog
	info := p.Pkg("openapi3").TypesInfo
	r.RunRule("C16.identchars", "generated component names are valid identifiers: the name DefaultRefNameResolver returns went through InvalidIdentifierCharRegExp.ReplaceAllString, and that expression and IdentifierRegExp (what ValidateIdentifier accepts) are built from one and the same character-class constant — a sanitiser with a table of its own (unicode.IsLetter...) lets characters through that validation of the internalised document rejects", 2, func() {
		fd := p.DeclOf("openapi3", "DefaultRefNameResolver")
		ff := core.NewFuncFacts(p, info, fd)
		ok := false
		var last *ast.ReturnStmt
		ast.Inspect(fd.Body, func(nd ast.Node) bool {
			if ret, isRet := nd.(*ast.ReturnStmt); isRet && len(ret.Results) == 1 {
				last = ret
			}
			return true
		})
		if last == nil {
			core.Fail("DefaultRefNameResolver: no return")
		}
		for _, e := range append([]ast.Expr{last.Results[0]}, ff.Roots(last.Results[0], false).Exprs...) {
			ast.Inspect(e, func(m ast.Node) bool {
				if c, isCall := m.(*ast.CallExpr); isCall {
					if sel, isSel := ast.Unparen(c.Fun).(*ast.SelectorExpr); isSel && sel.Sel.Name == "ReplaceAllString" && core.ExprStr(sel.X) == "InvalidIdentifierCharRegExp" {
						ok = true
					}
				}
				return true
			})
		}
		r.Check(ok, "identchars:DefaultRefNameResolver", p.Pos(last.Pos()), "the returned name was sanitised with InvalidIdentifierCharRegExp", "the name DefaultRefNameResolver returns is not the result of InvalidIdentifierCharRegExp.ReplaceAllString: characters that ValidateIdentifier rejects (anything outside a-zA-Z0-9._-) can reach component names, and the internalised document fails validation where the original passes")
		// both expressions from one constant
		same := false
		pk := p.Pkg("openapi3")
		var a, b string
		for _, f := range pk.Syntax {
			ast.Inspect(f, func(nd ast.Node) bool {
				vs, isVS := nd.(*ast.ValueSpec)
				if !isVS || len(vs.Names) != 1 || len(vs.Values) != 1 {
					return true
				}
				switch vs.Names[0].Name {
				case "IdentifierRegExp":
					a = core.ExprStr(vs.Values[0])
				case "InvalidIdentifierCharRegExp":
					b = core.ExprStr(vs.Values[0])
				}
				return true
			})
		}
		if strings.Contains(a, "identifierChars") && strings.Contains(b, "identifierChars") && strings.Contains(b, "[^") {
			same = true
		}
		r.Check(same, "identchars:table", "openapi3/helpers.go", "both expressions are built from identifierChars", "IdentifierRegExp and InvalidIdentifierCharRegExp are no longer built from the same character-class constant ("+a+" / "+b+")")
	})
}

func c16CtxFlow(r *core.Report) {
	p := r.Prog
	info := p.Pkg("openapi3").TypesInfo
	r.RunRule("C16.ctxflow", "the external-document context is inherited: in every function of internalize_refs.go that has a boolean context parameter, each boolean argument it passes to a deref*/add* method of T has that parameter as a disjunct — directly (`isExternal || parentIsExternal`) or through a local variable defined as `parentIsExternal || ...` (passing it to isExternalRef is not enough: that function answers false for an object that is not itself a reference)", 20, func() {
		for _, d := range p.AllDecls("openapi3") {
			if d.Body == nil || d.Recv == nil || !strings.HasSuffix(p.Fset.Position(d.Pos()).Filename, "internalize_refs.go") {
				continue
			}
			var ctx types.Object
			for _, f := range d.Type.Params.List {
				if b, ok := info.TypeOf(f.Type).Underlying().(*types.Basic); ok && b.Kind() == types.Bool {
					for _, nm := range f.Names {
						ctx = info.ObjectOf(nm)
					}
				}
			}
			if ctx == nil {
				continue
			}
			ff := core.NewFuncFacts(p, info, d)
			k := 0
			ast.Inspect(d.Body, func(nd ast.Node) bool {
				c, ok := nd.(*ast.CallExpr)
				if !ok || len(c.Args) == 0 {
					return true
				}
				f := core.CalleeOf(info, c)
				if f == nil || f.Pkg() == nil || f.Pkg().Name() != "openapi3" {
					return true
				}
				sig := f.Type().(*types.Signature)
				if sig.Recv() == nil || sig.Params().Len() == 0 {
					return true
				}
				last := sig.Params().At(sig.Params().Len() - 1)
				if b, ok := last.Type().Underlying().(*types.Basic); !ok || b.Kind() != types.Bool {
					return true
				}
				if !strings.HasPrefix(f.Name(), "deref") && !strings.HasPrefix(f.Name(), "add") {
					return true
				}
				arg := c.Args[len(c.Args)-1]
				k++
				key := fmt.Sprintf("ctxflow:%s/%s#%d", core.FuncName(d), f.Name(), k)
				// the bare parent context where a stronger one was computed for this object
				stronger := ""
				if aid, ok := ast.Unparen(arg).(*ast.Ident); ok && info.ObjectOf(aid) == ctx {
					ast.Inspect(d.Body, func(m ast.Node) bool {
						blk, ok := m.(*ast.BlockStmt)
						if !ok || c.Pos() < blk.Pos() || c.End() > blk.End() {
							return true
						}
						for _, st := range blk.List {
							as, ok := st.(*ast.AssignStmt)
							if !ok || as.Tok != token.DEFINE || len(as.Lhs) != 1 || len(as.Rhs) != 1 || as.Pos() > c.Pos() {
								continue
							}
							lid, ok := as.Lhs[0].(*ast.Ident)
							if !ok {
								continue
							}
							if b, isB := info.TypeOf(lid).Underlying().(*types.Basic); !isB || b.Kind() != types.Bool {
								continue
							}
							if _, isBin := ast.Unparen(as.Rhs[0]).(*ast.BinaryExpr); isBin && ctxInherits(info, ff, as.Rhs[0], ctx, 0) {
								stronger = lid.Name
							}
						}
						return true
					})
				}
				// the flag that add*ToSpec returned for an object goes with everything that hangs below
				// that object
				if stronger == "" {
					ast.Inspect(d.Body, func(m ast.Node) bool {
						as, ok := m.(*ast.AssignStmt)
						if !ok || as.Tok != token.DEFINE || len(as.Lhs) != 1 || len(as.Rhs) != 1 || as.End() > c.Pos() {
							return true
						}
						ac, ok := ast.Unparen(as.Rhs[0]).(*ast.CallExpr)
						if !ok || len(ac.Args) == 0 {
							return true
						}
						af := core.CalleeOf(info, ac)
						if af == nil || !strings.HasPrefix(af.Name(), "add") || !strings.HasSuffix(af.Name(), "ToSpec") {
							return true
						}
						lid, ok := as.Lhs[0].(*ast.Ident)
						if !ok {
							return true
						}
						obj := core.RootIdent(ac.Args[0])
						if obj == nil || len(c.Args) == 0 {
							return true
						}
						// does the data handed to the deref call come from that object?
						fromObj := false
						for o := range ff.Roots(c.Args[0], false).Objs {
							if o == info.ObjectOf(obj) {
								fromObj = true
							}
						}
						if !fromObj {
							return true
						}
						// ... and not from a part that has a flag of its own (p.Schema vs p.Content)
						if core.ExprStr(ac.Args[0]) != obj.Name && !strings.Contains(core.ExprStr(c.Args[0]), core.ExprStr(ac.Args[0])) {
							return true
						}
						mentions := false
						ast.Inspect(arg, func(k ast.Node) bool {
							if id, ok := k.(*ast.Ident); ok && info.ObjectOf(id) == info.ObjectOf(lid) {
								mentions = true
							}
							return true
						})
						if !mentions {
							stronger = lid.Name
						}
						return true
					})
				}
				if stronger != "" {
					r.Bad(key, p.Pos(c.Pos()), fmt.Sprintf("%s hands its own context %s down to %s although it has computed %s for the object at hand (= %s || the object is itself an external reference): what hangs below an object pulled in from another document is walked as if it belonged to this one, and its `#/components/...` references are left pointing at the wrong document's components", core.FuncName(d), ctx.Name(), f.Name(), stronger, ctx.Name()))
				} else if ctxInherits(info, ff, arg, ctx, 0) {
					r.OK(key, p.Pos(c.Pos()), "the nested walk inherits the context")
				} else {
					r.Bad(key, p.Pos(c.Pos()), fmt.Sprintf("%s hands `%s` down to %s as the external-document context, and that value does not depend on its own context %s: below an object of an external document that is not itself a reference (a path item of an external callback) the walk continues as if in the root document, and `#/components/...` references of the external document are left pointing at components the root does not have", core.FuncName(d), core.ExprStr(arg), f.Name(), ctx.Name()))
				}
				return true
			})
		}
	})
}

// ctxInherits: e is the context variable, a disjunction one side of which inherits it, or a local
// variable every definition of which does.
func ctxInherits(info *types.Info, ff *core.FuncFacts, e ast.Expr, ctx types.Object, depth int) bool {
	if ctx == nil || depth > 4 {
		return false
	}
	switch x := ast.Unparen(e).(type) {
	case *ast.Ident:
		o := info.ObjectOf(x)
		if o == ctx {
			return true
		}
		as := ff.Assigns(o)
		if len(as) == 0 {
			return false
		}
		for _, a := range as {
			if a.Rhs == nil || !ctxInherits(info, ff, a.Rhs, ctx, depth+1) {
				return false
			}
		}
		return true
	case *ast.BinaryExpr:
		if x.Op == token.LOR {
			return ctxInherits(info, ff, x.X, ctx, depth+1) || ctxInherits(info, ff, x.Y, ctx, depth+1)
		}
	}
	return false
}
