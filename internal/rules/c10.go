package rules

import (
	"fmt"
	"go/ast"
	"go/constant"
	"go/token"
	"go/types"
	"os"
	"regexp/syntax"
	"sort"
	"strconv"
	"strings"

	"golang.org/x/tools/go/ssa"

	"verif/internal/core"
)

func init() { register("C10", c10) }

// crashScope describes the function set a crash-freedom rule set runs on.
type crashScope struct {
	id      string // "C10" / "C20"
	reach   map[*ssa.Function]bool
	funcs   []*ssa.Function
	entries []*ssa.Function
	// buildFuncs: functions reachable only from the construction of a router (not from traffic): the
	// clauses that need no knowledge of the document's validity are applied to them too
	buildFuncs []*ssa.Function
	// resolvedWrappers: functions analysed with the axiom "a reference wrapper's Value is non-nil"
	// although the rest of the scope does not assume it (C20: the value-validation subtree)
	resolvedWrappers map[*ssa.Function]bool
}

func newCrashScope(p *core.Prog, id string, entries []*ssa.Function) *crashScope {
	cs := &crashScope{id: id, entries: entries, reach: p.Reachable(entries)}
	for fn := range cs.reach {
		cs.funcs = append(cs.funcs, fn)
	}
	sort.Slice(cs.funcs, func(i, j int) bool {
		if cs.funcs[i].String() != cs.funcs[j].String() {
			return cs.funcs[i].String() < cs.funcs[j].String()
		}
		return cs.funcs[i].Pos() < cs.funcs[j].Pos()
	})
	return cs
}

func shortFn(fn *ssa.Function) string {
	s := fn.String()
	s = strings.ReplaceAll(s, core.ModPath+"/", "")
	return s
}

// declOfSSA finds the syntax (FuncDecl or FuncLit) and the enclosing FuncDecl of an SSA function.
func declOfSSA(p *core.Prog, fn *ssa.Function) (ast.Node, *ast.FuncDecl, *types.Info) {
	top := fn
	for top.Parent() != nil {
		top = top.Parent()
	}
	if top.Origin() != nil {
		top = top.Origin()
	}
	o, ok := top.Object().(*types.Func)
	if !ok || o == nil || !core.InRepo(o.Pkg()) {
		return nil, nil, nil
	}
	defer func() { recover() }()
	fd := p.Decl(o)
	info := p.InfoFor(o.Pkg())
	if fn.Parent() == nil {
		return fd, fd, info
	}
	if syn := fn.Syntax(); syn != nil {
		return syn, fd, info
	}
	return nil, fd, info
}

func c10(r *core.Report) {
	p := r.Prog
	p.BuildSSA()
	cs := newCrashScope(p, "C10", trafficEntries(p, r.Tier == "thorough"))
	// "building a router" is part of the property. The constant-index and nil clauses need facts
	// about the constructors' own data structures that are not modelled (permutations of server
	// variables, the pattern tree under construction); the clauses that need none are applied.
	{
		build := p.Reachable([]*ssa.Function{p.SSAFuncOf("routers/gorillamux", "NewRouter"), p.SSAFuncOf("routers/legacy", "NewRouter")})
		for _, fn := range p.RepoSSAFuncs() {
			if build[fn] && !cs.reach[fn] {
				rel := ""
				if fn.Package() != nil {
					rel = core.RelPkg(fn.Package().Pkg)
				}
				if strings.HasPrefix(rel, "routers") {
					cs.buildFuncs = append(cs.buildFuncs, fn)
				}
			}
		}
		sort.Slice(cs.buildFuncs, func(i, j int) bool { return cs.buildFuncs[i].String() < cs.buildFuncs[j].String() })
	}
	if os.Getenv("KINLINT_EXPLORE") != "" {
		exploreCrashConstructs(p, cs.reach)
	}
	r.Extra["reachable_functions"] = len(cs.funcs)
	r.Assumption("claim: none of the enumerated crash constructs (explicit panic, unchecked type assertion, constant index without length guard, panicking library call, optional-pointer dereference, unguarded recursion over schema graphs) is reachable unguarded from the traffic entry points; other crash classes, third-party code, non-constant indices and non-recursive hangs are not decided")
	r.Assumption("documents are assumed loaded and validated: reference wrappers' Value is non-nil, Operation.Responses, T.Paths, T.Info are non-nil")
	if len(cs.funcs) < 150 {
		r.RunRule("C10.scope", "reachability floor", 1, func() {
			r.Bad("scope", "-", fmt.Sprintf("only %d functions reachable from the traffic entries", len(cs.funcs)))
		})
		return
	}
	crashPanic(r, cs, map[string]panicExcuse{
		// symbol -> the reason why the panic cannot be reached with traffic, and the only callers for
		// which that reason holds (checked against the call graph on every run)
		"(*openapi3.PathItem).GetOperation": {
			reason:  "its only caller on the traffic path is the gorilla/mux router's FindRoute, after mux matched the request against Methods(keys of PathItem.Operations()) — exactly the nine methods GetOperation handles (that table agreement is C09.methods); the legacy router must not call it",
			callers: []string{"(*routers/gorillamux.Router).FindRoute"},
			verify:  func() string { return verifyMuxMethods(p) },
		},
	})
	crashAssert(r, cs, nil)
	crashIndex(r, cs, 10)
	crashLib(r, cs, 3)
	crashHash(r, cs, 10)
	crashBound(r, cs, 3)
	crashIfaceNil(r, cs, 1)
	crashNilMap(r, cs, 100)
	crashRec(r, cs, nil, nil)
	crashNil(r, cs)
}

// ---------------------------------------------------------------- panic

type panicExcuse struct {
	reason  string
	callers []string
	// verify re-establishes the structural facts the reason rests on; a non-empty result is why it
	// no longer holds (the panic is then reported)
	verify func() string
}

// assertExcuse: an unchecked assertion whose operand type is fixed by facts outside the function's
// own type tests; verify re-establishes those facts on every run.
type assertExcuse struct {
	reason string
	verify func() string
}

func crashPanic(r *core.Report, cs *crashScope, table map[string]panicExcuse) {
	p := r.Prog
	r.RunRule(cs.id+".panic", "every explicit panic reachable from the entry points is excluded by a condition document validation or the caller guarantees (frozen table: one symbol, one reason, and the reason is itself checked) — otherwise it is a crash reachable with hostile input", 1, func() {
		n := 0
		perFn := map[string]int{}
		for _, fn := range cs.funcs {
			for _, b := range fn.Blocks {
				for _, in := range b.Instrs {
					pn, ok := in.(*ssa.Panic)
					if !ok {
						continue
					}
					n++
					name := shortFn(fn)
					perFn[name]++
					key := fmt.Sprintf("panic:%s#%d", name, perFn[name])
					if ex, ok := table[name]; ok && ex.verify != nil {
						if bad := ex.verify(); bad != "" {
							r.Bad(key, p.Pos(pn.Pos()), "explicit panic whose exclusion argument no longer holds: "+bad)
							continue
						}
						if len(ex.callers) == 0 {
							r.OK(key, p.Pos(pn.Pos()), ex.reason)
							continue
						}
						// the verified reason holds for the listed callers only: fall through
					}
					if ex, ok := table[name]; ok {
						// the excuse holds only for the listed callers
						var other []string
						if nd := p.CallGraph().Nodes[fn]; nd != nil {
							for _, e := range nd.In {
								c := e.Caller.Func
								if !cs.reach[c] {
									continue
								}
								okc := false
								for _, a := range ex.callers {
									if shortFn(c) == a {
										okc = true
									}
								}
								if !okc {
									other = append(other, shortFn(c))
								}
							}
						}
						if len(other) == 0 {
							r.OK(key, p.Pos(pn.Pos()), ex.reason)
						} else {
							sort.Strings(other)
							r.Bad(key, p.Pos(pn.Pos()), "explicit panic reachable through a caller for which no argument excludes it: "+strings.Join(uniq(other), ", "))
						}
						continue
					}
					r.Bad(key, p.Pos(pn.Pos()), "explicit panic reachable from "+entryPathTo(p, cs, fn))
				}
			}
		}
		if n == 0 {
			r.Trivial("panic:none", "-", "no explicit panic is reachable")
		}
	})
}

// entryPathTo renders a shortest call chain from an entry to fn.
func entryPathTo(p *core.Prog, cs *crashScope, target *ssa.Function) string {
	cg := p.CallGraph()
	prev := map[*ssa.Function]*ssa.Function{}
	var q []*ssa.Function
	for _, e := range cs.entries {
		prev[e] = nil
		q = append(q, e)
	}
	for len(q) > 0 {
		f := q[0]
		q = q[1:]
		if f == target {
			var chain []string
			for x := f; x != nil; x = prev[x] {
				chain = append([]string{shortFn(x)}, chain...)
				if len(chain) > 8 {
					break
				}
			}
			return strings.Join(chain, " -> ")
		}
		var next []*ssa.Function
		next = append(next, f.AnonFuncs...)
		if n := cg.Nodes[f]; n != nil {
			for _, e := range n.Out {
				next = append(next, e.Callee.Func)
			}
		}
		for _, c := range next {
			if _, seen := prev[c]; !seen && c != nil {
				prev[c] = f
				q = append(q, c)
			}
		}
	}
	return "an entry point"
}

// ---------------------------------------------------------------- type assertions

func crashAssert(r *core.Report, cs *crashScope, table map[string]assertExcuse) {
	p := r.Prog
	r.RunRule(cs.id+".assert", "every single-result type assertion to a concrete type in reachable code is dominated by a successful type test of the same value (comma-ok assertion or type switch on the same operand), or its operand is the error result of a strconv.Parse* call (documented to be *strconv.NumError)", 1, func() {
		perFn := map[string]int{}
		n := 0
		for _, fn := range cs.funcs {
			for _, b := range fn.Blocks {
				for _, in := range b.Instrs {
					ta, ok := in.(*ssa.TypeAssert)
					if !ok || ta.CommaOk {
						continue
					}
					// assertion to an interface type the static type already satisfies cannot fail unless nil; skip
					// interface->interface where the operand type implements it
					if it, ok := ta.AssertedType.Underlying().(*types.Interface); ok {
						if types.Implements(ta.X.Type(), it) {
							continue
						}
					}
					n++
					name := shortFn(fn)
					perFn[name]++
					key := fmt.Sprintf("assert:%s#%d(%s)", name, perFn[name], types.TypeString(ta.AssertedType, func(*types.Package) string { return "" }))
					if why := assertDischarged(ta); why != "" {
						r.OK(key, p.Pos(ta.Pos()), why)
					} else if why := poolAssert(p, fn, ta); why != "" {
						r.OK(key, p.Pos(ta.Pos()), why)
					} else if why := syncMapAssert(p, ta); why != "" {
						r.OK(key, p.Pos(ta.Pos()), why)
					} else if ex, ok := table[name]; ok {
						if bad := ex.verify(); bad != "" {
							r.Bad(key, p.Pos(ta.Pos()), "unchecked type assertion whose justification no longer holds: "+bad)
						} else {
							r.OK(key, p.Pos(ta.Pos()), ex.reason)
						}
					} else {
						r.Bad(key, p.Pos(ta.Pos()), "unchecked type assertion `x.("+ta.AssertedType.String()+")` on a value whose dynamic type is not established on this path: panics when the value has another type")
					}
				}
			}
		}
		if n == 0 {
			r.Trivial("assert:none", "-", "no unchecked assertion")
		}
	})
}

// poolAssert: `pool.Get().(*T)` on a package-level sync.Pool that only ever holds *T.
func poolAssert(p *core.Prog, fn *ssa.Function, ta *ssa.TypeAssert) string {
	syn, _, info := declOfSSA(p, fn)
	if syn == nil {
		return ""
	}
	why := ""
	ast.Inspect(syn, func(n ast.Node) bool {
		x, ok := n.(*ast.TypeAssertExpr)
		if !ok || x.Lparen != ta.Pos() || x.Type == nil {
			return true
		}
		if c, ok := ast.Unparen(x.X).(*ast.CallExpr); ok {
			if el := p.PoolElem(info, c); el != nil && types.Identical(el, info.TypeOf(x.Type)) {
				why = "operand is Get() of a package-level sync.Pool whose New returns and whose Put calls only take this type"
			}
		}
		return false
	})
	return why
}

// syncMapAssert: the operand is the value of Load/LoadOrStore on a package-level sync.Map into which
// the reachable program only ever stores values whose static type satisfies the asserted type.
func syncMapAssert(p *core.Prog, ta *ssa.TypeAssert) string {
	ex, ok := ta.X.(*ssa.Extract)
	if !ok || ex.Index != 0 {
		return ""
	}
	call, ok := ex.Tuple.(*ssa.Call)
	if !ok {
		return ""
	}
	sc := call.Common().StaticCallee()
	if sc == nil || sc.Pkg == nil || sc.Pkg.Pkg.Path() != "sync" || (sc.Name() != "Load" && sc.Name() != "LoadOrStore" && sc.Name() != "LoadAndDelete") || len(call.Common().Args) == 0 {
		return ""
	}
	g, ok := call.Common().Args[0].(*ssa.Global)
	if !ok {
		return ""
	}
	n := 0
	for _, fn := range p.RepoSSAFuncs() {
		for _, b := range fn.Blocks {
			for _, in := range b.Instrs {
				c, ok := in.(*ssa.Call)
				if !ok {
					continue
				}
				s2 := c.Common().StaticCallee()
				if s2 == nil || s2.Pkg == nil || s2.Pkg.Pkg.Path() != "sync" || len(c.Common().Args) == 0 || c.Common().Args[0] != ssa.Value(g) {
					continue
				}
				var stored []ssa.Value
				switch s2.Name() {
				case "Store", "LoadOrStore", "Swap":
					stored = append(stored, c.Common().Args[2])
				case "CompareAndSwap":
					stored = append(stored, c.Common().Args[3])
				}
				for _, v := range stored {
					n++
					st := v.Type()
					if mi, ok := v.(*ssa.MakeInterface); ok {
						st = mi.X.Type()
					}
					if ci, ok := v.(*ssa.ChangeInterface); ok {
						st = ci.X.Type()
					}
					if it, ok := ta.AssertedType.Underlying().(*types.Interface); ok {
						if !types.Implements(st, it) {
							return ""
						}
					} else if !types.Identical(st, ta.AssertedType) {
						return ""
					}
				}
			}
		}
	}
	if n == 0 {
		return ""
	}
	return "operand is loaded from the package-level sync.Map " + g.Name() + ", into which only values of this type are stored"
}

func assertDischarged(ta *ssa.TypeAssert) string {
	// (1) operand is the error result of strconv.Parse*
	var fromCall func(v ssa.Value, depth int) *ssa.Function
	fromCall = func(v ssa.Value, depth int) *ssa.Function {
		if depth > 4 {
			return nil
		}
		switch x := v.(type) {
		case *ssa.Extract:
			if c, ok := x.Tuple.(*ssa.Call); ok {
				return c.Common().StaticCallee()
			}
		case *ssa.Call:
			return x.Common().StaticCallee()
		case *ssa.Phi:
			var f *ssa.Function
			for _, e := range x.Edges {
				g := fromCall(e, depth+1)
				if g == nil || (f != nil && g != f && !(strings.HasPrefix(g.Name(), "Parse") && strings.HasPrefix(f.Name(), "Parse"))) {
					return nil
				}
				f = g
			}
			return f
		}
		return nil
	}
	if sc := fromCall(ta.X, 0); sc != nil && sc.Pkg != nil && sc.Pkg.Pkg.Path() == "strconv" && strings.HasPrefix(sc.Name(), "Parse") {
		if pt, ok := ta.AssertedType.(*types.Pointer); ok && pt.Elem().String() == "strconv.NumError" {
			return "operand is the error of strconv." + sc.Name() + ", documented to be *strconv.NumError"
		}
	}
	// (2) dominated by a successful comma-ok assertion / type switch case on the same operand and type
	blk := ta.Block()
	for _, ref := range *ta.X.Referrers() {
		t2, ok := ref.(*ssa.TypeAssert)
		if !ok || !t2.CommaOk || t2 == ta || !types.Identical(t2.AssertedType, ta.AssertedType) {
			continue
		}
		for _, r2 := range *t2.Referrers() {
			ex, ok := r2.(*ssa.Extract)
			if !ok || ex.Index != 1 {
				continue
			}
			if boolEdgeDominates(ex, true, blk) {
				return "dominated by a successful comma-ok test of the same value"
			}
		}
	}
	return ""
}

// ---------------------------------------------------------------- constant indices

// lenFact: what the guards say about len(E) for access path `path`.
func lenAtLeast(info *types.Info, atoms []core.Atom, path string, e ast.Expr) int {
	best := 0
	upd := func(n int) {
		if n > best {
			best = n
		}
	}
	isE := func(x ast.Expr) bool {
		ap := core.AccessPath(info, x)
		return ap != "" && ap == path
	}
	for _, a := range atoms {
		be, ok := ast.Unparen(a.Expr).(*ast.BinaryExpr)
		if !ok {
			continue
		}
		x, y := ast.Unparen(be.X), ast.Unparen(be.Y)
		op := be.Op
		// normalise constant on the right
		cy, okc := intConst(info, y)
		if !okc {
			if cx, ok2 := intConst(info, x); ok2 {
				x, y = y, x
				cy = cx
				op = flipOp(op)
				okc = true
			}
		}
		// string emptiness: E != "" / E == ""
		if s, ok := strConst(info, y); ok && s == "" && isE(x) {
			if (op == token.NEQ && a.Pos) || (op == token.EQL && !a.Pos) {
				upd(1)
			}
			continue
		}
		if !okc {
			continue
		}
		call, ok := x.(*ast.CallExpr)
		if !ok || !core.IsBuiltin(info, call, "len") || len(call.Args) != 1 || !isE(call.Args[0]) {
			continue
		}
		if !a.Pos {
			op = negOp(op)
		}
		switch op {
		case token.EQL:
			upd(int(cy))
		case token.GEQ:
			upd(int(cy))
		case token.GTR:
			upd(int(cy) + 1)
		case token.NEQ:
			if cy == 0 {
				upd(1)
			}
		}
	}
	return best
}

func intConst(info *types.Info, e ast.Expr) (int64, bool) {
	if bl, ok := e.(*ast.BasicLit); ok && bl.Kind == token.INT {
		v := constant.MakeFromLiteral(bl.Value, token.INT, 0)
		i, ok := constant.Int64Val(v)
		return i, ok
	}
	return core.ConstInt(info, e)
}

func strConst(info *types.Info, e ast.Expr) (string, bool) {
	if bl, ok := e.(*ast.BasicLit); ok && bl.Kind == token.STRING {
		return constant.StringVal(constant.MakeFromLiteral(bl.Value, token.STRING, 0)), true
	}
	return core.ConstStr(info, e)
}

func crashIndex(r *core.Report, cs *crashScope, floor int) {
	p := r.Prog
	r.RunRule(cs.id+".idx", "every index or slice expression with a constant index k (x[k], x[k:]) on a slice or string in reachable code is guarded by a length fact implying len(x) > k (resp. >= k) on the same access path: an `if`/`switch`/loop condition or short-circuit operand on len(x) or x != \"\", a counter kept in lock-step with appends, or a library fact (strconv.Format* is non-empty; strings.Split with a non-empty separator yields at least one element; FindAllStringSubmatch of a constant pattern yields 1+groups entries); a variable captured by a closure keeps the facts that hold where the closure is created when nothing assigns it afterwards; a position returned by strings.Index* is tested before it is used as an index or bound (this clause also covers the router constructors)", floor, func() {
		na := 0
		perFn := map[string]int{}
		done := map[ast.Node]bool{}
		isBuild := map[*ssa.Function]bool{}
		for _, fn := range cs.buildFuncs {
			isBuild[fn] = true
		}
		for _, fn := range append(append([]*ssa.Function{}, cs.funcs...), cs.buildFuncs...) {
			syn, fd, info := declOfSSA(p, fn)
			if syn == nil || fd == nil || done[syn] {
				continue
			}
			done[syn] = true
			onlySearched := isBuild[fn]
			var body ast.Node
			switch x := syn.(type) {
			case *ast.FuncDecl:
				body = x.Body
			case *ast.FuncLit:
				body = x.Body
			}
			if body == nil {
				continue
			}
			ff := core.NewFuncFacts(p, info, fd)
			ast.Inspect(body, func(n ast.Node) bool {
				if fl, ok := n.(*ast.FuncLit); ok && ast.Node(fl) != syn {
					return false // separate SSA function
				}
				// a position found by strings.Index* is -1 when nothing was found: as an index or a slice
				// bound it has to be tested first
				{
					var bounds []ast.Expr
					switch x := n.(type) {
					case *ast.SliceExpr:
						bounds = append(bounds, x.Low, x.High)
					case *ast.IndexExpr:
						if _, isMap := info.TypeOf(x.X).Underlying().(*types.Map); !isMap {
							bounds = append(bounds, x.Index)
						}
					}
					for _, be := range bounds {
						if be == nil {
							continue
						}
						// i, i+1, i-1
						inner := ast.Unparen(be)
						if bx, ok := inner.(*ast.BinaryExpr); ok && (bx.Op == token.ADD || bx.Op == token.SUB) {
							if _, isConst := intConst(info, bx.Y); isConst {
								inner = ast.Unparen(bx.X)
							}
						}
						// the search itself written where the bound goes: x[:strings.IndexByte(x, '}')]
						if ce, isCall := inner.(*ast.CallExpr); isCall {
							if f := core.CalleeOf(info, ce); f != nil && f.Pkg() != nil && (f.Pkg().Path() == "strings" || f.Pkg().Path() == "bytes") {
								switch f.Name() {
								case "Index", "IndexByte", "IndexAny", "IndexRune", "LastIndex", "LastIndexByte", "LastIndexAny", "IndexFunc":
									na++
									name := shortFn(fn)
									perFn[name+"/searched"]++
									key := fmt.Sprintf("idx:%s/searched#%d(%s)", name, perFn[name+"/searched"], f.Name())
									r.Bad(key, p.Pos(n.Pos()), fmt.Sprintf("the result of %s.%s, which is -1 when the text does not contain what is searched for, is used as an index or slice bound as it comes: such text makes this expression panic", f.Pkg().Path(), f.Name()))
								}
							}
							continue
						}
						id, isID := inner.(*ast.Ident)
						if !isID {
							continue
						}
						from := searchedPosition(info, ff, id)
						var shift ast.Expr // id = shift + search: the test that helps is id >= shift
						if from == "" {
							from, shift = shiftedSearchedPosition(info, ff, id)
						}
						if from == "" {
							continue
						}
						na++
						name := shortFn(fn)
						perFn[name+"/searched"]++
						key := fmt.Sprintf("idx:%s/searched#%d(%s)", name, perFn[name+"/searched"], id.Name)
						found := false
						for _, a := range core.Atoms(core.GuardsAt(info, fd.Body, n)) {
							bx, ok := ast.Unparen(a.Expr).(*ast.BinaryExpr)
							if !ok {
								continue
							}
							op := bx.Op
							if !a.Pos {
								op = negOp(op)
							}
							l, rr := ast.Unparen(bx.X), ast.Unparen(bx.Y)
							if rid, ok := rr.(*ast.Ident); ok && info.ObjectOf(rid) == info.ObjectOf(id) {
								l, rr = rr, l
								op = flipOp(op)
							}
							if lid, ok := l.(*ast.Ident); ok && info.ObjectOf(lid) == info.ObjectOf(id) {
								if shift != nil {
									if (op == token.GEQ || op == token.GTR) && exprText(rr) == exprText(shift) {
										found = true
									}
									continue
								}
								if z, ok := intConst(info, rr); ok {
									switch {
									case op == token.GEQ && z >= 0, op == token.GTR && z >= -1, op == token.NEQ && z == -1:
										found = true
									}
								}
							}
						}
						if found {
							r.OK(key, p.Pos(n.Pos()), "the position was tested before it is used as a bound")
						} else {
							r.Bad(key, p.Pos(n.Pos()), fmt.Sprintf("%s is the result of %s, which is -1 when the text does not contain what is searched for, and is used as an index or slice bound without a test: such text (a server URL like `http://a}b:{p`) makes this expression panic", id.Name, from))
						}
					}
				}
				if onlySearched {
					return true // router construction: only the searched-position clause (see c10)
				}
				// two lists computed by two functions and paired by position: B[i] inside `for i := range A`
				if rs, ok := n.(*ast.RangeStmt); ok && rs.Key != nil {
					if kid, ok := rs.Key.(*ast.Ident); ok && kid.Name != "_" {
						aCall := producerCall(info, ff, rs.X)
						if aCall != nil {
							ast.Inspect(rs.Body, func(m ast.Node) bool {
								ix, ok := m.(*ast.IndexExpr)
								if !ok {
									return true
								}
								iid, ok := ast.Unparen(ix.Index).(*ast.Ident)
								if !ok || info.ObjectOf(iid) != info.ObjectOf(kid) {
									return true
								}
								if _, isSlice := info.TypeOf(ix.X).Underlying().(*types.Slice); !isSlice {
									return true
								}
								bCall := producerCall(info, ff, ix.X)
								if bCall == nil || core.CalleeOf(info, bCall) == core.CalleeOf(info, aCall) {
									return true
								}
								// an explicit length test on the path settles it
								for _, a := range core.Atoms(core.GuardsAt(info, fd.Body, ix)) {
									if strings.Contains(core.ExprStr(a.Expr), "len("+core.ExprStr(ix.X)+")") {
										return true
									}
								}
								na++
								name := shortFn(fn)
								perFn[name+"/paired"]++
								key := fmt.Sprintf("idx:%s/paired#%d(%s[%s] over %s)", name, perFn[name+"/paired"], core.ExprStr(ix.X), iid.Name, core.ExprStr(rs.X))
								why := pairedProducers(p, core.CalleeOf(info, aCall), core.CalleeOf(info, bCall))
								if why == "" {
									r.OK(key, p.Pos(ix.Pos()), "both lists get one entry per occurrence of the same token of the same text, unconditionally")
								} else {
									r.Bad(key, p.Pos(ix.Pos()), fmt.Sprintf("%s is indexed with the position in %s, a list computed by another function, and nothing here relates their lengths; the producers do not obviously agree either: %s — when the indexed list is the shorter one this panics (index out of range)", core.ExprStr(ix.X), core.ExprStr(rs.X), why))
								}
								return true
							})
						}
					}
				}
				var base ast.Expr
				need := 0
				switch x := n.(type) {
				case *ast.IndexExpr:
					k, ok := intConst(info, x.Index)
					if !ok {
						// x[len(x)-k]: the last element(s) of a list that may be empty
						idxExpr := ast.Unparen(x.Index)
						if iid, isID := idxExpr.(*ast.Ident); isID {
							// `last := len(x) - 1; x[last]`
							if as := ff.Assigns(info.ObjectOf(iid)); len(as) == 1 && as[0].Rhs != nil {
								idxExpr = ast.Unparen(as[0].Rhs)
							}
						}
						if be, isBin := idxExpr.(*ast.BinaryExpr); isBin && be.Op == token.SUB {
							if kk, isK := intConst(info, be.Y); isK && kk >= 1 {
								if lc, isCall := ast.Unparen(be.X).(*ast.CallExpr); isCall && len(lc.Args) == 1 {
									if fid, isID := lc.Fun.(*ast.Ident); isID && fid.Name == "len" && core.ExprStr(lc.Args[0]) == core.ExprStr(x.X) {
										if _, isMap := info.TypeOf(x.X).Underlying().(*types.Map); !isMap {
											base, need = x.X, int(kk)
										}
									}
								}
							}
						}
					}
					if !ok && base == nil {
						// an index parsed from text (strconv.Atoi / ParseInt) can be negative
						if id, isID := ast.Unparen(x.Index).(*ast.Ident); isID {
							if _, isMap := info.TypeOf(x.X).Underlying().(*types.Map); !isMap {
								if from := parsedSigned(info, ff, id); from != "" {
									na++
									name := shortFn(fn)
									perFn[name+"/parsed"]++
									key := fmt.Sprintf("idx:%s/parsed#%d(%s[%s])", name, perFn[name+"/parsed"], core.ExprStr(x.X), id.Name)
									nonNeg := false
									for _, a := range core.Atoms(core.GuardsAt(info, fd.Body, n)) {
										be, ok := ast.Unparen(a.Expr).(*ast.BinaryExpr)
										if !ok {
											continue
										}
										op := be.Op
										if !a.Pos {
											op = negOp(op)
										}
										l, rr := ast.Unparen(be.X), ast.Unparen(be.Y)
										if rid, ok := rr.(*ast.Ident); ok && info.ObjectOf(rid) == info.ObjectOf(id) {
											l, rr = rr, l
											op = flipOp(op)
										}
										if lid, ok := l.(*ast.Ident); ok && info.ObjectOf(lid) == info.ObjectOf(id) {
											if z, ok := intConst(info, rr); ok && ((op == token.GEQ && z >= 0) || (op == token.GTR && z >= -1)) {
												nonNeg = true
											}
										}
									}
									if nonNeg {
										r.OK(key, p.Pos(n.Pos()), "tested non-negative")
									} else {
										r.Bad(key, p.Pos(n.Pos()), fmt.Sprintf("the index %s comes from %s and is used without a non-negative test: text such as \"-1\" makes this index expression panic", id.Name, from))
									}
								}
							}
						}
						return true
					}
					if base == nil {
						base, need = x.X, int(k)+1
					}
				case *ast.SliceExpr:
					if x.Low == nil {
						return true
					}
					k, ok := intConst(info, x.Low)
					if !ok || k == 0 {
						return true
					}
					base, need = x.X, int(k)
				default:
					return true
				}
				bt := info.TypeOf(base)
				if bt == nil {
					return true
				}
				switch u := bt.Underlying().(type) {
				case *types.Slice:
				case *types.Basic:
					if u.Info()&types.IsString == 0 {
						return true
					}
				case *types.Pointer:
					if _, isArr := u.Elem().Underlying().(*types.Array); isArr {
						return true
					}
					return true
				default:
					return true
				}
				na++
				name := shortFn(fn)
				perFn[name]++
				key := fmt.Sprintf("idx:%s#%d(%s)", name, perFn[name], core.ExprStr(base))
				path := core.AccessPath(info, base)
				atoms := core.Atoms(core.GuardsAt(info, fd.Body, n))
				have := 0
				if path != "" {
					have = lenAtLeast(info, atoms, path, base)
				}
				// a variable captured by the closure: the facts that hold where the closure is created
				if fl, isLit := syn.(*ast.FuncLit); isLit && have < need && path != "" {
					if id := core.RootIdent(base); id != nil {
						if o := info.ObjectOf(id); o != nil && (o.Pos() < fl.Pos() || o.Pos() > fl.End()) && !assignedAfter(info, fd.Body, o, fl.Pos()) {
							outer := core.Atoms(core.GuardsAt(info, fd.Body, fl))
							if h := lenAtLeast(info, outer, path, base); h > have {
								have = h
							}
						}
					}
				}
				why := ""
				if have >= need {
					why = fmt.Sprintf("guards imply len >= %d", have)
				} else if w := libLenFact(info, ff, base, need); w != "" {
					why = w
				} else if w := lockstepCounter(info, ff, fd, base, atoms, need); w != "" {
					why = w
				}
				if why == "" {
					// a parameter: every call site of the package hands over a list with the fact
					if id, isID := ast.Unparen(base).(*ast.Ident); isID {
						if _, isDecl := syn.(*ast.FuncDecl); isDecl {
							why = callersLenFact(p, info, fd, info.ObjectOf(id), need)
						}
					}
				}
				if why != "" {
					r.OK(key, p.Pos(n.Pos()), why)
				} else {
					r.Bad(key, p.Pos(n.Pos()), fmt.Sprintf("constant index/slice bound on %s needs len >= %d but no guard on this path establishes it: index out of range panic with hostile input", core.ExprStr(base), need))
				}
				return true
			})
		}
		r.Extra[cs.id+"_const_index_sites"] = na
	})
}

// callersLenFact: o is a parameter of fd that is not assigned in it, and every call of fd in its
// package passes a list for which a library fact or the guards at the call give len >= need.
func callersLenFact(p *core.Prog, info *types.Info, fd *ast.FuncDecl, o types.Object, need int) string {
	if o == nil || fd.Type.Params == nil {
		return ""
	}
	idx, k := -1, 0
	for _, f := range fd.Type.Params.List {
		for _, nm := range f.Names {
			if info.ObjectOf(nm) == o {
				idx = k
			}
			k++
		}
	}
	if idx < 0 || assignedAfter(info, fd.Body, o, fd.Body.Pos()) {
		return ""
	}
	self, _ := info.Defs[fd.Name].(*types.Func)
	if self == nil || self.Pkg() == nil {
		return ""
	}
	rel := core.RelPkg(self.Pkg())
	n := 0
	for _, d := range p.AllDecls(rel) {
		if d.Body == nil {
			continue
		}
		ok := true
		var ffc *core.FuncFacts
		ast.Inspect(d.Body, func(nd ast.Node) bool {
			c, isCall := nd.(*ast.CallExpr)
			if !isCall || core.CalleeOf(info, c) != self || idx >= len(c.Args) {
				return true
			}
			n++
			if ffc == nil {
				ffc = core.NewFuncFacts(p, info, d)
			}
			arg := c.Args[idx]
			have := 0
			if path := core.AccessPath(info, arg); path != "" {
				have = lenAtLeast(info, core.Atoms(core.GuardsAt(info, d.Body, c)), path, arg)
			}
			if have < need && libLenFact(info, ffc, arg, need) == "" {
				ok = false
			}
			return true
		})
		if !ok {
			return ""
		}
	}
	if n == 0 {
		return ""
	}
	return fmt.Sprintf("a parameter that is not reassigned; each of the %d call sites in the package passes a list known to have at least %d element(s)", n, need)
}

// assignedAfter: some statement of body positioned after pos assigns o (or takes its address).
func assignedAfter(info *types.Info, body ast.Node, o types.Object, pos token.Pos) bool {
	found := false
	is := func(e ast.Expr) bool {
		id, ok := ast.Unparen(e).(*ast.Ident)
		return ok && info.ObjectOf(id) == o
	}
	ast.Inspect(body, func(n ast.Node) bool {
		if n == nil || found {
			return false
		}
		if n.End() < pos {
			return false
		}
		switch x := n.(type) {
		case *ast.AssignStmt:
			if x.Pos() > pos {
				for _, l := range x.Lhs {
					if is(l) {
						found = true
					}
				}
			}
		case *ast.IncDecStmt:
			if x.Pos() > pos && is(x.X) {
				found = true
			}
		case *ast.RangeStmt:
			if x.Pos() > pos && ((x.Key != nil && is(x.Key)) || (x.Value != nil && is(x.Value))) {
				found = true
			}
		case *ast.UnaryExpr:
			if x.Pos() > pos && x.Op == token.AND && is(x.X) {
				found = true
			}
		}
		return true
	})
	return found
}

// parsedSigned: the variable is (only) assigned result 0 of strconv.Atoi / ParseInt.
func parsedSigned(info *types.Info, ff *core.FuncFacts, id *ast.Ident) string {
	as := ff.Assigns(info.ObjectOf(id))
	if len(as) == 0 {
		return ""
	}
	from := ""
	for _, a := range as {
		// the value variable of `for _, k := range keys` where keys collects parsed integers
		// (keys = append(keys, n) with n parsed)
		if a.RangeOf != nil && !a.IsKey {
			if rid, ok := ast.Unparen(a.RangeOf).(*ast.Ident); ok {
				collected := ""
				for _, ca := range ff.Assigns(info.ObjectOf(rid)) {
					ce, ok := ast.Unparen(ca.Rhs).(*ast.CallExpr)
					if !ok || ca.Rhs == nil {
						continue
					}
					if fn, ok := ce.Fun.(*ast.Ident); !ok || fn.Name != "append" {
						continue
					}
					for _, arg := range ce.Args[1:] {
						if aid, ok := ast.Unparen(arg).(*ast.Ident); ok {
							if w := parsedSigned(info, ff, aid); w != "" {
								collected = w
							}
						}
					}
				}
				if collected != "" {
					from = collected + " (collected in " + rid.Name + ")"
					continue
				}
			}
			return ""
		}
		if a.Call == nil || a.Idx != 0 {
			return ""
		}
		callee := core.CalleeOf(info, a.Call)
		if callee == nil || callee.Pkg() == nil || callee.Pkg().Path() != "strconv" || (callee.Name() != "Atoi" && callee.Name() != "ParseInt") {
			return ""
		}
		from = "strconv." + callee.Name()
	}
	return from
}

// libLenFact: library facts about the length of the base expression.
func libLenFact(info *types.Info, ff *core.FuncFacts, base ast.Expr, need int) string {
	splitFact := func(e ast.Expr) string {
		c, ok := ast.Unparen(e).(*ast.CallExpr)
		if !ok || len(c.Args) != 2 || need > 1 {
			return ""
		}
		callee := core.CalleeOf(info, c)
		if callee == nil || callee.Pkg() == nil || callee.Pkg().Path() != "strings" || callee.Name() != "Split" {
			return ""
		}
		if sep, ok := core.ConstStr(info, c.Args[1]); ok && sep != "" {
			return "strings.Split with the non-empty separator " + strconv.Quote(sep) + " returns at least one element"
		}
		return ""
	}
	if w := splitFact(base); w != "" {
		return w
	}
	id, ok := ast.Unparen(base).(*ast.Ident)
	if !ok {
		return ""
	}
	if rhs := ff.ReachingAssign(info.ObjectOf(id), base); rhs != nil {
		if w := splitFact(rhs); w != "" {
			return w
		}
		if c, ok := ast.Unparen(rhs).(*ast.CallExpr); ok {
			if callee := core.CalleeOf(info, c); callee != nil && callee.Pkg() != nil && callee.Pkg().Path() == "strconv" && (strings.HasPrefix(callee.Name(), "Format") || callee.Name() == "Itoa" || callee.Name() == "Quote") && need <= 1 {
				return "strconv." + callee.Name() + " never returns an empty string"
			}
		}
	}
	as := ff.Assigns(info.ObjectOf(id))
	if len(as) == 0 {
		return ""
	}
	all := true
	why := ""
	for _, a := range as {
		okA := false
		if a.Rhs != nil {
			if c, ok := ast.Unparen(a.Rhs).(*ast.CallExpr); ok {
				if callee := core.CalleeOf(info, c); callee != nil && callee.Pkg() != nil && callee.Pkg().Path() == "strconv" && (strings.HasPrefix(callee.Name(), "Format") || callee.Name() == "Itoa" || callee.Name() == "Quote") && need <= 1 {
					okA = true
					why = "strconv." + callee.Name() + " never returns an empty string"
				}
			}
		}
		// (no fact for the value lists of url.Values / http.Header: ParseQuery and Header.Add never store
		// an empty list, but RequestValidationInput.QueryParams is the caller's to build — every site in
		// the tree tests the length)
		if a.RangeOf != nil && !a.IsKey {
			// element of FindAllStringSubmatch(...) of a constant pattern
			if rid, ok := ast.Unparen(a.RangeOf).(*ast.Ident); ok {
				for _, a2 := range ff.Assigns(info.ObjectOf(rid)) {
					if a2.Rhs == nil {
						continue
					}
					c, ok := ast.Unparen(a2.Rhs).(*ast.CallExpr)
					if !ok {
						continue
					}
					callee := core.CalleeOf(info, c)
					if callee == nil || callee.Name() != "FindAllStringSubmatch" {
						continue
					}
					sel, ok := c.Fun.(*ast.SelectorExpr)
					if !ok {
						continue
					}
					recvExpr := ast.Unparen(sel.X)
					// a package-level `var re = regexp.MustCompile("...")` that is never reassigned
					if gid, ok := recvExpr.(*ast.Ident); ok {
						if gv, ok := info.ObjectOf(gid).(*types.Var); ok {
							if init := ff.P.GlobalInit(gv); init != nil {
								recvExpr = ast.Unparen(init)
							}
						}
					}
					if mc, ok := recvExpr.(*ast.CallExpr); ok && len(mc.Args) == 1 {
						if pat, ok := core.ConstStr(info, mc.Args[0]); ok {
							if re, err := syntax.Parse(pat, syntax.Perl); err == nil && re.MaxCap()+1 >= need {
								okA = true
								why = fmt.Sprintf("element of FindAllStringSubmatch of the constant pattern %q: %d entries", pat, re.MaxCap()+1)
							}
						}
					}
				}
			}
		}
		if !okA {
			all = false
		}
	}
	if all {
		return why
	}
	return ""
}

// lockstepCounter: guards say `cnt == k`/`cnt != k -> exit` for an int counter cnt that starts at 0
// and is only ever incremented right next to an append to the indexed slice, which starts empty.
func lockstepCounter(info *types.Info, ff *core.FuncFacts, fd *ast.FuncDecl, base ast.Expr, atoms []core.Atom, need int) string {
	bid, ok := ast.Unparen(base).(*ast.Ident)
	if !ok {
		return ""
	}
	sl := info.ObjectOf(bid)
	for _, a := range atoms {
		be, ok := ast.Unparen(a.Expr).(*ast.BinaryExpr)
		if !ok {
			continue
		}
		cid, ok := ast.Unparen(be.X).(*ast.Ident)
		if !ok {
			continue
		}
		k, ok := intConst(info, be.Y)
		if !ok {
			continue
		}
		op := be.Op
		if !a.Pos {
			op = negOp(op)
		}
		if !((op == token.EQL && int(k) >= need) || (op == token.GEQ && int(k) >= need) || (op == token.GTR && int(k)+1 >= need)) {
			continue
		}
		cnt := info.ObjectOf(cid)
		// counter assignments: one `= 0` and otherwise only cnt++ adjacent to append(sl, ...)
		good := true
		incs := 0
		for _, as := range ff.Assigns(cnt) {
			switch st := as.Stmt.(type) {
			case *ast.IncDecStmt:
				if st.Tok != token.INC {
					good = false
					break
				}
				incs++
				list, idx := listOf(fd.Body, st)
				adj := false
				for _, j := range []int{idx - 1, idx + 1} {
					if j >= 0 && j < len(list) {
						if asg, ok := list[j].(*ast.AssignStmt); ok && len(asg.Lhs) == 1 && len(asg.Rhs) == 1 {
							if lid, ok := asg.Lhs[0].(*ast.Ident); ok && info.ObjectOf(lid) == sl {
								if c, ok := asg.Rhs[0].(*ast.CallExpr); ok && core.IsBuiltin(info, c, "append") {
									adj = true
								}
							}
						}
					}
				}
				if !adj {
					good = false
				}
			default:
				if as.Rhs == nil {
					good = false
				} else if v, ok := intConst(info, as.Rhs); !ok || v != 0 {
					good = false
				}
			}
		}
		// slice assignments: empty init or append only
		for _, as := range ff.Assigns(sl) {
			if as.Rhs == nil {
				good = false
				continue
			}
			c, ok := ast.Unparen(as.Rhs).(*ast.CallExpr)
			if !ok {
				good = false
				continue
			}
			if core.IsBuiltin(info, c, "append") {
				continue
			}
			if core.IsBuiltin(info, c, "make") && len(c.Args) >= 2 {
				if v, ok := intConst(info, c.Args[1]); ok && v == 0 {
					continue
				}
			}
			good = false
		}
		if good && incs > 0 {
			return fmt.Sprintf("counter %s is incremented in lock-step with appends to %s and the guards fix it to >= %d", cid.Name, bid.Name, need)
		}
	}
	return ""
}

// ---------------------------------------------------------------- library calls that panic

func crashLib(r *core.Report, cs *crashScope, floor int) {
	p := r.Prog
	r.RunRule(cs.id+".lib", "calls of standard-library functions that panic on bad arguments: regexp.MustCompile only on constants or on text passed through regexp.QuoteMeta; big.NewFloat (panics on NaN) only on values that cannot be NaN — a quotient needs a divisor guarded against zero, a traffic-derived float needs a dominating NaN test; reflect.Value.Index only with an index bounded below by 0 and above by the same value's Len() on every path", floor, func() {
		perFn := map[string]int{}
		for _, fn := range cs.funcs {
			for _, b := range fn.Blocks {
				for _, in := range b.Instrs {
					site, ok := in.(ssa.CallInstruction)
					if !ok {
						continue
					}
					sc := site.Common().StaticCallee()
					if sc == nil || core.SSAFuncInRepo(sc) {
						continue
					}
					name := sc.String()
					fname := shortFn(fn)
					switch name {
					case "regexp.MustCompile":
						perFn[fname+name]++
						key := fmt.Sprintf("lib:%s/MustCompile#%d", fname, perFn[fname+name])
						arg := site.Common().Args[0]
						if why := patternSafe(arg, 0); why != "" {
							r.OK(key, p.Pos(in.Pos()), why)
						} else {
							r.Bad(key, p.Pos(in.Pos()), "regexp.MustCompile on a pattern that is neither constant nor built from constants and regexp.QuoteMeta(...): panics on traffic- or document-derived text that is not a valid expression")
						}
					case "(reflect.Value).Index":
						perFn[fname+name]++
						key := fmt.Sprintf("lib:%s/reflect.Index#%d", fname, perFn[fname+name])
						if why, ok := reflectIndexGuarded(p, fn, site); ok {
							r.OK(key, p.Pos(in.Pos()), why)
						} else {
							r.Bad(key, p.Pos(in.Pos()), "reflect.Value.Index panics when the index is out of range: "+why)
						}
					case "math/big.NewFloat":
						perFn[fname+name]++
						key := fmt.Sprintf("lib:%s/NewFloat#%d", fname, perFn[fname+name])
						arg := site.Common().Args[0]
						if why, ok := notNaN(fn, site, arg); ok {
							r.OK(key, p.Pos(in.Pos()), why)
						} else {
							r.Bad(key, p.Pos(in.Pos()), "big.NewFloat panics on NaN: "+why)
						}
					}
				}
			}
		}
	})
}

// reflectIndexGuarded: the (non-constant) index of v.Index(i) satisfies 0 <= i < v.Len() by the
// path conditions at the call (or i is unsigned / a loop counter from 0 below v.Len()).
func reflectIndexGuarded(p *core.Prog, fn *ssa.Function, site ssa.CallInstruction) (string, bool) {
	syn, fd, info := declOfSSA(p, fn)
	if syn == nil || fd == nil {
		return "no syntax for the enclosing function", false
	}
	var call *ast.CallExpr
	ast.Inspect(syn, func(n ast.Node) bool {
		if c, ok := n.(*ast.CallExpr); ok && c.Lparen == site.Pos() {
			call = c
		}
		return call == nil
	})
	if call == nil || len(call.Args) != 1 {
		return "call expression not found", false
	}
	sel, ok := call.Fun.(*ast.SelectorExpr)
	if !ok {
		return "unexpected call shape", false
	}
	recv := core.ExprStr(sel.X)
	idx := ast.Unparen(call.Args[0])
	if _, ok := intConst(info, idx); ok {
		return "constant index", false
	}
	is := core.ExprStr(idx)
	lower, upper := false, false
	if b, ok := info.TypeOf(idx).Underlying().(*types.Basic); ok && b.Info()&types.IsUnsigned != 0 {
		lower = true
	}
	// a counter that starts at a non-negative constant and is only ever incremented
	if id, ok := idx.(*ast.Ident); ok && !lower {
		ff := core.NewFuncFacts(p, info, fd)
		as := ff.Assigns(info.ObjectOf(id))
		good := len(as) > 0
		for _, a := range as {
			if st, ok := a.Stmt.(*ast.IncDecStmt); ok && st.Tok == token.INC {
				continue
			}
			if a.Rhs != nil {
				if v, ok := intConst(info, a.Rhs); ok && v >= 0 {
					continue
				}
			}
			good = false
		}
		if good {
			lower = true
		}
	}
	isZero := func(e ast.Expr) bool { v, ok := intConst(info, e); return ok && v == 0 }
	isLen := func(e ast.Expr) bool {
		c, ok := ast.Unparen(e).(*ast.CallExpr)
		if !ok || len(c.Args) != 0 {
			return false
		}
		s2, ok := c.Fun.(*ast.SelectorExpr)
		return ok && s2.Sel.Name == "Len" && core.ExprStr(s2.X) == recv
	}
	for _, a := range core.Atoms(core.GuardsAt(info, fd.Body, call)) {
		be, ok := ast.Unparen(a.Expr).(*ast.BinaryExpr)
		if !ok {
			continue
		}
		op := be.Op
		if !a.Pos {
			op = negOp(op)
		}
		x, y := ast.Unparen(be.X), ast.Unparen(be.Y)
		// normalise to idx on the left
		if core.ExprStr(y) == is {
			x, y = y, x
			op = flipOp(op)
		}
		if core.ExprStr(x) != is {
			continue
		}
		if isZero(y) && op == token.GEQ {
			lower = true
		}
		if isLen(y) && op == token.LSS {
			upper = true
		}
	}
	if lower && upper {
		return "index bounded by 0 and " + recv + ".Len() on this path", true
	}
	if !lower && !upper {
		return "neither bound of the index is established on this path", false
	}
	if !lower {
		return "no lower bound: a negative index (after int conversion of a parsed number) reaches Index", false
	}
	return "no upper bound against " + recv + ".Len()", false
}

func patternSafe(v ssa.Value, depth int) string {
	if depth > 6 {
		return ""
	}
	switch x := v.(type) {
	case *ssa.Const:
		return "constant pattern"
	case *ssa.BinOp:
		if x.Op == token.ADD {
			if patternSafe(x.X, depth+1) != "" && patternSafe(x.Y, depth+1) != "" {
				return "concatenation of constants and quoted text"
			}
		}
	case *ssa.Call:
		sc := x.Common().StaticCallee()
		if sc == nil {
			return ""
		}
		if sc.String() == "regexp.QuoteMeta" {
			return "quoted with regexp.QuoteMeta"
		}
		if sc.String() == "fmt.Sprintf" {
			if fc, ok := x.Common().Args[0].(*ssa.Const); ok && fc.Value != nil {
				if sl, ok := x.Common().Args[1].(*ssa.Slice); ok {
					if al, ok := sl.X.(*ssa.Alloc); ok {
						all := true
						for _, ref := range *al.Referrers() {
							if ia, ok := ref.(*ssa.IndexAddr); ok {
								for _, r2 := range *ia.Referrers() {
									if st, ok := r2.(*ssa.Store); ok {
										val := st.Val
										if mi, ok := val.(*ssa.MakeInterface); ok {
											val = mi.X
										}
										if patternSafe(val, depth+1) == "" {
											all = false
										}
									}
								}
							}
						}
						if all {
							return "constant format whose operands are quoted with regexp.QuoteMeta"
						}
					}
				}
			}
		}
	}
	return ""
}

// notNaN: the float64 argument of big.NewFloat cannot be NaN.
func notNaN(fn *ssa.Function, site ssa.CallInstruction, v ssa.Value) (string, bool) {
	switch x := v.(type) {
	case *ssa.Const:
		return "constant", true
	case *ssa.BinOp:
		if x.Op == token.QUO {
			// x / y is NaN for 0/0, Inf/Inf, or NaN operands: need y != 0 dominating, and operands not NaN
			if !zeroExcluded(x.Y, site.Block()) {
				return "the argument is a quotient whose divisor is not shown to be non-zero (0/0 is NaN)", false
			}
			if w, ok := notNaN(fn, site, x.X); !ok {
				return w, false
			}
			return "quotient with a divisor guarded against zero", true
		}
	case *ssa.Parameter:
		// a parameter: every caller in the repo must pass a non-NaN value; the visitors get their
		// number from visitJSON, which rejects NaN/Inf for float64 before dispatching
		ok, why := paramNotNaN(x, 0)
		return why, ok
	case *ssa.Convert:
		if b, ok := x.X.Type().Underlying().(*types.Basic); ok && b.Info()&types.IsInteger != 0 {
			return "converted from an integer", true
		}
		return notNaN(fn, site, x.X)
	case *ssa.UnOp:
		if x.Op == token.MUL {
			return "loaded value of unknown origin", false
		}
	}
	return "value of unknown origin", false
}

// zeroExcluded: v (a float) is shown != 0 on every path to blk.
func zeroExcluded(v ssa.Value, blk *ssa.BasicBlock) bool {
	// v is typically a load *p; look for a comparison of an equal load against 0 that dominates.
	// go/ssa does not CSE loads, so match loads of the same address.
	same := func(a, b ssa.Value) bool {
		if a == b {
			return true
		}
		ua, ok1 := a.(*ssa.UnOp)
		ub, ok2 := b.(*ssa.UnOp)
		return ok1 && ok2 && ua.Op == token.MUL && ub.Op == token.MUL && ua.X == ub.X
	}
	fn := blk.Parent()
	for _, b := range fn.Blocks {
		ifi, ok := b.Instrs[len(b.Instrs)-1].(*ssa.If)
		if !ok {
			continue
		}
		bo, ok := ifi.Cond.(*ssa.BinOp)
		if !ok || (bo.Op != token.NEQ && bo.Op != token.EQL) {
			continue
		}
		var other ssa.Value
		if same(bo.X, v) {
			other = bo.Y
		} else if same(bo.Y, v) {
			other = bo.X
		} else {
			continue
		}
		c, ok := other.(*ssa.Const)
		if !ok || c.Value == nil || constant.Sign(c.Value) != 0 {
			continue
		}
		succ := b.Succs[0]
		if bo.Op == token.EQL {
			succ = b.Succs[1]
		}
		if succ.Dominates(blk) && len(succ.Preds) == 1 {
			return true
		}
	}
	return false
}

// paramNotNaN: all repo callers pass a value that is not NaN: a value tested with math.IsNaN on a
// dominating path, an integer conversion, or (recursively) such a parameter.
func paramNotNaN(prm *ssa.Parameter, depth int) (bool, string) {
	if depth > 4 {
		return false, "caller chain too deep"
	}
	fn := prm.Parent()
	idx := -1
	for i, q := range fn.Params {
		if q == prm {
			idx = i
		}
	}
	refs := fn.Referrers()
	_ = refs
	// callers via static calls in the same package
	pkg := fn.Package()
	if pkg == nil {
		return false, "no package"
	}
	n := 0
	for _, m := range pkg.Members {
		_ = m
	}
	var callers []ssa.CallInstruction
	for _, mem := range allFuncsOf(pkg) {
		for _, b := range mem.Blocks {
			for _, in := range b.Instrs {
				if c, ok := in.(ssa.CallInstruction); ok && c.Common().StaticCallee() == fn {
					callers = append(callers, c)
				}
			}
		}
	}
	for _, c := range callers {
		n++
		args := c.Common().Args
		if idx >= len(args) {
			return false, "argument mismatch"
		}
		a := args[idx]
		okA := false
		switch x := a.(type) {
		case *ssa.Convert:
			if b, ok := x.X.Type().Underlying().(*types.Basic); ok && b.Info()&types.IsInteger != 0 {
				okA = true
			}
		case *ssa.Parameter:
			okA, _ = paramNotNaN(x, depth+1)
			if !okA && c.Parent().Object() != nil && c.Parent().Object().Exported() {
				okA = true // exported wrapper passing its own float parameter through
			}
		case *ssa.Const:
			okA = true
		}
		if !okA && nanTested(a, c.Block()) {
			okA = true
		}
		if !okA {
			// result of (json.Number).Float64 with nil error: ParseFloat may return NaN for "NaN"? json.Number
			// comes from the JSON decoder, whose grammar has no NaN: accept when error tested
			if ex, ok := a.(*ssa.Extract); ok {
				if call, ok := ex.Tuple.(*ssa.Call); ok {
					if sc := call.Common().StaticCallee(); sc != nil && sc.String() == "(encoding/json.Number).Float64" {
						okA = true
					}
				}
			}
		}
		if !okA {
			return false, fmt.Sprintf("caller %s passes a float that is not shown to be non-NaN", shortFn(c.Parent()))
		}
	}
	if n == 0 {
		return true, "exported API parameter: the float is supplied by the caller, not decoded from traffic (precondition)"
	}
	return true, "every caller passes a NaN-tested or integer-derived value"
}

func allFuncsOf(pkg *ssa.Package) []*ssa.Function {
	var out []*ssa.Function
	var add func(f *ssa.Function)
	add = func(f *ssa.Function) {
		out = append(out, f)
		for _, a := range f.AnonFuncs {
			add(a)
		}
	}
	for _, m := range pkg.Members {
		switch x := m.(type) {
		case *ssa.Function:
			add(x)
		case *ssa.Type:
			for _, t := range []types.Type{x.Type(), types.NewPointer(x.Type())} {
				ms := pkg.Prog.MethodSets.MethodSet(t)
				for i := 0; i < ms.Len(); i++ {
					if f := pkg.Prog.MethodValue(ms.At(i)); f != nil && f.Blocks != nil && f.Synthetic == "" {
						add(f)
					}
				}
			}
		}
	}
	return out
}

// nanTested: v (or the value it was type-asserted from) is tested with math.IsNaN and the call site's
// block is dominated by the IsNaN == false edge... or the true edge returns.
func nanTested(v ssa.Value, blk *ssa.BasicBlock) bool {
	fn := blk.Parent()
	cands := []ssa.Value{v}
	if ex, ok := v.(*ssa.Extract); ok {
		cands = append(cands, ex.Tuple)
	}
	for _, b := range fn.Blocks {
		for _, in := range b.Instrs {
			call, ok := in.(*ssa.Call)
			if !ok {
				continue
			}
			sc := call.Common().StaticCallee()
			if sc == nil || sc.String() != "math.IsNaN" {
				continue
			}
			arg := call.Common().Args[0]
			// same dynamic value: both are type assertions of the same operand to float64
			match := false
			for _, c := range cands {
				if arg == c {
					match = true
				}
				ta1, ok1 := arg.(*ssa.TypeAssert)
				ta2, ok2 := c.(*ssa.TypeAssert)
				if ok1 && ok2 && ta1.X == ta2.X {
					match = true
				}
				if e1, ok := arg.(*ssa.Extract); ok {
					if t1, ok := e1.Tuple.(*ssa.TypeAssert); ok && ok2 && t1.X == ta2.X {
						match = true
					}
					if e2, ok := c.(*ssa.Extract); ok {
						if t2, ok := e2.Tuple.(*ssa.TypeAssert); ok {
							if t1, ok := e1.Tuple.(*ssa.TypeAssert); ok && t1.X == t2.X {
								match = true
							}
						}
					}
				}
			}
			if match && boolEdgeDominates(call, false, blk) {
				return true
			}
			// type-switch correlation: both values are assertions of the same operand to the same
			// type; whenever the later one succeeds the earlier one did, and its IsNaN-true edge leaves
			if match && call.Block().Dominates(blk) == false {
				// the later assertion succeeds only for values for which the earlier, identical one
				// succeeded too (same immutable operand, same type); the test must not come after the use
				if first := assertBlockOf(arg); first != nil && !reaches(blk, call.Block()) {
					for _, ref := range *call.Referrers() {
						if ifi, ok := ref.(*ssa.If); ok {
							t := ifi.Block().Succs[0]
							if len(t.Instrs) > 0 {
								if _, isRet := t.Instrs[len(t.Instrs)-1].(*ssa.Return); isRet {
									return true
								}
							}
						}
					}
				}
			}
		}
	}
	return false
}

func assertBlockOf(v ssa.Value) *ssa.BasicBlock {
	switch x := v.(type) {
	case *ssa.Extract:
		if ta, ok := x.Tuple.(*ssa.TypeAssert); ok {
			return ta.Block()
		}
	case *ssa.TypeAssert:
		return x.Block()
	}
	return nil
}

// ---------------------------------------------------------------- hash

// crashHash: operations that hash or compare an interface value panic when its dynamic type is not
// comparable ("hash of unhashable type", "comparing uncomparable type"): a map whose key type is an
// interface, and == / != between two interface values. Each needs an operand whose dynamic type is
// known comparable: for a map key the key itself; for a comparison either side (values of different
// dynamic types compare unequal without looking inside).
func crashHash(r *core.Report, cs *crashScope, floor int) {
	p := r.Prog
	r.RunRule(cs.id+".hash", "interface-keyed map operations and interface comparisons: the key (for a comparison: one operand) is a constant, a conversion from a strictly comparable concrete type, or a package-level sentinel assigned only such values (errors.New / fmt.Errorf results count: pointer types), or a reflect.Type", floor, func() {
		perFn := map[string]int{}
		for _, fn := range cs.funcs {
			fname := shortFn(fn)
			for _, b := range fn.Blocks {
				for _, in := range b.Instrs {
					switch x := in.(type) {
					case *ssa.MapUpdate:
						mt, ok := x.Map.Type().Underlying().(*types.Map)
						if !ok || !types.IsInterface(mt.Key()) {
							continue
						}
						perFn[fname+"/mapkey"]++
						key := fmt.Sprintf("hash:%s/mapkey#%d", fname, perFn[fname+"/mapkey"])
						if why := hashableValue(p, x.Key, 0); why != "" {
							r.OK(key, p.Pos(in.Pos()), why)
						} else {
							r.Bad(key, p.Pos(in.Pos()), fmt.Sprintf("insert into %s with a key whose dynamic type is not known to be comparable: a slice, map or function value there panics with `hash of unhashable type` (decoded YAML can hold map[any]any, decoded JSON []any and map[string]any)", mt))
						}
					case *ssa.Lookup:
						mt, ok := x.X.Type().Underlying().(*types.Map)
						if !ok || !types.IsInterface(mt.Key()) {
							continue
						}
						perFn[fname+"/mapkey"]++
						key := fmt.Sprintf("hash:%s/mapkey#%d", fname, perFn[fname+"/mapkey"])
						if why := hashableValue(p, x.Index, 0); why != "" {
							r.OK(key, p.Pos(in.Pos()), why)
						} else {
							r.Bad(key, p.Pos(in.Pos()), fmt.Sprintf("lookup in %s with a key whose dynamic type is not known to be comparable: panics with `hash of unhashable type`", mt))
						}
					case *ssa.BinOp:
						if x.Op != token.EQL && x.Op != token.NEQ || !types.IsInterface(x.X.Type()) || !types.IsInterface(x.Y.Type()) {
							continue
						}
						if isNilConst(x.X) || isNilConst(x.Y) {
							continue
						}
						perFn[fname+"/eq"]++
						key := fmt.Sprintf("hash:%s/eq#%d", fname, perFn[fname+"/eq"])
						why := hashableValue(p, x.X, 0)
						if why == "" {
							why = hashableValue(p, x.Y, 0)
						}
						if why != "" {
							r.OK(key, p.Pos(in.Pos()), "one operand: "+why)
						} else {
							r.Bad(key, p.Pos(in.Pos()), "comparison of two interface values neither of which has a known comparable dynamic type: equal uncomparable dynamic types (slices, maps, e.g. MultiError or decoded JSON containers) panic with `comparing uncomparable type`")
						}
					}
				}
			}
		}
	})
}

func isNilConst(v ssa.Value) bool {
	c, ok := v.(*ssa.Const)
	return ok && c.IsNil()
}

// strictComparable: values of the type can be hashed and compared without a run-time panic.
func strictComparable(t types.Type, depth int) bool {
	if depth > 6 {
		return false
	}
	switch u := t.Underlying().(type) {
	case *types.Basic:
		return u.Kind() != types.UntypedNil
	case *types.Pointer, *types.Chan:
		return true
	case *types.Struct:
		for i := 0; i < u.NumFields(); i++ {
			if !strictComparable(u.Field(i).Type(), depth+1) {
				return false
			}
		}
		return true
	case *types.Array:
		return strictComparable(u.Elem(), depth+1)
	}
	return false
}

// hashableValue: the interface value's dynamic type is strictly comparable on every path.
func hashableValue(p *core.Prog, v ssa.Value, depth int) string {
	if depth > 5 {
		return ""
	}
	switch x := v.(type) {
	case *ssa.Const:
		return "a constant"
	case *ssa.MakeInterface:
		if strictComparable(x.X.Type(), 0) {
			return fmt.Sprintf("converted from %s (comparable)", x.X.Type())
		}
	case *ssa.ChangeInterface:
		return hashableValue(p, x.X, depth+1)
	case *ssa.Phi:
		why := ""
		for _, e := range x.Edges {
			w := hashableValue(p, e, depth+1)
			if w == "" {
				return ""
			}
			why = w
		}
		return why
	case *ssa.Call:
		if sc := x.Common().StaticCallee(); sc != nil {
			switch sc.String() {
			case "errors.New", "fmt.Errorf":
				return "result of " + sc.String() + " (a pointer)"
			case "reflect.TypeOf", "(reflect.Value).Type":
				return "a reflect.Type (the runtime's type descriptors are pointers)"
			}
		}
	case *ssa.UnOp:
		g, ok := x.X.(*ssa.Global)
		if !ok || x.Op != token.MUL || g.Pkg == nil {
			return ""
		}
		// every store to the global, anywhere in its package, stores a hashable value
		stores := 0
		for _, fn := range allFuncsOf(g.Pkg) {
			for _, b := range fn.Blocks {
				for _, in := range b.Instrs {
					st, ok := in.(*ssa.Store)
					if !ok || st.Addr != ssa.Value(g) {
						continue
					}
					stores++
					if hashableValue(p, st.Val, depth+1) == "" {
						return ""
					}
				}
			}
		}
		if stores > 0 {
			return fmt.Sprintf("the sentinel %s.%s, assigned only comparable values (%d store(s) in its package)", g.Pkg.Pkg.Name(), g.Name(), stores)
		}
	}
	return ""
}

// ---------------------------------------------------------------- bound

// crashBound: an integer parsed from text (strconv.Atoi/ParseInt/ParseUint) in traffic-reachable code
// decides how much work is done: it must not size an allocation or bound a counting loop unless it
// was first compared with an independent upper bound (a length, a constant, a schema limit). A tiny
// request such as filter[ids][9999999999]=1 otherwise makes the validator allocate and loop without
// limit -- the "hang" the property excludes.
func crashBound(r *core.Report, cs *crashScope, floor int) {
	p := r.Prog
	r.RunRule(cs.id+".bound", "integers parsed from text (strconv.Atoi/ParseInt/ParseUint): a value derived from one (through conversions, arithmetic, running maxima) that sizes an allocation (make) or is the limit a loop counter is compared with must be dominated by an upper-bound comparison against a value not derived from the parsed text; parsed values that are only returned, stored or used as data have no such use", floor, func() {
		perFn := map[string]int{}
		for _, fn := range cs.funcs {
			fname := shortFn(fn)
			for _, b := range fn.Blocks {
				for _, in := range b.Instrs {
					call, ok := in.(*ssa.Call)
					if !ok {
						continue
					}
					sc := call.Common().StaticCallee()
					if sc == nil {
						continue
					}
					switch sc.String() {
					case "strconv.Atoi", "strconv.ParseInt", "strconv.ParseUint":
					default:
						continue
					}
					short := strings.TrimPrefix(sc.String(), "strconv.")
					perFn[fname+short]++
					key := fmt.Sprintf("bound:%s/%s#%d", fname, short, perFn[fname+short])
					derived := map[ssa.Value]bool{}
					var work []ssa.Value
					add := func(v ssa.Value) {
						if !derived[v] {
							derived[v] = true
							work = append(work, v)
						}
					}
					// containers: local slices/arrays that hold a derived value (keys = append(keys, n))
					containers := map[ssa.Value]bool{}
					addC := func(v ssa.Value) {
						if !containers[v] {
							containers[v] = true
							work = append(work, v)
						}
					}
					add(call)
					for len(work) > 0 {
						v := work[0]
						work = work[1:]
						if v.Referrers() == nil {
							continue
						}
						if containers[v] {
							for _, ref := range *v.Referrers() {
								switch x := ref.(type) {
								case *ssa.Slice:
									addC(x)
								case *ssa.Phi:
									addC(x)
								case *ssa.Call:
									if bi, ok := x.Common().Value.(*ssa.Builtin); ok && bi.Name() == "append" {
										addC(x)
									}
								case *ssa.IndexAddr:
									if x.X == v && x.Referrers() != nil {
										for _, u := range *x.Referrers() {
											if ld, ok := u.(*ssa.UnOp); ok && ld.Op == token.MUL {
												add(ld)
											}
										}
									}
								case *ssa.Index:
									add(x)
								}
							}
							if !derived[v] {
								continue
							}
						}
						for _, ref := range *v.Referrers() {
							switch x := ref.(type) {
							case *ssa.Store:
								if x.Val == v {
									if ia, ok := x.Addr.(*ssa.IndexAddr); ok {
										addC(ia.X)
									}
								}
							case *ssa.Extract:
								if x.Index == 0 {
									add(x)
								}
							case *ssa.Convert:
								if b, ok := x.Type().Underlying().(*types.Basic); ok && b.Info()&types.IsInteger != 0 {
									add(x)
								}
							case *ssa.ChangeType:
								add(x)
							case *ssa.Phi:
								add(x)
							case *ssa.BinOp:
								switch x.Op {
								case token.ADD, token.SUB, token.MUL, token.SHL:
									add(x)
								}
							}
						}
					}
					var sinks []string
					bad := ""
					for v := range derived {
						if v.Referrers() == nil {
							continue
						}
						for _, ref := range *v.Referrers() {
							what := ""
							switch x := ref.(type) {
							case *ssa.MakeSlice:
								if x.Len == v || x.Cap == v {
									what = "sizes the allocation make(" + x.Type().String() + ", n)"
								}
							case *ssa.MakeMap:
								if x.Reserve == v {
									what = "sizes the allocation of a map"
								}
							case *ssa.MakeChan:
								if x.Size == v {
									what = "sizes a channel"
								}
							case *ssa.Call:
								if c := x.Common().StaticCallee(); c != nil && (c.String() == "strings.Repeat" || c.String() == "bytes.Repeat") && len(x.Common().Args) == 2 && x.Common().Args[1] == v {
									what = "is the count of " + c.String()
								}
							case *ssa.BinOp:
								switch x.Op {
								case token.LSS, token.LEQ, token.GTR, token.GEQ, token.NEQ:
								default:
									continue
								}
								other := x.X
								if other == v {
									other = x.Y
								}
								if derived[other] || !isLoopCounter(other) {
									continue
								}
								what = "is the limit of the counting loop at " + p.Pos(x.Pos())
							}
							if what == "" {
								continue
							}
							sinks = append(sinks, what)
							if !upperBounded(derived, ref.Block()) && bad == "" {
								bad = what
							}
						}
					}
					sort.Strings(sinks)
					switch {
					case bad != "":
						r.Bad(key, p.Pos(call.Pos()), fmt.Sprintf("the integer parsed here %s, and no comparison with an independent upper bound (a length, a constant, a schema limit) dominates that use: a short input holding a huge number makes the function allocate or iterate without limit", bad))
					case len(sinks) > 0:
						r.OK(key, p.Pos(call.Pos()), "bounded before it "+sinks[0])
					default:
						r.OK(key, p.Pos(call.Pos()), "the parsed value sizes no allocation and limits no counting loop in this function")
					}
				}
			}
		}
	})
}

// isLoopCounter: a phi one of whose incoming values is itself plus or minus a constant.
func isLoopCounter(v ssa.Value) bool {
	phi, ok := v.(*ssa.Phi)
	if !ok {
		return false
	}
	for _, e := range phi.Edges {
		if bo, ok := e.(*ssa.BinOp); ok && (bo.Op == token.ADD || bo.Op == token.SUB) {
			if bo.X == ssa.Value(phi) {
				if _, isC := bo.Y.(*ssa.Const); isC {
					return true
				}
			}
		}
	}
	return false
}

// upperBounded: some comparison of a derived value with a value that is neither derived nor a loop
// counter bounds it from above on the way to blk: `d > x` / `d >= x` whose true branch does not lead
// to blk, or `d < x` / `d <= x` whose true branch dominates blk (and the mirrored forms).
func upperBounded(derived map[ssa.Value]bool, blk *ssa.BasicBlock) bool {
	for d := range derived {
		if d.Referrers() == nil {
			continue
		}
		for _, ref := range *d.Referrers() {
			bo, ok := ref.(*ssa.BinOp)
			if !ok {
				continue
			}
			op := bo.Op
			other := bo.Y
			if bo.Y == d {
				other = bo.X
				switch op { // mirror: other OP d  ==  d OP' other
				case token.LSS:
					op = token.GTR
				case token.LEQ:
					op = token.GEQ
				case token.GTR:
					op = token.LSS
				case token.GEQ:
					op = token.LEQ
				}
			}
			if derived[other] || isLoopCounter(other) {
				continue
			}
			if bo.Referrers() == nil {
				continue
			}
			for _, u := range *bo.Referrers() {
				iff, ok := u.(*ssa.If)
				if !ok {
					continue
				}
				t, f := iff.Block().Succs[0], iff.Block().Succs[1]
				switch op {
				case token.GTR, token.GEQ:
					// too large -> true branch; the use must be on the other side
					if len(f.Preds) == 1 && f.Dominates(blk) {
						return true
					}
				case token.LSS, token.LEQ:
					if len(t.Preds) == 1 && t.Dominates(blk) {
						return true
					}
				}
			}
		}
	}
	return false
}

// ---------------------------------------------------------------- typed nil in an interface

// crashIfaceNil: a pointer that a call returned together with an error is nil when the error is
// not; wrapped in an interface it is a non-nil interface holding a nil pointer, which passes every
// `!= nil` test and crashes at the first method call. Wherever such a pointer is converted to an
// interface, the conversion must happen on the `err == nil` side, or the interface must not leave
// the function (return, store) on the error side.
func crashIfaceNil(r *core.Report, cs *crashScope, floor int) {
	p := r.Prog
	r.RunRule(cs.id+".ifacenil", "typed nil in an interface: a pointer result of a call that also returns an error (nil when the error is not), once converted to an interface, is returned or stored only where the error was tested nil — on the error side the function hands out an untyped nil instead", floor, func() {
		perFn := map[string]int{}
		for _, fn := range cs.funcs {
			fname := shortFn(fn)
			for _, b := range fn.Blocks {
				for _, in := range b.Instrs {
					mi, ok := in.(*ssa.MakeInterface)
					if !ok {
						continue
					}
					ex, ok := mi.X.(*ssa.Extract)
					if !ok {
						continue
					}
					if _, isPtr := ex.Type().Underlying().(*types.Pointer); !isPtr {
						continue
					}
					call, ok := ex.Tuple.(*ssa.Call)
					if !ok {
						continue
					}
					sig := call.Common().Signature()
					errIdx := -1
					for i := 0; i < sig.Results().Len(); i++ {
						if i != ex.Index && isErrorType(sig.Results().At(i).Type()) {
							errIdx = i
						}
					}
					if errIdx < 0 {
						continue
					}
					perFn[fname]++
					key := fmt.Sprintf("ifacenil:%s#%d", fname, perFn[fname])
					// the error value of the same call
					var errV ssa.Value
					if call.Referrers() != nil {
						for _, ref := range *call.Referrers() {
							if e2, ok := ref.(*ssa.Extract); ok && e2.Index == errIdx {
								errV = e2
							}
						}
					}
					// escapes of the interface value (through phis): returns and stores
					bad := ""
					seen := map[ssa.Value]bool{}
					var walk func(v, ev ssa.Value)
					walk = func(v, ev ssa.Value) {
						if seen[v] || v.Referrers() == nil || bad != "" {
							return
						}
						seen[v] = true
						for _, ref := range *v.Referrers() {
							switch x := ref.(type) {
							case *ssa.Phi:
								// the error travels in a sibling phi that takes it on the same edges
								var ev2 ssa.Value
								if ev != nil {
									for _, in2 := range x.Block().Instrs {
										e2, ok := in2.(*ssa.Phi)
										if !ok {
											break
										}
										match := e2 != x && len(e2.Edges) == len(x.Edges)
										for i := range x.Edges {
											if match && (x.Edges[i] == v) != (e2.Edges[i] == ev) {
												match = false
											}
										}
										if match {
											ev2 = e2
										}
									}
								}
								walk(x, ev2)
							case *ssa.Return, *ssa.Store, *ssa.MapUpdate:
								if st, ok := x.(*ssa.Store); ok {
									if st.Val != v {
										continue
									}
									// the argument array of a variadic call (fmt.Errorf("%v", p)) is not an escape
									if ia, ok := st.Addr.(*ssa.IndexAddr); ok {
										if _, isLocal := ia.X.(*ssa.Alloc); isLocal {
											continue
										}
									}
								}
								if ev == nil || !core.NilEdgeDominates(ev, ref.Block()) {
									what := "returned"
									if _, isRet := x.(*ssa.Return); !isRet {
										what = "stored"
									}
									bad = fmt.Sprintf("%s at %s where the error of the call has not been tested nil", what, p.Pos(ref.Pos()))
								}
							}
						}
					}
					walk(mi, errV)
					callee := "a call"
					if sc := call.Common().StaticCallee(); sc != nil {
						callee = sc.String()
					}
					if bad != "" {
						r.Bad(key, p.Pos(mi.Pos()), fmt.Sprintf("the pointer result of %s is converted to %s and %s: when the call fails the interface holds a nil pointer, is not == nil, and the first method call on it crashes", callee, mi.Type(), bad))
					} else {
						r.OK(key, p.Pos(mi.Pos()), fmt.Sprintf("the %s built from the result of %s leaves the function only where the call's error is nil", mi.Type(), callee))
					}
				}
			}
		}
	})
}

// verifyMuxMethods: every mux route registered by gorillamux.NewRouter carries a Methods(...)
// matcher built from the keys of the path item's Operations(), unconditionally (gorilla/mux treats
// an empty Methods() list as "matches nothing", but a route without the matcher matches every
// method -- and FindRoute then asks GetOperation for a method it panics on).
func verifyMuxMethods(p *core.Prog) string {
	fd := p.DeclOf("routers/gorillamux", "NewRouter")
	info := p.Pkg("routers/gorillamux").TypesInfo
	paths, withMethods := 0, 0
	why := ""
	ast.Inspect(fd.Body, func(nd ast.Node) bool {
		c, ok := nd.(*ast.CallExpr)
		if !ok {
			return true
		}
		f := core.CalleeOf(info, c)
		if f == nil || f.Pkg() == nil || !strings.HasSuffix(f.Pkg().Path(), "gorilla/mux") {
			return true
		}
		switch f.Name() {
		case "Path":
			paths++
		case "Methods":
			withMethods++
			// in the same expression as the Path call (a chain), or unconditional
			chained := false
			ast.Inspect(c.Fun, func(m ast.Node) bool {
				if c2, ok := m.(*ast.CallExpr); ok {
					if f2 := core.CalleeOf(info, c2); f2 != nil && f2.Name() == "Path" {
						chained = true
					}
				}
				return true
			})
			if !chained {
				for _, a := range core.Atoms(core.GuardsAt(info, fd.Body, c)) {
					s := core.ExprStr(a.Expr)
					if strings.Contains(s, "len(") {
						why = "the Methods matcher is added only when `" + s + "`: a path item without operations is registered for every method"
					}
				}
			}
		}
		return true
	})
	if why != "" {
		return why
	}
	if paths == 0 || withMethods < paths {
		return fmt.Sprintf("%d mux routes are registered with Path(...) but only %d get a Methods(...) matcher", paths, withMethods)
	}
	return ""
}

// producerCall: the call whose result the expression (an identifier assigned once, from a call) holds.
func producerCall(info *types.Info, ff *core.FuncFacts, e ast.Expr) *ast.CallExpr {
	id, ok := ast.Unparen(e).(*ast.Ident)
	if !ok {
		return nil
	}
	var as []core.Assign
	for _, a := range ff.Assigns(info.ObjectOf(id)) {
		if vs, isDecl := a.Stmt.(*ast.ValueSpec); isDecl && len(vs.Values) == 0 {
			continue // `var x []T`: the zero value before the one assignment
		}
		as = append(as, a)
	}
	if len(as) != 1 {
		return nil
	}
	call := as[0].Call
	if call == nil && as[0].Rhs != nil {
		call, _ = ast.Unparen(as[0].Rhs).(*ast.CallExpr)
	}
	if call == nil {
		return nil
	}
	if f := core.CalleeOf(info, call); f == nil || !core.InRepo(f.Pkg()) {
		return nil
	}
	return call
}

// pairedProducers: two functions whose results are paired by position each append to their result
// unconditionally, once per round of their scanning loop: every append to a slice that is returned
// stands under comparisons only (the scan's own tests: a byte, a position, a length), never under a
// membership test, a flag or a call. Returns "" when that holds, the offending condition otherwise.
func pairedProducers(p *core.Prog, fs ...*types.Func) string {
	for _, f := range fs {
		fd := p.Decl(f)
		if fd == nil || fd.Body == nil {
			// a thin wrapper without a body of its own cannot be judged
			return "no body for " + f.Name()
		}
		info := p.InfoFor(f.Pkg())
		// wrappers (Servers.MatchURL -> Server.MatchRawURL): follow a single delegate call
		found := false
		var bad string
		var visit func(fd *ast.FuncDecl, depth int)
		visit = func(fd *ast.FuncDecl, depth int) {
			ast.Inspect(fd.Body, func(n ast.Node) bool {
				as, ok := n.(*ast.AssignStmt)
				if ok && len(as.Rhs) == 1 {
					if c, ok := ast.Unparen(as.Rhs[0]).(*ast.CallExpr); ok {
						if id, ok := ast.Unparen(c.Fun).(*ast.Ident); ok && id.Name == "append" {
							found = true
							for _, a := range core.Atoms(core.GuardsAt(info, fd.Body, as)) {
								if be, ok := ast.Unparen(a.Expr).(*ast.BinaryExpr); ok {
									switch be.Op {
									case token.EQL, token.NEQ, token.LSS, token.LEQ, token.GTR, token.GEQ:
										continue
									}
								}
								if bad == "" {
									bad = fmt.Sprintf("%s appends under `%s`", core.FuncName(fd), core.ExprStr(a.Expr))
								}
							}
						}
					}
				}
				if c, ok := n.(*ast.CallExpr); ok && depth < 2 {
					if g := core.CalleeOf(info, c); g != nil && core.InRepo(g.Pkg()) && g != f {
						if sig, ok := g.Type().(*types.Signature); ok && sig.Results().Len() > 0 {
							if _, isSlice := sig.Results().At(0).Type().Underlying().(*types.Slice); isSlice {
								if gd := p.Decl(g); gd != nil && gd.Body != nil && p.InfoFor(g.Pkg()) == info {
									visit(gd, depth+1)
								}
							}
						}
					}
				}
				return true
			})
		}
		visit(fd, 0)
		if !found {
			return f.Name() + " has no append to judge"
		}
		if bad != "" {
			return bad
		}
	}
	return ""
}

// shiftedSearchedPosition: the identifier's only assignment is `e + strings.Index*(...)` (either
// order): -1 from the search is hidden in the sum, which is then e-1.
func shiftedSearchedPosition(info *types.Info, ff *core.FuncFacts, id *ast.Ident) (string, ast.Expr) {
	as := ff.Assigns(info.ObjectOf(id))
	if len(as) != 1 || as[0].Rhs == nil {
		return "", nil
	}
	bx, ok := ast.Unparen(as[0].Rhs).(*ast.BinaryExpr)
	if !ok || bx.Op != token.ADD {
		return "", nil
	}
	for _, pair := range [][2]ast.Expr{{bx.X, bx.Y}, {bx.Y, bx.X}} {
		if c, ok := ast.Unparen(pair[0]).(*ast.CallExpr); ok {
			if name := searchCallName(info, c); name != "" {
				return name, ast.Unparen(pair[1])
			}
		}
	}
	return "", nil
}

func exprText(e ast.Expr) string { return core.ExprStr(ast.Unparen(e)) }

func searchCallName(info *types.Info, c *ast.CallExpr) string {
	f := core.CalleeOf(info, c)
	if f == nil || f.Pkg() == nil || (f.Pkg().Path() != "strings" && f.Pkg().Path() != "bytes") {
		return ""
	}
	switch f.Name() {
	case "Index", "IndexByte", "IndexAny", "IndexRune", "LastIndex", "LastIndexByte", "LastIndexAny", "IndexFunc":
		return f.Pkg().Path() + "." + f.Name()
	}
	return ""
}

// searchedPosition: the identifier's only assignment is the result of a strings.Index* search.
func searchedPosition(info *types.Info, ff *core.FuncFacts, id *ast.Ident) string {
	as := ff.Assigns(info.ObjectOf(id))
	if len(as) != 1 || as[0].Rhs == nil {
		return ""
	}
	c, ok := ast.Unparen(as[0].Rhs).(*ast.CallExpr)
	if !ok {
		return ""
	}
	f := core.CalleeOf(info, c)
	if f == nil || f.Pkg() == nil || (f.Pkg().Path() != "strings" && f.Pkg().Path() != "bytes") {
		return ""
	}
	switch f.Name() {
	case "Index", "IndexByte", "IndexAny", "IndexRune", "LastIndex", "LastIndexByte", "LastIndexAny", "IndexFunc":
		return f.Pkg().Path() + "." + f.Name()
	}
	return ""
}
