package rules

import (
	"fmt"
	"go/token"
	"go/types"
	"sort"

	"golang.org/x/tools/go/ssa"

	"verif/internal/core"
)

// exploreCrashConstructs lists the enumerable crash constructs of the functions in reach.
func exploreCrashConstructs(p *core.Prog, reach map[*ssa.Function]bool) {
	var fns []*ssa.Function
	for fn := range reach {
		fns = append(fns, fn)
	}
	sort.Slice(fns, func(i, j int) bool { return fns[i].String() < fns[j].String() })
	fmt.Println("reachable repo functions:", len(fns))
	for _, fn := range fns {
		for _, b := range fn.Blocks {
			for _, in := range b.Instrs {
				switch x := in.(type) {
				case *ssa.Panic:
					fmt.Println("PANIC", fn.String(), p.Pos(x.Pos()))
				case *ssa.TypeAssert:
					if !x.CommaOk {
						fmt.Println("ASSERT", fn.String(), p.Pos(x.Pos()), x.AssertedType)
					}
				case *ssa.Index:
					fmt.Println("INDEX", fn.String(), p.Pos(x.Pos()), x.X.Type())
				case *ssa.IndexAddr:
					if _, isConst := x.Index.(*ssa.Const); isConst {
						if _, isAlloc := x.X.(*ssa.Alloc); !isAlloc {
							fmt.Println("INDEXADDR-CONST", fn.String(), p.Pos(x.Pos()), x.X.Type())
						}
					} else {
						fmt.Println("INDEXADDR-VAR", fn.String(), p.Pos(x.Pos()), x.X.Type())
					}
				case *ssa.Slice:
					if x.Low != nil || x.High != nil {
						if _, isAlloc := x.X.(*ssa.Alloc); !isAlloc {
							fmt.Println("SLICE", fn.String(), p.Pos(x.Pos()), x.X.Type())
						}
					}
				case *ssa.BinOp:
					if x.Op == token.QUO || x.Op == token.REM {
						fmt.Println("DIV", fn.String(), p.Pos(x.Pos()), x.X.Type())
					}
					if x.Op == token.EQL || x.Op == token.NEQ {
						if _, ok := x.X.Type().Underlying().(*types.Interface); ok {
							cx, _ := x.X.(*ssa.Const)
							cy, _ := x.Y.(*ssa.Const)
							if cx == nil && cy == nil {
								fmt.Println("IFACE-EQ", fn.String(), p.Pos(x.Pos()), x.X.Type(), x.X, x.Y)
							}
						}
					}
				case *ssa.MapUpdate:
					if mt, ok := x.Map.Type().Underlying().(*types.Map); ok {
						if _, ok := mt.Key().Underlying().(*types.Interface); ok {
							fmt.Println("IFACE-MAPKEY-UPDATE", fn.String(), p.Pos(x.Pos()), mt, x.Key)
						}
					}
				case *ssa.Lookup:
					if mt, ok := x.X.Type().Underlying().(*types.Map); ok {
						if _, ok := mt.Key().Underlying().(*types.Interface); ok {
							fmt.Println("IFACE-MAPKEY-LOOKUP", fn.String(), p.Pos(x.Pos()), mt, x.Index)
						}
					}
				case ssa.CallInstruction:
					if sc := x.Common().StaticCallee(); sc != nil && sc.Pkg != nil && !core.SSAFuncInRepo(sc) {
						n := sc.String()
						switch n {
						case "regexp.MustCompile", "math/big.NewFloat", "strings.Repeat", "(reflect.Value).Index", "(reflect.Value).Interface", "(reflect.Value).Elem", "(reflect.Value).Field", "(reflect.Value).MapIndex", "(reflect.Value).Len", "reflect.TypeOf":
							fmt.Println("LIBCALL", n, fn.String(), p.Pos(x.Pos()))
						}
					}
				}
			}
		}
	}
}
