package rules

import (
	"fmt"
	"go/ast"
	"go/token"
	"go/types"
	"sort"
	"strings"

	"golang.org/x/tools/go/ssa"

	"verif/internal/core"
)

func init() { register("C11", c11) }

// I/O primitives of the standard library that read a file or a URL.
func isIOPrimitive(f *ssa.Function) bool {
	if f == nil || f.Pkg == nil {
		return false
	}
	pkg := f.Pkg.Pkg.Path()
	name := f.Name()
	recv := ""
	if r := f.Signature.Recv(); r != nil {
		if n := core.NamedOf(r.Type()); n != nil {
			recv = n.Obj().Name()
		}
	}
	switch pkg {
	case "os":
		return recv == "" && (name == "ReadFile" || name == "Open" || name == "OpenFile" || name == "ReadDir" || name == "Stat" || name == "Lstat" || name == "Create")
	case "io/ioutil":
		return name == "ReadFile" || name == "ReadDir" || name == "ReadAll"
	case "io":
		return name == "ReadAll"
	case "net/http":
		if recv == "Client" {
			return name == "Do" || name == "Get" || name == "Post" || name == "Head" || name == "PostForm"
		}
		return recv == "" && (name == "Get" || name == "Post" || name == "Head" || name == "PostForm")
	case "net":
		return strings.HasPrefix(name, "Dial") || strings.HasPrefix(name, "Lookup")
	case "embed", "io/fs":
		return name == "ReadFile" || name == "Open"
	}
	return false
}

func c11(r *core.Report) {
	p := r.Prog
	p.BuildSSA()
	r.Assumption("a user-supplied ReadFromURIFunc is outside the repository; url.Parse/path.Join are trusted to produce the location a reader expects")
	r.Assumption("VTA call graph is sound for the loader (reflect is used only for Kind/Field/MapIndex/Set)")
	loaderT := p.NamedType("openapi3", "Loader")
	readURL := p.SSAFuncOf("openapi3", "Loader.readURL")
	allows := p.SSAFuncOf("openapi3", "Loader.allowsExternalRefs")
	resolveWithRef := p.SSAFuncOf("openapi3", "resolvePathWithRef")
	readFromURIFunc := p.NamedType("openapi3", "ReadFromURIFunc")

	// frozen who-may-do-I/O table (symbol -> reason)
	mayIO := map[string]string{
		"ReadFromHTTP$1":             "the HTTP reader behind ReadFromURIFunc",
		"ReadFromFile":               "the file reader behind ReadFromURIFunc",
		"URIMapCache$1":              "caching wrapper: delegates to the wrapped reader",
		"ReadFromURIs$1":             "reader chain: delegates to the given readers",
		"(*Loader).readURL":          "the single funnel from the loader to a reader",
		"(*Loader).LoadFromIoReader": "reads the caller-supplied reader, which is the root document",
	}
	short := func(fn *ssa.Function) string {
		s := fn.String()
		s = strings.ReplaceAll(s, core.ModPath+"/openapi3.", "")
		return s
	}

	r.RunRule("C11.funnel", "who-may-do-I/O: inside package openapi3 (and cmd/validate's use of it) only the reader functions behind ReadFromURIFunc, Loader.readURL and LoadFromIoReader call a file/network primitive of the standard library or invoke a value of type ReadFromURIFunc; every other function reaches a read only through readURL", 8, func() {
		seenIO := map[string]bool{}
		for _, fn := range p.RepoSSAFuncs() {
			top := fn
			for top.Parent() != nil {
				top = top.Parent()
			}
			if top.Package() == nil && top.Origin() != nil {
				top = top.Origin()
			}
			if top.Package() == nil || core.RelPkg(top.Package().Pkg) != "openapi3" {
				continue
			}
			k := 0
			for _, b := range fn.Blocks {
				for _, in := range b.Instrs {
					site, ok := in.(ssa.CallInstruction)
					if !ok {
						continue
					}
					c := site.Common()
					what := ""
					if sc := c.StaticCallee(); sc != nil {
						if isIOPrimitive(sc) {
							what = sc.String()
						}
						if sc.Name() == "DefaultReadFromURI" {
							what = "DefaultReadFromURI"
						}
					} else if !c.IsInvoke() {
						// dynamic call of a ReadFromURIFunc value (or of the DefaultReadFromURI variable)
						if n := core.NamedOf(c.Value.Type()); n != nil && n.Origin() == readFromURIFunc {
							what = "value of type ReadFromURIFunc"
						}
					} else if c.IsInvoke() {
						// interface method that is an I/O primitive (e.g. RoundTripper) – not used by the repo
						if m := c.Method; m != nil && m.Pkg() != nil && m.Pkg().Path() == "net/http" && (m.Name() == "RoundTrip" || m.Name() == "Do") {
							what = "net/http." + m.Name()
						}
					}
					if what == "" {
						continue
					}
					k++
					key := fmt.Sprintf("io:%s#%d", short(fn), k)
					if why, ok := mayIO[short(fn)]; ok {
						seenIO[short(fn)] = true
						r.OK(key, p.Pos(in.Pos()), what+" — allowed: "+why)
					} else {
						r.Bad(key, p.Pos(in.Pos()), fmt.Sprintf("%s performs I/O (%s) outside the reader funnel: the external-reference switch cannot guard it", short(fn), what))
					}
				}
			}
		}
		for name := range mayIO {
			if !seenIO[name] {
				r.Trivial("io-table:"+name, "-", "allowed function performs no I/O on this tree")
			}
		}
	})

	r.RunRule("C11.switch", "allowsExternalRefs returns non-nil exactly on the !IsExternalRefsAllowed edge, and the field IsExternalRefsAllowed is stored nowhere in the repository (the loader never flips its own switch)", 2, func() {
		fd := p.DeclOf("openapi3", "Loader.allowsExternalRefs")
		info := p.Pkg("openapi3").TypesInfo
		good := false
		if len(fd.Body.List) == 2 {
			if ifs, ok := fd.Body.List[0].(*ast.IfStmt); ok && ifs.Else == nil {
				if u, ok := ast.Unparen(ifs.Cond).(*ast.UnaryExpr); ok && u.Op == token.NOT {
					if f := core.FieldSel(info, u.X); f != nil && f.Name() == "IsExternalRefsAllowed" {
						if ret, ok := fd.Body.List[1].(*ast.ReturnStmt); ok && len(ret.Results) == 0 && len(ifs.Body.List) == 1 {
							if as, ok := ifs.Body.List[0].(*ast.AssignStmt); ok && len(as.Rhs) == 1 {
								na := core.NewNilAnalysis(p)
								ff := core.NewFuncFacts(p, info, fd)
								if na.Classify(ff, as.Rhs[0], as) == core.NonNil {
									good = true
								}
							}
						}
					}
				}
			}
		}
		// generic fallback: accept `if loader.IsExternalRefsAllowed { return nil }; return <non-nil>`
		if !good && len(fd.Body.List) == 2 {
			if ifs, ok := fd.Body.List[0].(*ast.IfStmt); ok && ifs.Else == nil && len(ifs.Body.List) == 1 {
				if f := core.FieldSel(info, ast.Unparen(ifs.Cond)); f != nil && f.Name() == "IsExternalRefsAllowed" {
					if r1, ok := ifs.Body.List[0].(*ast.ReturnStmt); ok && len(r1.Results) == 1 && core.IsNil(info, r1.Results[0]) {
						if r2, ok := fd.Body.List[1].(*ast.ReturnStmt); ok && len(r2.Results) == 1 {
							na := core.NewNilAnalysis(p)
							ff := core.NewFuncFacts(p, info, fd)
							good = na.Classify(ff, r2.Results[0], r2) == core.NonNil
						}
					}
				}
			}
		}
		r.Check(good, "switch:polarity", p.Pos(fd.Pos()), "error iff !IsExternalRefsAllowed", "allowsExternalRefs is not `error iff !IsExternalRefsAllowed`")
		stores := p.StoresToField(loaderT, "IsExternalRefsAllowed")
		if len(stores) == 0 {
			r.OK("switch:never-stored", "-", "no store to Loader.IsExternalRefsAllowed in the repository")
		}
		for i, s := range stores {
			// composite literals in cmd/ or constructors are stores too: only allow cmd/validate (user code)
			top := s.Parent()
			for top.Parent() != nil {
				top = top.Parent()
			}
			rel := ""
			if top.Package() != nil {
				rel = core.RelPkg(top.Package().Pkg)
			}
			key := fmt.Sprintf("switch:store#%d", i+1)
			if strings.HasPrefix(rel, "cmd/") {
				r.OK(key, p.Pos(s.Pos()), "set by the command-line tool from its flag (user of the library)")
			} else {
				r.Bad(key, p.Pos(s.Pos()), "the library writes Loader.IsExternalRefsAllowed itself")
			}
		}
	})

	r.RunRule("C11.guard", "every location passed to readURL is (a) a parameter of an exported load entry point or a literal built from one (the root), (b) a parameter passed through unchanged (re-read of a document already loaded), or (c) the result of resolvePathWithRef, the only constructor of a location from a reference — and every call of resolvePathWithRef is dominated by the `allowsExternalRefs(...) == nil` edge in its function; any other origin (url.Parse of a document string, a field of the document, a global) is a violation", 5, func() {
		cg := p.CallGraph()
		// (c) guard dominance at every resolvePathWithRef call
		nres := 0
		if n := cg.Nodes[resolveWithRef]; n != nil {
			var sites []ssa.CallInstruction
			for _, e := range n.In {
				if e.Site != nil && core.SSAFuncInRepo(e.Caller.Func) {
					sites = append(sites, e.Site)
				}
			}
			sort.Slice(sites, func(i, j int) bool { return sites[i].Pos() < sites[j].Pos() })
			for _, site := range sites {
				nres++
				fn := site.Parent()
				key := fmt.Sprintf("resolver-guarded:%s", short(fn))
				guarded := false
				for _, b := range fn.Blocks {
					for _, in := range b.Instrs {
						call, ok := in.(*ssa.Call)
						if !ok || call.Common().StaticCallee() != allows {
							continue
						}
						if core.NilEdgeDominates(call, site.Block()) {
							guarded = true
						}
					}
				}
				r.Check(guarded, key, p.Pos(site.Pos()), "dominated by allowsExternalRefs(...) == nil", "a location is built from a reference (resolvePathWithRef) without a dominating allowsExternalRefs check: with external references disallowed the result can still be read")
			}
		}
		if nres < 2 {
			core.Fail("only %d call sites of resolvePathWithRef found", nres)
		}
		// readURL argument provenance
		var sites []ssa.CallInstruction
		if n := cg.Nodes[readURL]; n != nil {
			for _, e := range n.In {
				if e.Site != nil && core.SSAFuncInRepo(e.Caller.Func) {
					sites = append(sites, e.Site)
				}
			}
		}
		sort.Slice(sites, func(i, j int) bool { return sites[i].Pos() < sites[j].Pos() })
		if len(sites) < 3 {
			core.Fail("only %d call sites of readURL found", len(sites))
		}
		isEntry := func(fn *ssa.Function) bool {
			if fn.Parent() != nil {
				return false
			}
			o := fn.Object()
			return o != nil && o.Exported() && fn.Signature.Recv() != nil && core.NamedOf(fn.Signature.Recv().Type()) != nil && core.NamedOf(fn.Signature.Recv().Type()).Origin() == loaderT
		}
		// alloc sites of url.URL accepted as origins (symbol -> reason)
		allocOK := map[string]string{
			"(*Loader).LoadFromFile":   "root location built from the entry point's own argument",
			"(*Loader).resolveRefPath": "empty URL for an in-memory document: only the fragment is set ('#' branch)",
			"copyURI":                  "copy of an admissible location",
			"join":                     "base location with the reference's path joined: called only from resolvePathWithRef (guarded)",
		}
		for i, site := range sites {
			fn := site.Parent()
			args := site.Common().Args
			if len(args) < 2 {
				r.Unknown(fmt.Sprintf("read:%s#%d", short(fn), i+1), p.Pos(site.Pos()), "unexpected readURL call shape")
				continue
			}
			origins := p.Origins(args[1], core.ProvOpts{
				StopAt:  func(c *ssa.Function) bool { return c == resolveWithRef },
				IsEntry: isEntry,
			})
			key := fmt.Sprintf("read:%s", short(fn))
			var bad []string
			var oks []string
			for _, o := range origins {
				switch o.Kind {
				case "param":
					if isEntry(o.Fn) {
						oks = append(oks, "root: "+o.String())
					} else {
						bad = append(bad, "parameter of a function with no analysable caller: "+o.String())
					}
				case "call":
					if o.Callee == resolveWithRef {
						oks = append(oks, "resolvePathWithRef in "+short(o.Fn))
					} else {
						bad = append(bad, o.String())
					}
				case "alloc":
					if why, ok := allocOK[short(o.Fn)]; ok {
						oks = append(oks, "alloc in "+short(o.Fn)+" ("+why+")")
					} else {
						bad = append(bad, "URL constructed in "+short(o.Fn))
					}
				case "const":
					// nil location
				default:
					bad = append(bad, o.String())
				}
			}
			if len(bad) > 0 {
				r.Bad(key, p.Pos(site.Pos()), "location read by readURL has an inadmissible origin: "+strings.Join(bad, "; "))
			} else {
				r.OK(key, p.Pos(site.Pos()), strings.Join(oks, "; "))
			}
		}
		// url.Parse results must not be turned into read locations except inside resolvePathWithRef:
		// covered by the origin classification above ("call" to net/url.Parse is inadmissible).
		_ = types.Typ
	})

	r.RunRule("C11.base", "a reference is read at the location it names relative to the referring document: in resolvePath, the reference is handed back untouched (its location then owes nothing to the referring document) only after looking at the host of the referring document: inside a remote document every reference without a scheme of its own — relative, absolute path, `//host/...`, `?query` — is resolved against that document's location (RFC 3986), and only a reference met in a local or in-memory document, or one with its own scheme, goes on as written", 2, func() {
		info := p.Pkg("openapi3").TypesInfo
		fd := p.DeclOf("openapi3", "resolvePath")
		if len(fd.Type.Params.List) == 0 {
			core.Fail("resolvePath has no parameters")
		}
		var comp, base types.Object
		var names []*ast.Ident
		for _, f := range fd.Type.Params.List {
			names = append(names, f.Names...)
		}
		if len(names) != 2 {
			core.Fail("resolvePath: expected (basePath, componentPath)")
		}
		base, comp = info.ObjectOf(names[0]), info.ObjectOf(names[1])
		k := 0
		ast.Inspect(fd.Body, func(nd ast.Node) bool {
			ret, ok := nd.(*ast.ReturnStmt)
			if !ok || len(ret.Results) != 1 {
				return true
			}
			id, ok := ast.Unparen(ret.Results[0]).(*ast.Ident)
			if !ok || info.ObjectOf(id) != comp {
				return true
			}
			k++
			key := fmt.Sprintf("base:resolvePath/return-as-is#%d", k)
			why := ""
			for _, a := range core.Atoms(core.GuardsAt(info, fd.Body, ret)) {
				mentionsHost := false
				ast.Inspect(a.Expr, func(m ast.Node) bool {
					if sel, ok := m.(*ast.SelectorExpr); ok && sel.Sel.Name == "Host" {
						if bid, ok := ast.Unparen(sel.X).(*ast.Ident); ok && info.ObjectOf(bid) == base {
							mentionsHost = true
						}
					}
					return true
				})
				if mentionsHost {
					why = "the referring document's host was looked at"
				}
			}
			r.Check(why != "", key, p.Pos(ret.Pos()), why, "resolvePath returns the reference as written without a scheme or host of its own and without regard to the referring document: an absolute path in a document loaded from http://host/... is read from the local file system instead of from that host")
			return true
		})
		if k == 0 {
			core.Fail("resolvePath never returns its reference parameter")
		}
		// a relative reference is joined to the base's directory and takes its own query along
		jd := p.DeclOf("openapi3", "join")
		var jn []*ast.Ident
		for _, f := range jd.Type.Params.List {
			jn = append(jn, f.Names...)
		}
		if len(jn) != 2 {
			core.Fail("join: expected (basePath, relativePath)")
		}
		rel := info.ObjectOf(jn[1])
		good := false
		ast.Inspect(jd.Body, func(nd ast.Node) bool {
			as, ok := nd.(*ast.AssignStmt)
			if !ok || len(as.Lhs) != 1 || len(as.Rhs) != 1 {
				return true
			}
			l, okL := ast.Unparen(as.Lhs[0]).(*ast.SelectorExpr)
			rr, okR := ast.Unparen(as.Rhs[0]).(*ast.SelectorExpr)
			if okL && okR && l.Sel.Name == "RawQuery" && rr.Sel.Name == "RawQuery" {
				if id, ok := ast.Unparen(rr.X).(*ast.Ident); ok && info.ObjectOf(id) == rel {
					good = true
				}
			}
			return true
		})
		r.Check(good, "base:join/query", p.Pos(jd.Pos()), "the joined location has the reference's query", "join copies the referring document's location and replaces only its path: a relative reference inside http://h/spec.yml?token=T is read at http://h/other.yml?token=T, with the base's query instead of its own")
	})
	c11Fallback(r)
}

// c11Fallback: resolveComponent re-reads a document as raw data when the typed walk fails; the
// document is the one the reference leads to.
func c11Fallback(r *core.Report) {
	p := r.Prog
	info := p.Pkg("openapi3").TypesInfo
	r.RunRule("C11.fallback", "what resolveComponent reads itself is the referred document: every argument of loader.readURL (or of any other reader) in Loader.resolveComponent is the location that resolveRefAndDocument returned for the reference (the named result componentPath), not the location of the document the reference is written in (the parameter path) — the two differ for every external reference, and reading the latter resolves `other.yml#/x-defs/X` with an object of the referring document", 1, func() {
		fd := p.DeclOf("openapi3", "Loader.resolveComponent")
		pathObj := paramAt(info, fd, 2) // (doc, ref, path, resolved): the location of the referring document
		n := 0
		ast.Inspect(fd.Body, func(nd ast.Node) bool {
			c, ok := nd.(*ast.CallExpr)
			if !ok {
				return true
			}
			callee := core.CalleeOf(info, c)
			if callee == nil {
				return true
			}
			isReader := callee.Name() == "readURL" || (callee.Pkg() != nil && (callee.Pkg().Path() == "os" && callee.Name() == "ReadFile" || callee.Pkg().Path() == "net/http" && callee.Name() == "Get"))
			if !isReader || len(c.Args) == 0 {
				return true
			}
			n++
			key := fmt.Sprintf("fallback:resolveComponent/read#%d", n)
			id := core.RootIdent(c.Args[len(c.Args)-1])
			bad := id != nil && pathObj != nil && info.ObjectOf(id) == pathObj
			r.Check(!bad, key, p.Pos(c.Pos()), "reads the location the reference resolved to", "resolveComponent reads `"+core.ExprStr(c.Args[len(c.Args)-1])+"`, the location of the document the reference is written in: for an external reference whose fragment is not found by the typed walk, the raw fallback then drills into the referring document and resolves the reference with one of its objects (and a relative reference inside is read from the wrong directory)")
			return true
		})
		if n == 0 {
			core.Fail("resolveComponent: no read found (the raw re-read fallback expected)")
		}
	})
}
