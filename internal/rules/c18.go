package rules

import (
	"fmt"
	"go/ast"
	"go/constant"
	"go/token"
	"go/types"
	"golang.org/x/tools/go/ssa"
	"math"
	"math/big"
	"sort"
	"strings"

	"verif/internal/core"
)

func init() { register("C18", c18) }

func c18(r *core.Report) {
	r.Assumption("claim: the table of the generator's kind switch is sound against what encoding/json emits (JSON type per Go kind, numeric bounds that contain the kind's range, formats that fit it, byte slices recognised by element kind), nullability from stripped pointers is never cleared afterwards, and the recursion over Go types is cut by the parent chain with every cycle turned into a component reference that is registered; that a JSON name shared by several fields is resolved by comparing names and nesting depths (the rest of field discovery equivalence with encoding/json: tag parsing, omitempty, the tie rules), the '...Ref' heuristic, customiser effects and the schemas of nested values are not decided")
	c18Kinds(r)
	c18Nullable(r)
	c18Rec(r)
	c18Dominance(r)
	c18PtrNull(r)
	c18Order(r)
	c18CycleRec(r)
	c18StringOption(r)
	c18Embedded(r)
	c18OptionVerbatim(r)
}

// c18Embedded: two loops that must see every element.
func c18Embedded(r *core.Report) {
	p := r.Prog
	info := p.Pkg("openapi3gen").TypesInfo
	r.RunRule("C18.embedded", "embedded structs are descended into whatever their name: in appendFields no `continue` that depends on the field being exported (IsExported, PkgPath, the case of the first rune) stands before the recursive call that collects the fields of an embedded struct — encoding/json promotes the exported fields of an embedded struct whose type name is unexported; and the loop of NewSchemaRefForValue that exports cycle components and then rewrites each reference (drops Value behind a component reference, or the stale Ref) has no `continue`: a reference that skips the rewrite keeps a bare type name as its $ref", 2, func() {
		fd := p.DeclOf("openapi3gen", "appendFields")
		self := token.NoPos
		ast.Inspect(fd.Body, func(nd ast.Node) bool {
			if c, ok := nd.(*ast.CallExpr); ok {
				if f := core.CalleeOf(info, c); f != nil && f.Name() == "appendFields" && self == token.NoPos {
					self = c.Pos()
				}
			}
			return true
		})
		if self == token.NoPos {
			core.Fail("appendFields does not call itself")
		}
		bad := ""
		ast.Inspect(fd.Body, func(nd ast.Node) bool {
			br, ok := nd.(*ast.BranchStmt)
			if !ok || br.Tok != token.CONTINUE || br.Pos() > self {
				return true
			}
			// the condition of the if statement the continue stands in
			var inner *ast.IfStmt
			for _, anc := range core.PathTo(fd.Body, br) {
				if ifs, ok := anc.(*ast.IfStmt); ok {
					inner = ifs
				}
			}
			if inner != nil && bad == "" {
				s := core.ExprStr(inner.Cond)
				if strings.Contains(s, "IsExported") || strings.Contains(s, "PkgPath") || strings.Contains(s, "IsLower") || strings.Contains(s, "IsUpper") {
					bad = fmt.Sprintf("`continue` at %s under `%s`", p.Pos(br.Pos()), s)
				}
			}
			return true
		})
		r.Check(bad == "", "embedded:appendFields", p.Pos(fd.Pos()), "no exportedness test before the descent into embedded structs", "appendFields skips unexported fields before it looks whether the field is an embedded struct ("+bad+"): the exported fields of an embedded struct with an unexported type name, which encoding/json writes, are missing from the schema and from the resolution of shared JSON names")

		// the descent into embedded structs ends: the type at hand is compared with the types that led here
		guarded := false
		ast.Inspect(fd.Body, func(m ast.Node) bool {
			rs, ok := m.(*ast.RangeStmt)
			if !ok || rs.Pos() > self {
				return true
			}
			id, ok := ast.Unparen(rs.X).(*ast.Ident)
			if !ok || core.ParamObj(info, fd, id.Name) != info.ObjectOf(id) {
				return true
			}
			ast.Inspect(rs.Body, func(k ast.Node) bool {
				if ifs, ok := k.(*ast.IfStmt); ok {
					if be, ok := ast.Unparen(ifs.Cond).(*ast.BinaryExpr); ok && be.Op == token.EQL && core.Terminates(info, ifs.Body.List) {
						guarded = true
					}
				}
				return true
			})
			return true
		})
		r.Check(guarded, "embedded:appendFields/cycle", p.Pos(fd.Pos()), "the embedding chain is checked before descending", "appendFields descends into embedded structs without comparing the type at hand with the types that led to it: a struct that embeds a pointer to itself (`type S struct{ *S; V int }`, which encoding/json handles) is descended into until the stack overflows")
		caseTest := ""
		ast.Inspect(fd.Body, func(m ast.Node) bool {
			if c, ok := m.(*ast.CallExpr); ok {
				if f := core.CalleeOf(info, c); f != nil && f.Pkg() != nil && f.Pkg().Path() == "unicode" && (f.Name() == "IsLower" || f.Name() == "IsUpper") {
					caseTest = p.Pos(c.Pos())
				}
			}
			return true
		})
		r.Check(caseTest == "", "embedded:appendFields/exported", p.Pos(fd.Pos()), "exportedness is asked of the field, not guessed from its first letter", "appendFields decides that a field is private by the case of its first rune ("+caseTest+"): `_x` is unexported and starts with no lower-case letter, so it is collected, hides a promoted field of the same JSON name and imposes its type, while encoding/json ignores it")

		nd := p.DeclOf("openapi3gen", "Generator.NewSchemaRefForValue")
		var loop *ast.RangeStmt
		ast.Inspect(nd.Body, func(m ast.Node) bool {
			if rs, ok := m.(*ast.RangeStmt); ok && loop == nil {
				if f := core.FieldSel(info, rs.X); f != nil && f.Name() == "SchemaRefs" {
					loop = rs
				}
			}
			return true
		})
		if loop == nil {
			core.Fail("NewSchemaRefForValue: no loop over SchemaRefs")
		}
		skip := ""
		ast.Inspect(loop.Body, func(m ast.Node) bool {
			if br, ok := m.(*ast.BranchStmt); ok && (br.Tok == token.CONTINUE || br.Tok == token.BREAK) && skip == "" {
				skip = p.Pos(br.Pos())
			}
			return true
		})
		r.Check(skip == "", "embedded:exportloop", p.Pos(loop.Pos()), "every reference reaches the rewrite at the end of the round", "the loop of NewSchemaRefForValue over the generated references leaves a round early ("+skip+"): the reference of that round keeps both its Value and a Ref that is a bare type name, which serialises as a $ref that resolves nowhere")
	})
}

// kind ranges: what encoding/json can emit for a value of the kind (as numbers).
type kindRange struct {
	json     string
	min, max *big.Float // nil: unbounded on that side for the purposes of the schema
}

func bf(x float64) *big.Float { return big.NewFloat(x) }

func c18KindTable() map[string]kindRange {
	u64 := new(big.Float).SetUint64(math.MaxUint64)
	return map[string]kindRange{
		"Bool":    {json: "boolean"},
		"Int":     {"integer", bf(math.MinInt64), bf(math.MaxInt64)}, // the widest int the code may run with
		"Int8":    {"integer", bf(math.MinInt8), bf(math.MaxInt8)},
		"Int16":   {"integer", bf(math.MinInt16), bf(math.MaxInt16)},
		"Int32":   {"integer", bf(math.MinInt32), bf(math.MaxInt32)},
		"Int64":   {"integer", bf(math.MinInt64), bf(math.MaxInt64)},
		"Uint":    {"integer", bf(0), u64},
		"Uint8":   {"integer", bf(0), bf(math.MaxUint8)},
		"Uint16":  {"integer", bf(0), bf(math.MaxUint16)},
		"Uint32":  {"integer", bf(0), bf(math.MaxUint32)},
		"Uint64":  {"integer", bf(0), u64},
		"Uintptr": {"integer", bf(0), u64},
		"Float32": {"number", bf(-math.MaxFloat32), bf(math.MaxFloat32)},
		"Float64": {"number", bf(-math.MaxFloat64), bf(math.MaxFloat64)},
		"String":  {json: "string"},
	}
}

// formats with a numeric range the validator enforces
var c18FormatRange = map[string][2]float64{
	"int32": {math.MinInt32, math.MaxInt32},
	"int64": {math.MinInt64, math.MaxInt64},
}

func c18Kinds(r *core.Report) {
	p := r.Prog
	info := p.Pkg("openapi3gen").TypesInfo
	r.RunRule("C18.kinds", "the kind switch of generateWithoutSaving is sound against encoding/json: for every case of a scalar reflect.Kind the generated `type` is the JSON type the encoder emits for that kind, a minimum is not above and a maximum not below the kind's range (bounds read from the initialisers of the package variables the case points at, ranges from the math constants), and a `format` with an enforced range (int32, int64) contains the kind's range; every scalar kind of the table has a case; byte slices are recognised by the element kind (t.Elem().Kind() == reflect.Uint8, which is what the encoder tests), not by type identity", 20, func() {
		fd := p.DeclOf("openapi3gen", "Generator.generateWithoutSaving")
		table := c18KindTable()
		seen := map[string]bool{}
		var sliceClause *ast.CaseClause
		// the switch over the kind of the type being generated (a parameter of the function), not
		// any other switch over kinds (the ,string option looks at the kind of a field's type)
		ownClause := map[*ast.CaseClause]bool{}
		ast.Inspect(fd.Body, func(n ast.Node) bool {
			sw, ok := n.(*ast.SwitchStmt)
			if !ok || sw.Tag == nil {
				return true
			}
			if c, ok := ast.Unparen(sw.Tag).(*ast.CallExpr); ok {
				if sel, ok := ast.Unparen(c.Fun).(*ast.SelectorExpr); ok && sel.Sel.Name == "Kind" {
					if id, ok := ast.Unparen(sel.X).(*ast.Ident); ok && core.ParamObj(info, fd, id.Name) == info.ObjectOf(id) {
						for _, cl := range sw.Body.List {
							if cc, ok := cl.(*ast.CaseClause); ok {
								ownClause[cc] = true
							}
						}
					}
				}
			}
			return true
		})
		if len(ownClause) == 0 {
			core.Fail("generateWithoutSaving: no switch over the Kind() of a parameter")
		}
		ast.Inspect(fd.Body, func(n ast.Node) bool {
			cc, ok := n.(*ast.CaseClause)
			if !ok || !ownClause[cc] {
				return true
			}
			var kinds []string
			for _, e := range cc.List {
				if sel, ok := ast.Unparen(e).(*ast.SelectorExpr); ok {
					if c, ok := info.Uses[sel.Sel].(*types.Const); ok && c.Pkg() != nil && c.Pkg().Path() == "reflect" {
						kinds = append(kinds, c.Name())
					}
				}
			}
			if len(kinds) == 0 {
				return true
			}
			for _, k := range kinds {
				if k == "Slice" {
					sliceClause = cc
				}
			}
			// assignments in the clause body (top level)
			typ, format := "", ""
			var minV, maxV *big.Float
			for _, st := range cc.Body {
				as, ok := st.(*ast.AssignStmt)
				if !ok || len(as.Lhs) != 1 || len(as.Rhs) != 1 {
					continue
				}
				sel, ok := ast.Unparen(as.Lhs[0]).(*ast.SelectorExpr)
				if !ok {
					continue
				}
				switch sel.Sel.Name {
				case "Type":
					ast.Inspect(as.Rhs[0], func(m ast.Node) bool {
						if bl, ok := m.(*ast.BasicLit); ok && bl.Kind == token.STRING {
							typ = strings.Trim(bl.Value, `"`)
						}
						return true
					})
				case "Format":
					if s, ok := strConst(info, as.Rhs[0]); ok {
						format = s
					}
				case "Min", "Max":
					v := globalFloat(p, info, as.Rhs[0])
					if sel.Sel.Name == "Min" {
						minV = v
					} else {
						maxV = v
					}
					if v == nil {
						for _, k := range kinds {
							r.Unknown("kinds:"+k+"/"+strings.ToLower(sel.Sel.Name), p.Pos(as.Pos()), "the bound is not the address of a package variable with a constant initialiser")
						}
					}
				}
			}
			for _, k := range kinds {
				row, ok := table[k]
				if !ok {
					continue
				}
				seen[k] = true
				pos := p.Pos(cc.Pos())
				r.Check(typ == row.json, "kinds:"+k+"/type", pos, "type "+row.json, fmt.Sprintf("reflect.%s is given type %q, encoding/json emits a %s: every value of such a field is rejected", k, typ, row.json))
				if minV != nil && row.min != nil {
					r.Check(minV.Cmp(row.min) <= 0, "kinds:"+k+"/min", pos, "minimum does not cut the kind's range", fmt.Sprintf("reflect.%s gets minimum %s, the smallest value of the kind is %s: valid values are rejected", k, minV.Text('g', 20), row.min.Text('g', 20)))
				}
				if maxV != nil && row.max != nil {
					r.Check(maxV.Cmp(row.max) >= 0, "kinds:"+k+"/max", pos, "maximum does not cut the kind's range", fmt.Sprintf("reflect.%s gets maximum %s, the largest value of the kind is %s: valid values are rejected", k, maxV.Text('g', 20), row.max.Text('g', 20)))
				}
				if fr, ok := c18FormatRange[format]; ok && row.min != nil {
					okF := bf(fr[0]).Cmp(row.min) <= 0 && bf(fr[1]).Cmp(row.max) >= 0
					r.Check(okF, "kinds:"+k+"/format", pos, "format "+format+" contains the kind's range", fmt.Sprintf("reflect.%s gets format %s, whose range does not contain the kind's: valid values are rejected", k, format))
				}
			}
			return true
		})
		var ks []string
		for k := range table {
			ks = append(ks, k)
		}
		sort.Strings(ks)
		for _, k := range ks {
			if !seen[k] && k != "Uintptr" {
				r.Bad("kinds:"+k+"/type", p.Pos(fd.Pos()), "no case for reflect."+k+": the field gets an empty schema (sound) — but the table was confirmed with a case for it")
			}
		}
		// byte slices by element kind
		if sliceClause == nil {
			r.Bad("kinds:Slice/bytes", p.Pos(fd.Pos()), "no case for reflect.Slice")
			return
		}
		var byteAssign ast.Node
		for _, st := range sliceClause.Body {
			ast.Inspect(st, func(m ast.Node) bool {
				if as, ok := m.(*ast.AssignStmt); ok && len(as.Lhs) == 1 && len(as.Rhs) == 1 {
					if sel, ok := ast.Unparen(as.Lhs[0]).(*ast.SelectorExpr); ok && sel.Sel.Name == "Format" {
						if s, ok := strConst(info, as.Rhs[0]); ok && s == "byte" {
							byteAssign = as
						}
					}
				}
				return true
			})
		}
		if byteAssign == nil {
			r.Bad("kinds:Slice/bytes", p.Pos(sliceClause.Pos()), "byte slices are no longer given type string / format byte (encoding/json writes them as base64 strings)")
			return
		}
		byKind := false
		for _, a := range core.Atoms(core.GuardsAt(info, fd.Body, byteAssign)) {
			if a.Pos && strings.HasSuffix(core.ExprStr(a.Expr), ".Elem().Kind() == reflect.Uint8") {
				byKind = true
			}
		}
		r.Check(byKind, "kinds:Slice/bytes", p.Pos(byteAssign.Pos()), "byte slices recognised by element kind", "the string/byte schema is not selected by `t.Elem().Kind() == reflect.Uint8`: named byte-slice types and slices of named byte types, which encoding/json also writes as base64 strings, get an array-of-integers schema")
	})
}

// globalFloat: e is &v (or v) for a package-level variable v whose initialiser is a constant expression.
func globalFloat(p *core.Prog, info *types.Info, e ast.Expr) *big.Float {
	e = ast.Unparen(e)
	if u, ok := e.(*ast.UnaryExpr); ok && u.Op == token.AND {
		e = ast.Unparen(u.X)
	}
	id, ok := e.(*ast.Ident)
	if !ok {
		return nil
	}
	gv, ok := info.ObjectOf(id).(*types.Var)
	if !ok {
		return nil
	}
	init := p.GlobalInitAddr(gv)
	if init == nil {
		return nil
	}
	pk := p.Pkgs[gv.Pkg().Path()]
	if pk == nil {
		return nil
	}
	tv, ok := pk.TypesInfo.Types[init]
	if !ok || tv.Value == nil {
		return nil
	}
	f := new(big.Float).SetPrec(200)
	switch tv.Value.Kind() {
	case constant.Int, constant.Float:
		if _, ok := f.SetString(tv.Value.ExactString()); !ok {
			// rationals print as a/b
			parts := strings.Split(tv.Value.ExactString(), "/")
			if len(parts) == 2 {
				a, _ := new(big.Float).SetPrec(200).SetString(parts[0])
				b, _ := new(big.Float).SetPrec(200).SetString(parts[1])
				if a != nil && b != nil {
					return new(big.Float).Quo(a, b)
				}
			}
			return nil
		}
		return f
	}
	return nil
}

func c18Nullable(r *core.Report) {
	p := r.Prog
	info := p.Pkg("openapi3gen").TypesInfo
	r.RunRule("C18.nullable", "nullability comes from stripped pointers and is never cleared: in package openapi3gen every assignment to a Schema's Nullable stores the flag computed while stripping pointer levels from the type (the variable set in the `for t.Kind() == reflect.Ptr` loop), on the schema being built; a later `x.Nullable = false` (on a memoised, shared schema in particular) makes every other use of that pointer type reject null", 1, func() {
		n := 0
		for _, d := range p.AllDecls("openapi3gen") {
			ff := core.NewFuncFacts(p, info, d)
			perFn := 0
			ast.Inspect(d.Body, func(nd ast.Node) bool {
				as, ok := nd.(*ast.AssignStmt)
				if !ok {
					return true
				}
				for i, l := range as.Lhs {
					sel, ok := ast.Unparen(l).(*ast.SelectorExpr)
					if !ok || sel.Sel.Name != "Nullable" {
						continue
					}
					if on := core.NamedOf(info.TypeOf(sel.X)); on == nil || on.Obj().Name() != "Schema" {
						continue
					}
					n++
					perFn++
					key := fmt.Sprintf("nullable:%s#%d", core.FuncName(d), perFn)
					if i >= len(as.Rhs) {
						r.Unknown(key, p.Pos(as.Pos()), "multi-value assignment")
						continue
					}
					rhs := ast.Unparen(as.Rhs[i])
					okR := false
					if id, ok := rhs.(*ast.Ident); ok {
						// the variable is assigned inside a loop whose condition tests reflect.Ptr
						for _, a := range ff.Assigns(info.ObjectOf(id)) {
							for _, anc := range core.PathTo(d.Body, a.Stmt) {
								if fs, ok := anc.(*ast.ForStmt); ok && fs.Cond != nil && strings.Contains(core.ExprStr(fs.Cond), "reflect.Ptr") {
									okR = true
								}
							}
						}
					}
					if c, ok := constBool(info, rhs); ok && c {
						okR = true
					}
					// `T.Kind() == reflect.Ptr` on the type at hand: the pointer level itself
					if be, ok := rhs.(*ast.BinaryExpr); ok && be.Op == token.EQL && strings.HasSuffix(core.ExprStr(be.X), ".Kind()") && core.ExprStr(be.Y) == "reflect.Ptr" {
						okR = true
					}
					if okR {
						// what the flag itself is computed from: the depth of the parent chain, never the
						// property name (containers hand their own name down to their elements)
						if id, ok := rhs.(*ast.Ident); ok {
							rs := ff.Roots(id, false)
							usesName := false
							for o := range rs.Objs {
								if v, isVar := o.(*types.Var); isVar {
									if b, isB := v.Type().Underlying().(*types.Basic); isB && b.Kind() == types.String && isParamOf(d, info, o) {
										usesName = true
									}
								}
							}
							if usesName {
								r.Bad(key, p.Pos(as.Pos()), fmt.Sprintf("the nullable flag %s depends on the name handed to %s: slices and maps pass their own name on to their elements, so a pointer element of a top-level slice or map is taken for the root and loses its nullability", id.Name, core.FuncName(d)))
								continue
							}
						}
					}
					r.Check(okR, key, p.Pos(as.Pos()), "set from the stripped-pointer flag", fmt.Sprintf("%s assigns %s to a schema's Nullable: not the flag computed from the pointer levels of the type, so a pointer somewhere loses (or a shared schema changes) its nullability", core.FuncName(d), core.ExprStr(rhs)))
				}
				return true
			})
		}
		if n == 0 {
			core.Fail("no assignment to Schema.Nullable found in openapi3gen")
		}
	})
}

func constBool(info *types.Info, e ast.Expr) (bool, bool) {
	if tv, ok := info.Types[e]; ok && tv.Value != nil && tv.Value.Kind() == constant.Bool {
		return constant.BoolVal(tv.Value), true
	}
	return false, false
}

func c18Rec(r *core.Report) {
	p := r.Prog
	info := p.Pkg("openapi3gen").TypesInfo
	r.RunRule("C18.rec", "schemas of recursive types are finite and their references resolve: generateWithoutSaving returns a CycleError when the type is already on the parent chain, before it recurses, and pushes the type on the chain it passes down; every place that receives an error from the recursive generation either returns it or, for a CycleError, substitutes generateCycleSchemaRef(...), whose component name is recorded in componentSchemaRefs (the set NewSchemaRefForValue uses to fill the caller's component map)", 8, func() {
		fd := p.DeclOf("openapi3gen", "Generator.generateWithoutSaving")
		// (a) entry guard
		guard := false
		var guardEnd token.Pos
		for _, st := range fd.Body.List {
			rs, ok := st.(*ast.RangeStmt)
			if !ok || core.ExprStr(rs.X) != "parents" {
				continue
			}
			ast.Inspect(rs.Body, func(n ast.Node) bool {
				if ret, ok := n.(*ast.ReturnStmt); ok && len(ret.Results) == 2 && strings.Contains(core.ExprStr(ret.Results[1]), "CycleError") {
					guard = true
					guardEnd = rs.End()
				}
				return true
			})
		}
		r.Check(guard, "rec:entry-guard", p.Pos(fd.Pos()), "the parent chain is scanned first", "generateWithoutSaving no longer returns a CycleError when the type is already on the parent chain: a self-referential type recurses until the stack overflows")
		// (b) push on the chain before recursing, and every recursive call passes the chain
		pushed := false
		var pushPos token.Pos
		ast.Inspect(fd.Body, func(n ast.Node) bool {
			if as, ok := n.(*ast.AssignStmt); ok && len(as.Lhs) == 1 && len(as.Rhs) == 1 && core.ExprStr(as.Lhs[0]) == "parents" {
				if c, ok := ast.Unparen(as.Rhs[0]).(*ast.CallExpr); ok && core.IsBuiltin(info, c, "append") && len(c.Args) == 2 && core.ExprStr(c.Args[0]) == "parents" && core.ExprStr(c.Args[1]) == "typeInfo" {
					pushed = true
					pushPos = as.Pos()
				}
			}
			return true
		})
		r.Check(pushed && (!guard || pushPos > guardEnd), "rec:push", p.Pos(fd.Pos()), "the type is pushed on the chain after the scan", "the type being generated is not appended to the parent chain after the cycle scan: cycles are not seen")
		nCalls := 0
		perKind := 0
		ast.Inspect(fd.Body, func(n ast.Node) bool {
			c, ok := n.(*ast.CallExpr)
			if !ok {
				return true
			}
			callee := core.CalleeOf(info, c)
			if callee == nil || callee.Name() != "generateSchemaRefFor" {
				return true
			}
			nCalls++
			perKind++
			key := fmt.Sprintf("rec:call#%d", perKind)
			okArgs := len(c.Args) >= 1 && core.ExprStr(c.Args[0]) == "parents" && (!pushed || c.Pos() > pushPos)
			if !okArgs {
				r.Bad(key, p.Pos(c.Pos()), "a recursive generation does not receive the parent chain (or runs before the type is pushed on it)")
				return true
			}
			// (c) the error of this call: returned, or CycleError replaced by generateCycleSchemaRef
			path := core.PathTo(fd.Body, c)
			var as *ast.AssignStmt
			for i := len(path) - 1; i >= 0; i-- {
				if a, ok := path[i].(*ast.AssignStmt); ok {
					as = a
					break
				}
			}
			handled := false
			if as != nil && len(as.Lhs) == 2 {
				list, idx := listOf(fd.Body, as)
				if idx >= 0 && idx+1 < len(list) {
					if ifs, ok := list[idx+1].(*ast.IfStmt); ok && strings.Contains(core.ExprStr(ifs.Cond), "err != nil") {
						body := core.ExprStr(ifs.Cond)
						_ = body
						hasCycle, hasReturn := false, false
						ast.Inspect(ifs, func(m ast.Node) bool {
							if cc, ok := m.(*ast.CallExpr); ok {
								if cal := core.CalleeOf(info, cc); cal != nil && cal.Name() == "generateCycleSchemaRef" {
									hasCycle = true
								}
							}
							if ret, ok := m.(*ast.ReturnStmt); ok && len(ret.Results) == 2 && core.ExprStr(ret.Results[1]) == "err" {
								hasReturn = true
							}
							return true
						})
						handled = hasReturn
						_ = hasCycle
					}
				}
			}
			r.Check(handled, key, p.Pos(c.Pos()), "error returned, cycles replaced by a component reference", "the error of a recursive generation is neither returned nor, for a cycle, replaced by generateCycleSchemaRef: the cycle is lost or the schema is left without the reference")
			return true
		})
		if nCalls < 4 {
			core.Fail("only %d recursive generateSchemaRefFor calls found", nCalls)
		}
		// (d) generateCycleSchemaRef registers the component name it references
		gc := p.DeclOf("openapi3gen", "Generator.generateCycleSchemaRef")
		reg := false
		ast.Inspect(gc.Body, func(n ast.Node) bool {
			if as, ok := n.(*ast.AssignStmt); ok && len(as.Lhs) == 1 {
				if ix, ok := ast.Unparen(as.Lhs[0]).(*ast.IndexExpr); ok && strings.HasSuffix(core.ExprStr(ix.X), ".componentSchemaRefs") && core.ExprStr(ix.Index) == "typeName" {
					reg = true
				}
			}
			return true
		})
		refOK := false
		forEachReturnStmt(gc.Body, func(ret *ast.ReturnStmt) {
			if len(ret.Results) == 1 && strings.Contains(core.ExprStr(ret.Results[0]), `"#/components/schemas/%s", typeName`) {
				refOK = true
			}
		})
		r.Check(reg && refOK, "rec:cycle-ref-registered", p.Pos(gc.Pos()), "the referenced component name is recorded", "generateCycleSchemaRef returns a '#/components/schemas/<name>' reference without recording <name> in componentSchemaRefs: the reference does not resolve in the component map given to the caller")
	})
}

func isParamOf(d *ast.FuncDecl, info *types.Info, o types.Object) bool {
	for _, fl := range d.Type.Params.List {
		for _, nm := range fl.Names {
			if info.Defs[nm] == o {
				return true
			}
		}
	}
	return false
}

// ---------------------------------------------------------------- dominance

// c18Dominance: a JSON name shared by several (embedded) fields is resolved the way encoding/json
// resolves it. Structural necessary conditions, decided on code reachable from the package's
// exported API: (names) somewhere two collected fields' JSON names are compared, or a collected
// field's JSON name is looked up in a map, -- without it the last field written under a name wins,
// whatever its nesting; (depth) somewhere the nesting depths (lengths of the index paths) of two
// collected fields are compared -- without it the resolution cannot prefer the least nested field.
func c18Dominance(r *core.Report) {
	p := r.Prog
	pkg := p.Pkg("openapi3gen")
	info := pkg.TypesInfo
	r.RunRule("C18.dominance", "fields collected for a struct that share a JSON name are resolved by nesting depth, as encoding/json does (an outer field shadows a promoted one): reachable from the exported API there is an equality test of the JSON names of two collected fields in a function that returns the list (or a map membership test by JSON name), and an ordering comparison (<, >) of the lengths of two collected fields' index paths", 2, func() {
		// the field-info type: element type of the slice returned by the function that reads the "json" struct tag
		var fieldInfo *types.Named
		for _, d := range p.AllDecls("openapi3gen") {
			readsTag := false
			ast.Inspect(d.Body, func(n ast.Node) bool {
				if c, ok := n.(*ast.CallExpr); ok && len(c.Args) == 1 {
					if f := core.CalleeOf(info, c); f != nil && f.FullName() == "(reflect.StructTag).Get" {
						if s, ok := strConst(info, c.Args[0]); ok && s == "json" {
							readsTag = true
						}
					}
				}
				return true
			})
			if !readsTag || d.Type.Results == nil {
				continue
			}
			for _, res := range d.Type.Results.List {
				if sl, ok := info.TypeOf(res.Type).Underlying().(*types.Slice); ok {
					if n := core.NamedOf(sl.Elem()); n != nil && core.InRepo(n.Obj().Pkg()) {
						fieldInfo = n
					}
				}
			}
		}
		if fieldInfo == nil {
			core.Fail("the function that reads the json struct tag and returns the list of collected fields was not found in openapi3gen")
		}
		st := core.StructOf(fieldInfo)
		var nameF, indexF *types.Var
		for i := 0; i < st.NumFields(); i++ {
			f := st.Field(i)
			if b, ok := f.Type().Underlying().(*types.Basic); ok && b.Kind() == types.String {
				if nameF != nil {
					core.Fail("%s has several string fields: cannot tell which holds the JSON name", fieldInfo.Obj().Name())
				}
				nameF = f
			}
			if sl, ok := f.Type().Underlying().(*types.Slice); ok {
				if b, ok := sl.Elem().Underlying().(*types.Basic); ok && b.Kind() == types.Int {
					if indexF != nil {
						core.Fail("%s has several []int fields: cannot tell which holds the index path", fieldInfo.Obj().Name())
					}
					indexF = f
				}
			}
		}
		if nameF == nil || indexF == nil {
			core.Fail("%s lacks a JSON-name string field or an index-path []int field", fieldInfo.Obj().Name())
		}
		// reachability from the exported API
		p.BuildSSA()
		var entries []*ssa.Function
		for _, fn := range allFuncsOf(p.SSAPkg("openapi3gen")) {
			if fn.Object() != nil && fn.Object().Exported() {
				entries = append(entries, fn)
			}
		}
		reach := p.Reachable(entries)
		reachDecl := func(d *ast.FuncDecl) bool {
			o, _ := info.Defs[d.Name].(*types.Func)
			if o == nil {
				return false
			}
			fn := p.SSAFunc(o)
			return fn != nil && reach[fn]
		}
		// selOf: e is <T value>.<field>; returns the base expression text
		selOf := func(e ast.Expr, fld *types.Var) (string, bool) {
			sel, ok := ast.Unparen(e).(*ast.SelectorExpr)
			if !ok || info.ObjectOf(sel.Sel) != types.Object(fld) {
				return "", false
			}
			return core.ExprStr(sel.X), true
		}
		lenOfIndex := func(e ast.Expr) (string, bool) {
			c, ok := ast.Unparen(e).(*ast.CallExpr)
			if !ok || len(c.Args) != 1 {
				return "", false
			}
			if id, ok := c.Fun.(*ast.Ident); !ok || id.Name != "len" {
				return "", false
			}
			return selOf(c.Args[0], indexF)
		}
		// a name comparison resolves shared names only where fields can be dropped: in a function that
		// hands a list of collected fields back (a sort's Less compares names too, but only orders)
		returnsList := func(d *ast.FuncDecl) bool {
			if d.Type.Results == nil {
				return false
			}
			for _, res := range d.Type.Results.List {
				if sl, ok := info.TypeOf(res.Type).Underlying().(*types.Slice); ok && types.Identical(sl.Elem(), fieldInfo) {
					return true
				}
			}
			return false
		}
		// local variables that hold a collected field's name / depth (one assignment step)
		var nameSite, depthSite, nameUnreach, depthUnreach string
		for _, d := range p.AllDecls("openapi3gen") {
			ff := core.NewFuncFacts(p, info, d)
			resolve := func(e ast.Expr, f func(ast.Expr) (string, bool)) (string, bool) {
				if b, ok := f(e); ok {
					return b, true
				}
				if id, ok := ast.Unparen(e).(*ast.Ident); ok {
					if as := ff.Assigns(info.ObjectOf(id)); len(as) == 1 && as[0].Rhs != nil {
						return f(as[0].Rhs)
					}
				}
				return "", false
			}
			isName := func(e ast.Expr) (string, bool) { return selOf(e, nameF) }
			ast.Inspect(d.Body, func(n ast.Node) bool {
				switch x := n.(type) {
				case *ast.BinaryExpr:
					switch x.Op {
					case token.EQL, token.NEQ, token.LSS, token.GTR, token.LEQ, token.GEQ:
					default:
						return true
					}
					if a, ok := resolve(x.X, isName); ok && (x.Op == token.EQL || x.Op == token.NEQ) && returnsList(d) {
						if b, ok := resolve(x.Y, isName); ok && a != b {
							if reachDecl(d) {
								nameSite = p.Pos(x.Pos()) + " (" + core.ExprStr(x) + ")"
							} else {
								nameUnreach = p.Pos(x.Pos())
							}
						}
					}
					if a, ok := resolve(x.X, lenOfIndex); ok && x.Op != token.EQL && x.Op != token.NEQ {
						if b, ok := resolve(x.Y, lenOfIndex); ok && a != b {
							if reachDecl(d) {
								depthSite = p.Pos(x.Pos()) + " (" + core.ExprStr(x) + ")"
							} else {
								depthUnreach = p.Pos(x.Pos())
							}
						}
					}
				case *ast.IndexExpr:
					// m[f.JSONName] as a membership test (comma-ok assignment or if-init)
					if _, ok := info.TypeOf(x.X).Underlying().(*types.Map); !ok {
						return true
					}
					if _, ok := resolve(x.Index, isName); !ok {
						return true
					}
					if tv, ok := info.Types[x]; ok {
						if _, isTuple := tv.Type.(*types.Tuple); isTuple && reachDecl(d) {
							nameSite = p.Pos(x.Pos()) + " (lookup " + core.ExprStr(x) + ")"
						}
					}
				}
				return true
			})
		}
		at := p.Pos(fieldInfo.Obj().Pos())
		if nameSite != "" {
			r.OK("dominance:names", at, "JSON names of collected fields are compared at "+nameSite)
		} else {
			why := "no reachable code compares the JSON names of two collected fields (or looks one up in a map): when an outer field and a promoted field of an embedded struct share a JSON name, both are written as properties and the last one wins, whatever encoding/json emits"
			if nameUnreach != "" {
				why += "; the comparison at " + nameUnreach + " is not reachable from the exported API"
			}
			r.Bad("dominance:names", at, why)
		}
		if depthSite != "" {
			r.OK("dominance:depth", at, "nesting depths of collected fields are compared at "+depthSite)
		} else {
			why := "no reachable code orders two collected fields by the lengths of their index paths: a shared JSON name cannot be resolved in favour of the least nested field, which is the one encoding/json encodes"
			if depthUnreach != "" {
				why += "; the comparison at " + depthUnreach + " is not reachable from the exported API"
			}
			r.Bad("dominance:depth", at, why)
		}
	})
}

// c18PtrNull: wherever the generator strips a pointer level from the type it is generating a schema
// for, it has to remember that the value may be null (a nil pointer is encoded as null).
func c18PtrNull(r *core.Report) {
	p := r.Prog
	info := p.Pkg("openapi3gen").TypesInfo
	r.RunRule("C18.ptrnull", "a stripped pointer is remembered as nullable: in every function of openapi3gen that returns a *SchemaRef and steps from a pointer type to its element (`t.Elem()` under `Kind() == reflect.Ptr` / `case reflect.Ptr`), the stripping code records it — it assigns a variable that the function later stores into a schema's Nullable, or sets Nullable itself; a pointer level dropped silently yields a schema that rejects the null which encoding/json emits for a nil pointer", 2, func() {
		n := 0
		for _, d := range p.AllDecls("openapi3gen") {
			if d.Body == nil || d.Type.Results == nil {
				continue
			}
			returnsRef := false
			for _, res := range d.Type.Results.List {
				if nn := core.NamedOf(info.TypeOf(res.Type)); nn != nil && nn.Obj().Name() == "SchemaRef" {
					returnsRef = true
				}
			}
			if !returnsRef {
				continue
			}
			// variables stored into a Nullable field somewhere in the function
			nullVars := map[types.Object]bool{}
			ast.Inspect(d.Body, func(nd ast.Node) bool {
				as, ok := nd.(*ast.AssignStmt)
				if !ok {
					return true
				}
				for i, l := range as.Lhs {
					if sel, ok := ast.Unparen(l).(*ast.SelectorExpr); ok && sel.Sel.Name == "Nullable" && i < len(as.Rhs) {
						if id, ok := ast.Unparen(as.Rhs[i]).(*ast.Ident); ok {
							nullVars[info.ObjectOf(id)] = true
						}
					}
				}
				return true
			})
			isPtrTest := func(e ast.Expr) bool {
				found := false
				ast.Inspect(e, func(m ast.Node) bool {
					if sel, ok := m.(*ast.SelectorExpr); ok && sel.Sel.Name == "Ptr" {
						if id, ok := sel.X.(*ast.Ident); ok && id.Name == "reflect" {
							found = true
						}
					}
					return true
				})
				return found
			}
			// a reference to a component cannot carry `nullable` (siblings of $ref are ignored and the
			// generator drops the reference's Value): returning one where the recorded flag may be true
			// loses the null
			if len(nullVars) > 0 {
				kr := 0
				ast.Inspect(d.Body, func(nd ast.Node) bool {
					if _, isLit := nd.(*ast.FuncLit); isLit {
						return false
					}
					ret, ok := nd.(*ast.ReturnStmt)
					if !ok || len(ret.Results) == 0 {
						return true
					}
					isCompRef := false
					res0 := ast.Expr(ret.Results[0])
					if id, ok := ast.Unparen(res0).(*ast.Ident); ok {
						// ref := NewSchemaRef("#/components/schemas/...", ...); ...; return ref
						if as := core.NewFuncFacts(p, info, d).Assigns(info.ObjectOf(id)); len(as) == 1 && as[0].Rhs != nil {
							res0 = as[0].Rhs
						}
					}
					ast.Inspect(res0, func(m ast.Node) bool {
						if bl, ok := m.(*ast.BasicLit); ok && strings.Contains(bl.Value, "#/components/schemas/") {
							isCompRef = true
						}
						return true
					})
					if !isCompRef {
						return true
					}
					n++
					kr++
					key := fmt.Sprintf("ptrnull:%s/componentref#%d", core.FuncName(d), kr)
					guarded, reuse := false, false
					ffd := core.NewFuncFacts(p, info, d)
					for _, a := range core.Atoms(core.GuardsAt(info, d.Body, ret)) {
						ast.Inspect(a.Expr, func(m ast.Node) bool {
							id, ok := m.(*ast.Ident)
							if !ok {
								return true
							}
							if nullVars[info.ObjectOf(id)] && !a.Pos {
								guarded = true
							}
							// `_, ok := registry[name]; ok`: the component exists already
							for _, as := range ffd.Assigns(info.ObjectOf(id)) {
								if as.MapIndex != nil && a.Pos {
									reuse = true
								}
							}
							return true
						})
					}
					if guarded {
						r.OK(key, p.Pos(ret.Pos()), "a component reference is returned only for a type that is not nullable")
					} else if !reuse {
						r.OK(key, p.Pos(ret.Pos()), "this return defines the component from the schema that carries the flag")
					} else {
						r.Bad(key, p.Pos(ret.Pos()), fmt.Sprintf("%s returns a reference to a component although the pointer flag it computed may be set: the flag was stored in the schema that becomes the reference's Value, which is dropped for component references, so a pointer field whose type was already exported as a component (from a non-pointer use) rejects the `null` of a nil pointer", core.FuncName(d)))
					}
					return true
				})
			}
			var sites []ast.Node // bodies guarded by a pointer-kind test
			ast.Inspect(d.Body, func(nd ast.Node) bool {
				switch x := nd.(type) {
				case *ast.ForStmt:
					if x.Cond != nil && isPtrTest(x.Cond) {
						sites = append(sites, x.Body)
					}
				case *ast.IfStmt:
					if isPtrTest(x.Cond) {
						sites = append(sites, x.Body)
					}
				case *ast.CaseClause:
					for _, e := range x.List {
						if isPtrTest(e) {
							sites = append(sites, x)
						}
					}
				}
				return true
			})
			k := 0
			for _, site := range sites {
				strips := false
				records := false
				ast.Inspect(site, func(m ast.Node) bool {
					switch x := m.(type) {
					case *ast.CallExpr:
						if sel, ok := ast.Unparen(x.Fun).(*ast.SelectorExpr); ok && sel.Sel.Name == "Elem" && len(x.Args) == 0 {
							strips = true
						}
					case *ast.AssignStmt:
						for _, l := range x.Lhs {
							switch lx := ast.Unparen(l).(type) {
							case *ast.Ident:
								if nullVars[info.ObjectOf(lx)] {
									records = true
								}
							case *ast.SelectorExpr:
								if lx.Sel.Name == "Nullable" {
									records = true
								}
							}
						}
					}
					return true
				})
				if !strips {
					continue
				}
				if !records {
					// `x.Nullable = T.Kind() == reflect.Ptr` next to the stripping (same block): the
					// pointer test of the unstripped type is the record
					path := core.PathTo(d.Body, site)
					for i := len(path) - 2; i >= 0 && !records; i-- {
						blk, ok := path[i].(*ast.BlockStmt)
						if !ok {
							continue
						}
						ast.Inspect(blk, func(m ast.Node) bool {
							if as, ok := m.(*ast.AssignStmt); ok && len(as.Lhs) == 1 && len(as.Rhs) == 1 {
								if sel, ok := ast.Unparen(as.Lhs[0]).(*ast.SelectorExpr); ok && sel.Sel.Name == "Nullable" && isPtrTest(as.Rhs[0]) {
									records = true
								}
							}
							return true
						})
						break
					}
				}
				n++
				k++
				key := fmt.Sprintf("ptrnull:%s#%d", core.FuncName(d), k)
				if records {
					r.OK(key, p.Pos(site.Pos()), "the stripped pointer level is recorded as nullable")
				} else {
					r.Bad(key, p.Pos(site.Pos()), fmt.Sprintf("%s steps from the pointer type to its element without recording that the value may be null: the schema it returns for a pointer (here: the reference that closes a type cycle) rejects the `null` encoding/json writes for a nil pointer", core.FuncName(d)))
				}
			}
		}
		if n == 0 {
			core.Fail("no pointer-stripping site found in the schema-producing functions of openapi3gen")
		}
	})
}

// c18StringOption: `json:",string"` changes the JSON type of the field.
func c18StringOption(r *core.Report) {
	p := r.Prog
	info := p.Pkg("openapi3gen").TypesInfo
	r.RunRule("C18.stringoption", "the ,string option of a json tag reaches the schema: the JSONString flag that the field collector records is read by generateWithoutSaving, and where it holds the property gets a schema of type string (openapi3.NewStringSchema) — a flag that is parsed and never consulted leaves an integer / number / boolean schema for a value that encoding/json writes as a JSON string", 1, func() {
		fd := p.DeclOf("openapi3gen", "Generator.generateWithoutSaving")
		n := 0
		ast.Inspect(fd.Body, func(nd ast.Node) bool {
			ifs, ok := nd.(*ast.IfStmt)
			if !ok {
				return true
			}
			reads := false
			ast.Inspect(ifs.Cond, func(m ast.Node) bool {
				if sel, ok := m.(*ast.SelectorExpr); ok {
					if f := core.FieldSel(info, sel); f != nil && f.Name() == "JSONString" {
						reads = true
					}
				}
				return true
			})
			if !reads {
				return true
			}
			n++
			makesString := len(callsTo(info, ifs.Body, "NewStringSchema")) > 0
			r.Check(makesString, fmt.Sprintf("stringoption:generateWithoutSaving#%d", n), p.Pos(ifs.Pos()), "a string schema is built where the option holds", "generateWithoutSaving tests the ,string flag but builds no string schema under it")
			return true
		})
		if n == 0 {
			r.Bad("stringoption:unread", p.Pos(fd.Pos()), "the ,string option is recorded by the field collector (theFieldInfo.JSONString) and never read by generateWithoutSaving: a field tagged `json:\"n,string\"` gets an integer schema while encoding/json writes {\"n\":\"5\"}, so every value of the type is rejected")
		}
	})
}

// c18Order: two more necessary conditions of field resolution and of nullability.
func c18Order(r *core.Report) {
	p := r.Prog
	info := p.Pkg("openapi3gen").TypesInfo
	r.RunRule("C18.precedence", "nesting depth takes precedence over the tag when fields share a JSON name (encoding/json: the least nested field wins, the tag only breaks ties): in the function that orders collected fields by depth, every return that looks at a boolean field of the field info (named-by-tag) is reached only where the two depths were compared equal", 1, func() {
		n := 0
		for _, d := range p.AllDecls("openapi3gen") {
			if d.Body == nil {
				continue
			}
			// does it order two index-path lengths?
			hasDepth := false
			ast.Inspect(d.Body, func(nd ast.Node) bool {
				if be, ok := nd.(*ast.BinaryExpr); ok && (be.Op == token.LSS || be.Op == token.GTR) {
					if strings.HasPrefix(core.ExprStr(be.X), "len(") && strings.HasPrefix(core.ExprStr(be.Y), "len(") && strings.Contains(core.ExprStr(be.X), ".Index") {
						hasDepth = true
					}
				}
				return true
			})
			if !hasDepth {
				continue
			}
			k := 0
			ast.Inspect(d.Body, func(nd ast.Node) bool {
				ret, ok := nd.(*ast.ReturnStmt)
				if !ok || len(ret.Results) != 1 {
					return true
				}
				// mentions a bool field of a struct value
				usesFlag := false
				ast.Inspect(ret.Results[0], func(m ast.Node) bool {
					if sel, ok := m.(*ast.SelectorExpr); ok {
						if f := core.FieldSel(info, sel); f != nil {
							if b, ok := f.Type().Underlying().(*types.Basic); ok && b.Kind() == types.Bool {
								usesFlag = true
							}
						}
					}
					return true
				})
				if !usesFlag {
					return true
				}
				n++
				k++
				key := fmt.Sprintf("precedence:%s#%d", core.FuncName(d), k)
				depthsEqual := false
				for _, a := range core.Atoms(core.GuardsAt(info, d.Body, ret)) {
					be, ok := ast.Unparen(a.Expr).(*ast.BinaryExpr)
					if !ok {
						continue
					}
					xs, ys := core.ExprStr(be.X), core.ExprStr(be.Y)
					if strings.HasPrefix(xs, "len(") && strings.HasPrefix(ys, "len(") && strings.Contains(xs, ".Index") {
						if (be.Op == token.NEQ && !a.Pos) || (be.Op == token.EQL && a.Pos) {
							depthsEqual = true
						}
					}
				}
				if depthsEqual {
					r.OK(key, p.Pos(ret.Pos()), "the tag decides only between fields of equal depth")
				} else {
					r.Bad(key, p.Pos(ret.Pos()), fmt.Sprintf("`return %s` lets the named-by-tag flag decide the order of two same-named fields without their depths having been found equal: a deeper embedded field that is named by its tag then wins over the shallower field encoding/json encodes", core.ExprStr(ret.Results[0])))
				}
				return true
			})
		}
		if n == 0 {
			core.Fail("no return using the named-by-tag flag found in the function that orders fields by depth")
		}
	})
	r.RunRule("C18.cachekey", "the generator's memo of finished schemas is keyed by the exact type it was asked for: every index of a map keyed by reflect.Type in openapi3gen that holds *SchemaRef values uses the function's unmodified reflect.Type parameter — *T and T differ in nullability, so a key from which the pointer was stripped hands one of them the other's schema", 2, func() {
		k := 0
		for _, d := range p.AllDecls("openapi3gen") {
			if d.Body == nil {
				continue
			}
			ff := core.NewFuncFacts(p, info, d)
			ast.Inspect(d.Body, func(nd ast.Node) bool {
				ix, ok := nd.(*ast.IndexExpr)
				if !ok {
					return true
				}
				mt, ok := info.TypeOf(ix.X).Underlying().(*types.Map)
				if !ok || mt.Key().String() != "reflect.Type" {
					return true
				}
				if nn := core.NamedOf(mt.Elem()); nn == nil || nn.Obj().Name() != "SchemaRef" {
					return true
				}
				k++
				key := fmt.Sprintf("cachekey:%s#%d", core.FuncName(d), k)
				id, isID := ast.Unparen(ix.Index).(*ast.Ident)
				good := false
				if isID {
					o := info.ObjectOf(id)
					if isParamOf(d, info, o) && len(ff.Assigns(o)) == 0 {
						good = true
					}
				}
				if good {
					r.OK(key, p.Pos(ix.Pos()), "keyed by the type parameter as given")
				} else {
					r.Bad(key, p.Pos(ix.Pos()), fmt.Sprintf("the memo is indexed with %s, not with the reflect.Type the function was given: a pointer type and its element type then share one entry, and whichever was generated first decides `nullable` for both (a nil pointer field is rejected after a by-value use of the same struct)", core.ExprStr(ix.Index)))
				}
				return true
			})
		}
	})
}

// c18CycleRec: the function that turns a type met again on the way down into a component reference
// unwraps pointers, slices and maps to find the type to refer to. A NAMED slice or map type can be
// its own element type (type M map[string]M): unwrapping it leads straight back to it.
func c18CycleRec(r *core.Report) {
	p := r.Prog
	info := p.Pkg("openapi3gen").TypesInfo
	r.RunRule("C18.cyclerec", "unwrapping a container type terminates: every self-recursive call of a function of openapi3gen on `t.Elem()` of its reflect.Type parameter, made in a case for reflect.Slice or reflect.Map, is selected by a switch whose tag took the type's Name() into account (a named container that contains itself is referred to, not unwrapped)", 1, func() {
		n := 0
		for _, d := range p.AllDecls("openapi3gen") {
			if d.Body == nil {
				continue
			}
			self, _ := info.Defs[d.Name].(*types.Func)
			ff := core.NewFuncFacts(p, info, d)
			ast.Inspect(d.Body, func(nd ast.Node) bool {
				sw, ok := nd.(*ast.SwitchStmt)
				if !ok || sw.Tag == nil {
					return true
				}
				for _, st := range sw.Body.List {
					cc := st.(*ast.CaseClause)
					container := false
					for _, e := range cc.List {
						s := core.ExprStr(e)
						if s == "reflect.Slice" || s == "reflect.Map" || s == "reflect.Array" {
							container = true
						}
					}
					if !container {
						continue
					}
					recursesOnElem := false
					for _, b := range cc.Body {
						ast.Inspect(b, func(m ast.Node) bool {
							c, ok := m.(*ast.CallExpr)
							if !ok || core.CalleeOf(info, c) != self || self == nil {
								return true
							}
							for _, a := range c.Args {
								if strings.Contains(core.ExprStr(a), ".Elem()") {
									recursesOnElem = true
								}
							}
							return true
						})
					}
					if !recursesOnElem {
						continue
					}
					n++
					key := fmt.Sprintf("cyclerec:%s/%s", core.FuncName(d), core.ExprStr(cc.List[0]))
					namedSeen := false
					tag := ast.Unparen(sw.Tag)
					if id, ok := tag.(*ast.Ident); ok {
						for _, as := range ff.Assigns(info.ObjectOf(id)) {
							for _, a := range core.Atoms(core.GuardsAt(info, d.Body, as.Stmt)) {
								if strings.Contains(core.ExprStr(a.Expr), ".Name()") {
									namedSeen = true
								}
							}
						}
					}
					for _, a := range core.Atoms(core.GuardsAt(info, d.Body, cc)) {
						if strings.Contains(core.ExprStr(a.Expr), ".Name()") {
							namedSeen = true
						}
					}
					if namedSeen {
						r.OK(key, p.Pos(cc.Pos()), "named containers are referred to, only unnamed ones are unwrapped")
					} else {
						r.Bad(key, p.Pos(cc.Pos()), fmt.Sprintf("%s unwraps every %s type by calling itself on t.Elem(): for a named type that contains itself (type M map[string]M, type L []L) the element is the type again, the recursion never ends and the goroutine's stack overflows — the schema of a recursive type is not finite", core.FuncName(d), core.ExprStr(cc.List[0])))
					}
				}
				return true
			})
		}
		if n == 0 {
			core.Fail("no self-recursive unwrapping of a container type found in openapi3gen")
		}
	})
}
