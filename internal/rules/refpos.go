package rules

import (
	"go/ast"
	"go/types"
	"sort"
	"strings"

	"verif/internal/core"
)

// A resolution unit is a document-model struct that a dedicated walker function handles: the value
// types of the reference wrappers, PathItem, Operation, Components and T. A unit position is a path
// of fields from a unit, through structs that are not units (MediaType, Encoding, AdditionalProperties,
// the map-likes), to a field that can hold a reference (a *W wrapper or a *PathItem).
type unitPos struct {
	Unit    *types.Named
	Path    []string // field names, with "[]" appended for slices/maps ("Content[]", "Schema")
	Wrapper *types.Named
}

func (u unitPos) String() string { return u.Unit.Obj().Name() + "." + strings.Join(u.Path, ".") }

// PathNames returns the field names without the collection markers.
func (u unitPos) PathNames() []string {
	out := make([]string, len(u.Path))
	for i, s := range u.Path {
		out[i] = strings.TrimSuffix(s, "[]")
	}
	return out
}

// refUnits computes units and their positions for a package ("openapi3").
func refUnits(p *core.Prog, rel string) (units []*types.Named, positions []unitPos) {
	pk := p.Pkg(rel)
	model := p.ModelTypes(rel, "T")
	isUnit := map[*types.Named]bool{}
	wrapperOf := map[*types.Named]*types.Named{} // value type -> wrapper
	for _, n := range model {
		if v, ok := core.IsRefWrapper(n); ok {
			isUnit[v] = true
			wrapperOf[v] = n
		}
	}
	for _, name := range []string{"T", "Components", "PathItem", "Operation"} {
		if o := pk.Types.Scope().Lookup(name); o != nil {
			if n, ok := o.Type().(*types.Named); ok {
				isUnit[n] = true
			}
		}
	}
	for n := range isUnit {
		units = append(units, n)
	}
	sort.Slice(units, func(i, j int) bool { return units[i].Obj().Name() < units[j].Obj().Name() })
	pathItem, _ := pk.Types.Scope().Lookup("PathItem").Type().(*types.Named)

	var walk func(unit *types.Named, t types.Type, path []string, depth int)
	walk = func(unit *types.Named, t types.Type, path []string, depth int) {
		if depth > 16 || len(path) > 6 {
			return
		}
		switch x := t.(type) {
		case *types.Alias:
			walk(unit, types.Unalias(x), path, depth)
		case *types.Pointer:
			if n, ok := x.Elem().(*types.Named); ok && n.Obj().Pkg() == pk.Types {
				if _, isW := core.IsRefWrapper(n); isW {
					positions = append(positions, unitPos{Unit: unit, Path: append([]string(nil), path...), Wrapper: n})
					return
				}
				if n == pathItem {
					positions = append(positions, unitPos{Unit: unit, Path: append([]string(nil), path...), Wrapper: n})
					return
				}
				if isUnit[n] {
					return // another unit (e.g. *Operation under PathItem): handled by its own walker
				}
				walk(unit, n, path, depth+1)
			}
		case *types.Slice:
			if len(path) > 0 && !strings.HasSuffix(path[len(path)-1], "[]") {
				path = append(append([]string(nil), path[:len(path)-1]...), path[len(path)-1]+"[]")
			}
			walk(unit, x.Elem(), path, depth+1)
		case *types.Map:
			if len(path) > 0 && !strings.HasSuffix(path[len(path)-1], "[]") {
				path = append(append([]string(nil), path[:len(path)-1]...), path[len(path)-1]+"[]")
			}
			walk(unit, x.Elem(), path, depth+1)
		case *types.Named:
			if x.Obj().Pkg() != pk.Types {
				return
			}
			st, ok := x.Underlying().(*types.Struct)
			if !ok {
				walk(unit, x.Underlying(), path, depth+1)
				return
			}
			if isUnit[x] && len(path) > 0 {
				return
			}
			for i := 0; i < st.NumFields(); i++ {
				f := st.Field(i)
				if f.Name() == "Extensions" || f.Name() == "Origin" {
					continue
				}
				if f.Embedded() {
					// embedded model struct: its fields are the owner's fields
					if en := core.NamedOf(f.Type()); en != nil && en.Obj().Pkg() == pk.Types {
						if est, ok := en.Underlying().(*types.Struct); ok {
							for j := 0; j < est.NumFields(); j++ {
								ef := est.Field(j)
								if ef.Name() == "Extensions" || ef.Name() == "Origin" {
									continue
								}
								walk(unit, ef.Type(), append(append([]string(nil), path...), ef.Name()), depth+1)
							}
						}
					}
					continue
				}
				walk(unit, f.Type(), append(append([]string(nil), path...), f.Name()), depth+1)
			}
		}
	}
	for _, u := range units {
		walk(u, u, nil, 0)
	}
	sort.Slice(positions, func(i, j int) bool { return positions[i].String() < positions[j].String() })
	return
}

// fieldChains follows an expression back through local definitions and returns, for each way the
// value can be produced, the list of field/accessor names from the root outwards
// (value.Content[name].Schema -> ["Value"?, "Content", "Schema"]).
func fieldChains(ff *core.FuncFacts, info *types.Info, e ast.Expr) [][]string {
	var out [][]string
	var walk func(e ast.Expr, acc []string, depth int, seen map[types.Object]bool)
	walk = func(e ast.Expr, acc []string, depth int, seen map[types.Object]bool) {
		if depth > 12 {
			return
		}
		e = ast.Unparen(e)
		switch x := e.(type) {
		case *ast.UnaryExpr:
			walk(x.X, acc, depth+1, seen)
		case *ast.StarExpr:
			walk(x.X, acc, depth+1, seen)
		case *ast.SelectorExpr:
			if f := core.FieldSel(info, x); f != nil {
				if f.Embedded() {
					walk(x.X, acc, depth+1, seen) // an embedded struct's fields are the owner's
					return
				}
				walk(x.X, append([]string{f.Name()}, acc...), depth+1, seen)
				return
			}
			out = append(out, acc)
		case *ast.IndexExpr:
			walk(x.X, acc, depth+1, seen)
		case *ast.CompositeLit:
			// a literal list of fields: []*SchemaRef{s.Not, s.Items}
			for _, el := range x.Elts {
				if kv, ok := el.(*ast.KeyValueExpr); ok {
					walk(kv.Value, acc, depth+1, seen)
				} else {
					walk(el, acc, depth+1, seen)
				}
			}
		case *ast.CallExpr:
			// accessor methods: x.Map(), x.Operations(), x.Value(k): treated as reading the receiver
			if sel, ok := x.Fun.(*ast.SelectorExpr); ok {
				if callee := core.CalleeOf(info, x); callee != nil && core.InRepo(callee.Pkg()) {
					name := callee.Name()
					if name == "Map" || name == "Value" {
						name = "m"
					}
					if name == "componentNames" {
						return
					}
					walk(sel.X, append([]string{name + "()"}, acc...), depth+1, seen)
					return
				}
			}
			out = append(out, acc)
		case *ast.Ident:
			o := info.ObjectOf(x)
			if o == nil || seen[o] {
				out = append(out, acc)
				return
			}
			as := ff.Assigns(o)
			if len(as) == 0 {
				// parameter / receiver: root
				out = append(out, append([]string{"<" + x.Name + ">"}, acc...))
				return
			}
			seen2 := map[types.Object]bool{o: true}
			for k := range seen {
				seen2[k] = true
			}
			for _, a := range as {
				switch {
				case a.Rhs != nil:
					walk(a.Rhs, acc, depth+1, seen2)
				case a.RangeOf != nil && !a.IsKey:
					walk(a.RangeOf, acc, depth+1, seen2)
				case a.MapIndex != nil:
					walk(a.MapIndex, acc, depth+1, seen2)
				case a.Call != nil:
					walk(a.Call, acc, depth+1, seen2)
				}
			}
		default:
			out = append(out, acc)
		}
	}
	walk(e, nil, 0, map[types.Object]bool{})
	return out
}

// chainMatches: the chain (root outwards) ends with the position's field path; a leading "Value",
// the root marker and the map-like accessor "m()" in place of the field "m" are tolerated.
func chainMatches(chain []string, path []string) bool {
	var c []string
	for _, s := range chain {
		if strings.HasPrefix(s, "<") {
			continue
		}
		s = strings.TrimSuffix(s, "()")
		c = append(c, s)
	}
	// strip leading "Value" steps (wrapper -> value)
	for len(c) > 0 && c[0] == "Value" {
		c = c[1:]
	}
	if len(c) < len(path) {
		return false
	}
	tail := c[len(c)-len(path):]
	for i := range path {
		if tail[i] != path[i] {
			return false
		}
	}
	return true
}
