package rules

import (
	"fmt"
	"go/ast"
	"go/token"
	"go/types"
	"sort"
	"strings"

	"verif/internal/core"
)

func init() { register("C03", c03) }

// c03: marshal -> reload loses and invents nothing. Decides the agreement of the three
// hand-maintained tables per struct type: JSON tags, keys stored by MarshalYAML, keys stripped from
// Extensions by UnmarshalJSON; the provenance of each stored value; the omit condition; json=yaml tags.
func c03(r *core.Report) {
	p := r.Prog
	c03MethodSet(r)
	c03NullPresence(r)
	c03RequiredKeys(r)
	c03KeysVerbatim(r)
	c03EveryKey(r)
	c03LoaderWrites(r)
	r.Assumption("values survive encoding/json, the YAML reader/writer and custom scalar codecs (Types, AdditionalProperties): not decided")

	type tyinfo struct {
		rel string
		n   *types.Named
	}
	var tys []tyinfo
	for _, rel := range []string{"openapi3", "openapi2"} {
		for _, n := range p.ModelTypes(rel, "T") {
			tys = append(tys, tyinfo{rel, n})
		}
	}

	r.RunRule("C03.tags", "every field of every document-model struct has identical json and yaml tag keys (the YAML reader converts to JSON and uses the JSON path; the YAML writer uses MarshalYAML)", 250, func() {
		for _, t := range tys {
			st := t.n.Underlying().(*types.Struct)
			anyTag := false
			for i := 0; i < st.NumFields(); i++ {
				if _, ok := lookupTag(st.Tag(i), "json"); ok {
					anyTag = true
				}
			}
			if !anyTag && core.HasMethod(t.n, "MarshalJSON") != nil && core.HasMethod(t.n, "UnmarshalJSON") != nil {
				// fully hand-written codec (ref wrappers, map-likes, AdditionalProperties): tags are not consulted
				continue
			}
			for i := 0; i < st.NumFields(); i++ {
				f := st.Field(i)
				if !f.Exported() {
					continue
				}
				jk, jo := core.JSONTag(st.Tag(i))
				yk, yo := core.YAMLTag(st.Tag(i))
				key := fmt.Sprintf("tag:%s.%s.%s", t.rel, t.n.Obj().Name(), f.Name())
				_, hasJ := lookupTag(st.Tag(i), "json")
				_, hasY := lookupTag(st.Tag(i), "yaml")
				if !hasJ && !hasY {
					if f.Embedded() {
						r.Trivial(key, p.Pos(f.Pos()), "embedded, untagged")
						continue
					}
					r.Bad(key, p.Pos(f.Pos()), "exported model field without json/yaml tags: encoding/json would use the Go name")
					continue
				}
				r.Check(jk == yk && jo == yo && hasJ == hasY, key, p.Pos(f.Pos()),
					fmt.Sprintf("json=%q yaml=%q", jk, yk), fmt.Sprintf("json tag %q(omitempty=%v) differs from yaml tag %q(omitempty=%v)", jk, jo, yk, yo))
			}
		}
	})

	nTypes := 0
	r.RunRule("C03.table", "for each struct with a map-building MarshalYAML: tagged JSON keys = constant keys stored into the map = constant keys deleted from Extensions by UnmarshalJSON; each stored value is the field whose tag is the key; the omit condition tests only that field with a zero-value test", 270, func() {
		for _, t := range tys {
			st := t.n.Underlying().(*types.Struct)
			var my *types.Func
			var fd *ast.FuncDecl
			var stores []mapStore
			info := p.Pkg(t.rel).TypesInfo
			for _, mn := range []string{"MarshalYAML", "MarshalJSON"} {
				if m := core.HasMethod(t.n, mn); m != nil {
					d := p.Decl(m)
					if st := collectMapStores(info, d); len(st) > 0 {
						my, fd, stores = m, d, st
						break
					}
				}
			}
			tname := t.rel + "." + t.n.Obj().Name()
			if my == nil {
				continue // not a map-building marshaller (scalar codec, delegating, generated ref)
			}
			nTypes++
			// F: tagged keys
			F := map[string]*types.Var{}
			var hasExt, hasOrigin bool
			for i := 0; i < st.NumFields(); i++ {
				f := st.Field(i)
				k, _ := core.JSONTag(st.Tag(i))
				if f.Name() == "Extensions" {
					hasExt = true
					continue
				}
				if k == "__origin__" {
					hasOrigin = true
					continue
				}
				if k != "" {
					F[k] = f
				}
			}
			Mk := map[string]bool{}
			for _, s := range stores {
				Mk[s.key] = true
				key := fmt.Sprintf("store:%s[%s]", tname, s.key)
				want := F[s.key]
				if want == nil {
					r.Bad(key, p.Pos(s.pos), "MarshalYAML stores a key that is no field's JSON tag: the reader will treat it as an extension or reject it")
					continue
				}
				if s.field != want {
					got := "<not a field of the receiver>"
					if s.field != nil {
						got = s.field.Name()
					}
					r.Bad(key, p.Pos(s.pos), fmt.Sprintf("value stored under %q comes from field %s, but the field tagged %q is %s", s.key, got, s.key, want.Name()))
					continue
				}
				if s.condErr != "" {
					r.Bad(key, p.Pos(s.pos), s.condErr)
					continue
				}
				r.OK(key, p.Pos(s.pos), "value <- "+want.Name()+"; guard "+s.cond)
			}
			for k, f := range F {
				if Mk[k] {
					continue
				}
				key := fmt.Sprintf("store:%s[%s]", tname, k)
				if k == "$ref" && refHandled(info, fd, f) {
					r.OK(key, p.Pos(fd.Pos()), "$ref handled by an early return of a Ref value built from the field")
					continue
				}
				r.Bad(key, p.Pos(fd.Pos()), fmt.Sprintf("field %s (json %q) is never written by MarshalYAML: it is lost on marshal", f.Name(), k))
			}
			if hasExt {
				r.Check(copiesExtensions(info, fd), "ext-copy:"+tname, p.Pos(fd.Pos()), "range over Extensions copied into the map", "MarshalYAML does not copy Extensions into the map: extensions are lost")
			}
			// MarshalJSON delegates
			if my.Name() == "MarshalJSON" {
				// the map is built in MarshalJSON itself (openapi2): nothing to delegate
			} else if mj := core.HasMethod(t.n, "MarshalJSON"); mj != nil {
				r.Check(callsMethod(p, mj, "MarshalYAML"), "json-delegates:"+tname, p.Pos(p.Decl(mj).Pos()), "MarshalJSON calls MarshalYAML", "MarshalJSON does not go through MarshalYAML: JSON and YAML output can differ")
			} else {
				r.Bad("json-delegates:"+tname, p.Pos(fd.Pos()), "type has MarshalYAML but no MarshalJSON")
			}
			// D: deleted keys
			uj := core.HasMethod(t.n, "UnmarshalJSON")
			if uj == nil {
				if hasExt {
					r.Bad("unmarshal:"+tname, p.Pos(fd.Pos()), "type has Extensions but no UnmarshalJSON: extensions are dropped on load")
				}
				continue
			}
			ud := p.Decl(uj)
			D, intoExt := collectDeletes(info, ud)
			if hasExt {
				r.Check(intoExt, "ext-load:"+tname, p.Pos(ud.Pos()), "json.Unmarshal(data, &x.Extensions)", "UnmarshalJSON never unmarshals into Extensions: extensions and unknown fields are dropped")
				want := map[string]bool{}
				for k := range F {
					want[k] = true
				}
				if hasOrigin {
					want["__origin__"] = true
				}
				for k := range want {
					key := fmt.Sprintf("strip:%s[%s]", tname, k)
					r.Check(D[k] != token.NoPos, key, p.Pos(ud.Pos()), "known key stripped from Extensions", fmt.Sprintf("UnmarshalJSON does not delete %q from Extensions: the field would be emitted twice / invented as an extension", k))
				}
				var extra []string
				for k := range D {
					if !want[k] {
						extra = append(extra, k)
					}
				}
				sort.Strings(extra)
				for _, k := range extra {
					r.Bad(fmt.Sprintf("strip:%s[%s]", tname, k), p.Pos(D[k]), fmt.Sprintf("UnmarshalJSON deletes key %q from Extensions although no field has that tag: an unknown field %q vanishes on load", k, k))
				}
			}
		}
	})
	r.Extra["map_building_types"] = nTypes

	r.RunRule("C03.types", "floor on the number of struct types with a map-building marshaller", 1, func() {
		r.Check(nTypes >= 31, "types", "-", fmt.Sprintf("%d types", nTypes), fmt.Sprintf("only %d map-building marshallers seen, 31 confirmed by reading", nTypes))
	})

	c03Refs(r)
	c03Embed(r)
	c03RefOnly(r)
	c03Collect(r)
	scratchEscapes(r, "C03.fresh", 1, "openapi3", "openapi2")
}

func lookupTag(tag, key string) (string, bool) {
	i := strings.Index(tag, key+":\"")
	if i < 0 {
		return "", false
	}
	return "", true
}

type mapStore struct {
	key     string
	pos     token.Pos
	field   *types.Var
	cond    string
	condErr string
}

// recvObj returns the receiver variable of a method declaration.
func recvObj(info *types.Info, fd *ast.FuncDecl) types.Object {
	if fd.Recv == nil || len(fd.Recv.List) == 0 || len(fd.Recv.List[0].Names) == 0 {
		return nil
	}
	return info.Defs[fd.Recv.List[0].Names[0]]
}

// fieldOfRecv: e is `recv.F` (possibly parenthesised / & / *) -> F
func fieldOfRecv(info *types.Info, recv types.Object, e ast.Expr) *types.Var {
	for {
		switch x := e.(type) {
		case *ast.ParenExpr:
			e = x.X
			continue
		case *ast.UnaryExpr:
			if x.Op == token.AND {
				e = x.X
				continue
			}
		case *ast.StarExpr:
			e = x.X
			continue
		}
		break
	}
	sel, ok := e.(*ast.SelectorExpr)
	if !ok {
		return nil
	}
	id, ok := sel.X.(*ast.Ident)
	if !ok || info.ObjectOf(id) != recv || recv == nil {
		return nil
	}
	return core.FieldSel(info, sel)
}

func collectMapStores(info *types.Info, fd *ast.FuncDecl) []mapStore {
	recv := recvObj(info, fd)
	var out []mapStore
	var walk func(list []ast.Stmt, enclosingIf *ast.IfStmt)
	handleAssign := func(as *ast.AssignStmt, enclosingIf *ast.IfStmt) {
		if len(as.Lhs) != 1 || len(as.Rhs) != 1 {
			return
		}
		ix, ok := as.Lhs[0].(*ast.IndexExpr)
		if !ok {
			return
		}
		if _, isMap := info.TypeOf(ix.X).Underlying().(*types.Map); !isMap {
			return
		}
		k, ok := core.ConstStr(info, ix.Index)
		if !ok {
			return
		}
		ms := mapStore{key: k, pos: as.Pos()}
		rhs := as.Rhs[0]
		// strip & and parens
		base := rhs
		for {
			switch x := base.(type) {
			case *ast.ParenExpr:
				base = x.X
				continue
			case *ast.UnaryExpr:
				if x.Op == token.AND {
					base = x.X
					continue
				}
			}
			break
		}
		var local types.Object
		if id, ok := base.(*ast.Ident); ok && enclosingIf != nil && enclosingIf.Init != nil {
			// x := recv.F in the enclosing if's init
			if ini, ok := enclosingIf.Init.(*ast.AssignStmt); ok && ini.Tok == token.DEFINE && len(ini.Lhs) == 1 && len(ini.Rhs) == 1 {
				if lid, ok := ini.Lhs[0].(*ast.Ident); ok && info.Defs[lid] == info.ObjectOf(id) {
					ms.field = fieldOfRecv(info, recv, ini.Rhs[0])
					local = info.Defs[lid]
				}
			}
		} else {
			ms.field = fieldOfRecv(info, recv, base)
			if ms.field != nil && enclosingIf != nil && enclosingIf.Init != nil {
				if ini, ok := enclosingIf.Init.(*ast.AssignStmt); ok && ini.Tok == token.DEFINE && len(ini.Lhs) == 1 && len(ini.Rhs) == 1 {
					if lid, ok := ini.Lhs[0].(*ast.Ident); ok && fieldOfRecv(info, recv, ini.Rhs[0]) == ms.field {
						local = info.Defs[lid]
					}
				}
			}
		}
		if enclosingIf != nil {
			ms.cond = core.ExprStr(enclosingIf.Cond)
			ms.condErr = checkOmitCond(info, recv, enclosingIf.Cond, local, ms.field)
		} else {
			ms.cond = "unconditional"
		}
		out = append(out, ms)
	}
	walk = func(list []ast.Stmt, enclosingIf *ast.IfStmt) {
		for _, s := range list {
			switch x := s.(type) {
			case *ast.AssignStmt:
				handleAssign(x, enclosingIf)
			case *ast.IfStmt:
				walk(x.Body.List, x)
				if x.Else != nil {
					if b, ok := x.Else.(*ast.BlockStmt); ok {
						walk(b.List, x)
					}
				}
			case *ast.BlockStmt:
				walk(x.List, enclosingIf)
			}
		}
	}
	walk(fd.Body.List, nil)
	return out
}

// checkOmitCond verifies that the condition guarding a store is a zero-value test of the stored
// field only. Accepted atoms over v (the local bound to the field, or recv.F): `v`, `v != nil`,
// `v != ""`, `v != 0`, `len(v) != 0`, `len(v) > 0`, `v != zero-const`; for struct-typed v a
// disjunction of such tests over v's own fields.
func checkOmitCond(info *types.Info, recv types.Object, cond ast.Expr, local types.Object, field *types.Var) string {
	isV := func(e ast.Expr) (bool, bool) { // (is v, is sub-field of v)
		for {
			if p, ok := e.(*ast.ParenExpr); ok {
				e = p.X
				continue
			}
			break
		}
		if id, ok := e.(*ast.Ident); ok {
			return local != nil && info.ObjectOf(id) == local, false
		}
		if sel, ok := e.(*ast.SelectorExpr); ok {
			if f := fieldOfRecv(info, recv, sel); f != nil && f == field {
				return true, false
			}
			if id, ok := sel.X.(*ast.Ident); ok && local != nil && info.ObjectOf(id) == local {
				return true, true
			}
			if f := fieldOfRecv(info, recv, sel.X); f != nil && f == field {
				return true, true
			}
		}
		return false, false
	}
	var atom func(e ast.Expr) string
	atom = func(e ast.Expr) string {
		switch x := e.(type) {
		case *ast.ParenExpr:
			return atom(x.X)
		case *ast.BinaryExpr:
			if x.Op == token.LOR {
				if s := atom(x.X); s != "" {
					return s
				}
				return atom(x.Y)
			}
			if x.Op != token.NEQ && x.Op != token.GTR {
				return fmt.Sprintf("omit condition %q is not a zero-value test (operator %s)", core.ExprStr(cond), x.Op)
			}
			lhs := x.X
			if c, ok := lhs.(*ast.CallExpr); ok && core.IsBuiltin(info, c, "len") && len(c.Args) == 1 {
				lhs = c.Args[0]
			} else if x.Op == token.GTR {
				return fmt.Sprintf("omit condition %q is not a zero-value test", core.ExprStr(cond))
			}
			if ok, _ := isV(lhs); !ok {
				return fmt.Sprintf("omit condition %q tests something other than the stored field", core.ExprStr(cond))
			}
			// rhs must be the zero value
			if core.IsNil(info, x.Y) {
				return ""
			}
			if tv, ok := info.Types[x.Y]; ok && tv.Value != nil {
				s := tv.Value.ExactString()
				if s == "0" || s == `""` || s == "false" {
					return ""
				}
			}
			return fmt.Sprintf("omit condition %q compares with a non-zero value: a legal value would be dropped", core.ExprStr(cond))
		default:
			if tv, ok := info.Types[e]; ok && tv.Value != nil && tv.Value.ExactString() == "true" {
				return "" // `if x := f; true` : unconditional store
			}
			if ok, _ := isV(e); ok {
				if b, okb := info.TypeOf(e).Underlying().(*types.Basic); okb && b.Info()&types.IsBoolean != 0 {
					return ""
				}
			}
			return fmt.Sprintf("omit condition %q is not a zero-value test of the stored field", core.ExprStr(cond))
		}
	}
	return atom(cond)
}

func refHandled(info *types.Info, fd *ast.FuncDecl, f *types.Var) bool {
	found := false
	ast.Inspect(fd.Body, func(n ast.Node) bool {
		if sel, ok := n.(*ast.SelectorExpr); ok && core.FieldSel(info, sel) == f {
			found = true
		}
		return !found
	})
	return found
}

func copiesExtensions(info *types.Info, fd *ast.FuncDecl) bool {
	recv := recvObj(info, fd)
	ok := false
	ast.Inspect(fd.Body, func(n ast.Node) bool {
		rs, isR := n.(*ast.RangeStmt)
		if !isR {
			return true
		}
		f := fieldOfRecv(info, recv, rs.X)
		if f == nil || f.Name() != "Extensions" {
			return true
		}
		kid, _ := rs.Key.(*ast.Ident)
		vid, _ := rs.Value.(*ast.Ident)
		if kid == nil || vid == nil {
			return true
		}
		for _, s := range rs.Body.List {
			if as, isA := s.(*ast.AssignStmt); isA && len(as.Lhs) == 1 && len(as.Rhs) == 1 {
				if ix, isI := as.Lhs[0].(*ast.IndexExpr); isI {
					ki, _ := ix.Index.(*ast.Ident)
					vi, _ := as.Rhs[0].(*ast.Ident)
					if ki != nil && vi != nil && info.ObjectOf(ki) == info.ObjectOf(kid) && info.ObjectOf(vi) == info.ObjectOf(vid) {
						ok = true
					}
				}
			}
		}
		return true
	})
	return ok
}

func callsMethod(p *core.Prog, f *types.Func, name string) bool {
	fd := p.Decl(f)
	info := p.InfoFor(f.Pkg())
	found := false
	ast.Inspect(fd.Body, func(n ast.Node) bool {
		if c, ok := n.(*ast.CallExpr); ok {
			if callee := core.CalleeOf(info, c); callee != nil && callee.Name() == name {
				found = true
			}
		}
		return !found
	})
	return found
}

// collectDeletes returns constant keys k of delete(x.Extensions, k) and whether the function
// unmarshals into &x.Extensions.
func collectDeletes(info *types.Info, fd *ast.FuncDecl) (map[string]token.Pos, bool) {
	D := map[string]token.Pos{}
	into := false
	ast.Inspect(fd.Body, func(n ast.Node) bool {
		c, ok := n.(*ast.CallExpr)
		if !ok {
			return true
		}
		if core.IsBuiltin(info, c, "delete") && len(c.Args) == 2 {
			if sel, ok := c.Args[0].(*ast.SelectorExpr); ok && sel.Sel.Name == "Extensions" {
				if k, ok := core.ConstStr(info, c.Args[1]); ok {
					D[k] = c.Pos()
				}
			}
			return true
		}
		if callee := core.CalleeOf(info, c); callee != nil && callee.Name() == "Unmarshal" && len(c.Args) == 2 {
			if u, ok := c.Args[1].(*ast.UnaryExpr); ok && u.Op == token.AND {
				if sel, ok := u.X.(*ast.SelectorExpr); ok && sel.Sel.Name == "Extensions" {
					into = true
				}
			}
		}
		return true
	})
	return D, into
}

// c03Refs: the generated *Ref types and the three map-likes must be identical up to the type name.
func c03Refs(r *core.Report) {
	p := r.Prog
	r.RunRule("C03.refs", "generated sibling codecs (the nine *Ref wrappers; the three map-likes Paths/Responses/Callback) are identical up to the kind name: a hand edit of generated code not made in the template is reported", 40, func() {
		for _, rel := range []string{"openapi3", "openapi2"} {
			pk := p.Pkg(rel)
			info := pk.TypesInfo
			var wrappers []*types.Named
			for _, n := range p.ModelTypes(rel, "T") {
				if _, ok := core.IsRefWrapper(n); ok {
					wrappers = append(wrappers, n)
				}
			}
			if rel == "openapi3" && len(wrappers) < 9 {
				core.Fail("only %d ref wrappers found in openapi3", len(wrappers))
			}
			for _, m := range []string{"MarshalYAML", "MarshalJSON", "UnmarshalJSON", "JSONLookup", "RefString", "RefPath", "CollectionName", "setRefPath"} {
				siblingCompare(r, p, info, rel, wrappers, m, "ref")
			}
		}
		var ml []*types.Named
		for _, nm := range []string{"Paths", "Responses", "Callback"} {
			ml = append(ml, p.NamedType("openapi3", nm))
		}
		info := p.Pkg("openapi3").TypesInfo
		// JSONLookup differs by design (maps.sh deref_vs: Responses dereferences v.Value)
		for _, m := range []string{"MarshalYAML", "MarshalJSON", "UnmarshalJSON", "Value", "Set", "Len", "Delete", "Map"} {
			siblingCompare(r, p, info, "openapi3", ml, m, "maplike")
		}
	})
}

// normBody renders a method body with the family member's kind names abstracted.
func normBody(info *types.Info, fd *ast.FuncDecl, subst []string) string {
	var b strings.Builder
	printNode(&b, info, fd, fd.Body)
	out := b.String()
	for i := 0; i+1 < len(subst); i += 2 {
		out = strings.ReplaceAll(out, subst[i], subst[i+1])
	}
	return out
}

func replaceIdent(s, id, with string) string {
	var b strings.Builder
	isId := func(c byte) bool {
		return c == '_' || (c >= '0' && c <= '9') || (c >= 'a' && c <= 'z') || (c >= 'A' && c <= 'Z')
	}
	for i := 0; i < len(s); {
		if strings.HasPrefix(s[i:], id) && (i == 0 || !isId(s[i-1])) && (i+len(id) == len(s) || !isId(s[i+len(id)])) {
			b.WriteString(with)
			i += len(id)
			continue
		}
		b.WriteByte(s[i])
		i++
	}
	return b.String()
}

// printNode prints a canonical token stream of the node (identifiers, literals, operators and
// node kinds), which is stable under reformatting and comments.
func printNode(b *strings.Builder, info *types.Info, fd *ast.FuncDecl, n ast.Node) {
	locals := map[types.Object]string{}
	ast.Inspect(n, func(n ast.Node) bool {
		switch x := n.(type) {
		case nil:
			b.WriteString(")")
			return true
		case *ast.Ident:
			name := x.Name
			if info != nil {
				if o := info.ObjectOf(x); o != nil {
					if _, isVar := o.(*types.Var); isVar && !o.(*types.Var).IsField() && o.Pos() >= fd.Pos() && o.Pos() <= fd.End() {
						if _, ok := locals[o]; !ok {
							locals[o] = fmt.Sprintf("L%d", len(locals))
						}
						name = locals[o]
					}
				}
			}
			b.WriteString("(" + name)
		case *ast.BasicLit:
			b.WriteString("(" + x.Value)
		case *ast.BinaryExpr:
			b.WriteString("(bin" + x.Op.String())
		case *ast.UnaryExpr:
			b.WriteString("(un" + x.Op.String())
		case *ast.AssignStmt:
			b.WriteString("(as" + x.Tok.String())
		case *ast.BranchStmt:
			b.WriteString("(br" + x.Tok.String())
		case *ast.IncDecStmt:
			b.WriteString("(id" + x.Tok.String())
		case *ast.CommentGroup, *ast.Comment:
			return false
		default:
			t := fmt.Sprintf("%T", n)
			b.WriteString("(" + strings.TrimPrefix(t, "*ast."))
		}
		return true
	})
}

func siblingCompare(r *core.Report, p *core.Prog, info *types.Info, rel string, family []*types.Named, method, fam string) {
	bodies := map[string][]string{}
	posOf := map[string]token.Pos{}
	for _, n := range family {
		m := core.HasMethod(n, method)
		if m == nil {
			continue
		}
		fd := p.Decl(m)
		name := n.Obj().Name()
		kind := strings.TrimSuffix(name, "Ref")
		subst := []string{name, "KREF"}
		if fam == "ref" {
			// CollectionName constants and error sentinels mention the kind in lower/upper forms
			subst = append(subst, kind, "K")
		}
		nb := normBody(info, fd, subst)
		if fam == "ref" && method == "CollectionName" {
			// the returned constant is the per-kind datum checked by C16.kind; compare shape only
			nb = stripStringLits(nb)
		}
		if fam == "maplike" || method == "JSONLookup" || method == "UnmarshalJSON" || method == "MarshalYAML" {
			nb = abstractElemNames(nb, n)
		}
		bodies[nb] = append(bodies[nb], name)
		posOf[name] = fd.Pos()
	}
	if len(bodies) == 0 {
		return
	}
	// majority
	var major string
	for b, ns := range bodies {
		if major == "" || len(ns) > len(bodies[major]) {
			major = b
		}
	}
	for b, ns := range bodies {
		for _, name := range ns {
			key := fmt.Sprintf("sib:%s.%s.%s", rel, name, method)
			if b == major {
				r.OK(key, p.Pos(posOf[name]), fmt.Sprintf("identical to %d siblings up to kind name", len(bodies[major])-1))
			} else {
				r.Bad(key, p.Pos(posOf[name]), fmt.Sprintf("body differs from the majority of its generated siblings (%s): hand edit of generated code", strings.Join(bodies[major], ",")))
			}
		}
	}
}

func stripStringLits(s string) string {
	var b strings.Builder
	in := false
	for i := 0; i < len(s); i++ {
		c := s[i]
		if c == '"' {
			in = !in
			b.WriteByte(c)
			continue
		}
		if !in {
			b.WriteByte(c)
		}
	}
	return b.String()
}

// abstractElemNames replaces the element type names of a wrapper/map-like (its Value's type, the
// map element type) by placeholders.
func abstractElemNames(s string, n *types.Named) string {
	st, ok := n.Underlying().(*types.Struct)
	if !ok {
		return s
	}
	for i := 0; i < st.NumFields(); i++ {
		f := st.Field(i)
		if f.Name() == "m" {
			if mp, ok := f.Type().Underlying().(*types.Map); ok {
				if en := core.NamedOf(mp.Elem()); en != nil {
					s = replaceIdent(s, en.Obj().Name(), "ELEM")
				}
			}
		}
		if f.Name() == "Value" {
			if en := core.NamedOf(f.Type()); en != nil {
				s = replaceIdent(s, en.Obj().Name(), "ELEM")
			}
		}
	}
	return s
}

// c03Embed: a type embedding another model type must delegate its codecs to the embedded type.
// c03MethodSet: a custom codec is found by the encoders only when it is in the method set of the
// value they are handed. A model type whose MarshalYAML / MarshalJSON has a pointer receiver and
// which is stored or returned BY VALUE is written by the encoders' struct fallback instead -- without
// its Extensions (tagged "-") and with the zero-valued fields the codec leaves out.
func c03MethodSet(r *core.Report) {
	p := r.Prog
	r.RunRule("C03.methodset", "the custom marshallers are reachable wherever a model value is written: for every model struct of openapi3/openapi2 that declares MarshalYAML or MarshalJSON, each place that hands a value of the type to an encoder by value (a field, map element or slice element of another model struct of that type itself rather than a pointer to it; the operand a MarshalYAML returns) has the method in the value's method set, i.e. the method has a value receiver", 40, func() {
		type occ struct {
			pos  string
			what string
		}
		// by-value hand-over sites per codec
		byValue := map[string]map[*types.Named][]occ{"MarshalYAML": {}, "MarshalJSON": {}}
		var elemOf func(t types.Type) *types.Named
		elemOf = func(t types.Type) *types.Named {
			switch x := t.(type) {
			case *types.Named:
				if core.InRepo(x.Obj().Pkg()) && core.StructOf(x) != nil {
					return x
				}
				switch u := x.Underlying().(type) {
				case *types.Map:
					return elemOf(u.Elem())
				case *types.Slice:
					return elemOf(u.Elem())
				}
			case *types.Map:
				return elemOf(x.Elem())
			case *types.Slice:
				return elemOf(x.Elem())
			case *types.Alias:
				return elemOf(types.Unalias(x))
			}
			return nil
		}
		add := func(codecs []string, en *types.Named, o occ) {
			for _, c := range codecs {
				byValue[c][en] = append(byValue[c][en], o)
			}
		}
		both := []string{"MarshalYAML", "MarshalJSON"}
		for _, rel := range []string{"openapi3", "openapi2"} {
			for _, n := range p.ModelTypes(rel, "T") {
				if core.HasMethod(n, "MarshalYAML") != nil || core.HasMethod(n, "MarshalJSON") != nil {
					continue // what is written is what its marshaller hands over: below
				}
				st := n.Underlying().(*types.Struct)
				for i := 0; i < st.NumFields(); i++ {
					f := st.Field(i)
					if !f.Exported() {
						continue
					}
					if en := elemOf(f.Type()); en != nil {
						add(both, en, occ{p.Pos(f.Pos()), "field " + n.Obj().Name() + "." + f.Name() + " of a struct written by its tags"})
					}
				}
			}
			// what a marshaller stores into the map it builds, or returns, is marshalled in its place:
			// by the YAML writer for MarshalYAML, and by encoding/json for both (MarshalJSON encodes
			// what MarshalYAML built)
			for _, d := range p.AllDecls(rel) {
				if d.Body == nil || d.Recv == nil || (d.Name.Name != "MarshalYAML" && d.Name.Name != "MarshalJSON") {
					continue
				}
				codecs := both
				if d.Name.Name == "MarshalJSON" {
					codecs = []string{"MarshalJSON"}
				}
				info := p.Pkg(rel).TypesInfo
				ast.Inspect(d.Body, func(nn ast.Node) bool {
					switch x := nn.(type) {
					case *ast.FuncLit:
						return false
					case *ast.ReturnStmt:
						if len(x.Results) > 0 && d.Name.Name == "MarshalYAML" {
							if en := elemOf(info.TypeOf(x.Results[0])); en != nil {
								add(codecs, en, occ{p.Pos(x.Pos()), "returned by " + core.FuncName(d)})
							}
						}
					case *ast.AssignStmt:
						if len(x.Lhs) == 1 && len(x.Rhs) == 1 {
							if ix, ok := ast.Unparen(x.Lhs[0]).(*ast.IndexExpr); ok {
								if _, isMap := info.TypeOf(ix.X).Underlying().(*types.Map); isMap {
									if en := elemOf(info.TypeOf(x.Rhs[0])); en != nil {
										add(codecs, en, occ{p.Pos(x.Pos()), "stored by " + core.FuncName(d)})
									}
								}
							}
						}
					}
					return true
				})
			}
		}
		for _, rel := range []string{"openapi3", "openapi2"} {
			for _, n := range p.ModelTypes(rel, "T") {
				for _, m := range []string{"MarshalYAML", "MarshalJSON"} {
					fn := core.HasMethod(n, m)
					if fn == nil {
						continue
					}
					sig := fn.Type().(*types.Signature)
					_, ptrRecv := sig.Recv().Type().(*types.Pointer)
					occs := byValue[m][n]
					key := fmt.Sprintf("methodset:%s.%s.%s", rel, n.Obj().Name(), m)
					switch {
					case !ptrRecv:
						r.OK(key, p.Pos(fn.Pos()), fmt.Sprintf("value receiver: found for a value and for a pointer (%d by-value uses)", len(occs)))
					case len(occs) == 0:
						r.OK(key, p.Pos(fn.Pos()), "pointer receiver, and the type is only ever held by pointer")
					default:
						r.Bad(key, p.Pos(fn.Pos()), fmt.Sprintf("%s.%s has a pointer receiver but a %s is handed to the encoders by value (%s at %s): for that value the encoder does not find the method and writes the struct by its tags, without Extensions", n.Obj().Name(), m, n.Obj().Name(), occs[0].what, occs[0].pos))
					}
				}
			}
		}
	})
}

func c03Embed(r *core.Report) {
	p := r.Prog
	r.RunRule("C03.embed", "a model struct that embeds another model struct delegates MarshalJSON/MarshalYAML/UnmarshalJSON to the embedded type", 3, func() {
		for _, rel := range []string{"openapi3", "openapi2"} {
			for _, n := range p.ModelTypes(rel, "T") {
				st := n.Underlying().(*types.Struct)
				for i := 0; i < st.NumFields(); i++ {
					f := st.Field(i)
					if !f.Embedded() {
						continue
					}
					en := core.NamedOf(f.Type())
					if en == nil || !core.InRepo(en.Obj().Pkg()) || core.StructOf(en) == nil {
						continue
					}
					for _, m := range []string{"MarshalJSON", "MarshalYAML", "UnmarshalJSON"} {
						if core.HasMethod(en, m) == nil {
							continue
						}
						key := fmt.Sprintf("embed:%s.%s.%s", rel, n.Obj().Name(), m)
						own := core.HasMethod(n, m)
						if own == nil {
							// promoted method: UnmarshalJSON promoted through a pointer embedding would
							// fill only the embedded part, which is the whole struct here if it has no other fields
							if st.NumFields() == 1 {
								r.OK(key, p.Pos(f.Pos()), "promoted from the only (embedded) field")
							} else {
								r.Bad(key, p.Pos(f.Pos()), "codec promoted from the embedded type although the struct has further fields")
							}
							continue
						}
						fd := p.Decl(own)
						info := p.InfoFor(own.Pkg())
						delegates := false
						ast.Inspect(fd.Body, func(nn ast.Node) bool {
							if ret, ok := nn.(*ast.ReturnStmt); ok && m == "MarshalYAML" && len(ret.Results) > 0 {
								// returning the embedded value itself: the YAML writer calls its MarshalYAML
								if fv := fieldOfRecv(info, recvObj(info, fd), ret.Results[0]); fv == f {
									delegates = true
								}
							}
							c, ok := nn.(*ast.CallExpr)
							if !ok {
								return true
							}
							callee := core.CalleeOf(info, c)
							if callee == nil || callee.Name() != m {
								return true
							}
							if sig, ok := callee.Type().(*types.Signature); ok && sig.Recv() != nil && core.NamedOf(sig.Recv().Type()) == en {
								delegates = true
							}
							return true
						})
						r.Check(delegates, key, p.Pos(fd.Pos()), "calls "+en.Obj().Name()+"."+m, "does not delegate to the embedded type's "+m+": fields of the embedded type are lost or duplicated")
					}
				}
			}
		}
	})
}

// c03RefOnly: an object that is a reference is written as the reference alone. The loader copies the
// target's content next to the reference string it keeps (a path item) or into Value (the wrappers);
// a marshaller that writes any of it next to "$ref" invents fields the input did not have.
func c03RefOnly(r *core.Report) {
	p := r.Prog
	r.RunRule("C03.refonly", "a reference is written as `$ref` alone: in every MarshalYAML / MarshalJSON of packages openapi3 and openapi2 the branch taken when the receiver's Ref is non-empty returns a value of the one-field type Ref (or delegates to the marshaller of such a value) on every path — never a map or struct carrying other fields of the receiver, which after loading hold the target's content", 10, func() {
		for _, rel := range []string{"openapi3", "openapi2"} {
			pkg := p.PkgOpt(rel)
			if pkg == nil {
				continue
			}
			info := pkg.TypesInfo
			for _, d := range p.AllDecls(rel) {
				if d.Recv == nil || d.Body == nil || (d.Name.Name != "MarshalYAML" && d.Name.Name != "MarshalJSON") {
					continue
				}
				if len(d.Recv.List[0].Names) == 0 {
					continue
				}
				recv := info.ObjectOf(d.Recv.List[0].Names[0])
				// if statements whose condition tests recv.Ref (directly or through `ref := recv.Ref`)
				ast.Inspect(d.Body, func(n ast.Node) bool {
					is, ok := n.(*ast.IfStmt)
					if !ok {
						return true
					}
					testsRef := false
					var refVar types.Object
					if as, ok := is.Init.(*ast.AssignStmt); ok && len(as.Lhs) == 1 && len(as.Rhs) == 1 {
						if sel, ok := ast.Unparen(as.Rhs[0]).(*ast.SelectorExpr); ok && sel.Sel.Name == "Ref" {
							if id, ok := ast.Unparen(sel.X).(*ast.Ident); ok && info.ObjectOf(id) == recv {
								if l, ok := as.Lhs[0].(*ast.Ident); ok {
									refVar = info.ObjectOf(l)
								}
							}
						}
					}
					if be, ok := ast.Unparen(is.Cond).(*ast.BinaryExpr); ok && be.Op == token.NEQ {
						if s, ok := strConst(info, be.Y); ok && s == "" {
							switch x := ast.Unparen(be.X).(type) {
							case *ast.Ident:
								testsRef = refVar != nil && info.ObjectOf(x) == refVar
							case *ast.SelectorExpr:
								if id, ok := ast.Unparen(x.X).(*ast.Ident); ok && x.Sel.Name == "Ref" && info.ObjectOf(id) == recv {
									testsRef = true
								}
							}
						}
					}
					if !testsRef {
						return true
					}
					key := fmt.Sprintf("refonly:%s.%s", rel, core.FuncName(d))
					bad := ""
					nret := 0
					ast.Inspect(is.Body, func(m ast.Node) bool {
						ret, ok := m.(*ast.ReturnStmt)
						if !ok || len(ret.Results) == 0 {
							return true
						}
						nret++
						e := ast.Unparen(ret.Results[0])
						if ce, ok := e.(*ast.CallExpr); ok {
							// json.Marshal(Ref{...}) / x.MarshalYAML() on a Ref value
							if len(ce.Args) == 1 {
								e = ast.Unparen(ce.Args[0])
							} else if sel, ok := ast.Unparen(ce.Fun).(*ast.SelectorExpr); ok {
								e = ast.Unparen(sel.X)
							}
						}
						if u, ok := e.(*ast.UnaryExpr); ok && u.Op == token.AND {
							e = ast.Unparen(u.X)
						}
						t := info.TypeOf(e)
						nn := core.NamedOf(t)
						if nn == nil || nn.Obj().Name() != "Ref" {
							bad = fmt.Sprintf("returns %s (%v) at %s", core.ExprStr(ret.Results[0]), t, p.Pos(ret.Pos()))
						}
						return true
					})
					switch {
					case bad != "":
						r.Bad(key, p.Pos(is.Pos()), "when the receiver is a reference the marshaller "+bad+" instead of the bare reference: fields standing next to $ref are written out, and after loading those fields hold the referenced object's content, so the output has keys the input did not have")
					case nret == 0:
						r.Unknown(key, p.Pos(is.Pos()), "the reference branch has no return")
					default:
						r.OK(key, p.Pos(is.Pos()), "the reference branch writes the bare reference")
					}
					return false
				})
			}
		}
	})
}

// c03Collect: unknown fields survive because every UnmarshalJSON decodes the raw object a second time
// into Extensions (and then deletes the known keys). That second decode must run for every input.
func c03Collect(r *core.Report) {
	p := r.Prog
	r.RunRule("C03.collect", "unknown fields and extensions are collected for every input: in each UnmarshalJSON of packages openapi3 and openapi2 that deletes known keys from the receiver's Extensions, the decode of the raw bytes into Extensions is executed unconditionally (only earlier error returns may precede it) — a decode that depends on the input's text (`if bytes.Contains(data, ...)`) silently drops fields", 20, func() {
		for _, rel := range []string{"openapi3", "openapi2"} {
			pkg := p.PkgOpt(rel)
			if pkg == nil {
				continue
			}
			info := pkg.TypesInfo
			for _, d := range p.AllDecls(rel) {
				if d.Recv == nil || d.Body == nil || d.Name.Name != "UnmarshalJSON" {
					continue
				}
				deletes := false
				var decode *ast.CallExpr
				ast.Inspect(d.Body, func(n ast.Node) bool {
					c, ok := n.(*ast.CallExpr)
					if !ok {
						return true
					}
					if id, ok := ast.Unparen(c.Fun).(*ast.Ident); ok && id.Name == "delete" && len(c.Args) == 2 {
						if sel, ok := ast.Unparen(c.Args[0]).(*ast.SelectorExpr); ok && sel.Sel.Name == "Extensions" {
							deletes = true
						}
					}
					if f := core.CalleeOf(info, c); f != nil && f.Pkg() != nil && f.Name() == "Unmarshal" && len(c.Args) == 2 {
						if u, ok := ast.Unparen(c.Args[1]).(*ast.UnaryExpr); ok && u.Op == token.AND {
							if sel, ok := ast.Unparen(u.X).(*ast.SelectorExpr); ok && sel.Sel.Name == "Extensions" {
								decode = c
							}
						}
					}
					return true
				})
				if !deletes {
					continue
				}
				key := fmt.Sprintf("collect:%s.%s", rel, core.FuncName(d))
				if decode == nil {
					r.Bad(key, p.Pos(d.Pos()), "known keys are deleted from Extensions but the raw object is never decoded into it: every unknown field and extension is lost on load")
					continue
				}
				cond := ""
				for _, a := range core.Atoms(core.GuardsAt(info, d.Body, decode)) {
					// earlier `if err != nil { return }` checks are fine
					onlyErr := false
					if be, ok := ast.Unparen(a.Expr).(*ast.BinaryExpr); ok {
						for _, pair := range [][2]ast.Expr{{be.X, be.Y}, {be.Y, be.X}} {
							if tv, ok := info.Types[pair[1]]; ok && tv.IsNil() {
								if t := info.TypeOf(pair[0]); t != nil && isErrorType(t) {
									onlyErr = true
								}
							}
						}
					}
					if !onlyErr {
						cond = core.ExprStr(a.Expr)
					}
				}
				if cond != "" {
					r.Bad(key, p.Pos(decode.Pos()), fmt.Sprintf("the decode of the raw object into Extensions runs only when `%s`: for the other inputs every field the type does not declare (and, because the known keys are then deleted from a nil map, nothing else) is dropped on load and missing from the output", cond))
				} else {
					r.OK(key, p.Pos(decode.Pos()), "unconditional")
				}
			}
		}
	})
}

// c03NullPresence: JSON null decodes into any non-pointer target without an error and without
// touching it. A decoder that records "the key was given" by taking the address of such a target
// records it for null as well, with the zero value: `additionalProperties: null` becomes
// `additionalProperties: false`.
func c03NullPresence(r *core.Report) {
	p := r.Prog
	r.RunRule("C03.nullpresence", "null is not taken for a value: in each UnmarshalJSON of packages openapi3 and openapi2, a local variable that json.Unmarshal fills directly from the raw bytes never has its address stored into a pointer field of the receiver (a presence marker) — null would leave the variable at its zero value and mark it present; presence pointers are set from a type switch over the decoded `any`, where null is its own case", 40, func() {
		n := 0
		for _, rel := range []string{"openapi3", "openapi2"} {
			pkg := p.PkgOpt(rel)
			if pkg == nil {
				continue
			}
			info := pkg.TypesInfo
			for _, d := range p.AllDecls(rel) {
				if d.Recv == nil || d.Body == nil || d.Name.Name != "UnmarshalJSON" || len(d.Type.Params.List) != 1 || len(d.Type.Params.List[0].Names) != 1 {
					continue
				}
				n++
				data := info.ObjectOf(d.Type.Params.List[0].Names[0])
				recv := recvObj(info, d)
				// locals filled straight from the raw bytes
				filled := map[types.Object]bool{}
				ast.Inspect(d.Body, func(nn ast.Node) bool {
					c, ok := nn.(*ast.CallExpr)
					if !ok || len(c.Args) != 2 {
						return true
					}
					f := core.CalleeOf(info, c)
					if f == nil || f.Name() != "Unmarshal" {
						return true
					}
					if id, ok := ast.Unparen(c.Args[0]).(*ast.Ident); !ok || info.ObjectOf(id) != data {
						return true
					}
					if u, ok := ast.Unparen(c.Args[1]).(*ast.UnaryExpr); ok && u.Op == token.AND {
						if id, ok := ast.Unparen(u.X).(*ast.Ident); ok {
							t := info.TypeOf(id).Underlying()
							if _, isIface := t.(*types.Interface); !isIface {
								if _, isPtr := t.(*types.Pointer); !isPtr {
									filled[info.ObjectOf(id)] = true
								}
							}
						}
					}
					return true
				})
				key := "nullpresence:" + core.FuncName(d)
				bad := ""
				ast.Inspect(d.Body, func(nn ast.Node) bool {
					as, ok := nn.(*ast.AssignStmt)
					if !ok {
						return true
					}
					for i, l := range as.Lhs {
						if i >= len(as.Rhs) {
							break
						}
						sel, ok := ast.Unparen(l).(*ast.SelectorExpr)
						if !ok || core.RootIdent(sel) == nil || info.ObjectOf(core.RootIdent(sel)) != recv {
							continue
						}
						if u, ok := ast.Unparen(as.Rhs[i]).(*ast.UnaryExpr); ok && u.Op == token.AND {
							if id, ok := ast.Unparen(u.X).(*ast.Ident); ok && filled[info.ObjectOf(id)] {
								bad = fmt.Sprintf("%s = &%s at %s", core.ExprStr(l), id.Name, p.Pos(as.Pos()))
							}
						}
					}
					return true
				})
				r.Check(bad == "", key, p.Pos(d.Pos()), "no presence marker taken from a directly decoded local", core.FuncName(d)+" marks a field present with the address of a variable that json.Unmarshal filled from the raw bytes ("+bad+"): for JSON null the decode succeeds without touching the variable, so null is recorded as the zero value (an explicit `false`, `0` or empty object the input did not have)")
			}
		}
		if n == 0 {
			core.Fail("no UnmarshalJSON found")
		}
	})
}

// c03RequiredKeys: a key whose absence the type's own Validate rejects is written whenever the
// object is, also when its value is empty: `"scopes": {}` is a conforming flow, the same flow without
// the key is not, and the writer that leaves out empty collections turns one into the other.
func c03RequiredKeys(r *core.Report) {
	p := r.Prog
	r.RunRule("C03.requiredkeys", "what Validate requires to be there is written unconditionally: for every model struct T of openapi3/openapi2 whose Validate returns an error under `recv.F == nil`, T's MarshalYAML stores the JSON key of F into the map it builds outside any condition (not under `len(x) != 0` or `x != nil`) — an empty-but-present value must come back as written, or the reloaded document no longer validates", 1, func() {
		n := 0
		for _, rel := range []string{"openapi3", "openapi2"} {
			info := p.Pkg(rel).TypesInfo
			for _, d := range p.AllDecls(rel) {
				if d.Body == nil || d.Recv == nil || d.Name.Name != "Validate" {
					continue
				}
				recv := recvObj(info, d)
				if recv == nil {
					continue
				}
				rn := core.NamedOf(recv.Type())
				st := core.StructOf(rn)
				if rn == nil || st == nil {
					continue
				}
				for _, stmt := range d.Body.List {
					ifs, ok := stmt.(*ast.IfStmt)
					if !ok || ifs.Init != nil || len(ifs.Body.List) != 1 {
						continue
					}
					be, ok := ast.Unparen(ifs.Cond).(*ast.BinaryExpr)
					if !ok || be.Op != token.EQL || !core.IsNil(info, be.Y) {
						continue
					}
					sel, ok := ast.Unparen(be.X).(*ast.SelectorExpr)
					if !ok {
						continue
					}
					if id, ok := ast.Unparen(sel.X).(*ast.Ident); !ok || info.ObjectOf(id) != recv {
						continue
					}
					ret, ok := ifs.Body.List[0].(*ast.ReturnStmt)
					if !ok || len(ret.Results) == 0 || core.IsNil(info, ret.Results[len(ret.Results)-1]) {
						continue
					}
					// the JSON key of the field
					jsonKey := ""
					for i := 0; i < st.NumFields(); i++ {
						if st.Field(i).Name() == sel.Sel.Name {
							jsonKey, _ = core.JSONTag(st.Tag(i))
						}
					}
					my := core.HasMethod(rn, "MarshalYAML")
					if jsonKey == "" || my == nil {
						continue
					}
					md := p.Decl(my)
					if md == nil || md.Body == nil {
						continue
					}
					n++
					key := fmt.Sprintf("requiredkeys:%s.%s.%s", rel, rn.Obj().Name(), jsonKey)
					state := "missing"
					ast.Inspect(md.Body, func(nd ast.Node) bool {
						as, ok := nd.(*ast.AssignStmt)
						if !ok || len(as.Lhs) != 1 {
							return true
						}
						ix, ok := ast.Unparen(as.Lhs[0]).(*ast.IndexExpr)
						if !ok {
							return true
						}
						if k, isStr := core.ConstStr(info, ix.Index); !isStr || k != jsonKey {
							return true
						}
						// unconditional: a statement of the function body itself
						top := false
						for _, bs := range md.Body.List {
							if bs == ast.Stmt(as) {
								top = true
							}
						}
						if !top {
							// under `true`, or under the nil test of the value itself: an empty value still passes
							var inner *ast.IfStmt
							for _, anc := range core.PathTo(md.Body, as) {
								if ifs, ok := anc.(*ast.IfStmt); ok {
									inner = ifs
								}
							}
							if inner != nil {
								if c, isConst := constBool(info, inner.Cond); isConst && c {
									top = true
								}
								if be, ok := ast.Unparen(inner.Cond).(*ast.BinaryExpr); ok && be.Op == token.NEQ && core.IsNil(info, be.Y) {
									top = true
								}
							}
						}
						if top {
							state = "ok"
						} else if state != "ok" {
							state = "conditional at " + p.Pos(as.Pos())
						}
						return true
					})
					r.Check(state == "ok", key, p.Pos(md.Pos()), "written whenever the object is", fmt.Sprintf("%s.Validate rejects a nil %s, but %s.MarshalYAML writes %q only under a condition (%s): an object that has the key with an empty value is written without it, and the document that comes back fails validation (`field '%s' is missing`-style) although the input passed", rn.Obj().Name(), sel.Sel.Name, rn.Obj().Name(), jsonKey, state, jsonKey))
				}
			}
		}
		// openapi2 has no Validate: the keys the Swagger 2 specification requires, frozen here
		info2 := p.Pkg("openapi2").TypesInfo
		for _, row := range [][3]string{{"T", "paths", "Paths Object: required"}, {"SecurityScheme", "scopes", "required for oauth2"}} {
			tn := p.NamedType("openapi2", row[0])
			my := core.HasMethod(tn, "MarshalJSON")
			if my == nil {
				core.Fail("openapi2.%s has no MarshalJSON", row[0])
			}
			md := p.Decl(my)
			n++
			key := fmt.Sprintf("requiredkeys:openapi2.%s.%s", row[0], row[1])
			state := "missing"
			ast.Inspect(md.Body, func(nd ast.Node) bool {
				as, ok := nd.(*ast.AssignStmt)
				if !ok || len(as.Lhs) != 1 {
					return true
				}
				ix, ok := ast.Unparen(as.Lhs[0]).(*ast.IndexExpr)
				if !ok {
					return true
				}
				if k, isStr := core.ConstStr(info2, ix.Index); !isStr || k != row[1] {
					return true
				}
				state = "conditional at " + p.Pos(as.Pos())
				for _, bs := range md.Body.List {
					if bs == ast.Stmt(as) {
						state = "ok"
					}
				}
				var inner *ast.IfStmt
				for _, anc := range core.PathTo(md.Body, as) {
					if ifs, ok := anc.(*ast.IfStmt); ok {
						inner = ifs
					}
				}
				if inner != nil {
					if be, ok := ast.Unparen(inner.Cond).(*ast.BinaryExpr); ok && be.Op == token.NEQ && core.IsNil(info2, be.Y) {
						state = "ok"
					}
				}
				return true
			})
			r.Check(state == "ok", key, p.Pos(md.Pos()), "written whenever it was given", fmt.Sprintf("openapi2.%s.MarshalJSON writes %q only when it is not empty (%s): `%s: {}` (%s) disappears from the output, which is then no longer the document that was read", row[0], row[1], state, row[1], row[2]))
		}
		if n == 0 {
			core.Fail("no required-non-nil field with a MarshalYAML found")
		}
	})
}
