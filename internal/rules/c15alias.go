package rules

import (
	"fmt"
	"go/token"
	"go/types"
	"strings"

	"golang.org/x/tools/go/ssa"

	"verif/internal/core"
)

// c15AppendAlias: append writes into the backing array of its first argument whenever that array
// has room. A slice that belongs to a shared object (a list of the loaded document, the field list
// of a cached type description) therefore must not be the first argument of an append — nor be
// cut to length zero and refilled — in code that runs concurrently.
func c15AppendAlias(r *core.Report, scope []*ssa.Function) {
	p := r.Prog
	shared := sharedTypes(p)
	// the element types of package-level maps (caches): what is published there is shared
	for _, fn := range p.RepoSSAFuncs() {
		if fn.Pkg == nil {
			continue
		}
		for _, m := range fn.Pkg.Members {
			g, ok := m.(*ssa.Global)
			if !ok {
				continue
			}
			if pt, ok := g.Type().(*types.Pointer); ok {
				if mt, ok := pt.Elem().Underlying().(*types.Map); ok {
					if n := core.NamedOf(mt.Elem()); n != nil && n.Obj().Pkg() != nil && core.InRepo(n.Obj().Pkg()) {
						if _, isStruct := n.Underlying().(*types.Struct); isStruct {
							shared[n.Origin()] = true
						}
					}
				}
			}
		}
	}
	r.RunRule("C15.appendalias", "no append onto shared storage: in the code reachable from route finding, request/response validation, VisitJSON and schema generation, the first argument of every append is not (a reslice of) a slice loaded from a field of a shared object — a document-model struct, a router, a route, a pattern-tree node, a Validator/Options, or a struct published in a package-level map — that this activation did not create, unless its capacity is cut to its length (s[:n:n]); append writes the new elements into the spare capacity of that slice's backing array (a list decoded from YAML usually has some), where another goroutine validating against the same document reads them; cutting such a slice to s[:0] and refilling it rewrites the shared elements in place", 20, func() {
		perFn := map[string]int{}
		n := 0
		for _, fn := range scope {
			for _, b := range fn.Blocks {
				for _, in := range b.Instrs {
					c, ok := in.(*ssa.Call)
					if !ok {
						continue
					}
					// sorting in place: sort.Strings/Ints/Float64s/Slice/SliceStable/Sort/Stable, slices.Sort*
					if sc := c.Common().StaticCallee(); sc != nil && sc.Pkg != nil && len(c.Common().Args) > 0 {
						pp := sc.Pkg.Pkg.Path()
						if (pp == "sort" && (sc.Name() == "Strings" || sc.Name() == "Ints" || sc.Name() == "Float64s" || sc.Name() == "Slice" || sc.Name() == "SliceStable" || sc.Name() == "Sort" || sc.Name() == "Stable")) || (pp == "slices" && (strings.HasPrefix(sc.Name(), "Sort") || sc.Name() == "Reverse")) {
							arg := c.Common().Args[0]
							if mi, ok := arg.(*ssa.MakeInterface); ok {
								arg = mi.X
							}
							if _, isSlice := arg.Type().Underlying().(*types.Slice); isSlice {
								n++
								name := shortFn(fn)
								perFn[name]++
								key := fmt.Sprintf("appendalias:%s#%d(sort)", name, perFn[name])
								if why := sharedBacking(arg, shared, 0, map[ssa.Value]bool{}); why != "" {
									r.Bad(key, p.Pos(in.Pos()), pp+"."+sc.Name()+" reorders "+why+" in place: a write into memory that other goroutines using the same object read, and a change of the document (the order of a list is part of it)")
								} else {
									r.OK(key, p.Pos(in.Pos()), "the sorted slice is not storage of a shared object")
								}
							}
						}
					}
					bi, ok := c.Common().Value.(*ssa.Builtin)
					if !ok || bi.Name() != "append" || len(c.Common().Args) == 0 {
						continue
					}
					n++
					name := shortFn(fn)
					perFn[name]++
					key := fmt.Sprintf("appendalias:%s#%d", name, perFn[name])
					if why := sharedBacking(c.Common().Args[0], shared, 0, map[ssa.Value]bool{}); why != "" {
						r.Bad(key, p.Pos(in.Pos()), "append onto "+why+": when that slice has spare capacity the appended elements are written into its backing array, which every other goroutine using the same object reads (and two concurrent calls overwrite each other's elements)")
					} else {
						r.OK(key, p.Pos(in.Pos()), "the first argument is not storage of a shared object")
					}
				}
			}
		}
		r.Extra["append_sites"] = n
	})
}

// sharedBacking: why the slice value v shares its backing array with a shared object ("" if it
// does not, as far as the value chain shows).
func sharedBacking(v ssa.Value, shared map[*types.Named]bool, depth int, seen map[ssa.Value]bool) string {
	if depth > 8 || seen[v] {
		return ""
	}
	seen[v] = true
	switch x := v.(type) {
	case *ssa.Slice:
		if x.Max != nil {
			return "" // capacity cut: an append reallocates
		}
		return sharedBacking(x.X, shared, depth+1, seen)
	case *ssa.ChangeType:
		return sharedBacking(x.X, shared, depth+1, seen)
	case *ssa.Phi:
		for _, e := range x.Edges {
			if w := sharedBacking(e, shared, depth+1, seen); w != "" {
				return w
			}
		}
	case *ssa.UnOp:
		if x.Op != token.MUL {
			return ""
		}
		switch ad := x.X.(type) {
		case *ssa.UnOp:
			// *p where p was loaded from a field of a shared object (schema.Type is a *Types)
			if ad.Op == token.MUL {
				if fa, ok := ad.X.(*ssa.FieldAddr); ok {
					bn := core.NamedOf(fa.X.Type())
					if bn != nil && shared[bn.Origin()] && !freshLocal(fa.X, 0) {
						_, f := fieldNames(fa.X.Type(), fa.Field)
						return "the list that field " + f + " of a " + bn.Obj().Name() + " points to, which this call did not create"
					}
				}
			}
		case *ssa.FieldAddr:
			bn := core.NamedOf(ad.X.Type())
			if bn == nil || !shared[bn.Origin()] || freshLocal(ad.X, 0) {
				return ""
			}
			_, f := fieldNames(ad.X.Type(), ad.Field)
			return "the slice in field " + f + " of a " + bn.Obj().Name() + " that this call did not create"
		case *ssa.Alloc:
			for _, ref := range *ad.Referrers() {
				if st, ok := ref.(*ssa.Store); ok && st.Addr == ssa.Value(ad) {
					if w := sharedBacking(st.Val, shared, depth+1, seen); w != "" {
						return w
					}
				}
			}
		}
	case *ssa.Field:
		bn := core.NamedOf(x.X.Type())
		if bn == nil || !shared[bn.Origin()] {
			return ""
		}
		if u, ok := x.X.(*ssa.UnOp); ok && u.Op == token.MUL && !freshLocal(u.X, 0) {
			_, f := fieldNames(x.X.Type(), x.Field)
			return "the slice in field " + f + " of a " + bn.Obj().Name() + " that this call did not create"
		}
	case *ssa.Call:
		// append(append(shared, a), b): the inner result may still be the shared array
		if bi, ok := x.Common().Value.(*ssa.Builtin); ok && bi.Name() == "append" && len(x.Common().Args) > 0 {
			return sharedBacking(x.Common().Args[0], shared, depth+1, seen)
		}
	}
	return ""
}
