package rules

import (
	"fmt"
	"go/ast"
	"go/token"
	"go/types"
	"strings"

	"verif/internal/core"
)

func init() { register("C07", c07) }

// optionFieldRead: e selects a field of openapi3filter.Options; returns its name.
func optionFieldRead(info *types.Info, e ast.Expr) string {
	f := core.FieldSel(info, e)
	if f == nil || !core.InRepo(f.Pkg()) || f.Pkg().Name() != "openapi3filter" {
		return ""
	}
	return f.Name()
}

// callsTo returns the calls in body whose static callee has the given name.
func callsTo(info *types.Info, body ast.Node, name string) []*ast.CallExpr {
	var out []*ast.CallExpr
	ast.Inspect(body, func(n ast.Node) bool {
		if c, ok := n.(*ast.CallExpr); ok {
			if callee := core.CalleeOf(info, c); callee != nil && callee.Name() == name {
				out = append(out, c)
			}
		}
		return true
	})
	return out
}

// enclosingIfInit: the IfStmt whose Init is `x := <call>` / `x = <call>`.
func enclosingIfInit(body ast.Node, call *ast.CallExpr) (*ast.IfStmt, *ast.Ident) {
	path := core.PathTo(body, call)
	for i := len(path) - 1; i >= 0; i-- {
		if ifs, ok := path[i].(*ast.IfStmt); ok && ifs.Init != nil {
			if as, ok := ifs.Init.(*ast.AssignStmt); ok && len(as.Rhs) == 1 && ast.Unparen(as.Rhs[0]) == ast.Expr(call) && len(as.Lhs) >= 1 {
				if id, ok := as.Lhs[len(as.Lhs)-1].(*ast.Ident); ok {
					return ifs, id
				}
			}
		}
	}
	return nil, nil
}

// checkPartFailure: the error of a validation part (bound in `if err := part(...); err != nil`) is
// returned (non-multi mode) or appended to the MultiError accumulator, on every path of the body.
func checkPartFailure(r *core.Report, na *core.NilAnalysis, ff *core.FuncFacts, fd *ast.FuncDecl, call *ast.CallExpr, key string) {
	p := r.Prog
	info := ff.Info
	ifs, errID := enclosingIfInit(fd.Body, call)
	if ifs == nil {
		r.Bad(key, p.Pos(call.Pos()), "the part's error is not bound in `if err := part(...); err != nil`: its failure can be lost")
		return
	}
	errObj := info.ObjectOf(errID)
	// cond must be err != nil
	be, ok := ast.Unparen(ifs.Cond).(*ast.BinaryExpr)
	if !ok || be.Op != token.NEQ || !core.IsNil(info, be.Y) || !usesObj(info, be.X, errObj) {
		r.Bad(key, p.Pos(ifs.Pos()), "the part's error is not tested with `err != nil`")
		return
	}
	// body: optional `if !options.MultiError { return err }`, then append(me, err)
	recorded := false
	for _, s := range ifs.Body.List {
		switch x := s.(type) {
		case *ast.IfStmt:
			c := ast.Unparen(x.Cond)
			if u, ok := c.(*ast.UnaryExpr); ok && u.Op == token.NOT {
				c = ast.Unparen(u.X)
			}
			if optionFieldRead(info, c) == "MultiError" {
				if len(x.Body.List) == 1 {
					if ret, ok := x.Body.List[0].(*ast.ReturnStmt); ok && len(ret.Results) == 1 && usesObj(info, ret.Results[0], errObj) && na.Classify(ff, ret.Results[0], ret) == core.NonNil {
						continue
					}
				}
				r.Bad(key, p.Pos(x.Pos()), "in non-multi-error mode the failing part does not return its (non-nil) error")
				return
			}
		case *ast.AssignStmt:
			if o, args := isErrSliceAppend(info, x); o != nil {
				for _, a := range args {
					if usesObj(info, a, errObj) {
						recorded = true
					}
				}
			}
		case *ast.ReturnStmt:
			if len(x.Results) == 1 && na.Classify(ff, x.Results[0], x) == core.NonNil {
				recorded = true
			}
		}
		if recorded {
			break
		}
	}
	r.Check(recorded, key, p.Pos(ifs.Pos()), "failure returned or appended to the MultiError", "the part's failure is neither returned nor appended to the MultiError: a failing part can pass")
}

func c07(r *core.Report) {
	p := r.Prog
	pk := p.Pkg("openapi3filter")
	info := pk.TypesInfo
	na := core.NewNilAnalysis(p)
	fd := p.DeclOf("openapi3filter", "ValidateRequest")
	ff := core.NewFuncFacts(p, info, fd)
	r.Assumption("the verdict of each part (security callback, parameter decoding+schema, body) is not decided here; see C05, C06, C01")
	c07EveryRequirement(r)

	r.RunRule("C07.parts", "every part is validated and no part's failure is lost: ValidateRequest calls ValidateSecurityRequirements (>=1), ValidateParameter (path-level and operation-level loops) and ValidateRequestBody; each call's error is bound and tested, returned in single-error mode (provably non-nil) and appended to the MultiError otherwise; the function ends with `if len(me) > 0 { return me }`", 6, func() {
		need := map[string]int{"ValidateSecurityRequirements": 1, "ValidateParameter": 2, "ValidateRequestBody": 1}
		for name, min := range need {
			calls := callsTo(info, fd.Body, name)
			if len(calls) < min {
				r.Bad("part-called:"+name, p.Pos(fd.Pos()), fmt.Sprintf("ValidateRequest calls %s %d times, expected >= %d: a part of the request is not validated", name, len(calls), min))
				continue
			}
			for i, c := range calls {
				checkPartFailure(r, na, ff, fd, c, fmt.Sprintf("part:%s#%d", name, i+1))
			}
		}
		// epilogue
		top := fd.Body.List
		okEp := false
		if len(top) >= 2 {
			if ifs, ok := top[len(top)-2].(*ast.IfStmt); ok && len(ifs.Body.List) == 1 {
				if ret, ok := ifs.Body.List[0].(*ast.ReturnStmt); ok && len(ret.Results) == 1 && na.Classify(ff, ret.Results[0], ret) == core.NonNil {
					if nt := core.NamedOf(info.TypeOf(ret.Results[0])); nt != nil && nt.Obj().Name() == "MultiError" {
						okEp = true
					}
				}
			}
		}
		r.Check(okEp, "part:epilogue", p.Pos(top[len(top)-1].Pos()), "ends with `if len(me) > 0 { return me }`", "accumulated part failures are not returned at the end")
		// no possibly-nil return before the last statement
		bad := token.NoPos
		ast.Inspect(fd.Body, func(n ast.Node) bool {
			if ret, ok := n.(*ast.ReturnStmt); ok && ret != top[len(top)-1] && len(ret.Results) == 1 {
				if na.Classify(ff, ret.Results[0], ret) != core.NonNil {
					bad = ret.Pos()
				}
			}
			return true
		})
		r.Check(bad == token.NoPos, "part:no-early-success", p.Pos(bad), "the only possibly-nil return is the last statement", "ValidateRequest can return success before all parts ran")
	})

	r.RunRule("C07.prec", "operation security overrides document security: the requirement list passed to ValidateSecurityRequirements is the operation's, replaced by the document's only on the `== nil` edge of the operation's", 1, func() {
		calls := callsTo(info, fd.Body, "ValidateSecurityRequirements")
		if len(calls) == 0 {
			core.Fail("no call of ValidateSecurityRequirements")
		}
		arg := calls[0].Args[2]
		var id *ast.Ident
		ast.Inspect(arg, func(n ast.Node) bool {
			if x, ok := n.(*ast.Ident); ok && id == nil {
				if _, isVar := info.ObjectOf(x).(*types.Var); isVar {
					id = x
				}
			}
			return true
		})
		if id == nil {
			core.Fail("security argument is not a variable")
		}
		obj := info.ObjectOf(id)
		as := ff.Assigns(obj)
		okOp, okDoc := false, false
		for _, a := range as {
			if a.Rhs == nil {
				continue
			}
			rs := ff.Roots(a.Rhs, false)
			var fromOp, fromDoc bool
			for f := range rs.Fields {
				if f.Name() == "Security" {
					if own := fieldOwner(f); own == "Operation" {
						fromOp = true
					} else if own == "T" {
						fromDoc = true
					}
				}
			}
			if fromOp && !fromDoc {
				okOp = true
			}
			if fromDoc {
				// must be guarded by obj == nil
				for _, at := range core.Atoms(core.GuardsAt(info, fd.Body, a.Stmt)) {
					if be, ok := ast.Unparen(at.Expr).(*ast.BinaryExpr); ok && be.Op == token.EQL && at.Pos && core.IsNil(info, be.Y) && usesObj(info, be.X, obj) {
						okDoc = true
					}
				}
			}
		}
		r.Check(okOp && okDoc && len(as) == 2, "prec:security", p.Pos(calls[0].Pos()), "operation.Security, else (only when nil) the document's", "the security requirements checked are not `operation's, else the document's when the operation declares none`")
	})

	r.RunRule("C07.orand", "OR over requirements, AND over schemes: ValidateSecurityRequirements returns nil only for an empty list or on the nil edge of one requirement, and a non-nil error after the loop; validateSecurityRequirement returns nil only as its last statement (after every scheme name was visited), returns the callback's error, and calls the authentication callback unconditionally for every scheme name of the requirement", 5, func() {
		vs := p.DeclOf("openapi3filter", "ValidateSecurityRequirements")
		fv := core.NewFuncFacts(p, info, vs)
		top := vs.Body.List
		last, ok := top[len(top)-1].(*ast.ReturnStmt)
		r.Check(ok && len(last.Results) == 1 && na.Classify(fv, last.Results[0], last) == core.NonNil, "orand:no-requirement-met", p.Pos(top[len(top)-1].Pos()), "post-loop return is non-nil", "after trying every requirement without success ValidateSecurityRequirements may return nil")
		// an alternative that cannot be satisfied (an undeclared scheme) fails alone: no error leaves the
		// function before every alternative was tried
		ke := 0
		ast.Inspect(vs.Body, func(n ast.Node) bool {
			ret, ok := n.(*ast.ReturnStmt)
			if !ok || ret == last || len(ret.Results) != 1 || core.IsNil(info, ret.Results[0]) {
				return true
			}
			ke++
			r.Bad(fmt.Sprintf("orand:early-error#%d", ke), p.Pos(ret.Pos()), "ValidateSecurityRequirements returns an error before the loop over the alternatives has finished: one alternative that cannot be satisfied (an undeclared scheme, say) fails the whole list although another alternative is accepted by the callback, which is then never asked")
			return true
		})
		ast.Inspect(vs.Body, func(n ast.Node) bool {
			if br, ok := n.(*ast.BranchStmt); ok && (br.Tok == token.BREAK || br.Tok == token.GOTO) {
				ke++
				r.Bad(fmt.Sprintf("orand:early-error#%d", ke), p.Pos(br.Pos()), "ValidateSecurityRequirements leaves the loop over the alternatives early (break): the alternatives after the one that failed this way are never tried, although one of them may be accepted by the callback")
			}
			return true
		})
		k := 0
		ast.Inspect(vs.Body, func(n ast.Node) bool {
			ret, ok := n.(*ast.ReturnStmt)
			if !ok || ret == last || len(ret.Results) != 1 {
				return true
			}
			if na.Classify(fv, ret.Results[0], ret) == core.NonNil {
				return true
			}
			k++
			key := fmt.Sprintf("orand:nil-return#%d", k)
			atoms := core.Atoms(core.GuardsAt(info, vs.Body, ret))
			why := ""
			for _, a := range atoms {
				s := core.ExprStr(a.Expr)
				if a.Pos && strings.HasPrefix(s, "len(") && strings.HasSuffix(s, "== 0") {
					why = "empty requirement list"
				}
			}
			// nil edge of validateSecurityRequirement: preceded in its list by `if err := validateSecurityRequirement(...); err != nil {...continue}`
			if list, idx := listOf(vs.Body, ret); idx > 0 {
				if ifs, ok := list[idx-1].(*ast.IfStmt); ok && ifs.Init != nil && core.Terminates(info, ifs.Body.List) {
					if len(callsTo(info, ifs.Init, "validateSecurityRequirement")) == 1 {
						why = "a requirement was satisfied"
					}
				}
			}
			r.Check(why != "", key, p.Pos(ret.Pos()), "nil return: "+why, "ValidateSecurityRequirements returns nil on a path that is neither the empty list nor a satisfied requirement")
			return true
		})
		// validateSecurityRequirement
		v1 := p.DeclOf("openapi3filter", "validateSecurityRequirement")
		f1 := core.NewFuncFacts(p, info, v1)
		t1 := v1.Body.List
		bad := token.NoPos
		ast.Inspect(v1.Body, func(n ast.Node) bool {
			if _, ok := n.(*ast.FuncLit); ok {
				return false
			}
			if ret, ok := n.(*ast.ReturnStmt); ok && ret != t1[len(t1)-1] && len(ret.Results) == 1 {
				if na.Classify(f1, ret.Results[0], ret) != core.NonNil {
					// an early nil is right for a requirement without schemes: `len(names) == 0`
					empty := false
					for _, a := range core.Atoms(core.GuardsAt(info, v1.Body, ret)) {
						s := core.ExprStr(a.Expr)
						if a.Pos && strings.HasPrefix(s, "len(") && strings.HasSuffix(s, "== 0") {
							empty = true
						}
					}
					if !empty {
						bad = ret.Pos()
					}
				}
			}
			return true
		})
		r.Check(bad == token.NoPos, "orand:all-schemes", p.Pos(bad), "nil is returned only after the loop over all scheme names", "validateSecurityRequirement can return nil before every scheme of the requirement was accepted")
		// callback call: dynamic call of a value of type AuthenticationFunc inside the names loop, unguarded
		var cb *ast.CallExpr
		ast.Inspect(v1.Body, func(n ast.Node) bool {
			if c, ok := n.(*ast.CallExpr); ok {
				if nt := core.NamedOf(info.TypeOf(c.Fun)); nt != nil && nt.Obj().Name() == "AuthenticationFunc" {
					cb = c
				}
			}
			return true
		})
		if cb == nil {
			r.Bad("orand:callback", p.Pos(v1.Pos()), "the authentication callback is never called")
			return
		}
		// enclosing range stmt and guards inside its body
		var loop *ast.RangeStmt
		for _, n := range core.PathTo(v1.Body, cb) {
			if rs, ok := n.(*ast.RangeStmt); ok {
				loop = rs
			}
		}
		if loop == nil {
			r.Bad("orand:callback", p.Pos(cb.Pos()), "the authentication callback is not called in a loop over the requirement's scheme names")
			return
		}
		var cond []string
		for _, a := range core.Atoms(core.GuardsAt(info, loop.Body, cb)) {
			// facts established by early returns (negated conditions of terminating ifs) are fine:
			// they do not skip the callback, they leave the function
			if !a.Pos {
				continue
			}
			cond = append(cond, core.ExprStr(a.Expr))
		}
		// the loop visits every scheme name: no break/goto out of it
		brk := token.NoPos
		ast.Inspect(loop.Body, func(n ast.Node) bool {
			switch x := n.(type) {
			case *ast.FuncLit, *ast.ForStmt, *ast.RangeStmt, *ast.SwitchStmt, *ast.TypeSwitchStmt, *ast.SelectStmt:
				_ = x
				return false
			case *ast.BranchStmt:
				if x.Tok == token.BREAK || x.Tok == token.GOTO {
					brk = x.Pos()
				}
			}
			return true
		})
		r.Check(brk == token.NoPos, "orand:no-break", p.Pos(brk), "the loop over scheme names is never left early except by returning an error", "the loop over the requirement's scheme names can be left early: later schemes are not checked (AND over schemes broken)")
		// the callback's own `if err := f(...); err != nil` is not a guard on the call
		r.Check(len(cond) == 0, "orand:callback", p.Pos(cb.Pos()), "callback called unconditionally for each scheme name", "the authentication callback is skipped under a condition ("+strings.Join(cond, " && ")+"): a scheme can count as accepted without the callback's verdict for its scopes")
		// callback error returned
		if ifs, errID := enclosingIfInit(v1.Body, cb); ifs != nil {
			good := false
			for _, s := range ifs.Body.List {
				if ret, ok := s.(*ast.ReturnStmt); ok && len(ret.Results) == 1 && usesObj(info, ret.Results[0], info.ObjectOf(errID)) {
					good = true
				}
			}
			r.Check(good, "orand:callback-error", p.Pos(ifs.Pos()), "callback error returned", "a rejecting authentication callback does not fail the requirement")
		} else {
			r.Bad("orand:callback-error", p.Pos(cb.Pos()), "the callback's error is not tested")
		}
	})

	r.RunRule("C07.override", "a path-level parameter is skipped iff the operation declares one with the same location and name: every `continue` in the path-level loop before ValidateParameter is guarded by GetByInAndName(p.In, p.Name) != nil (or the query-exclusion option), and GetByInAndName compares both Name and In", 2, func() {
		calls := callsTo(info, fd.Body, "ValidateParameter")
		var loop *ast.RangeStmt
		for _, c := range calls {
			for _, n := range core.PathTo(fd.Body, c) {
				if rs, ok := n.(*ast.RangeStmt); ok {
					if rootsHaveField(ff, rs.X, "PathItem", "Parameters") {
						loop = rs
					}
				}
			}
		}
		if loop == nil {
			core.Fail("path-level parameter loop not found")
		}
		k := 0
		okAll := true
		why := ""
		ast.Inspect(loop.Body, func(n ast.Node) bool {
			br, ok := n.(*ast.BranchStmt)
			if !ok || br.Tok != token.CONTINUE {
				return true
			}
			// skip continues inside the failure branch of ValidateParameter
			for _, a := range core.PathTo(loop.Body, br) {
				if ifs, ok := a.(*ast.IfStmt); ok && ifs.Init != nil && len(callsTo(info, ifs.Init, "ValidateParameter")) > 0 {
					return true
				}
			}
			k++
			good := false
			for _, a := range core.Atoms(core.GuardsAt(info, loop.Body, br)) {
				if !a.Pos {
					continue
				}
				if optionFieldRead(info, firstSel(a.Expr)) == "ExcludeRequestQueryParams" {
					good = true
					continue
				}
				be, ok := ast.Unparen(a.Expr).(*ast.BinaryExpr)
				if !ok || be.Op != token.NEQ || !core.IsNil(info, be.Y) {
					continue
				}
				rs := ff.Roots(be.X, false)
				for fn := range rs.Funcs {
					if fn.Name() == "GetByInAndName" {
						// args: p.In, p.Name of the loop's parameter
						for _, e := range rs.Exprs {
							if c, ok := e.(*ast.CallExpr); ok && len(c.Args) == 2 {
								if callee := core.CalleeOf(info, c); callee != nil && callee.Name() == "GetByInAndName" {
									f0, f1 := core.FieldSel(info, c.Args[0]), core.FieldSel(info, c.Args[1])
									if f0 != nil && f1 != nil && f0.Name() == "In" && f1.Name() == "Name" {
										good = true
									}
								}
							}
						}
					}
				}
			}
			if !good {
				okAll = false
				why = p.Pos(br.Pos())
			}
			return true
		})
		r.Check(okAll && k >= 1, "override:skip", p.Pos(loop.Pos()), "skip guarded by GetByInAndName(p.In, p.Name) != nil", "a path-level parameter is skipped at "+why+" without an operation parameter of the same location and name")
		g := p.DeclOf("openapi3", "Parameters.GetByInAndName")
		ginfo := p.Pkg("openapi3").TypesInfo
		cmpName, cmpIn := false, false
		ast.Inspect(g.Body, func(n ast.Node) bool {
			ret, ok := n.(*ast.ReturnStmt)
			if !ok || len(ret.Results) != 1 || core.IsNil(ginfo, ret.Results[0]) {
				return true
			}
			for _, a := range core.Atoms(core.GuardsAt(ginfo, g.Body, ret)) {
				be, ok := ast.Unparen(a.Expr).(*ast.BinaryExpr)
				if !ok || be.Op != token.EQL || !a.Pos {
					continue
				}
				f := core.FieldSel(ginfo, be.X)
				id, _ := ast.Unparen(be.Y).(*ast.Ident)
				if f == nil || id == nil {
					f = core.FieldSel(ginfo, be.Y)
					id, _ = ast.Unparen(be.X).(*ast.Ident)
				}
				if f == nil || id == nil {
					continue
				}
				if f.Name() == "Name" && id.Name == "name" {
					cmpName = true
				}
				if f.Name() == "In" && id.Name == "in" {
					cmpIn = true
				}
			}
			return true
		})
		r.Check(cmpName && cmpIn, "override:key", p.Pos(g.Pos()), "match requires Name == name && In == in", "GetByInAndName does not compare both the name and the location")
	})

	r.RunRule("C07.excl", "an exclusion option removes exactly its part: every ValidateParameter call in ValidateRequest is preceded in its loop by the skip `ExcludeRequestQueryParams && In == query`, ValidateRequestBody is guarded by !ExcludeRequestBody, and neither option is read anywhere else in the package", 4, func() {
		for i, c := range callsTo(info, fd.Body, "ValidateParameter") {
			key := fmt.Sprintf("excl:query#%d", i+1)
			var loop *ast.RangeStmt
			for _, n := range core.PathTo(fd.Body, c) {
				if rs, ok := n.(*ast.RangeStmt); ok {
					loop = rs
				}
			}
			if loop == nil {
				r.Bad(key, p.Pos(c.Pos()), "ValidateParameter is not called in a loop")
				continue
			}
			good := false
			for _, a := range core.Atoms(core.GuardsAt(info, loop.Body, c)) {
				// the skip `if opt && In == query { continue }` yields the negative fact !(opt && In == query)
				if a.Pos {
					continue
				}
				var hasOpt, hasIn bool
				ast.Inspect(a.Expr, func(n ast.Node) bool {
					if e, ok := n.(ast.Expr); ok {
						if optionFieldRead(info, e) == "ExcludeRequestQueryParams" {
							hasOpt = true
						}
						if f := core.FieldSel(info, e); f != nil && f.Name() == "In" {
							hasIn = true
						}
					}
					return true
				})
				if hasOpt && hasIn {
					good = true
				}
			}
			r.Check(good, key, p.Pos(c.Pos()), "query parameters skipped under ExcludeRequestQueryParams", "this ValidateParameter loop has no `ExcludeRequestQueryParams && In == query` skip: excluded query parameters are still validated here")
		}
		for i, c := range callsTo(info, fd.Body, "ValidateRequestBody") {
			good := false
			for _, a := range core.Atoms(core.GuardsAt(info, fd.Body, c)) {
				if !a.Pos && optionFieldRead(info, a.Expr) == "ExcludeRequestBody" {
					good = true
				}
			}
			r.Check(good, fmt.Sprintf("excl:body#%d", i+1), p.Pos(c.Pos()), "guarded by !ExcludeRequestBody", "ValidateRequestBody is not guarded by !ExcludeRequestBody")
			// ... and by nothing that is computed from the outcome of another part: a flag set when
			// security or a parameter failed turns one failure into the exclusion of the body
			foreign := ""
			ffv := core.NewFuncFacts(p, info, fd)
			for _, a := range core.Atoms(core.GuardsAt(info, fd.Body, c)) {
				ast.Inspect(a.Expr, func(m ast.Node) bool {
					id, ok := m.(*ast.Ident)
					if !ok {
						return true
					}
					o, isVar := info.ObjectOf(id).(*types.Var)
					if !isVar || o.IsField() {
						return true
					}
					if b, isB := o.Type().Underlying().(*types.Basic); !isB || b.Kind() != types.Bool {
						return true
					}
					// a local bool assigned more than once (set, then cleared on some failure)
					if len(ffv.Assigns(o)) > 1 && foreign == "" {
						foreign = id.Name
					}
					return true
				})
			}
			r.Check(foreign == "", fmt.Sprintf("excl:body-only#%d", i+1), p.Pos(c.Pos()), "the body is validated whatever the other parts said", "whether ValidateRequestBody runs depends on the flag `"+foreign+"`, which is changed along the way (when security or a parameter fails): in multi-error mode a request that fails authentication and has an invalid body is reported without the body's error")
		}
		// reads elsewhere
		for _, opt := range []string{"ExcludeRequestBody", "ExcludeRequestQueryParams"} {
			n, other := 0, ""
			for _, d := range p.AllDecls("openapi3filter") {
				ast.Inspect(d.Body, func(nn ast.Node) bool {
					if e, ok := nn.(ast.Expr); ok && optionFieldRead(info, e) == opt {
						n++
						if d != fd {
							other = core.FuncName(d) + " at " + p.Pos(e.Pos())
						}
					}
					return true
				})
			}
			r.Check(other == "" && n >= 1, "excl:scope:"+opt, p.Pos(fd.Pos()), fmt.Sprintf("read %d times, only in ValidateRequest", n), "option "+opt+" is also read in "+other+": it switches more than its part")
		}
	})
	c07Anonymous(r)
	c07Schemes(r)
}

func fieldOwner(f *types.Var) string {
	// find the named struct in the field's package that declares f
	if f.Pkg() == nil {
		return ""
	}
	sc := f.Pkg().Scope()
	for _, name := range sc.Names() {
		if tn, ok := sc.Lookup(name).(*types.TypeName); ok {
			if st, ok := tn.Type().Underlying().(*types.Struct); ok {
				for i := 0; i < st.NumFields(); i++ {
					if st.Field(i) == f {
						return tn.Name()
					}
				}
			}
		}
	}
	return ""
}

func rootsHaveField(ff *core.FuncFacts, e ast.Expr, owner, field string) bool {
	for f := range ff.Roots(e, false).Fields {
		if f.Name() == field && fieldOwner(f) == owner {
			return true
		}
	}
	return false
}

// firstSel returns the first selector expression inside e (or e itself).
func firstSel(e ast.Expr) ast.Expr {
	var out ast.Expr
	ast.Inspect(e, func(n ast.Node) bool {
		if s, ok := n.(*ast.SelectorExpr); ok && out == nil {
			out = s
			return false
		}
		return out == nil
	})
	if out == nil {
		return e
	}
	return out
}

// c07Anonymous: an empty requirement ({}: anonymous access) needs no authentication -- and hence no
// authentication callback. The "callback missing" error may be returned only where there is a
// scheme to authenticate.
func c07Anonymous(r *core.Report) {
	p := r.Prog
	info := p.Pkg("openapi3filter").TypesInfo
	r.RunRule("C07.anonymous", "an empty requirement needs no authentication callback: in validateSecurityRequirement every return of a missing-callback error (a package-level error variable returned on the `f == nil` side of the AuthenticationFunc test) is reached only where the requirement was tested non-empty (`len(x) != 0` on the requirement or on the list of its names)", 1, func() {
		fd := p.DeclOf("openapi3filter", "validateSecurityRequirement")
		ff := core.NewFuncFacts(p, info, fd)
		// the requirement parameter and anything of the same length derived from it (names)
		var req types.Object
		for _, f := range fd.Type.Params.List {
			if nn := core.NamedOf(info.TypeOf(f.Type)); nn != nil && nn.Obj().Name() == "SecurityRequirement" && len(f.Names) == 1 {
				req = info.ObjectOf(f.Names[0])
			}
		}
		if req == nil {
			core.Fail("validateSecurityRequirement has no SecurityRequirement parameter")
		}
		n := 0
		ast.Inspect(fd.Body, func(nd ast.Node) bool {
			if _, isLit := nd.(*ast.FuncLit); isLit {
				return false
			}
			ret, ok := nd.(*ast.ReturnStmt)
			if !ok || len(ret.Results) != 1 {
				return true
			}
			id, ok := ast.Unparen(ret.Results[0]).(*ast.Ident)
			if !ok {
				return true
			}
			v, ok := info.ObjectOf(id).(*types.Var)
			if !ok || v.Parent() != v.Pkg().Scope() || !isErrorType(v.Type()) {
				return true
			}
			// on the nil side of a function-valued variable?
			atoms := core.Atoms(core.GuardsAt(info, fd.Body, ret))
			onNilFunc := false
			nonEmpty := false
			for _, a := range atoms {
				be, ok := ast.Unparen(a.Expr).(*ast.BinaryExpr)
				if !ok {
					continue
				}
				for _, pair := range [][2]ast.Expr{{be.X, be.Y}, {be.Y, be.X}} {
					if tv, ok := info.Types[pair[1]]; ok && tv.IsNil() {
						if _, isFn := info.TypeOf(pair[0]).Underlying().(*types.Signature); isFn {
							if (be.Op == token.EQL) == a.Pos {
								onNilFunc = true
							}
						}
					}
					// len(x) != 0 / len(x) > 0 with x the requirement or a list built from its keys
					if c, ok := ast.Unparen(pair[0]).(*ast.CallExpr); ok && len(c.Args) == 1 {
						if fn, ok := c.Fun.(*ast.Ident); ok && fn.Name == "len" {
							if z, ok := intConst(info, pair[1]); ok && z == 0 {
								rs := ff.Roots(c.Args[0], true)
								if rs.Objs[req] {
									switch {
									case be.Op == token.NEQ && a.Pos, be.Op == token.EQL && !a.Pos, be.Op == token.GTR && a.Pos && pair[0] == be.X, be.Op == token.LSS && a.Pos && pair[0] == be.Y:
										nonEmpty = true
									}
								}
							}
						}
					}
				}
			}
			if !onNilFunc {
				return true
			}
			n++
			key := fmt.Sprintf("anonymous:%s#%d", id.Name, n)
			if nonEmpty {
				r.OK(key, p.Pos(ret.Pos()), "the missing-callback error is returned only for a requirement that names a scheme")
			} else {
				r.Bad(key, p.Pos(ret.Pos()), fmt.Sprintf("`return %s` on the missing-callback branch does not depend on the requirement having any scheme: an operation (or document) whose security is `[{}]` — anonymous access — is rejected whenever no AuthenticationFunc is configured, although nothing has to be authenticated", id.Name))
			}
			return true
		})
		if n == 0 {
			core.Fail("no return of a package-level error on the nil-callback branch found in validateSecurityRequirement")
		}
	})
}

// c07Schemes: every scheme of a requirement is put to the callback, with that requirement's
// scopes; and a required parameter that is absent is an error whatever default its schema has.
func c07Schemes(r *core.Report) {
	p := r.Prog
	info := p.Pkg("openapi3filter").TypesInfo
	r.RunRule("C07.everyscheme", "AND over schemes means asking about each one: in validateSecurityRequirement the call of the authentication callback inside the loop over the requirement's scheme names is not preceded, in the loop body, by a `continue` — a verdict remembered from another requirement was given for other scopes", 1, func() {
		fd := p.DeclOf("openapi3filter", "validateSecurityRequirement")
		n := 0
		ast.Inspect(fd.Body, func(nd ast.Node) bool {
			rs, ok := nd.(*ast.RangeStmt)
			if !ok {
				return true
			}
			var call *ast.CallExpr
			ast.Inspect(rs.Body, func(m ast.Node) bool {
				if c, ok := m.(*ast.CallExpr); ok {
					if id, ok := ast.Unparen(c.Fun).(*ast.Ident); ok {
						if _, isFn := info.TypeOf(id).Underlying().(*types.Signature); isFn {
							if v, isVar := info.ObjectOf(id).(*types.Var); isVar && !v.IsField() && call == nil {
								call = c
							}
						}
					}
				}
				return true
			})
			if call == nil {
				return true
			}
			n++
			key := fmt.Sprintf("everyscheme:callback#%d", n)
			skip := token.NoPos
			ast.Inspect(rs.Body, func(m ast.Node) bool {
				if _, isLit := m.(*ast.FuncLit); isLit {
					return false
				}
				if b, ok := m.(*ast.BranchStmt); ok && b.Tok == token.CONTINUE && b.Pos() < call.Pos() {
					skip = b.Pos()
				}
				return true
			})
			if skip == token.NoPos {
				r.OK(key, p.Pos(call.Pos()), "the callback is asked about every scheme of the requirement")
			} else {
				r.Bad(key, p.Pos(skip), "a scheme can be skipped (`continue`) before the authentication callback is asked about it: the requirement is then satisfied without the callback having seen this requirement's scopes for the scheme — an acceptance of `oauth[read]` in one alternative is reused for `oauth[admin]` in another")
			}
			return true
		})
		if n == 0 {
			core.Fail("validateSecurityRequirement has no loop that calls a function-valued variable")
		}
	})
	r.RunRule("C07.requiredparam", "a required parameter that is absent is reported whatever its default: in ValidateParameter every return of the missing-required error depends only on the parameter's Required flag and the decoder's `found` result, not on the decoded value (which the default-filling step may have replaced by the schema's default)", 1, func() {
		fd := p.DeclOf("openapi3filter", "ValidateParameter")
		ff := core.NewFuncFacts(p, info, fd)
		n := 0
		ast.Inspect(fd.Body, func(nd ast.Node) bool {
			ret, ok := nd.(*ast.ReturnStmt)
			if !ok || len(ret.Results) != 1 {
				return true
			}
			mentions := false
			ast.Inspect(ret.Results[0], func(m ast.Node) bool {
				if id, ok := m.(*ast.Ident); ok && id.Name == "ErrInvalidRequired" {
					mentions = true
				}
				return true
			})
			if !mentions {
				return true
			}
			n++
			key := fmt.Sprintf("requiredparam:return#%d", n)
			bad := ""
			for _, a := range core.Atoms(core.GuardsAt(info, fd.Body, ret)) {
				ast.Inspect(a.Expr, func(m ast.Node) bool {
					id, ok := m.(*ast.Ident)
					if !ok {
						return true
					}
					o := info.ObjectOf(id)
					// the decoded value: an `any`-typed local assigned from a decode call
					if v, isVar := o.(*types.Var); isVar && !v.IsField() {
						if _, isIface := v.Type().Underlying().(*types.Interface); isIface && !isErrorType(v.Type()) {
							for _, as := range ff.Assigns(o) {
								if as.Call != nil || as.Rhs != nil {
									bad = core.ExprStr(a.Expr)
								}
							}
						}
					}
					return true
				})
			}
			if bad == "" {
				r.OK(key, p.Pos(ret.Pos()), "depends on Required and found only")
			} else {
				r.Bad(key, p.Pos(ret.Pos()), fmt.Sprintf("the missing-required error is returned only when `%s` also holds: after the default-filling step the value of an absent parameter is its schema's default, so an absent required parameter that has a default is validated against its own default and accepted", bad))
			}
			return true
		})
		if n == 0 {
			core.Fail("ValidateParameter no longer returns ErrInvalidRequired")
		}
	})
}
