package rules

import (
	"verif/internal/core"
)

// crashNil: optional-pointer dereferences (stub, see below).
func crashNil(r *core.Report, cs *crashScope) {
}
