package rules

import (
	"fmt"
	"go/ast"
	"go/constant"
	"go/token"
	"go/types"
	"os"
	"sort"
	"strings"
	"time"

	"golang.org/x/tools/go/ssa"

	"verif/internal/core"
)

// ---- optional-pointer dereference analysis (path-sensitive nil-ness dataflow on go/ssa) -------------
//
// Facts are kept per *access path* (p:0.Value.Schema – parameter 0, field Value, field Schema), not per
// SSA value: go/ssa does not CSE loads, and the document is never written on these paths (C15), so two
// loads of the same path see the same pointer. A state is a set of fact maps (disjunctive), so that
// `if a == nil && b == nil { return }; if b != nil {...} else { use a }` is decided.

type nilFact int8

const (
	factNil nilFact = iota + 1
	factNonNil
)

type nilState map[string]nilFact

func (s nilState) key() string {
	ks := make([]string, 0, len(s))
	for k, v := range s {
		ks = append(ks, fmt.Sprintf("%s=%d", k, v))
	}
	sort.Strings(ks)
	return strings.Join(ks, ";")
}

func (s nilState) clone() nilState {
	o := make(nilState, len(s)+1)
	for k, v := range s {
		o[k] = v
	}
	return o
}

type stateSetN map[string]nilState

func (ss stateSetN) add(s nilState) bool {
	k := s.key()
	if _, ok := ss[k]; ok {
		return false
	}
	ss[k] = s
	return true
}

// nilReq: function fn dereferences (parameter idx | free variable -1-idx) + rel without a proof.
type nilReq struct {
	idx  int    // >=0 parameter index; <0 free variable -1-idx
	rel  string // relative access path ("" = the parameter itself, ".Value.Schema")
	last lastStep
	site token.Pos
	fn   *ssa.Function
	via  string
	// origin: the dereference this requirement stems from (reported there, once)
	oKey, oPos, oDetail string
}

// lastStep describes how the dereferenced pointer was produced.
type lastStep struct {
	kind  string // "param", "field", "lookup", "call", "assert", "phi", "range", "alloc", "const-nil", "other"
	owner string // for field: struct name
	field string
	model bool // field of a document-model struct
	desc  string
}

type nilAnalyzer struct {
	p          *core.Prog
	cs         *crashScope
	model      map[*types.Named]bool
	axioms     map[string]string // "Owner.Field" -> reason
	reqs       map[*ssa.Function][]nilReq
	na         *core.NilAnalysis
	nilImpl    map[*ssa.Function]int // +1: true result implies receiver non-nil; -1: false result implies; 0: none
	niDone     map[*ssa.Function]bool
	viol       map[string]nilViolation
	raw        bool // C20: nothing has been validated – wrappers may be unresolved, entries may be nil
	provedKeys map[string]string
	keyCache   map[ssa.Value]keyInfo
	edgeCache  map[*ssa.Function]map[ssa.CallInstruction][]*ssa.Function
	derefs     int
	proved     int
	round      int
}

type nilViolation struct {
	key, pos, detail string
}

func newNilAnalyzer(p *core.Prog, cs *crashScope) *nilAnalyzer {
	a := &nilAnalyzer{p: p, cs: cs, model: map[*types.Named]bool{}, reqs: map[*ssa.Function][]nilReq{}, na: core.NewNilAnalysis(p), nilImpl: map[*ssa.Function]int{}, niDone: map[*ssa.Function]bool{}, viol: map[string]nilViolation{}, keyCache: map[ssa.Value]keyInfo{}, provedKeys: map[string]string{}, edgeCache: map[*ssa.Function]map[ssa.CallInstruction][]*ssa.Function{}}
	for _, n := range p.ModelTypes("openapi3", "T") {
		a.model[n] = true
	}
	// validated-document axioms: each names the Validate line that rejects nil (checked by C04.descent)
	a.axioms = map[string]string{
		"Operation.Responses": "Operation.Validate rejects an operation without responses",
		"T.Paths":             "T.Validate rejects a document without paths",
		"T.Info":              "T.Validate rejects a document without info",
	}
	return a
}

func (a *nilAnalyzer) isModel(t types.Type) (*types.Named, bool) {
	n := core.NamedOf(t)
	if n == nil {
		return nil, false
	}
	n = n.Origin()
	return n, a.model[n]
}

// accessKey computes the access-path key of a pointer-/interface-/func-valued SSA value and how it was
// produced.
type keyInfo struct {
	k  string
	ls lastStep
}

func (a *nilAnalyzer) accessKey(v ssa.Value, depth int) (string, lastStep) {
	if ki, ok := a.keyCache[v]; ok {
		return ki.k, ki.ls
	}
	k, ls := a.accessKey0(v, depth)
	a.keyCache[v] = keyInfo{k, ls}
	return k, ls
}

func (a *nilAnalyzer) accessKey0(v ssa.Value, depth int) (string, lastStep) {
	if depth > 12 {
		return fmt.Sprintf("v:%p", v), lastStep{kind: "other"}
	}
	switch x := v.(type) {
	case *ssa.Parameter:
		for i, q := range x.Parent().Params {
			if q == x {
				return fmt.Sprintf("p:%d", i), lastStep{kind: "param", desc: x.Name()}
			}
		}
	case *ssa.FreeVar:
		for i, q := range x.Parent().FreeVars {
			if q == x {
				return fmt.Sprintf("f:%d", i), lastStep{kind: "param", desc: "captured " + x.Name()}
			}
		}
	case *ssa.Const:
		if x.IsNil() {
			return "nil", lastStep{kind: "const-nil"}
		}
		return fmt.Sprintf("v:%p", v), lastStep{kind: "other"}
	case *ssa.MakeInterface:
		return a.accessKey(x.X, depth+1)
	case *ssa.ChangeType:
		return a.accessKey(x.X, depth+1)
	case *ssa.ChangeInterface:
		return a.accessKey(x.X, depth+1)
	case *ssa.Alloc:
		return fmt.Sprintf("&%s@%p", x.Name(), x), lastStep{kind: "alloc"}
	case *ssa.MakeClosure, *ssa.MakeMap, *ssa.MakeSlice, *ssa.MakeChan, *ssa.Function, *ssa.Global:
		return fmt.Sprintf("v:%p", v), lastStep{kind: "alloc"}
	case *ssa.FieldAddr:
		// address of a (possibly embedded) field: non-nil whenever computed; keyed by path so that
		// two computations of the same address agree
		base, _ := a.accessKey(x.X, depth+1)
		_, fname := fieldNames(x.X.Type(), x.Field)
		return base + ".&" + fname, lastStep{kind: "alloc"}
	case *ssa.IndexAddr:
		return fmt.Sprintf("v:%p", v), lastStep{kind: "alloc"}
	case *ssa.UnOp:
		if x.Op != token.MUL {
			return fmt.Sprintf("v:%p", v), lastStep{kind: "other"}
		}
		switch ad := x.X.(type) {
		case *ssa.FieldAddr:
			base, _ := a.accessKey(ad.X, depth+1)
			base = strings.ReplaceAll(base, ".&", ".")
			owner, fname := fieldNames(ad.X.Type(), ad.Field)
			_, isM := a.isModel(ad.X.Type())
			return base + "." + fname, lastStep{kind: "field", owner: owner, field: fname, model: isM, desc: owner + "." + fname}
		case *ssa.Alloc:
			// local variable cell
			return fmt.Sprintf("*%s@%p", ad.Name(), ad), lastStep{kind: "local", desc: ad.Comment}
		case *ssa.FreeVar:
			k, _ := a.accessKey(ad, depth+1)
			return k + "*", lastStep{kind: "local", desc: "captured variable " + ad.Name()}
		case *ssa.IndexAddr:
			// element of a slice/array: treated as a range element (entries are non-nil, see axioms)
			base, _ := a.accessKey(ad.X, depth+1)
			_, isM := a.isModel(x.Type())
			return base + "[i]@" + x.Name(), lastStep{kind: "range", desc: "slice element", model: isM}
		case *ssa.Global:
			return "g:" + ad.Name(), lastStep{kind: "other", desc: "global " + ad.Name()}
		default:
			base, _ := a.accessKey(ad, depth+1)
			return base + "*", lastStep{kind: "other"}
		}
	case *ssa.Field:
		// field of a struct value (loaded from a pointer)
		base := ""
		if u, ok := x.X.(*ssa.UnOp); ok && u.Op == token.MUL {
			base, _ = a.accessKey(u.X, depth+1)
		} else {
			base, _ = a.accessKey(x.X, depth+1)
		}
		owner, fname := fieldNames(x.X.Type(), x.Field)
		_, isM := a.isModel(x.X.Type())
		return base + "." + fname, lastStep{kind: "field", owner: owner, field: fname, model: isM, desc: owner + "." + fname}
	case *ssa.Lookup:
		base, _ := a.accessKey(x.X, depth+1)
		k := fmt.Sprintf("%p", x.Index)
		if c, ok := x.Index.(*ssa.Const); ok && c.Value != nil {
			k = c.Value.ExactString()
		} else if kk, _ := a.accessKey(x.Index, depth+1); !strings.HasPrefix(kk, "v:") {
			k = kk
		}
		if x.CommaOk {
			return base + "[" + k + "],ok", lastStep{kind: "other"}
		}
		if a.keyFromSameMap(x) {
			return base + "[" + k + "]", lastStep{kind: "range", desc: "lookup with a key taken from the same map"}
		}
		return base + "[" + k + "]", lastStep{kind: "lookup", desc: "map lookup"}
	case *ssa.Extract:
		switch t := x.Tuple.(type) {
		case *ssa.Lookup:
			if x.Index == 0 {
				k, _ := a.accessKey(t, depth+1)
				return strings.TrimSuffix(k, ",ok"), lastStep{kind: "lookup", desc: "map lookup"}
			}
		case *ssa.TypeAssert:
			if x.Index == 0 {
				return fmt.Sprintf("ta:%p", t), lastStep{kind: "assert", desc: "comma-ok type assertion"}
			}
		case *ssa.Next:
			_, isM := a.isModel(x.Type())
			return fmt.Sprintf("rng:%p/%d", t, x.Index), lastStep{kind: "range", desc: "range element", model: isM}
		case *ssa.Call:
			return fmt.Sprintf("call:%p/%d", t, x.Index), a.callStep(t, x.Index)
		}
		return fmt.Sprintf("v:%p", v), lastStep{kind: "other"}
	case *ssa.Call:
		return fmt.Sprintf("call:%p/0", x), a.callStep(x, 0)
	case *ssa.TypeAssert:
		if !x.CommaOk {
			// a successful single-result assertion to a concrete type yields that value
			return a.accessKey(x.X, depth+1)
		}
	case *ssa.Phi:
		return fmt.Sprintf("phi:%p", x), lastStep{kind: "phi"}
	}
	return fmt.Sprintf("v:%p", v), lastStep{kind: "other"}
}

// keyFromSameMap: the lookup key is an element of a slice filled only with range keys of the same map
// (the "collect keys, sort, iterate" idiom): the entry exists.
func (a *nilAnalyzer) keyFromSameMap(lk *ssa.Lookup) bool {
	mapKey, _ := a.accessKey(lk.X, 1)
	var slice ssa.Value
	switch ix := lk.Index.(type) {
	case *ssa.UnOp:
		if ia, ok := ix.X.(*ssa.IndexAddr); ok && ix.Op == token.MUL {
			slice = ia.X
		}
	case *ssa.Extract:
		if nx, ok := ix.Tuple.(*ssa.Next); ok {
			if rg, ok := nx.Iter.(*ssa.Range); ok {
				if ix.Index == 1 {
					// ranging over the same map directly
					k, _ := a.accessKey(rg.X, 1)
					return k == mapKey
				}
				slice = rg.X
			}
		}
	}
	if slice == nil {
		return false
	}
	seen := map[ssa.Value]bool{}
	found := false
	ok := true
	var walk func(v ssa.Value, depth int)
	walk = func(v ssa.Value, depth int) {
		if seen[v] || !ok || depth > 10 {
			return
		}
		seen[v] = true
		switch x := v.(type) {
		case *ssa.Phi:
			for _, e := range x.Edges {
				walk(e, depth+1)
			}
		case *ssa.Slice:
			walk(x.X, depth+1)
		case *ssa.MakeSlice:
		case *ssa.Const:
		case *ssa.Call:
			b, isB := x.Common().Value.(*ssa.Builtin)
			if !isB || b.Name() != "append" || len(x.Common().Args) != 2 {
				ok = false
				return
			}
			walk(x.Common().Args[0], depth+1)
			// appended elements
			sl, isS := x.Common().Args[1].(*ssa.Slice)
			if !isS {
				ok = false
				return
			}
			al, isA := sl.X.(*ssa.Alloc)
			if !isA {
				ok = false
				return
			}
			for _, ref := range *al.Referrers() {
				ia, isI := ref.(*ssa.IndexAddr)
				if !isI {
					continue
				}
				for _, r2 := range *ia.Referrers() {
					st, isSt := r2.(*ssa.Store)
					if !isSt {
						continue
					}
					ex, isE := st.Val.(*ssa.Extract)
					if !isE || ex.Index != 1 {
						ok = false
						return
					}
					nx, isN := ex.Tuple.(*ssa.Next)
					if !isN {
						ok = false
						return
					}
					rg, isR := nx.Iter.(*ssa.Range)
					if !isR {
						ok = false
						return
					}
					if k, _ := a.accessKey(rg.X, 1); k != mapKey {
						ok = false
						return
					}
					found = true
				}
			}
		default:
			ok = false
		}
	}
	walk(slice, 0)
	return ok && found
}

func (a *nilAnalyzer) callStep(c *ssa.Call, idx int) lastStep {
	sc := c.Common().StaticCallee()
	if sc == nil {
		return lastStep{kind: "other", desc: "dynamic call result"}
	}
	if !core.SSAFuncInRepo(sc) {
		return lastStep{kind: "other", desc: "library call result"}
	}
	if o, ok := sc.Object().(*types.Func); ok && o != nil {
		if never, _ := a.naResult(o, idx); never {
			return lastStep{kind: "alloc", desc: "never-nil result of " + sc.Name()}
		}
	}
	return lastStep{kind: "call", desc: "result of " + shortFn(sc)}
}

func (a *nilAnalyzer) naResult(f *types.Func, idx int) (bool, int) {
	defer func() { recover() }()
	return a.na.ResultNeverNil(f, idx)
}

// calleesOf returns the repo callees of a dynamic call site (cached per function).
func (a *nilAnalyzer) calleesOf(fn *ssa.Function, site ssa.CallInstruction) []*ssa.Function {
	m := a.edgeCache[fn]
	if m == nil {
		m = map[ssa.CallInstruction][]*ssa.Function{}
		if n := a.p.CallGraph().Nodes[fn]; n != nil {
			for _, e := range n.Out {
				if e.Site != nil {
					m[e.Site] = append(m[e.Site], e.Callee.Func)
				}
			}
		}
		a.edgeCache[fn] = m
	}
	return m[site]
}

// optional: does a value produced this way need a proof before it is dereferenced?
func (a *nilAnalyzer) optional(ls lastStep, ty types.Type) (bool, string) {
	switch ls.kind {
	case "field":
		if !ls.model {
			return false, ""
		}
		if a.raw {
			return true, "document field " + ls.desc + " (nil when absent from the input)"
		}
		if ls.field == "Value" {
			return false, "" // reference wrappers are resolved in a loaded, validated document
		}
		if _, ok := a.axioms[ls.owner+"."+ls.field]; ok {
			return false, ""
		}
		return true, "optional document field " + ls.desc
	case "range":
		if a.raw && ls.model {
			return true, "entry of a document collection (JSON null yields a nil entry)"
		}
	case "lookup":
		return true, "map lookup (nil when the key is absent)"
	case "call":
		return true, ls.desc + " (may be nil)"
	case "assert":
		return true, "result of a comma-ok type assertion (zero when it fails)"
	case "const-nil":
		return true, "nil"
	}
	return false, ""
}

// nilImplies: for a method with a pointer receiver returning bool, which result value implies a
// non-nil receiver (decided by evaluating the body under `receiver == nil`).
func (a *nilAnalyzer) nilImplies(fn *ssa.Function) int {
	if a.niDone[fn] {
		return a.nilImpl[fn]
	}
	a.niDone[fn] = true
	if fn.Blocks == nil || len(fn.Params) == 0 || fn.Signature.Recv() == nil {
		return 0
	}
	if _, isPtr := fn.Params[0].Type().Underlying().(*types.Pointer); !isPtr {
		return 0
	}
	res := fn.Signature.Results()
	if res.Len() != 1 {
		return 0
	}
	if b, ok := res.At(0).Type().Underlying().(*types.Basic); !ok || b.Kind() != types.Bool {
		return 0
	}
	recv := fn.Params[0]
	// walk from entry assuming recv == nil
	var results []string
	seen := map[*ssa.BasicBlock]bool{}
	okAll := true
	var walk func(b, from *ssa.BasicBlock)
	walk = func(b, from *ssa.BasicBlock) {
		if seen[b] || !okAll {
			return
		}
		seen[b] = true
		for _, in := range b.Instrs {
			switch x := in.(type) {
			case *ssa.FieldAddr:
				if x.X == ssa.Value(recv) {
					okAll = false
				}
			case *ssa.UnOp:
				if x.Op == token.MUL && x.X == ssa.Value(recv) {
					okAll = false
				}
			case *ssa.Return:
				r := x.Results[0]
				if ph, ok := r.(*ssa.Phi); ok && from != nil {
					for i, pr := range b.Preds {
						if pr == from {
							r = ph.Edges[i]
						}
					}
				}
				if c, ok := r.(*ssa.Const); ok && c.Value != nil && c.Value.Kind() == constant.Bool {
					results = append(results, c.Value.String())
				} else if call, ok := r.(*ssa.Call); ok {
					// `return types.Includes(typ)` with the same nil receiver
					if sc := call.Common().StaticCallee(); sc != nil && len(call.Common().Args) > 0 && call.Common().Args[0] == ssa.Value(recv) {
						switch a.nilImplies(sc) {
						case 1:
							results = append(results, "false")
						case -1:
							results = append(results, "true")
						default:
							okAll = false
						}
					} else {
						okAll = false
					}
				} else {
					okAll = false
				}
			case *ssa.If:
				// branch on recv ==/!= nil
				if bo, ok := x.Cond.(*ssa.BinOp); ok && (bo.Op == token.EQL || bo.Op == token.NEQ) {
					var other ssa.Value
					if bo.X == ssa.Value(recv) {
						other = bo.Y
					} else if bo.Y == ssa.Value(recv) {
						other = bo.X
					}
					if c, ok := other.(*ssa.Const); ok && c.IsNil() {
						if bo.Op == token.EQL {
							walk(b.Succs[0], b)
						} else {
							walk(b.Succs[1], b)
						}
						return
					}
				}
				walk(b.Succs[0], b)
				walk(b.Succs[1], b)
				return
			case *ssa.Jump:
				walk(b.Succs[0], b)
				return
			}
		}
	}
	walk(fn.Blocks[0], nil)
	if !okAll || len(results) == 0 {
		return 0
	}
	for _, r := range results {
		if r != results[0] {
			return 0
		}
	}
	if results[0] == "false" {
		a.nilImpl[fn] = 1
	} else {
		a.nilImpl[fn] = -1
	}
	return a.nilImpl[fn]
}

// nilOnlyWithError: in every return of fn, result j is non-nil or result errIdx (an error) is non-nil.
func (a *nilAnalyzer) nilOnlyWithError(fn *ssa.Function, j, errIdx int) bool {
	if fn.Blocks == nil {
		return false
	}
	n := 0
	for _, b := range fn.Blocks {
		ret, ok := b.Instrs[len(b.Instrs)-1].(*ssa.Return)
		if !ok {
			continue
		}
		n++
		if j >= len(ret.Results) || errIdx >= len(ret.Results) {
			return false
		}
		nonNil := func(v ssa.Value) bool {
			switch x := v.(type) {
			case *ssa.Alloc, *ssa.MakeInterface, *ssa.MakeMap, *ssa.MakeSlice, *ssa.MakeClosure:
				if mi, ok := x.(*ssa.MakeInterface); ok {
					if c, ok := mi.X.(*ssa.Const); ok && c.IsNil() {
						return false
					}
				}
				return true
			case *ssa.Call:
				if sc := x.Common().StaticCallee(); sc != nil && sc.Pkg != nil {
					s := sc.String()
					return s == "fmt.Errorf" || s == "errors.New"
				}
			}
			return false
		}
		if !nonNil(ret.Results[j]) && !nonNil(ret.Results[errIdx]) {
			return false
		}
	}
	return n > 0
}

// condFacts: facts implied by a branch condition being true (sense=true) or false.
func (a *nilAnalyzer) condFacts(c ssa.Value, sense bool, out map[string]nilFact) {
	switch x := c.(type) {
	case *ssa.UnOp:
		if x.Op == token.NOT {
			a.condFacts(x.X, !sense, out)
		}
	case *ssa.BinOp:
		if x.Op != token.EQL && x.Op != token.NEQ {
			return
		}
		var v ssa.Value
		if cc, ok := x.Y.(*ssa.Const); ok && cc.IsNil() {
			v = x.X
		} else if cc, ok := x.X.(*ssa.Const); ok && cc.IsNil() {
			v = x.Y
		} else {
			return
		}
		k, _ := a.accessKey(v, 0)
		isNil := (x.Op == token.EQL) == sense
		if isNil {
			out[k] = factNil
		} else {
			out[k] = factNonNil
		}
		// `v, err := f(); err == nil`: the other results of a function that returns nil only
		// together with an error are non-nil
		if ex, ok := v.(*ssa.Extract); ok && isNil {
			if call, ok := ex.Tuple.(*ssa.Call); ok {
				if sc := call.Common().StaticCallee(); sc != nil && core.SSAFuncInRepo(sc) {
					for j := 0; j < sc.Signature.Results().Len(); j++ {
						if j != ex.Index && a.nilOnlyWithError(sc, j, ex.Index) {
							out[fmt.Sprintf("call:%p/%d", call, j)] = factNonNil
						}
					}
				}
			}
		}
		// an interface built from a pointer: same key already (MakeInterface stripped)
	case *ssa.Extract:
		// ok of a comma-ok lookup / assertion
		if x.Index == 1 && sense {
			switch t := x.Tuple.(type) {
			case *ssa.Lookup:
				k, _ := a.accessKey(t, 0)
				out[strings.TrimSuffix(k, ",ok")] = factNonNil
			case *ssa.TypeAssert:
				out[fmt.Sprintf("ta:%p", t)] = factNonNil
			}
		}
	case *ssa.Call:
		sc := x.Common().StaticCallee()
		if sc == nil || len(x.Common().Args) == 0 {
			return
		}
		ni := a.nilImplies(sc)
		if (ni == 1 && sense) || (ni == -1 && !sense) {
			k, _ := a.accessKey(x.Common().Args[0], 0)
			out[k] = factNonNil
		}
		// validated-document axiom: a schema whose type is/includes "array" has items
		// (Schema.validate: "when schema type is 'array', schema 'items' must be non-null")
		if !a.raw && sense && (sc.Name() == "Is" || sc.Name() == "Includes") && len(x.Common().Args) == 2 {
			if c, ok := x.Common().Args[1].(*ssa.Const); ok && c.Value != nil && c.Value.Kind() == constant.String && constant.StringVal(c.Value) == "array" {
				k, _ := a.accessKey(x.Common().Args[0], 0)
				if strings.HasSuffix(k, ".Type") {
					out[strings.TrimSuffix(k, ".Type")+".Items"] = factNonNil
				}
			}
		}
	case *ssa.Phi:
		// short-circuit results materialised as phi of constants and conditions are not refined
	}
}

const maxNilStates = 24

type fnNil struct {
	a        *nilAnalyzer
	fn       *ssa.Function
	in       map[*ssa.BasicBlock]stateSetN
	reqs     []nilReq
	interest map[string]bool          // keys facts are kept for
	widened  map[*ssa.BasicBlock]bool // blocks collapsed to a single (intersection) state
}

// collectInterest: keys that are tested by some branch, or whose dereference needs a proof.
func (fa *fnNil) collectInterest() {
	a := fa.a
	fa.interest = map[string]bool{}
	addNeed := func(v ssa.Value, rel string, last *lastStep) {
		k, ls := a.accessKey(v, 0)
		if rel != "" {
			k += rel
			ls = *last
		}
		opt, _ := a.optional(ls, nil)
		root, _ := splitRoot(k)
		if opt || ls.kind == "param" || ls.kind == "phi" || ls.kind == "local" || strings.HasPrefix(root, "p:") || strings.HasPrefix(root, "f:") {
			fa.interest[k] = true
		}
	}
	for _, b := range fa.fn.Blocks {
		for _, in := range b.Instrs {
			switch x := in.(type) {
			case *ssa.If:
				t := map[string]nilFact{}
				a.condFacts(x.Cond, true, t)
				a.condFacts(x.Cond, false, t)
				for k := range t {
					fa.interest[k] = true
				}
			case *ssa.FieldAddr:
				addNeed(x.X, "", nil)
			case *ssa.UnOp:
				if x.Op == token.MUL {
					addNeed(x.X, "", nil)
				}
			case *ssa.Phi:
				fa.interest[fmt.Sprintf("phi:%p", x)] = true
				fa.interest[fmt.Sprintf("phi:%p#src", x)] = true
				for _, e := range x.Edges {
					k, _ := a.accessKey(e, 0)
					fa.interest[k] = true
				}
			case *ssa.Store:
				if al, ok := x.Addr.(*ssa.Alloc); ok {
					fa.interest[fmt.Sprintf("*%s@%p", al.Name(), al)] = true
					k, _ := a.accessKey(x.Val, 0)
					fa.interest[k] = true
				}
			case *ssa.MakeClosure:
				cf := x.Fn.(*ssa.Function)
				for _, rq := range a.reqs[cf] {
					if rq.idx < 0 && -1-rq.idx < len(x.Bindings) {
						last := rq.last
						bnd := x.Bindings[-1-rq.idx]
						if al, ok := bnd.(*ssa.Alloc); ok {
							fa.interest[fmt.Sprintf("*%s@%p", al.Name(), al)+strings.TrimPrefix(rq.rel, "*")] = true
						} else {
							addNeed(bnd, rq.rel, &last)
						}
					}
				}
			case ssa.CallInstruction:
				c := x.Common()
				if c.IsInvoke() {
					addNeed(c.Value, "", nil)
				} else if c.StaticCallee() == nil {
					addNeed(c.Value, "", nil)
				}
				var callees []*ssa.Function
				if sc := c.StaticCallee(); sc != nil {
					callees = []*ssa.Function{sc}
				} else {
					callees = a.calleesOf(fa.fn, x)
				}
				var args []ssa.Value
				if c.IsInvoke() {
					args = append(args, c.Value)
				}
				args = append(args, c.Args...)
				for _, callee := range callees {
					for _, rq := range a.reqs[callee] {
						if rq.idx >= 0 && rq.idx < len(args) {
							last := rq.last
							addNeed(args[rq.idx], rq.rel, &last)
						}
					}
				}
			}
		}
	}
	delete(fa.interest, "nil")
}

func (fa *fnNil) restrict(s nilState) nilState {
	for k := range s {
		if !fa.interest[k] {
			o := nilState{}
			for k2, v := range s {
				if fa.interest[k2] {
					o[k2] = v
				}
			}
			return o
		}
	}
	return s
}

func applyFacts(s nilState, facts map[string]nilFact) (nilState, bool) {
	for k, f := range facts {
		if k == "nil" {
			if f == factNonNil {
				return nil, false
			}
			continue
		}
		if old, ok := s[k]; ok && old != f {
			return nil, false // infeasible
		}
	}
	o := s.clone()
	for k, f := range facts {
		if k != "nil" {
			o[k] = f
		}
	}
	return o, true
}

func (a *nilAnalyzer) analyze(fn *ssa.Function) {
	fa := &fnNil{a: a, fn: fn, in: map[*ssa.BasicBlock]stateSetN{}, widened: map[*ssa.BasicBlock]bool{}}
	if len(fn.Blocks) == 0 {
		return
	}
	fa.collectInterest()
	fa.in[fn.Blocks[0]] = stateSetN{}
	fa.in[fn.Blocks[0]].add(nilState{})
	work := []*ssa.BasicBlock{fn.Blocks[0]}
	queued := map[*ssa.BasicBlock]bool{fn.Blocks[0]: true}
	iter := 0
	for len(work) > 0 && iter < 20000 {
		iter++
		b := work[0]
		work = work[1:]
		queued[b] = false
		outs := fa.flowBlock(b, false)
		for i, succ := range b.Succs {
			changed := false
			if fa.in[succ] == nil {
				fa.in[succ] = stateSetN{}
			}
			for _, s := range outs[i] {
				s2 := fa.restrict(fa.phiFacts(b, succ, s))
				if fa.widened[succ] {
					// single intersection state: facts can only be lost, so this terminates
					var old nilState
					for _, o := range fa.in[succ] {
						old = o
					}
					merged := old.clone()
					for k, v := range merged {
						if s2[k] != v {
							delete(merged, k)
						}
					}
					if len(merged) != len(old) {
						fa.in[succ] = stateSetN{}
						fa.in[succ].add(merged)
						changed = true
					}
					continue
				}
				if fa.in[succ].add(s2) {
					changed = true
					if len(fa.in[succ]) > maxNilStates {
						merged := fa.mergeAll(fa.in[succ], s2)
						fa.in[succ] = stateSetN{}
						fa.in[succ].add(merged)
						fa.widened[succ] = true
					}
				}
			}
			if changed && !queued[succ] {
				queued[succ] = true
				work = append(work, succ)
			}
		}
	}
	// reporting pass
	for _, b := range fn.Blocks {
		if fa.in[b] != nil {
			fa.flowBlock(b, true)
		}
	}
	a.reqs[fn] = fa.reqs
}

func (fa *fnNil) mergeAll(ss stateSetN, extra nilState) nilState {
	var out nilState
	first := true
	consider := func(s nilState) {
		if first {
			out = s.clone()
			first = false
			return
		}
		for k, v := range out {
			if s[k] != v {
				delete(out, k)
			}
		}
	}
	for _, s := range ss {
		consider(s)
	}
	consider(extra)
	return out
}

// phiFacts: moving along edge b->succ, give the phis of succ the facts of their incoming values.
func (fa *fnNil) phiFacts(b, succ *ssa.BasicBlock, s nilState) nilState {
	idx := -1
	for i, p := range succ.Preds {
		if p == b {
			idx = i
		}
	}
	if idx < 0 {
		return s
	}
	var o nilState
	for _, in := range succ.Instrs {
		ph, ok := in.(*ssa.Phi)
		if !ok {
			break
		}
		pk := fmt.Sprintf("phi:%p", ph)
		e := ph.Edges[idx]
		ek, ls := fa.a.accessKey(e, 0)
		var f nilFact
		if ek == "nil" {
			f = factNil
		} else if v, ok := s[ek]; ok {
			f = v
		} else if opt, _ := fa.a.optional(ls, e.Type()); !opt && ls.kind != "param" && ls.kind != "phi" && ls.kind != "other" && ls.kind != "local" {
			f = factNonNil
		}
		if o == nil {
			o = s.clone()
		}
		if f != 0 {
			o[pk] = f
		} else {
			delete(o, pk)
		}
		if _, isFn := ph.Type().Underlying().(*types.Signature); isFn {
			// which edge the function value came from (selects the callee per state)
			o[pk+"#src"] = nilFact(10 + idx)
		}
	}
	if o == nil {
		return s
	}
	return o
}

// flowBlock pushes the in-states of b through its instructions; returns, per successor, the states
// leaving on that edge. With report=true dereferences are checked.
func (fa *fnNil) flowBlock(b *ssa.BasicBlock, report bool) [][]nilState {
	a := fa.a
	var cur []nilState
	for _, s := range fa.in[b] {
		cur = append(cur, s)
	}
	sort.Slice(cur, func(i, j int) bool { return cur[i].key() < cur[j].key() })
	var origin *nilReq
	need := func(v ssa.Value, in ssa.Instruction, what string, rel string, relLast *lastStep) {
		k, ls := a.accessKey(v, 0)
		if rel != "" {
			k += rel
			ls = *relLast
		}
		if report {
			fa.checkKey(k, ls, in, what, cur, origin)
		}
		// after the dereference the pointer is non-nil on every continuing path
		for i := range cur {
			if !fa.interest[k] {
				break
			}
			if cur[i][k] != factNonNil {
				n := cur[i].clone()
				n[k] = factNonNil
				cur[i] = n
			}
		}
	}
	for _, in := range b.Instrs {
		switch x := in.(type) {
		case *ssa.FieldAddr:
			need(x.X, in, "field access ."+fieldNameOnly(x.X.Type(), x.Field), "", nil)
		case *ssa.UnOp:
			if x.Op == token.MUL {
				switch x.X.(type) {
				case *ssa.FieldAddr, *ssa.IndexAddr, *ssa.Alloc, *ssa.Global, *ssa.FreeVar:
				default:
					need(x.X, in, "dereference *", "", nil)
				}
			}
		case *ssa.Store:
			if al, ok := x.Addr.(*ssa.Alloc); ok {
				key := fmt.Sprintf("*%s@%p", al.Name(), al)
				vk, vls := a.accessKey(x.Val, 0)
				for i := range cur {
					n := cur[i].clone()
					for k := range n {
						if k == key || strings.HasPrefix(k, key+".") || strings.HasPrefix(k, key+"[") {
							delete(n, k)
						}
					}
					if vk == "nil" {
						n[key] = factNil
					} else if f, ok := n[vk]; ok {
						n[key] = f
					} else if opt, _ := a.optional(vls, x.Val.Type()); !opt && (vls.kind == "alloc" || vls.kind == "range") {
						n[key] = factNonNil
					}
					cur[i] = n
				}
			}
		case ssa.CallInstruction:
			c := x.Common()
			if c.IsInvoke() {
				need(c.Value, in, "method call ."+c.Method.Name()+"() on an interface", "", nil)
			} else if c.StaticCallee() == nil {
				if _, isB := c.Value.(*ssa.Builtin); !isB {
					if _, isMC := c.Value.(*ssa.MakeClosure); !isMC {
						need(c.Value, in, "call of a function value", "", nil)
					}
				}
			}
			// requirements of the callees
			var callees []*ssa.Function
			if sc := c.StaticCallee(); sc != nil {
				callees = []*ssa.Function{sc}
			} else {
				callees = a.calleesOf(fa.fn, x)
			}
			var args []ssa.Value
			if c.IsInvoke() {
				args = append(args, c.Value)
			}
			args = append(args, c.Args...)
			var phiSel *ssa.Phi
			if ph, ok := c.Value.(*ssa.Phi); ok && !c.IsInvoke() {
				phiSel = ph
			}
			for _, callee := range callees {
				// states in which this callee is the one selected
				saved := cur
				if phiSel != nil {
					srcKey := fmt.Sprintf("phi:%p#src", phiSel)
					var sel []nilState
					for _, st := range cur {
						f, has := st[srcKey]
						if !has {
							sel = append(sel, st)
							continue
						}
						e := phiSel.Edges[int(f)-10]
						if mc, ok := e.(*ssa.MakeClosure); ok && mc.Fn == ssa.Value(callee) {
							sel = append(sel, st)
						} else if fv, ok := e.(*ssa.Function); ok && fv == callee {
							sel = append(sel, st)
						} else if _, isMC := e.(*ssa.MakeClosure); !isMC {
							if _, isF := e.(*ssa.Function); !isF {
								sel = append(sel, st) // not a literal function value: cannot discriminate
							}
						}
					}
					cur = sel
				}
				for _, rq := range a.reqs[callee] {
					if rq.idx < 0 || rq.idx >= len(args) {
						continue
					}
					arg := args[rq.idx]
					if mc, ok := c.Value.(*ssa.MakeClosure); ok && callee == mc.Fn {
						_ = mc
					}
					last := rq.last
					what := fmt.Sprintf("argument %d of %s, which dereferences it%s", rq.idx, shortFn(callee), relDesc(rq.rel))
					rqc := rq
					origin = &rqc
					if rq.rel == "" {
						need(arg, in, what, "", nil)
					} else {
						need(arg, in, what, rq.rel, &last)
					}
					origin = nil
				}
				if phiSel != nil {
					// facts learnt inside the selection are dropped; restore the full state list
					cur = saved
				}
			}
			// closures created here: requirements on captured values
			if mc, ok := in.(*ssa.MakeClosure); ok {
				_ = mc
			}
		case *ssa.MakeClosure:
			cf := x.Fn.(*ssa.Function)
			for _, rq := range a.reqs[cf] {
				if rq.idx >= 0 {
					continue
				}
				j := -1 - rq.idx
				if j >= len(x.Bindings) {
					continue
				}
				bnd := x.Bindings[j]
				last := rq.last
				what := fmt.Sprintf("value captured by %s, which dereferences it%s", shortFn(cf), relDesc(rq.rel))
				rel := rq.rel
				if al, ok := bnd.(*ssa.Alloc); ok {
					// captured variable cell: the closure's "f:j*" is this function's "*name@alloc"
					k := fmt.Sprintf("*%s@%p", al.Name(), al) + strings.TrimPrefix(rel, "*")
					if report {
						ls := last
						if rel == "*" {
							ls = lastStep{kind: "local"}
						}
						rqc := rq
						fa.checkKey(k, ls, in, what, cur, &rqc)
					}
					continue
				}
				rqc := rq
				origin = &rqc
				if rel == "" {
					need(bnd, in, what, "", nil)
				} else {
					need(bnd, in, what, rel, &last)
				}
				origin = nil
			}
		}
	}
	// successors
	outs := make([][]nilState, len(b.Succs))
	if len(b.Succs) == 2 {
		ifi := b.Instrs[len(b.Instrs)-1].(*ssa.If)
		tf, ff := map[string]nilFact{}, map[string]nilFact{}
		a.condFacts(ifi.Cond, true, tf)
		a.condFacts(ifi.Cond, false, ff)
		for _, s := range cur {
			if s2, ok := applyFacts(s, tf); ok {
				outs[0] = append(outs[0], s2)
			}
			if s2, ok := applyFacts(s, ff); ok {
				outs[1] = append(outs[1], s2)
			}
		}
	} else if len(b.Succs) == 1 {
		outs[0] = cur
	}
	return outs
}

func relDesc(rel string) string {
	if rel == "" {
		return ""
	}
	return " (its " + strings.TrimPrefix(rel, ".") + ")"
}

func fieldNameOnly(t types.Type, idx int) string {
	_, f := fieldNames(t, idx)
	return f
}

func (fa *fnNil) checkKey(k string, ls lastStep, in ssa.Instruction, what string, cur []nilState, origin *nilReq) {
	a := fa.a
	if len(cur) == 0 {
		return // unreachable
	}
	proven := true
	for _, s := range cur {
		if s[k] != factNonNil {
			proven = false
		}
	}
	opt, why := a.optional(ls, nil)
	if !opt && ls.kind != "param" {
		return
	}
	if opt {
		if reason := a.excused(fa.fn, ls); reason != "" {
			if origin == nil {
				a.derefs++
				a.proved++
			}
			return
		}
	}
	pos := in.Pos()
	if !pos.IsValid() {
		pos = fa.fn.Pos()
	}
	// where the violation is reported: at the original dereference
	oKey := fmt.Sprintf("nil:%s/%s", shortFn(fa.fn), prettyKey(fa.fn, k))
	oPos := a.p.Pos(pos)
	oDetail := fmt.Sprintf("%s on %s without a nil guard on this path (%s)", what, prettyKey(fa.fn, k), why)
	if origin != nil && origin.oKey != "" {
		oKey, oPos, oDetail = origin.oKey, origin.oPos, origin.oDetail
	}
	if origin == nil && opt {
		a.derefs++
		if proven {
			a.proved++
			a.provedKeys[oKey] = oPos
		}
	}
	if proven {
		return
	}
	root, rel := splitRoot(k)
	if strings.HasPrefix(root, "p:") || strings.HasPrefix(root, "f:") {
		idx := 0
		fmt.Sscanf(root[2:], "%d", &idx)
		if strings.HasPrefix(root, "f:") {
			idx = -1 - idx
		}
		dup := false
		for _, q := range fa.reqs {
			if q.idx == idx && q.rel == rel && q.oKey == oKey {
				dup = true
			}
		}
		if !dup && strings.Count(rel, ".")+strings.Count(rel, "[") <= 4 && len(fa.reqs) < 400 {
			rq := nilReq{idx: idx, rel: rel, last: ls, site: in.Pos(), fn: fa.fn, via: what}
			if opt {
				rq.oKey, rq.oPos, rq.oDetail = oKey, oPos, oDetail
			}
			fa.reqs = append(fa.reqs, rq)
		}
		// the callers decide, unless nobody in scope calls this function
		if !a.isEntry(fa.fn) {
			return
		}
		if !opt {
			return // a parameter of an entry point: API precondition
		}
	}
	if !opt {
		// the dereferenced value is not optional here, but a callee requirement with an optional
		// origin ended on a non-parameter root: fall through only when the origin is optional
		if origin == nil || origin.oKey == "" {
			return
		}
	}
	if origin != nil && origin.oKey == "" && !opt {
		return
	}
	chain := ""
	if origin != nil && origin.oKey != "" {
		chain = fmt.Sprintf("; not established at the call in %s (%s) either", shortFn(fa.fn), a.p.Pos(pos))
	}
	if old, ok := a.viol[oKey]; ok {
		_ = old
		return
	}
	a.viol[oKey] = nilViolation{key: oKey, pos: oPos, detail: oDetail + chain}
}

func (a *nilAnalyzer) isEntry(fn *ssa.Function) bool {
	for _, e := range a.cs.entries {
		if e == fn {
			return true
		}
	}
	// no caller inside the scope
	if n := a.p.CallGraph().Nodes[fn]; n != nil {
		for _, e := range n.In {
			if a.cs.reach[e.Caller.Func] {
				return false
			}
		}
	}
	return fn.Parent() == nil
}

func splitRoot(k string) (string, string) {
	for i := 0; i < len(k); i++ {
		if k[i] == '.' || k[i] == '[' || k[i] == '*' {
			return k[:i], k[i:]
		}
	}
	return k, ""
}

func prettyKey(fn *ssa.Function, k string) string {
	root, rel := splitRoot(k)
	idx := 0
	if strings.HasPrefix(root, "p:") {
		fmt.Sscanf(root[2:], "%d", &idx)
		if idx < len(fn.Params) {
			return fn.Params[idx].Name() + rel
		}
	}
	if strings.HasPrefix(root, "f:") {
		fmt.Sscanf(root[2:], "%d", &idx)
		if idx < len(fn.FreeVars) {
			return fn.FreeVars[idx].Name() + rel
		}
	}
	// strip pointer addresses
	out := k
	for {
		i := strings.Index(out, "@0x")
		if i < 0 {
			break
		}
		j := i + 3
		for j < len(out) && strings.ContainsRune("0123456789abcdef", rune(out[j])) {
			j++
		}
		out = out[:i] + out[j:]
	}
	for _, pre := range []string{"call:0x", "phi:0x", "ta:0x", "v:0x", "rng:0x"} {
		if strings.HasPrefix(out, pre) {
			return strings.TrimSuffix(pre, ":0x") + "-value"
		}
	}
	return out
}

// excused: frozen exceptions (symbol + producing call), each with a reason that is re-verified on
// every run; returns "" when no exception applies or its verification fails.
func (a *nilAnalyzer) excused(fn *ssa.Function, ls lastStep) string {
	if shortFn(fn) == "(*routers/gorillamux.Router).FindRoute" && ls.kind == "call" && strings.Contains(ls.desc, "(*openapi3.Paths).Value") {
		if a.gorillaRouteKeysVerified() {
			return "route.Path is a key of route.Spec.Paths: every Route the router stores is built in NewRouter with Path ranging over doc.Paths.InMatchingOrder() and Spec = doc"
		}
	}
	return ""
}

// gorillaRouteKeysVerified: in gorillamux.NewRouter every routers.Route literal takes Path from the
// range variable over doc.Paths.InMatchingOrder() and Spec from the same doc parameter.
func (a *nilAnalyzer) gorillaRouteKeysVerified() bool {
	p := a.p
	fd := p.DeclOf("routers/gorillamux", "NewRouter")
	info := p.Pkg("routers/gorillamux").TypesInfo
	ok, n := true, 0
	docObj := core.ParamObj(info, fd, "doc")
	ast.Inspect(fd.Body, func(nd ast.Node) bool {
		cl, isCL := nd.(*ast.CompositeLit)
		if !isCL {
			return true
		}
		nt := core.NamedOf(info.TypeOf(cl))
		if nt == nil || nt.Obj().Name() != "Route" {
			return true
		}
		n++
		var pathE, specE ast.Expr
		for _, el := range cl.Elts {
			if kv, isKV := el.(*ast.KeyValueExpr); isKV {
				if id, isID := kv.Key.(*ast.Ident); isID {
					switch id.Name {
					case "Path":
						pathE = kv.Value
					case "Spec":
						specE = kv.Value
					}
				}
			}
		}
		sid, _ := specE.(*ast.Ident)
		if sid == nil || info.ObjectOf(sid) != docObj {
			ok = false
		}
		pid, _ := pathE.(*ast.Ident)
		if pid == nil {
			ok = false
			return true
		}
		// pid is the value variable of `for _, path := range doc.Paths.InMatchingOrder()`
		good := false
		for _, anc := range core.PathTo(fd.Body, cl) {
			if rs, isR := anc.(*ast.RangeStmt); isR {
				if v, isV := rs.Value.(*ast.Ident); isV && info.ObjectOf(v) == info.ObjectOf(pid) {
					if c, isC := rs.X.(*ast.CallExpr); isC {
						if callee := core.CalleeOf(info, c); callee != nil && callee.Name() == "InMatchingOrder" {
							good = true
						}
					}
				}
			}
		}
		if !good {
			ok = false
		}
		return true
	})
	return ok && n > 0
}

// crashNil runs the analysis to a fixpoint over the requirement summaries and reports.
func crashNil(r *core.Report, cs *crashScope) {
	crashNilMode(r, cs, false, 35)
}

func crashNilMode(r *core.Report, cs *crashScope, raw bool, floor int) {
	p := r.Prog
	r.RunRule(cs.id+".nil", "optional-pointer dereferences: every dereference (field access, *p, method call on an interface, call of a function value) of a pointer obtained from an optional field of the document model, from a map lookup, from a comma-ok assertion or from a repo function that may return nil is preceded, on every path, by a nil test of the same access path — decided by a path-sensitive nil-ness dataflow on go/ssa with disjunctive states; a function that dereferences a parameter (or a field path below it) without a test passes the obligation to its callers (requirement summaries, fixpoint over the call graph); validated-document axioms: reference wrappers are resolved, Operation.Responses/T.Paths/T.Info are present, a schema whose type includes array has items, slice and range elements are non-nil (for C20 none of these axioms is used: nothing has been validated)", floor, func() {
		a := newNilAnalyzer(p, cs)
		a.raw = raw
		maxRounds := 8
		if v := os.Getenv("KINLINT_NILROUNDS"); v != "" {
			fmt.Sscanf(v, "%d", &maxRounds)
		}
		for round := 0; round < maxRounds; round++ {
			a.round = round
			before := reqSignature(a.reqs)
			a.viol = map[string]nilViolation{}
			a.provedKeys = map[string]string{}
			a.derefs, a.proved = 0, 0
			for _, fn := range cs.funcs {
				t0 := time.Now()
				a.analyze(fn)
				if d := time.Since(t0); d > 500*time.Millisecond && os.Getenv("KINLINT_DEBUG") != "" {
					fmt.Println("SLOW", shortFn(fn), d, len(fn.Blocks))
				}
			}
			if reqSignature(a.reqs) == before {
				break
			}
		}
		var keys []string
		for k := range a.viol {
			keys = append(keys, k)
		}
		sort.Strings(keys)
		for _, k := range keys {
			v := a.viol[k]
			r.Bad(v.key, v.pos, v.detail)
		}
		var pk []string
		for k := range a.provedKeys {
			if _, bad := a.viol[k]; !bad {
				pk = append(pk, k)
			}
		}
		sort.Strings(pk)
		for _, k := range pk {
			r.OK(k, a.provedKeys[k], "optional pointer dereferenced only under a nil guard of the same access path on every path")
		}
		r.Extra[cs.id+"_optional_derefs"] = a.derefs
		r.Extra[cs.id+"_optional_derefs_proved"] = a.proved
		if os.Getenv("KINLINT_DEBUG") != "" {
			for fn, rq := range a.reqs {
				for _, q := range rq {
					fmt.Println("REQ", shortFn(fn), q.idx, q.rel, q.last.kind)
				}
			}
		}
	})
}

func reqSignature(m map[*ssa.Function][]nilReq) string {
	var parts []string
	for fn, rs := range m {
		for _, q := range rs {
			parts = append(parts, fmt.Sprintf("%s/%d/%s", fn.String(), q.idx, q.rel))
		}
	}
	sort.Strings(parts)
	return strings.Join(uniq(parts), "|")
}
