package rules

import (
	"fmt"
	"go/ast"
	"go/constant"
	"go/token"
	"go/types"
	"os"
	"regexp"
	"sort"
	"strings"
	"time"

	"golang.org/x/tools/go/ast/astutil"
	"golang.org/x/tools/go/ssa"

	"verif/internal/core"
)

// ---- optional-pointer dereference analysis (path-sensitive nil-ness dataflow on go/ssa) -------------
//
// Facts are kept per *access path* (p:0.Value.Schema – parameter 0, field Value, field Schema), not per
// SSA value: go/ssa does not CSE loads, and the document is never written on these paths (C15), so two
// loads of the same path see the same pointer. A state is a set of fact maps (disjunctive), so that
// `if a == nil && b == nil { return }; if b != nil {...} else { use a }` is decided.

type nilFact int8

const (
	factNil nilFact = iota + 1
	factNonNil
)

type nilState map[string]nilFact

func (s nilState) key() string {
	ks := make([]string, 0, len(s))
	for k, v := range s {
		ks = append(ks, fmt.Sprintf("%s=%d", k, v))
	}
	sort.Strings(ks)
	return strings.Join(ks, ";")
}

func (s nilState) clone() nilState {
	o := make(nilState, len(s)+1)
	for k, v := range s {
		o[k] = v
	}
	return o
}

type stateSetN map[string]nilState

func (ss stateSetN) add(s nilState) bool {
	k := s.key()
	if _, ok := ss[k]; ok {
		return false
	}
	ss[k] = s
	return true
}

// nilReq: function fn dereferences (parameter idx | free variable -1-idx) + rel without a proof.
type nilReq struct {
	idx  int    // >=0 parameter index; <0 free variable -1-idx
	rel  string // relative access path ("" = the parameter itself, ".Value.Schema")
	last lastStep
	site token.Pos
	fn   *ssa.Function
	via  string
	// origin: the dereference this requirement stems from (reported there, once)
	oKey, oPos, oDetail string
}

// lastStep describes how the dereferenced pointer was produced.
type lastStep struct {
	kind    string // "param", "field", "lookup", "call", "assert", "phi", "range", "alloc", "const-nil", "other"
	owner   string // for field: struct name
	field   string
	model   bool       // field of a document-model struct
	wrapper bool       // the value is a pointer to a reference wrapper (or path item)
	coll    types.Type // for range: the collection the element comes from
	desc    string
	phiOpt  bool // for phi: one of the merged values may be nil
}

type nilAnalyzer struct {
	p          *core.Prog
	cs         *crashScope
	model      map[*types.Named]bool
	axioms     map[string]string // "Owner.Field" -> reason
	reqs       map[*ssa.Function][]nilReq
	na         *core.NilAnalysis
	nilImpl    map[*ssa.Function]int // +1: true result implies receiver non-nil; -1: false result implies; 0: none
	niDone     map[*ssa.Function]bool
	viol       map[string]nilViolation
	raw        bool // C20 load phase: nothing is known – wrappers may be unresolved, entries may be nil
	loaded     bool // C20 post-load phase: wrappers are present and resolved, other entries may be nil
	nowe       map[string]bool
	nnMap      map[*ssa.Function]bool
	nnType     map[*types.Named]bool
	rejEmpty   map[string]bool
	okImpl     map[*ssa.Function][]string // callee -> paths below its receiver/first parameter that are non-nil when it returns a nil error
	provedKeys map[string]string
	keyCache   map[ssa.Value]keyInfo
	edgeCache  map[*ssa.Function]map[ssa.CallInstruction][]*ssa.Function
	derefs     int
	proved     int
	round      int
	// unset: "Owner.Field" of a non-model repo struct -> where a composite literal of the struct
	// leaves the (pointer, interface or function) field unset
	unset map[string]string
	lits  map[string][]litInfo // by struct name
}

// litInfo: one keyed composite literal of a non-model repo struct.
type litInfo struct {
	given  map[string]bool   // fields given in the literal or assigned afterwards through its variable
	consts map[string]string // fields given a constant string
	pos    string
}

type nilViolation struct {
	key, pos, detail string
}

func newNilAnalyzer(p *core.Prog, cs *crashScope) *nilAnalyzer {
	a := &nilAnalyzer{p: p, cs: cs, model: map[*types.Named]bool{}, reqs: map[*ssa.Function][]nilReq{}, na: core.NewNilAnalysis(p), nilImpl: map[*ssa.Function]int{}, niDone: map[*ssa.Function]bool{}, viol: map[string]nilViolation{}, keyCache: map[ssa.Value]keyInfo{}, provedKeys: map[string]string{}, nowe: map[string]bool{}, nnMap: map[*ssa.Function]bool{}, nnType: map[*types.Named]bool{}, rejEmpty: map[string]bool{}, okImpl: map[*ssa.Function][]string{}, edgeCache: map[*ssa.Function]map[ssa.CallInstruction][]*ssa.Function{}}
	for _, n := range p.ModelTypes("openapi3", "T") {
		a.model[n] = true
	}
	a.unset, a.lits = unsetByLiterals(p, a.model)
	// fields of the filter's input structs that the caller may leave nil (frozen, with the reason):
	// "any response whatsoever" includes the one whose input was built without a body
	for k, why := range map[string]string{
		"ResponseValidationInput.Body": "the caller: a response without a body is given as the zero value of the field (http.Response.Body of a hand-built response)",
	} {
		if _, ok := a.unset[k]; !ok {
			a.unset[k] = why
		}
	}
	// validated-document axioms: each names the Validate line that rejects nil (checked by C04.descent)
	a.axioms = map[string]string{
		"Operation.Responses": "Operation.Validate rejects an operation without responses",
		"T.Paths":             "T.Validate rejects a document without paths",
		"T.Info":              "T.Validate rejects a document without info",
	}
	return a
}

func (a *nilAnalyzer) isWrapperPtr(t types.Type) bool {
	n := core.NamedOf(t)
	if n == nil {
		return false
	}
	if _, ok := core.IsRefWrapper(n.Origin()); ok {
		return true
	}
	return n.Obj().Name() == "PathItem"
}

func (a *nilAnalyzer) isModel(t types.Type) (*types.Named, bool) {
	n := core.NamedOf(t)
	if n == nil {
		return nil, false
	}
	n = n.Origin()
	return n, a.model[n]
}

// accessKey computes the access-path key of a pointer-/interface-/func-valued SSA value and how it was
// produced.
type keyInfo struct {
	k  string
	ls lastStep
}

func (a *nilAnalyzer) accessKey(v ssa.Value, depth int) (string, lastStep) {
	if ki, ok := a.keyCache[v]; ok {
		return ki.k, ki.ls
	}
	k, ls := a.accessKey0(v, depth)
	a.keyCache[v] = keyInfo{k, ls}
	return k, ls
}

func (a *nilAnalyzer) accessKey0(v ssa.Value, depth int) (string, lastStep) {
	if depth > 12 {
		return fmt.Sprintf("v:%p", v), lastStep{kind: "other"}
	}
	switch x := v.(type) {
	case *ssa.Parameter:
		for i, q := range x.Parent().Params {
			if q == x {
				return fmt.Sprintf("p:%d", i), lastStep{kind: "param", desc: x.Name()}
			}
		}
	case *ssa.FreeVar:
		for i, q := range x.Parent().FreeVars {
			if q == x {
				return fmt.Sprintf("f:%d", i), lastStep{kind: "param", desc: "captured " + x.Name()}
			}
		}
	case *ssa.Const:
		if x.IsNil() {
			return "nil", lastStep{kind: "const-nil"}
		}
		return fmt.Sprintf("v:%p", v), lastStep{kind: "other"}
	case *ssa.MakeInterface:
		return a.accessKey(x.X, depth+1)
	case *ssa.ChangeType:
		return a.accessKey(x.X, depth+1)
	case *ssa.ChangeInterface:
		return a.accessKey(x.X, depth+1)
	case *ssa.Alloc:
		return fmt.Sprintf("&%s@%p", x.Name(), x), lastStep{kind: "alloc"}
	case *ssa.MakeClosure, *ssa.MakeMap, *ssa.MakeSlice, *ssa.MakeChan, *ssa.Function, *ssa.Global:
		return fmt.Sprintf("v:%p", v), lastStep{kind: "alloc"}
	case *ssa.FieldAddr:
		// address of a (possibly embedded) field: non-nil whenever computed; keyed by path so that
		// two computations of the same address agree
		base, _ := a.accessKey(x.X, depth+1)
		_, fname := fieldNames(x.X.Type(), x.Field)
		return base + ".&" + fname, lastStep{kind: "alloc"}
	case *ssa.IndexAddr:
		return fmt.Sprintf("v:%p", v), lastStep{kind: "alloc"}
	case *ssa.UnOp:
		if x.Op != token.MUL {
			return fmt.Sprintf("v:%p", v), lastStep{kind: "other"}
		}
		switch ad := x.X.(type) {
		case *ssa.FieldAddr:
			base, _ := a.accessKey(ad.X, depth+1)
			base = strings.ReplaceAll(base, ".&", ".")
			owner, fname := fieldNames(ad.X.Type(), ad.Field)
			_, isM := a.isModel(ad.X.Type())
			return base + "." + fname, lastStep{kind: "field", owner: owner, field: fname, model: isM, desc: owner + "." + fname}
		case *ssa.Alloc:
			// a parameter boxed because a closure captures it, and never reassigned: the parameter itself
			if prm := boxedParam(ad); prm != nil {
				return a.accessKey(prm, depth+1)
			}
			// local variable cell
			return fmt.Sprintf("*%s@%p", ad.Name(), ad), lastStep{kind: "local", desc: ad.Comment}
		case *ssa.FreeVar:
			k, _ := a.accessKey(ad, depth+1)
			return k + "*", lastStep{kind: "local", desc: "captured variable " + ad.Name()}
		case *ssa.IndexAddr:
			// element of a slice/array: treated as a range element (entries are non-nil, see axioms)
			base, _ := a.accessKey(ad.X, depth+1)
			_, isM := a.isModel(x.Type())
			return base + "[i]@" + x.Name(), lastStep{kind: "range", desc: "slice element", model: isM, wrapper: a.isWrapperPtr(x.Type()), coll: ad.X.Type()}
		case *ssa.Global:
			return "g:" + ad.Name(), lastStep{kind: "other", desc: "global " + ad.Name()}
		default:
			base, _ := a.accessKey(ad, depth+1)
			return base + "*", lastStep{kind: "other"}
		}
	case *ssa.Field:
		// field of a struct value (loaded from a pointer)
		base := ""
		if u, ok := x.X.(*ssa.UnOp); ok && u.Op == token.MUL {
			base, _ = a.accessKey(u.X, depth+1)
		} else {
			base, _ = a.accessKey(x.X, depth+1)
		}
		owner, fname := fieldNames(x.X.Type(), x.Field)
		_, isM := a.isModel(x.X.Type())
		return base + "." + fname, lastStep{kind: "field", owner: owner, field: fname, model: isM, desc: owner + "." + fname}
	case *ssa.Lookup:
		base, _ := a.accessKey(x.X, depth+1)
		k := fmt.Sprintf("%p", x.Index)
		if c, ok := x.Index.(*ssa.Const); ok && c.Value != nil {
			k = c.Value.ExactString()
		} else if kk, _ := a.accessKey(x.Index, depth+1); !strings.HasPrefix(kk, "v:") {
			k = kk
		}
		if x.CommaOk {
			return base + "[" + k + "],ok", lastStep{kind: "other"}
		}
		if a.keyFromSameMap(x) {
			if c, ok := x.X.(*ssa.Call); ok {
				if sc := c.Common().StaticCallee(); sc != nil && a.nonNilEntriesMap(sc) {
					return base + "[" + k + "]", lastStep{kind: "alloc", desc: "entry of a map that " + shortFn(sc) + " fills with non-nil values only"}
				}
			}
			_, isM := a.isModel(x.Type())
			return base + "[" + k + "]", lastStep{kind: "range", desc: "lookup with a key taken from the same map", model: isM, wrapper: a.isWrapperPtr(x.Type()), coll: x.X.Type()}
		}
		return base + "[" + k + "]", lastStep{kind: "lookup", desc: "map lookup"}
	case *ssa.Extract:
		switch t := x.Tuple.(type) {
		case *ssa.Lookup:
			if x.Index == 0 {
				k, _ := a.accessKey(t, depth+1)
				return strings.TrimSuffix(k, ",ok"), lastStep{kind: "lookup", desc: "map lookup"}
			}
		case *ssa.TypeAssert:
			if x.Index == 0 {
				return fmt.Sprintf("ta:%p", t), lastStep{kind: "assert", desc: "comma-ok type assertion"}
			}
		case *ssa.Next:
			_, isM := a.isModel(x.Type())
			var coll types.Type
			if rg, ok := t.Iter.(*ssa.Range); ok {
				coll = rg.X.Type()
			}
			return fmt.Sprintf("rng:%p/%d", t, x.Index), lastStep{kind: "range", desc: "range element", model: isM, wrapper: a.isWrapperPtr(x.Type()), coll: coll}
		case *ssa.Call:
			return fmt.Sprintf("call:%p/%d", t, x.Index), a.callStep(t, x.Index)
		}
		return fmt.Sprintf("v:%p", v), lastStep{kind: "other"}
	case *ssa.Call:
		// a repo function whose result is nil only when one of its parameters is: the result stands
		// for that argument (WithValidationOptions(ctx, ...) returns ctx or a context derived from it)
		if sc := x.Common().StaticCallee(); sc != nil && core.SSAFuncInRepo(sc) {
			if o, ok := sc.Object().(*types.Func); ok && o != nil {
				if never, pidx := a.naResult(o, 0); !never && pidx >= 0 {
					args := x.Common().Args
					if sc.Signature.Recv() != nil {
						pidx++
					}
					if pidx < len(args) {
						return a.accessKey(args[pidx], depth+1)
					}
				}
			}
		}
		return fmt.Sprintf("call:%p/0", x), a.callStep(x, 0)
	case *ssa.TypeAssert:
		if !x.CommaOk {
			// a successful single-result assertion to a concrete type yields that value
			return a.accessKey(x.X, depth+1)
		}
	case *ssa.Phi:
		ls := lastStep{kind: "phi"}
		if depth < 6 {
			// a merge of values one of which may be nil needs a proof like that value itself
			for _, e := range x.Edges {
				if e == ssa.Value(x) {
					continue
				}
				if c, ok := e.(*ssa.Const); ok && c.IsNil() {
					ls.phiOpt, ls.desc = true, "nil on one incoming path"
					break
				}
				_, els := a.accessKey0(e, depth+2)
				if opt, why := a.optional(els, e.Type()); opt {
					ls.phiOpt, ls.desc = true, "on one incoming path: "+why
					break
				}
			}
		}
		return fmt.Sprintf("phi:%p", x), ls
	}
	return fmt.Sprintf("v:%p", v), lastStep{kind: "other"}
}

// keyFromSameMap: the lookup key is an element of a slice filled only with range keys of the same map
// (the "collect keys, sort, iterate" idiom, or componentNames(m)): the entry exists.
func (a *nilAnalyzer) keyFromSameMap(lk *ssa.Lookup) bool {
	mapKey, _ := a.accessKey(lk.X, 1)
	return a.indexFromKeysOf(lk.Index, func(m ssa.Value) bool {
		k, _ := a.accessKey(m, 1)
		return k == mapKey
	})
}

// accessorFromSameMap: `recv.Value(k)` on a map-like where k is a key of `recv.Map()`.
func (a *nilAnalyzer) accessorFromSameMap(c *ssa.Call) bool {
	sc := c.Common().StaticCallee()
	if sc == nil || sc.Name() != "Value" || len(c.Common().Args) != 2 {
		return false
	}
	recvKey, _ := a.accessKey(c.Common().Args[0], 1)
	return a.indexFromKeysOf(c.Common().Args[1], func(m ssa.Value) bool {
		mc, ok := m.(*ssa.Call)
		if !ok {
			return false
		}
		msc := mc.Common().StaticCallee()
		if msc == nil || msc.Name() != "Map" || len(mc.Common().Args) != 1 {
			return false
		}
		k, _ := a.accessKey(mc.Common().Args[0], 1)
		return k == recvKey
	})
}

// rejectsEmpty: the loader's resolver for wrapper type `owner` starts by returning an error when the
// wrapper is empty (`if component.isEmpty() { return errMUST... }`), with isEmpty being
// `x == nil || x.Ref == "" && x.Value == nil`: in a loaded document such a wrapper has a reference
// or a value.
func (a *nilAnalyzer) rejectsEmpty(owner string) bool {
	if v, ok := a.rejEmpty[owner]; ok {
		return v
	}
	a.rejEmpty[owner] = false
	p := a.p
	info := p.Pkg("openapi3").TypesInfo
	loaderT := p.NamedType("openapi3", "Loader")
	for i := 0; i < loaderT.NumMethods(); i++ {
		m := loaderT.Method(i)
		sig := m.Type().(*types.Signature)
		if !strings.HasPrefix(m.Name(), "resolve") || sig.Params().Len() < 3 {
			continue
		}
		n := core.NamedOf(sig.Params().At(1).Type())
		if n == nil || n.Obj().Name() != owner {
			continue
		}
		fd := p.Decl(m)
		if fd == nil || len(fd.Body.List) == 0 {
			continue
		}
		ifs, ok := fd.Body.List[0].(*ast.IfStmt)
		if !ok || ifs.Init != nil || !core.Terminates(info, ifs.Body.List) {
			continue
		}
		call, ok := ast.Unparen(ifs.Cond).(*ast.CallExpr)
		if !ok {
			continue
		}
		callee := core.CalleeOf(info, call)
		sel, ok := call.Fun.(*ast.SelectorExpr)
		if callee == nil || !ok || callee.Name() != "isEmpty" {
			continue
		}
		if id, ok := sel.X.(*ast.Ident); !ok || info.ObjectOf(id) != sig.Params().At(1) {
			continue
		}
		// the returned error is non-nil
		ret, ok := ifs.Body.List[len(ifs.Body.List)-1].(*ast.ReturnStmt)
		if !ok || len(ret.Results) != 1 {
			continue
		}
		ff := core.NewFuncFacts(p, info, fd)
		if a.na.Classify(ff, ret.Results[0], ret) != core.NonNil {
			continue
		}
		ed := p.Decl(callee)
		if ed == nil || len(ed.Body.List) != 1 {
			continue
		}
		r0, ok := ed.Body.List[0].(*ast.ReturnStmt)
		if !ok || len(r0.Results) != 1 || ed.Recv == nil || len(ed.Recv.List[0].Names) != 1 {
			continue
		}
		rn := ed.Recv.List[0].Names[0].Name
		want := rn + " == nil || " + rn + `.Ref == "" && ` + rn + ".Value == nil"
		if core.ExprStr(r0.Results[0]) == want {
			a.rejEmpty[owner] = true
		}
	}
	return a.rejEmpty[owner]
}

// boxedParam: al is the heap cell of a parameter (spilled because a closure captures it) whose only
// store is the initial one, in the function and in every closure that captures it.
func boxedParam(al *ssa.Alloc) *ssa.Parameter {
	var prm *ssa.Parameter
	for _, ref := range *al.Referrers() {
		switch r := ref.(type) {
		case *ssa.Store:
			if r.Addr != ssa.Value(al) {
				return nil // the cell's address escapes into memory
			}
			p, ok := r.Val.(*ssa.Parameter)
			if !ok || prm != nil {
				return nil
			}
			prm = p
		case *ssa.UnOp, *ssa.DebugRef:
		case *ssa.MakeClosure:
			fn, ok := r.Fn.(*ssa.Function)
			if !ok {
				return nil
			}
			for i, b := range r.Bindings {
				if b != ssa.Value(al) || i >= len(fn.FreeVars) {
					continue
				}
				if freeVarStored(fn.FreeVars[i], 0) {
					return nil
				}
			}
		default:
			return nil
		}
	}
	return prm
}

func freeVarStored(fv *ssa.FreeVar, depth int) bool {
	if depth > 4 {
		return true
	}
	for _, ref := range *fv.Referrers() {
		switch r := ref.(type) {
		case *ssa.Store:
			return true
		case *ssa.UnOp, *ssa.DebugRef:
		case *ssa.MakeClosure:
			fn, ok := r.Fn.(*ssa.Function)
			if !ok {
				return true
			}
			for i, b := range r.Bindings {
				if b == ssa.Value(fv) && i < len(fn.FreeVars) && freeVarStored(fn.FreeVars[i], depth+1) {
					return true
				}
			}
		default:
			return true
		}
	}
	return false
}

// nonNilEntryType: a named map type of the model whose UnmarshalJSON assigns the receiver only from
// a helper that stores non-nil values (unmarshalStringMapP: every entry is &result of deepCast, so a
// JSON null entry decodes to a pointer to the zero value, never to nil).
func (a *nilAnalyzer) nonNilEntryType(t types.Type) bool {
	if t == nil {
		return false
	}
	n, ok := types.Unalias(t).(*types.Named)
	if !ok {
		return false
	}
	if v, ok := a.nnType[n]; ok {
		return v
	}
	a.nnType[n] = false
	if _, isMap := n.Underlying().(*types.Map); !isMap || n.Obj().Pkg() == nil || !core.InRepo(n.Obj().Pkg()) {
		return false
	}
	a.p.BuildSSA()
	prog := a.p.SSA
	sel := prog.MethodSets.MethodSet(types.NewPointer(n)).Lookup(n.Obj().Pkg(), "UnmarshalJSON")
	if sel == nil {
		return false
	}
	fn := prog.MethodValue(sel)
	if fn == nil || len(fn.Blocks) == 0 {
		return false
	}
	stores := 0
	for _, b := range fn.Blocks {
		for _, in := range b.Instrs {
			st, ok := in.(*ssa.Store)
			if !ok || st.Addr != ssa.Value(fn.Params[0]) {
				continue
			}
			v := st.Val
			if ct, ok := v.(*ssa.ChangeType); ok {
				v = ct.X
			}
			ex, ok := v.(*ssa.Extract)
			if !ok {
				return false
			}
			call, ok := ex.Tuple.(*ssa.Call)
			if !ok {
				return false
			}
			g := call.Common().StaticCallee()
			if g == nil || !a.nonNilEntriesResult(g, ex.Index) {
				return false
			}
			stores++
		}
	}
	a.nnType[n] = stores > 0
	return stores > 0
}

// nonNilEntriesResult: result idx of g is nil or one freshly made map into which only non-nil
// values are stored (under a `v != nil` test, or v being the result of a call that returns nil only
// with an error, stored on the no-error edge).
func (a *nilAnalyzer) nonNilEntriesResult(g *ssa.Function, idx int) bool {
	if !core.SSAFuncInRepo(g) || len(g.Blocks) == 0 {
		return false
	}
	var mk *ssa.MakeMap
	for _, b := range g.Blocks {
		for _, in := range b.Instrs {
			ret, ok := in.(*ssa.Return)
			if !ok {
				continue
			}
			if len(ret.Results) <= idx {
				return false
			}
			r := ret.Results[idx]
			if c, ok := r.(*ssa.Const); ok && c.IsNil() {
				continue
			}
			m, ok := r.(*ssa.MakeMap)
			if !ok || (mk != nil && mk != m) {
				return false
			}
			mk = m
		}
	}
	if mk == nil {
		return false
	}
	n := 0
	for _, ref := range *mk.Referrers() {
		switch r := ref.(type) {
		case *ssa.Return, *ssa.DebugRef:
		case *ssa.MapUpdate:
			if r.Map != mk {
				return false
			}
			if !nonNilEdgeDominates(r.Value, r.Block()) && !a.okResultOnNoErrorEdge(r.Value, r.Block()) {
				return false
			}
			n++
		default:
			return false
		}
	}
	return n > 0
}

// okResultOnNoErrorEdge: v is result j of a call whose result j is nil only together with its error
// result, and blk is dominated by the edge on which that error is nil.
func (a *nilAnalyzer) okResultOnNoErrorEdge(v ssa.Value, blk *ssa.BasicBlock) bool {
	ex, ok := v.(*ssa.Extract)
	if !ok {
		return false
	}
	call, ok := ex.Tuple.(*ssa.Call)
	if !ok {
		return false
	}
	sc := call.Common().StaticCallee()
	if sc == nil {
		return false
	}
	for _, ref := range *call.Referrers() {
		e2, ok := ref.(*ssa.Extract)
		if !ok || e2.Index == ex.Index || !isErrorType(e2.Type()) {
			continue
		}
		if a.nilOnlyWithError(sc, ex.Index, e2.Index) && core.NilEdgeDominates(e2, blk) {
			return true
		}
	}
	return false
}

// nonNilEntriesMap: fn returns one freshly made map, and every value it stores into it is stored
// under a dominating `v != nil` test.
func (a *nilAnalyzer) nonNilEntriesMap(fn *ssa.Function) bool {
	if v, ok := a.nnMap[fn]; ok {
		return v
	}
	a.nnMap[fn] = false
	if !core.SSAFuncInRepo(fn) || len(fn.Blocks) == 0 {
		return false
	}
	var mk *ssa.MakeMap
	for _, b := range fn.Blocks {
		for _, in := range b.Instrs {
			ret, ok := in.(*ssa.Return)
			if !ok {
				continue
			}
			if len(ret.Results) != 1 {
				return false
			}
			m, ok := ret.Results[0].(*ssa.MakeMap)
			if !ok || (mk != nil && mk != m) {
				return false
			}
			mk = m
		}
	}
	if mk == nil {
		return false
	}
	n := 0
	for _, ref := range *mk.Referrers() {
		switch r := ref.(type) {
		case *ssa.Return, *ssa.DebugRef:
		case *ssa.MapUpdate:
			if r.Map != mk || !nonNilEdgeDominates(r.Value, r.Block()) {
				return false
			}
			n++
		default:
			return false
		}
	}
	a.nnMap[fn] = n > 0
	return n > 0
}

// indexFromKeysOf: idx is an element of a slice whose elements are all range keys of a map accepted
// by sameMap (directly ranging over the map also counts), or of componentNames(m) for such a map.
func (a *nilAnalyzer) indexFromKeysOf(idx ssa.Value, sameMap func(m ssa.Value) bool) bool {
	var slice ssa.Value
	switch ix := idx.(type) {
	case *ssa.UnOp:
		if ia, ok := ix.X.(*ssa.IndexAddr); ok && ix.Op == token.MUL {
			slice = ia.X
		}
	case *ssa.Extract:
		if nx, ok := ix.Tuple.(*ssa.Next); ok {
			if rg, ok := nx.Iter.(*ssa.Range); ok {
				if ix.Index == 1 {
					return sameMap(rg.X)
				}
				slice = rg.X
			}
		}
	}
	if slice == nil {
		return false
	}
	seen := map[ssa.Value]bool{}
	found := false
	ok := true
	var walk func(v ssa.Value, depth int)
	walk = func(v ssa.Value, depth int) {
		if seen[v] || !ok || depth > 10 {
			return
		}
		seen[v] = true
		switch x := v.(type) {
		case *ssa.Phi:
			for _, e := range x.Edges {
				walk(e, depth+1)
			}
		case *ssa.Slice:
			walk(x.X, depth+1)
		case *ssa.MakeSlice:
		case *ssa.Const:
		case *ssa.Call:
			if sc := x.Common().StaticCallee(); sc != nil {
				// componentNames(m): the sorted keys of m
				name := sc.Name()
				if i := strings.Index(name, "["); i >= 0 {
					name = name[:i]
				}
				if name == "componentNames" && len(x.Common().Args) == 1 {
					arg := x.Common().Args[0]
					if ct, isCT := arg.(*ssa.ChangeType); isCT {
						arg = ct.X
					}
					if sameMap(arg) {
						found = true
					} else {
						ok = false
					}
					return
				}
				ok = false
				return
			}
			b, isB := x.Common().Value.(*ssa.Builtin)
			if !isB || b.Name() != "append" || len(x.Common().Args) != 2 {
				ok = false
				return
			}
			walk(x.Common().Args[0], depth+1)
			sl, isS := x.Common().Args[1].(*ssa.Slice)
			if !isS {
				ok = false
				return
			}
			al, isA := sl.X.(*ssa.Alloc)
			if !isA {
				ok = false
				return
			}
			for _, ref := range *al.Referrers() {
				ia, isI := ref.(*ssa.IndexAddr)
				if !isI {
					continue
				}
				for _, r2 := range *ia.Referrers() {
					st, isSt := r2.(*ssa.Store)
					if !isSt {
						continue
					}
					ex, isE := st.Val.(*ssa.Extract)
					if !isE || ex.Index != 1 {
						ok = false
						return
					}
					nx, isN := ex.Tuple.(*ssa.Next)
					if !isN {
						ok = false
						return
					}
					rg, isR := nx.Iter.(*ssa.Range)
					if !isR || !sameMap(rg.X) {
						ok = false
						return
					}
					found = true
				}
			}
		default:
			ok = false
		}
	}
	walk(slice, 0)
	return ok && found
}

func (a *nilAnalyzer) callStep(c *ssa.Call, idx int) lastStep {
	if idx == 0 && a.accessorFromSameMap(c) {
		_, isM := a.isModel(c.Type())
		return lastStep{kind: "range", desc: "map-like entry for a key taken from the same map-like", model: isM, wrapper: a.isWrapperPtr(c.Type())}
	}
	sc := c.Common().StaticCallee()
	if sc == nil {
		return lastStep{kind: "other", desc: "dynamic call result"}
	}
	if !core.SSAFuncInRepo(sc) {
		if o, ok := sc.Object().(*types.Func); ok && o != nil {
			if never, _ := a.naResult(o, idx); never {
				return lastStep{kind: "alloc", desc: "never-nil result of " + sc.Name()}
			}
		}
		return lastStep{kind: "other", desc: "library call result"}
	}
	if o, ok := sc.Object().(*types.Func); ok && o != nil {
		if never, _ := a.naResult(o, idx); never {
			return lastStep{kind: "alloc", desc: "never-nil result of " + sc.Name()}
		}
	}
	return lastStep{kind: "call", desc: "result of " + shortFn(sc)}
}

func (a *nilAnalyzer) naResult(f *types.Func, idx int) (bool, int) {
	defer func() { recover() }()
	return a.na.ResultNeverNil(f, idx)
}

// calleesOf returns the repo callees of a dynamic call site (cached per function).
func (a *nilAnalyzer) calleesOf(fn *ssa.Function, site ssa.CallInstruction) []*ssa.Function {
	m := a.edgeCache[fn]
	if m == nil {
		m = map[ssa.CallInstruction][]*ssa.Function{}
		if n := a.p.CallGraph().Nodes[fn]; n != nil {
			for _, e := range n.Out {
				if e.Site != nil {
					m[e.Site] = append(m[e.Site], e.Callee.Func)
				}
			}
		}
		a.edgeCache[fn] = m
	}
	return m[site]
}

// optional: does a value produced this way need a proof before it is dereferenced?
func (a *nilAnalyzer) optional(ls lastStep, ty types.Type) (bool, string) {
	switch ls.kind {
	case "field":
		if !ls.model {
			if where, ok := a.unset[ls.owner+"."+ls.field]; ok {
				return true, "field " + ls.desc + " (left unset by the literal at " + where + ")"
			}
			return false, ""
		}
		if a.raw {
			return true, "document field " + ls.desc + " (nil when absent from the input)"
		}
		if a.loaded {
			return true, "document field " + ls.desc + " (nil when absent from the input)"
		}
		if ls.field == "Value" {
			return false, "" // reference wrappers are resolved in a loaded, validated document
		}
		if _, ok := a.axioms[ls.owner+"."+ls.field]; ok {
			return false, ""
		}
		return true, "optional document field " + ls.desc
	case "range":
		if (a.raw || a.loaded) && ls.model && a.nonNilEntryType(ls.coll) {
			return false, "" // the collection's decoder stores only non-nil entries
		}
		if a.raw && ls.model {
			return true, "entry of a document collection (JSON null yields a nil entry)"
		}
		if a.loaded && ls.model && !ls.wrapper {
			return true, "entry of a document collection that the loader does not check (JSON null yields a nil entry)"
		}
	case "phi":
		if ls.phiOpt {
			return true, "a value merged from several paths, " + ls.desc
		}
	case "lookup":
		return true, "map lookup (nil when the key is absent)"
	case "call":
		return true, ls.desc + " (may be nil)"
	case "assert":
		return true, "result of a comma-ok type assertion (zero when it fails)"
	case "const-nil":
		return true, "nil"
	}
	return false, ""
}

// nilImplies: for a method with a pointer receiver returning bool, which result value implies a
// non-nil receiver (decided by evaluating the body under `receiver == nil`).
func (a *nilAnalyzer) nilImplies(fn *ssa.Function) int {
	if a.niDone[fn] {
		return a.nilImpl[fn]
	}
	a.niDone[fn] = true
	if fn.Blocks == nil || len(fn.Params) == 0 || fn.Signature.Recv() == nil {
		return 0
	}
	if _, isPtr := fn.Params[0].Type().Underlying().(*types.Pointer); !isPtr {
		return 0
	}
	res := fn.Signature.Results()
	if res.Len() != 1 {
		return 0
	}
	if b, ok := res.At(0).Type().Underlying().(*types.Basic); !ok || b.Kind() != types.Bool {
		return 0
	}
	recv := fn.Params[0]
	// walk from entry assuming recv == nil
	var results []string
	seen := map[*ssa.BasicBlock]bool{}
	okAll := true
	var walk func(b, from *ssa.BasicBlock)
	walk = func(b, from *ssa.BasicBlock) {
		if seen[b] || !okAll {
			return
		}
		seen[b] = true
		for _, in := range b.Instrs {
			switch x := in.(type) {
			case *ssa.FieldAddr:
				if x.X == ssa.Value(recv) {
					okAll = false
				}
			case *ssa.UnOp:
				if x.Op == token.MUL && x.X == ssa.Value(recv) {
					okAll = false
				}
			case *ssa.Return:
				r := x.Results[0]
				if ph, ok := r.(*ssa.Phi); ok && from != nil {
					for i, pr := range b.Preds {
						if pr == from {
							r = ph.Edges[i]
						}
					}
				}
				if c, ok := r.(*ssa.Const); ok && c.Value != nil && c.Value.Kind() == constant.Bool {
					results = append(results, c.Value.String())
				} else if call, ok := r.(*ssa.Call); ok {
					// `return types.Includes(typ)` with the same nil receiver
					if sc := call.Common().StaticCallee(); sc != nil && len(call.Common().Args) > 0 && call.Common().Args[0] == ssa.Value(recv) {
						switch a.nilImplies(sc) {
						case 1:
							results = append(results, "false")
						case -1:
							results = append(results, "true")
						default:
							okAll = false
						}
					} else {
						okAll = false
					}
				} else {
					okAll = false
				}
			case *ssa.If:
				// branch on recv ==/!= nil
				if bo, ok := x.Cond.(*ssa.BinOp); ok && (bo.Op == token.EQL || bo.Op == token.NEQ) {
					var other ssa.Value
					if bo.X == ssa.Value(recv) {
						other = bo.Y
					} else if bo.Y == ssa.Value(recv) {
						other = bo.X
					}
					if c, ok := other.(*ssa.Const); ok && c.IsNil() {
						if bo.Op == token.EQL {
							walk(b.Succs[0], b)
						} else {
							walk(b.Succs[1], b)
						}
						return
					}
				}
				walk(b.Succs[0], b)
				walk(b.Succs[1], b)
				return
			case *ssa.Jump:
				walk(b.Succs[0], b)
				return
			}
		}
	}
	walk(fn.Blocks[0], nil)
	if !okAll || len(results) == 0 {
		return 0
	}
	for _, r := range results {
		if r != results[0] {
			return 0
		}
	}
	if results[0] == "false" {
		a.nilImpl[fn] = 1
	} else {
		a.nilImpl[fn] = -1
	}
	return a.nilImpl[fn]
}

// nilOnlyWithError: in every return of fn, result j is provably non-nil or result errIdx (an error)
// is provably non-nil (decided on the syntax by core.NilAnalysis).
func (a *nilAnalyzer) nilOnlyWithError(fn *ssa.Function, j, errIdx int) (res bool) {
	top := fn
	if top.Origin() != nil {
		top = top.Origin()
	}
	o, ok := top.Object().(*types.Func)
	if !ok || o == nil {
		return false
	}
	defer func() {
		if recover() != nil {
			res = false
		}
	}()
	return a.na.NilOnlyWithError(o, j, errIdx)
}

// condFacts: facts implied by a branch condition being true (sense=true) or false.
func (a *nilAnalyzer) condFacts(c ssa.Value, sense bool, out map[string]nilFact) {
	switch x := c.(type) {
	case *ssa.UnOp:
		if x.Op == token.NOT {
			a.condFacts(x.X, !sense, out)
		}
	case *ssa.BinOp:
		if x.Op != token.EQL && x.Op != token.NEQ {
			return
		}
		// loaded document: a wrapper whose resolver rejects empty wrappers has a value when it has
		// no reference (`if x.Ref != "" {...}; use x.Value`)
		if a.loaded {
			if cc, ok := x.Y.(*ssa.Const); ok && cc.Value != nil && cc.Value.Kind() == constant.String && constant.StringVal(cc.Value) == "" {
				k, ls := a.accessKey(x.X, 0)
				if ls.kind == "field" && ls.field == "Ref" && strings.HasSuffix(k, ".Ref") && a.rejectsEmpty(ls.owner) && (x.Op == token.EQL) == sense {
					out[strings.TrimSuffix(k, ".Ref")+".Value"] = factNonNil
				}
				return
			}
		}
		var v ssa.Value
		if cc, ok := x.Y.(*ssa.Const); ok && cc.IsNil() {
			v = x.X
		} else if cc, ok := x.X.(*ssa.Const); ok && cc.IsNil() {
			v = x.Y
		} else {
			return
		}
		k, _ := a.accessKey(v, 0)
		isNil := (x.Op == token.EQL) == sense
		if isNil {
			out[k] = factNil
		} else {
			out[k] = factNonNil
		}
		// `err := x.Validate(...); err == nil`: what the callee established about x on its nil-error returns
		if call, ok := v.(*ssa.Call); ok && isNil {
			if sc := call.Common().StaticCallee(); sc != nil && len(call.Common().Args) > 0 {
				if rels := a.okImpl[sc]; len(rels) > 0 {
					base, _ := a.accessKey(call.Common().Args[0], 0)
					for _, rel := range rels {
						out[base+rel] = factNonNil
					}
				}
			}
		}
		// `v, err := f(); err == nil`: the other results of a function that returns nil only
		// together with an error are non-nil
		if ex, ok := v.(*ssa.Extract); ok && isNil {
			if call, ok := ex.Tuple.(*ssa.Call); ok {
				if sc := call.Common().StaticCallee(); sc != nil && core.SSAFuncInRepo(sc) {
					for j := 0; j < sc.Signature.Results().Len(); j++ {
						if j != ex.Index && a.nilOnlyWithError(sc, j, ex.Index) {
							out[fmt.Sprintf("call:%p/%d", call, j)] = factNonNil
						}
					}
				}
			}
		}
		// an interface built from a pointer: same key already (MakeInterface stripped)
	case *ssa.Extract:
		// ok of a comma-ok lookup / assertion
		if x.Index == 1 && sense {
			switch t := x.Tuple.(type) {
			case *ssa.Lookup:
				k, _ := a.accessKey(t, 0)
				out[strings.TrimSuffix(k, ",ok")] = factNonNil
			case *ssa.TypeAssert:
				out[fmt.Sprintf("ta:%p", t)] = factNonNil
			}
		}
	case *ssa.Call:
		sc := x.Common().StaticCallee()
		if sc == nil || len(x.Common().Args) == 0 {
			return
		}
		ni := a.nilImplies(sc)
		if (ni == 1 && sense) || (ni == -1 && !sense) {
			k, _ := a.accessKey(x.Common().Args[0], 0)
			out[k] = factNonNil
		}
		// validated-document axiom: a schema whose type is/includes "array" has items
		// (Schema.validate: "when schema type is 'array', schema 'items' must be non-null")
		if !a.raw && !a.loaded && sense && (sc.Name() == "Is" || sc.Name() == "Includes") && len(x.Common().Args) == 2 {
			if c, ok := x.Common().Args[1].(*ssa.Const); ok && c.Value != nil && c.Value.Kind() == constant.String && constant.StringVal(c.Value) == "array" {
				k, _ := a.accessKey(x.Common().Args[0], 0)
				if strings.HasSuffix(k, ".Type") {
					out[strings.TrimSuffix(k, ".Type")+".Items"] = factNonNil
				}
			}
		}
	case *ssa.Phi:
		// short-circuit results materialised as phi of constants and conditions are not refined;
		// a flag merged in lock-step with a value (`v, ok = m[k]` on several paths, `ok` false where
		// v is still nil): the flag being true means the value came from a successful lookup
		if sense {
			for _, in := range x.Block().Instrs {
				p, ok := in.(*ssa.Phi)
				if !ok {
					break
				}
				if p == x {
					continue
				}
				switch p.Type().Underlying().(type) {
				case *types.Pointer, *types.Interface, *types.Map, *types.Signature:
				default:
					continue
				}
				if pairedPhi(x, p, map[[2]*ssa.Phi]bool{}) {
					out[fmt.Sprintf("phi:%p", p)] = factNonNil
				}
			}
		}
	}
}

// pairedPhi: on every incoming edge the boolean phi b is the constant false, or b and p receive the
// ok flag and the value of one comma-ok lookup / assertion, or they receive another such pair of phis.
func pairedPhi(b, p *ssa.Phi, seen map[[2]*ssa.Phi]bool) bool {
	if b.Block() != p.Block() || len(b.Edges) != len(p.Edges) {
		return false
	}
	key := [2]*ssa.Phi{b, p}
	if seen[key] {
		return true
	}
	seen[key] = true
	for i := range b.Edges {
		eb, ep := b.Edges[i], p.Edges[i]
		if c, ok := eb.(*ssa.Const); ok && c.Value != nil && c.Value.Kind() == constant.Bool && !constant.BoolVal(c.Value) {
			continue
		}
		if xb, ok := eb.(*ssa.Extract); ok && xb.Index == 1 {
			if xp, ok := ep.(*ssa.Extract); ok && xp.Index == 0 && xp.Tuple == xb.Tuple {
				switch t := xb.Tuple.(type) {
				case *ssa.Lookup:
					if t.CommaOk {
						continue
					}
				case *ssa.TypeAssert:
					if t.CommaOk {
						continue
					}
				}
			}
			return false
		}
		if pb, ok := eb.(*ssa.Phi); ok {
			if pp, ok := ep.(*ssa.Phi); ok && pairedPhi(pb, pp, seen) {
				continue
			}
		}
		return false
	}
	return true
}

const maxNilStates = 24

type fnNil struct {
	a        *nilAnalyzer
	fn       *ssa.Function
	in       map[*ssa.BasicBlock]stateSetN
	reqs     []nilReq
	interest map[string]bool          // keys facts are kept for
	widened  map[*ssa.BasicBlock]bool // blocks collapsed to a single (intersection) state
	okImpl   map[string]bool          // see returnSummary (nil: no return seen that may yield a nil error)
}

// collectInterest: keys that are tested by some branch, or whose dereference needs a proof.
func (fa *fnNil) collectInterest() {
	a := fa.a
	fa.interest = map[string]bool{}
	addNeed := func(v ssa.Value, rel string, last *lastStep) {
		k, ls := a.accessKey(v, 0)
		if rel != "" {
			k += rel
			ls = *last
		}
		opt, _ := a.optional(ls, nil)
		root, _ := splitRoot(k)
		if opt || ls.kind == "param" || ls.kind == "phi" || ls.kind == "local" || strings.HasPrefix(root, "p:") || strings.HasPrefix(root, "f:") {
			fa.interest[k] = true
		}
	}
	for _, b := range fa.fn.Blocks {
		for _, in := range b.Instrs {
			switch x := in.(type) {
			case *ssa.If:
				t := map[string]nilFact{}
				a.condFacts(x.Cond, true, t)
				a.condFacts(x.Cond, false, t)
				for k := range t {
					fa.interest[k] = true
				}
			case *ssa.FieldAddr:
				addNeed(x.X, "", nil)
			case *ssa.UnOp:
				if x.Op == token.MUL {
					addNeed(x.X, "", nil)
				}
			case *ssa.Phi:
				fa.interest[fmt.Sprintf("phi:%p", x)] = true
				fa.interest[fmt.Sprintf("phi:%p#src", x)] = true
				for _, e := range x.Edges {
					k, _ := a.accessKey(e, 0)
					fa.interest[k] = true
				}
			case *ssa.Store:
				if al, ok := x.Addr.(*ssa.Alloc); ok {
					fa.interest[fmt.Sprintf("*%s@%p", al.Name(), al)] = true
					k, _ := a.accessKey(x.Val, 0)
					fa.interest[k] = true
				}
			case *ssa.MakeClosure:
				cf := x.Fn.(*ssa.Function)
				for _, rq := range a.reqs[cf] {
					if rq.idx < 0 && -1-rq.idx < len(x.Bindings) {
						last := rq.last
						bnd := x.Bindings[-1-rq.idx]
						if al, ok := bnd.(*ssa.Alloc); ok {
							fa.interest[fmt.Sprintf("*%s@%p", al.Name(), al)+strings.TrimPrefix(rq.rel, "*")] = true
						} else {
							addNeed(bnd, rq.rel, &last)
						}
					}
				}
			case ssa.CallInstruction:
				c := x.Common()
				if c.IsInvoke() {
					addNeed(c.Value, "", nil)
				} else if c.StaticCallee() == nil {
					addNeed(c.Value, "", nil)
				}
				var callees []*ssa.Function
				if sc := c.StaticCallee(); sc != nil {
					callees = []*ssa.Function{sc}
				} else {
					callees = a.calleesOf(fa.fn, x)
				}
				var args []ssa.Value
				if c.IsInvoke() {
					args = append(args, c.Value)
				}
				args = append(args, c.Args...)
				for _, callee := range callees {
					for _, rq := range a.reqs[callee] {
						if rq.idx >= 0 && rq.idx < len(args) {
							last := rq.last
							addNeed(args[rq.idx], rq.rel, &last)
						}
					}
				}
			}
		}
	}
	delete(fa.interest, "nil")
}

func (fa *fnNil) restrict(s nilState) nilState {
	for k := range s {
		if !fa.interest[k] {
			o := nilState{}
			for k2, v := range s {
				if fa.interest[k2] {
					o[k2] = v
				}
			}
			return o
		}
	}
	return s
}

func applyFacts(s nilState, facts map[string]nilFact) (nilState, bool) {
	for k, f := range facts {
		if k == "nil" {
			if f == factNonNil {
				return nil, false
			}
			continue
		}
		if old, ok := s[k]; ok && old != f {
			return nil, false // infeasible
		}
	}
	o := s.clone()
	for k, f := range facts {
		if k != "nil" {
			o[k] = f
		}
	}
	return o, true
}

func (a *nilAnalyzer) analyze(fn *ssa.Function) {
	fa := &fnNil{a: a, fn: fn, in: map[*ssa.BasicBlock]stateSetN{}, widened: map[*ssa.BasicBlock]bool{}}
	if len(fn.Blocks) == 0 {
		return
	}
	fa.collectInterest()
	fa.in[fn.Blocks[0]] = stateSetN{}
	fa.in[fn.Blocks[0]].add(nilState{})
	work := []*ssa.BasicBlock{fn.Blocks[0]}
	queued := map[*ssa.BasicBlock]bool{fn.Blocks[0]: true}
	iter := 0
	for len(work) > 0 && iter < 20000 {
		iter++
		b := work[0]
		work = work[1:]
		queued[b] = false
		outs := fa.flowBlock(b, false)
		for i, succ := range b.Succs {
			changed := false
			if fa.in[succ] == nil {
				fa.in[succ] = stateSetN{}
			}
			for _, s := range outs[i] {
				s2 := fa.restrict(fa.phiFacts(b, succ, s))
				if fa.widened[succ] {
					// single intersection state: facts can only be lost, so this terminates
					var old nilState
					for _, o := range fa.in[succ] {
						old = o
					}
					merged := old.clone()
					for k, v := range merged {
						if s2[k] != v {
							delete(merged, k)
						}
					}
					if len(merged) != len(old) {
						fa.in[succ] = stateSetN{}
						fa.in[succ].add(merged)
						changed = true
					}
					continue
				}
				if fa.in[succ].add(s2) {
					changed = true
					if len(fa.in[succ]) > maxNilStates {
						merged := fa.mergeAll(fa.in[succ], s2)
						fa.in[succ] = stateSetN{}
						fa.in[succ].add(merged)
						fa.widened[succ] = true
					}
				}
			}
			if changed && !queued[succ] {
				queued[succ] = true
				work = append(work, succ)
			}
		}
	}
	// reporting pass
	for _, b := range fn.Blocks {
		if fa.in[b] != nil {
			fa.flowBlock(b, true)
		}
	}
	a.reqs[fn] = fa.reqs
	if len(fa.okImpl) > 0 {
		var ks []string
		for k := range fa.okImpl {
			ks = append(ks, k)
		}
		sort.Strings(ks)
		a.okImpl[fn] = ks
	} else {
		delete(a.okImpl, fn)
	}
}

// returnSummary: for a function whose only result is an error, the access paths below parameter 0
// that are non-nil in every state in which the returned error may be nil ("Validate returned nil,
// so x.Value is there").
func (fa *fnNil) returnSummary(ret *ssa.Return, cur []nilState) {
	a := fa.a
	if len(ret.Results) != 1 || !isErrorType(ret.Results[0].Type()) || len(fa.fn.Params) == 0 || fa.fn.Parent() != nil {
		return
	}
	rk, rls := a.accessKey(ret.Results[0], 0)
	for _, s := range cur {
		if rk != "nil" && (s[rk] == factNonNil || rls.kind == "alloc") {
			continue
		}
		got := map[string]bool{}
		for k, f := range s {
			if f == factNonNil && strings.HasPrefix(k, "p:0.") && !relHasLocal(k) {
				got[strings.TrimPrefix(k, "p:0")] = true
			}
		}
		if fa.okImpl == nil {
			fa.okImpl = got
			continue
		}
		for k := range fa.okImpl {
			if !got[k] {
				delete(fa.okImpl, k)
			}
		}
	}
}

func (fa *fnNil) mergeAll(ss stateSetN, extra nilState) nilState {
	var out nilState
	first := true
	consider := func(s nilState) {
		if first {
			out = s.clone()
			first = false
			return
		}
		for k, v := range out {
			if s[k] != v {
				delete(out, k)
			}
		}
	}
	for _, s := range ss {
		consider(s)
	}
	consider(extra)
	return out
}

// phiFacts: moving along edge b->succ, give the phis of succ the facts of their incoming values.
func (fa *fnNil) phiFacts(b, succ *ssa.BasicBlock, s nilState) nilState {
	idx := -1
	for i, p := range succ.Preds {
		if p == b {
			idx = i
		}
	}
	if idx < 0 {
		return s
	}
	var o nilState
	for _, in := range succ.Instrs {
		ph, ok := in.(*ssa.Phi)
		if !ok {
			break
		}
		pk := fmt.Sprintf("phi:%p", ph)
		e := ph.Edges[idx]
		ek, ls := fa.a.accessKey(e, 0)
		var f nilFact
		if ek == "nil" {
			f = factNil
		} else if v, ok := s[ek]; ok {
			f = v
		} else if opt, _ := fa.a.optional(ls, e.Type()); !opt && ls.kind != "param" && ls.kind != "phi" && ls.kind != "other" && ls.kind != "local" {
			f = factNonNil
		} else if !opt {
			// a parameter, a dynamic call's result, another merge none of whose inputs is optional:
			// not a source of nil for the merged value (the standing assumption for such values)
			f = factNonNil
		}
		if o == nil {
			o = s.clone()
		}
		if f != 0 {
			o[pk] = f
		} else {
			delete(o, pk)
		}
		if _, isFn := ph.Type().Underlying().(*types.Signature); isFn {
			// which edge the function value came from (selects the callee per state)
			o[pk+"#src"] = nilFact(10 + idx)
		}
	}
	if o == nil {
		return s
	}
	return o
}

// flowBlock pushes the in-states of b through its instructions; returns, per successor, the states
// leaving on that edge. With report=true dereferences are checked.
func (fa *fnNil) flowBlock(b *ssa.BasicBlock, report bool) [][]nilState {
	a := fa.a
	var cur []nilState
	for _, s := range fa.in[b] {
		cur = append(cur, s)
	}
	sort.Slice(cur, func(i, j int) bool { return cur[i].key() < cur[j].key() })
	var origin *nilReq
	need := func(v ssa.Value, in ssa.Instruction, what string, rel string, relLast *lastStep) {
		k, ls := a.accessKey(v, 0)
		if rel != "" {
			k += rel
			ls = *relLast
		}
		if report {
			fa.checkKey(k, ls, in, what, cur, origin)
		}
		// after the dereference the pointer is non-nil on every continuing path
		for i := range cur {
			if !fa.interest[k] {
				break
			}
			if cur[i][k] != factNonNil {
				n := cur[i].clone()
				n[k] = factNonNil
				cur[i] = n
			}
		}
	}
	for _, in := range b.Instrs {
		switch x := in.(type) {
		case *ssa.FieldAddr:
			need(x.X, in, "field access ."+fieldNameOnly(x.X.Type(), x.Field), "", nil)
		case *ssa.UnOp:
			if x.Op == token.MUL {
				switch x.X.(type) {
				case *ssa.FieldAddr, *ssa.IndexAddr, *ssa.Alloc, *ssa.Global, *ssa.FreeVar:
				default:
					need(x.X, in, "dereference *", "", nil)
				}
			}
		case *ssa.Store:
			if fa2, ok := x.Addr.(*ssa.FieldAddr); ok {
				// p.f = v : the path p.f now has v's nil-ness
				base, _ := a.accessKey(fa2.X, 0)
				base = strings.ReplaceAll(base, ".&", ".")
				_, fname := fieldNames(fa2.X.Type(), fa2.Field)
				key := base + "." + fname
				if fa.interest[key] {
					vk, vls := a.accessKey(x.Val, 0)
					for i := range cur {
						n := cur[i].clone()
						for k := range n {
							if k == key || strings.HasPrefix(k, key+".") || strings.HasPrefix(k, key+"[") {
								delete(n, k)
							}
						}
						if vk == "nil" {
							n[key] = factNil
						} else if f, ok := n[vk]; ok {
							n[key] = f
						} else if vls.kind == "alloc" {
							n[key] = factNonNil
						}
						cur[i] = n
					}
				}
			}
			if al, ok := x.Addr.(*ssa.Alloc); ok {
				key := fmt.Sprintf("*%s@%p", al.Name(), al)
				vk, vls := a.accessKey(x.Val, 0)
				for i := range cur {
					n := cur[i].clone()
					for k := range n {
						if k == key || strings.HasPrefix(k, key+".") || strings.HasPrefix(k, key+"[") {
							delete(n, k)
						}
					}
					if vk == "nil" {
						n[key] = factNil
					} else if f, ok := n[vk]; ok {
						n[key] = f
					} else if opt, _ := a.optional(vls, x.Val.Type()); !opt && (vls.kind == "alloc" || vls.kind == "range") {
						n[key] = factNonNil
					}
					cur[i] = n
				}
			}
		case *ssa.Return:
			if report {
				fa.returnSummary(x, cur)
			}
		case ssa.CallInstruction:
			c := x.Common()
			if c.IsInvoke() {
				need(c.Value, in, "method call ."+c.Method.Name()+"() on an interface", "", nil)
			} else if c.StaticCallee() == nil {
				if _, isB := c.Value.(*ssa.Builtin); !isB {
					if _, isMC := c.Value.(*ssa.MakeClosure); !isMC {
						need(c.Value, in, "call of a function value", "", nil)
					}
				}
			}
			// requirements of the callees
			var callees []*ssa.Function
			if sc := c.StaticCallee(); sc != nil {
				callees = []*ssa.Function{sc}
			} else {
				callees = a.calleesOf(fa.fn, x)
			}
			var args []ssa.Value
			if c.IsInvoke() {
				args = append(args, c.Value)
			}
			args = append(args, c.Args...)
			var phiSel *ssa.Phi
			if ph, ok := c.Value.(*ssa.Phi); ok && !c.IsInvoke() {
				phiSel = ph
			}
			for _, callee := range callees {
				// states in which this callee is the one selected
				saved := cur
				if phiSel != nil {
					srcKey := fmt.Sprintf("phi:%p#src", phiSel)
					var sel []nilState
					for _, st := range cur {
						f, has := st[srcKey]
						if !has {
							sel = append(sel, st)
							continue
						}
						e := phiSel.Edges[int(f)-10]
						if mc, ok := e.(*ssa.MakeClosure); ok && mc.Fn == ssa.Value(callee) {
							sel = append(sel, st)
						} else if fv, ok := e.(*ssa.Function); ok && fv == callee {
							sel = append(sel, st)
						} else if _, isMC := e.(*ssa.MakeClosure); !isMC {
							if _, isF := e.(*ssa.Function); !isF {
								sel = append(sel, st) // not a literal function value: cannot discriminate
							}
						}
					}
					cur = sel
				}
				for _, rq := range a.reqs[callee] {
					if rq.idx < 0 || rq.idx >= len(args) {
						continue
					}
					arg := args[rq.idx]
					if mc, ok := c.Value.(*ssa.MakeClosure); ok && callee == mc.Fn {
						_ = mc
					}
					last := rq.last
					what := fmt.Sprintf("argument %d of %s, which dereferences it%s", rq.idx, shortFn(callee), relDesc(rq.rel))
					rqc := rq
					origin = &rqc
					if rq.rel == "" {
						need(arg, in, what, "", nil)
					} else {
						need(arg, in, what, rq.rel, &last)
					}
					origin = nil
				}
				if phiSel != nil {
					// facts learnt inside the selection are dropped; restore the full state list
					cur = saved
				}
			}
			// closures created here: requirements on captured values
			if mc, ok := in.(*ssa.MakeClosure); ok {
				_ = mc
			}
		case *ssa.MakeClosure:
			cf := x.Fn.(*ssa.Function)
			for _, rq := range a.reqs[cf] {
				if rq.idx >= 0 {
					continue
				}
				j := -1 - rq.idx
				if j >= len(x.Bindings) {
					continue
				}
				bnd := x.Bindings[j]
				last := rq.last
				what := fmt.Sprintf("value captured by %s, which dereferences it%s", shortFn(cf), relDesc(rq.rel))
				rel := rq.rel
				if al, ok := bnd.(*ssa.Alloc); ok {
					// captured variable cell: the closure's "f:j*" is this function's "*name@alloc"
					k := fmt.Sprintf("*%s@%p", al.Name(), al) + strings.TrimPrefix(rel, "*")
					if report {
						ls := last
						if rel == "*" {
							ls = lastStep{kind: "local"}
						}
						rqc := rq
						fa.checkKey(k, ls, in, what, cur, &rqc)
					}
					continue
				}
				rqc := rq
				origin = &rqc
				if rel == "" {
					need(bnd, in, what, "", nil)
				} else {
					need(bnd, in, what, rel, &last)
				}
				origin = nil
			}
		}
	}
	// successors
	outs := make([][]nilState, len(b.Succs))
	if len(b.Succs) == 2 {
		ifi := b.Instrs[len(b.Instrs)-1].(*ssa.If)
		tf, ff := map[string]nilFact{}, map[string]nilFact{}
		a.condFacts(ifi.Cond, true, tf)
		a.condFacts(ifi.Cond, false, ff)
		for _, s := range cur {
			if s2, ok := applyFacts(s, tf); ok {
				outs[0] = append(outs[0], s2)
			}
			if s2, ok := applyFacts(s, ff); ok {
				outs[1] = append(outs[1], s2)
			}
		}
	} else if len(b.Succs) == 1 {
		outs[0] = cur
	}
	return outs
}

func relDesc(rel string) string {
	if rel == "" {
		return ""
	}
	return " (its " + strings.TrimPrefix(rel, ".") + ")"
}

func fieldNameOnly(t types.Type, idx int) string {
	_, f := fieldNames(t, idx)
	return f
}

func (fa *fnNil) checkKey(k string, ls lastStep, in ssa.Instruction, what string, cur []nilState, origin *nilReq) {
	a := fa.a
	if len(cur) == 0 {
		return // unreachable
	}
	proven := true
	for _, s := range cur {
		if s[k] != factNonNil {
			proven = false
		}
	}
	opt, why := a.optional(ls, nil)
	if !opt && ls.kind != "param" {
		return
	}
	if opt && !proven && ls.kind == "field" && !ls.model && fa.discriminated(k, ls, in) {
		proven = true
	}
	if opt && !proven && ls.kind == "field" && ls.model && ls.field == "Value" && a.cs.resolvedWrappers[fa.fn] {
		proven = true // wrappers of a loaded document are resolved (scope axiom, see c20)
	}
	if opt {
		if reason := a.excused(fa.fn, ls); reason != "" {
			if origin == nil {
				a.derefs++
				a.proved++
			}
			return
		}
	}
	pos := in.Pos()
	if !pos.IsValid() {
		pos = fa.fn.Pos()
	}
	// where the violation is reported: at the original dereference
	oKey := fmt.Sprintf("nil:%s/%s", shortFn(fa.fn), prettyKey(fa.fn, k))
	oPos := a.p.Pos(pos)
	oDetail := fmt.Sprintf("%s on %s without a nil guard on this path (%s)", what, prettyKey(fa.fn, k), why)
	if origin != nil && origin.oKey != "" {
		oKey, oPos, oDetail = origin.oKey, origin.oPos, origin.oDetail
	}
	if origin == nil && opt {
		a.derefs++
		if proven {
			a.proved++
			a.provedKeys[oKey] = oPos
		}
	}
	if proven {
		return
	}
	root, rel := splitRoot(k)
	if strings.HasPrefix(root, "p:") || strings.HasPrefix(root, "f:") {
		idx := 0
		fmt.Sscanf(root[2:], "%d", &idx)
		if strings.HasPrefix(root, "f:") {
			idx = -1 - idx
		}
		dup := false
		for _, q := range fa.reqs {
			if q.idx == idx && q.rel == rel && q.oKey == oKey {
				dup = true
			}
		}
		// a requirement the callers cannot express (too deep, or through a value local to this
		// function) is decided here: not proven
		expressible := relDepth(rel) <= 4 && len(fa.reqs) < 400 && !relHasLocal(rel)
		if !dup && expressible {
			rq := nilReq{idx: idx, rel: rel, last: ls, site: in.Pos(), fn: fa.fn, via: what}
			if opt {
				rq.oKey, rq.oPos, rq.oDetail = oKey, oPos, oDetail
			}
			fa.reqs = append(fa.reqs, rq)
		}
		// the callers decide, unless nobody in scope calls this function
		if !a.isEntry(fa.fn) && (dup || expressible) {
			return
		}
		if !opt {
			return // a parameter of an entry point: API precondition
		}
	}
	if !opt {
		// the dereferenced value is not optional here, but a callee requirement with an optional
		// origin ended on a non-parameter root: fall through only when the origin is optional
		if origin == nil || origin.oKey == "" {
			return
		}
	}
	if origin != nil && origin.oKey == "" && !opt {
		return
	}
	chain := ""
	if origin != nil && origin.oKey != "" {
		chain = fmt.Sprintf("; not established at the call in %s (%s) either", shortFn(fa.fn), a.p.Pos(pos))
	}
	if old, ok := a.viol[oKey]; ok {
		_ = old
		return
	}
	a.viol[oKey] = nilViolation{key: oKey, pos: oPos, detail: oDetail + chain}
}

func (a *nilAnalyzer) isEntry(fn *ssa.Function) bool {
	for _, e := range a.cs.entries {
		if e == fn {
			return true
		}
	}
	// no caller inside the scope
	if n := a.p.CallGraph().Nodes[fn]; n != nil {
		for _, e := range n.In {
			if a.cs.reach[e.Caller.Func] {
				return false
			}
		}
	}
	return fn.Parent() == nil
}

// relDepth counts the steps of a relative access path (bracketed keys count as one step).
func relDepth(rel string) int {
	n, depth := 0, 0
	for i := 0; i < len(rel); i++ {
		switch rel[i] {
		case '[':
			if depth == 0 {
				n++
			}
			depth++
		case ']':
			if depth > 0 {
				depth--
			}
		case '.':
			if depth == 0 {
				n++
			}
		}
	}
	return n
}

// relHasLocal: the path goes through a key that names a value local to the function (a call
// result, a range variable, a phi): meaningless to callers.
func relHasLocal(rel string) bool {
	for _, m := range []string{"call:", "rng:", "phi:", "ta:", "v:", "@t", "0x"} {
		if strings.Contains(rel, m) {
			return true
		}
	}
	return false
}

func splitRoot(k string) (string, string) {
	for i := 0; i < len(k); i++ {
		if k[i] == '.' || k[i] == '[' || k[i] == '*' {
			return k[:i], k[i:]
		}
	}
	return k, ""
}

func prettyKey(fn *ssa.Function, k string) string {
	root, rel := splitRoot(k)
	idx := 0
	if strings.HasPrefix(root, "p:") {
		fmt.Sscanf(root[2:], "%d", &idx)
		if idx < len(fn.Params) {
			return cleanKey(fn.Params[idx].Name() + rel)
		}
	}
	if strings.HasPrefix(root, "f:") {
		fmt.Sscanf(root[2:], "%d", &idx)
		if idx < len(fn.FreeVars) {
			return cleanKey(fn.FreeVars[idx].Name() + rel)
		}
	}
	// strip pointer addresses
	out := k
	for {
		i := strings.Index(out, "@0x")
		if i < 0 {
			break
		}
		j := i + 3
		for j < len(out) && strings.ContainsRune("0123456789abcdef", rune(out[j])) {
			j++
		}
		out = out[:i] + out[j:]
	}
	for _, pre := range []string{"call:0x", "phi:0x", "ta:0x", "v:0x", "rng:0x"} {
		if strings.HasPrefix(out, pre) {
			return strings.TrimSuffix(pre, ":0x") + "-value"
		}
	}
	// embedded value names (keys of lookups): drop the address and the register name, which are
	// not stable across runs / unrelated edits
	return cleanKey(out)
}

func cleanKey(out string) string {
	out = addrRe.ReplaceAllString(out, "$1")
	out = regRe.ReplaceAllString(out, "")
	return out
}

var (
	addrRe = regexp.MustCompile(`(call|phi|ta|v|rng):0x[0-9a-f]+(/[0-9]+)?`)
	regRe  = regexp.MustCompile(`@t[0-9]+`)
)

// excused: frozen exceptions (symbol + producing call), each with a reason that is re-verified on
// every run; returns "" when no exception applies or its verification fails.
func (a *nilAnalyzer) excused(fn *ssa.Function, ls lastStep) string {
	if shortFn(fn) == "(*routers/gorillamux.Router).FindRoute" && ls.kind == "call" && strings.Contains(ls.desc, "(*openapi3.Paths).Value") {
		if a.gorillaRouteKeysVerified() {
			return "route.Path is a key of route.Spec.Paths: every Route the router stores is built in NewRouter with Path ranging over doc.Paths.InMatchingOrder() and Spec = doc"
		}
	}
	return ""
}

// gorillaRouteKeysVerified: in gorillamux.NewRouter every routers.Route literal takes Path from the
// range variable over doc.Paths.InMatchingOrder() and Spec from the same doc parameter.
func (a *nilAnalyzer) gorillaRouteKeysVerified() bool {
	p := a.p
	fd := p.DeclOf("routers/gorillamux", "NewRouter")
	info := p.Pkg("routers/gorillamux").TypesInfo
	ok, n := true, 0
	docObj := core.ParamObj(info, fd, "doc")
	ast.Inspect(fd.Body, func(nd ast.Node) bool {
		cl, isCL := nd.(*ast.CompositeLit)
		if !isCL {
			return true
		}
		nt := core.NamedOf(info.TypeOf(cl))
		if nt == nil || nt.Obj().Name() != "Route" {
			return true
		}
		n++
		var pathE, specE ast.Expr
		for _, el := range cl.Elts {
			if kv, isKV := el.(*ast.KeyValueExpr); isKV {
				if id, isID := kv.Key.(*ast.Ident); isID {
					switch id.Name {
					case "Path":
						pathE = kv.Value
					case "Spec":
						specE = kv.Value
					}
				}
			}
		}
		sid, _ := specE.(*ast.Ident)
		if sid == nil || info.ObjectOf(sid) != docObj {
			ok = false
		}
		pid, _ := pathE.(*ast.Ident)
		if pid == nil {
			ok = false
			return true
		}
		// pid is the value variable of `for _, path := range doc.Paths.InMatchingOrder()`
		good := false
		for _, anc := range core.PathTo(fd.Body, cl) {
			if rs, isR := anc.(*ast.RangeStmt); isR {
				if v, isV := rs.Value.(*ast.Ident); isV && info.ObjectOf(v) == info.ObjectOf(pid) {
					if c, isC := rs.X.(*ast.CallExpr); isC {
						if callee := core.CalleeOf(info, c); callee != nil && callee.Name() == "InMatchingOrder" {
							good = true
						}
					}
				}
			}
		}
		if !good {
			ok = false
		}
		return true
	})
	return ok && n > 0
}

// crashNil runs the analysis to a fixpoint over the requirement summaries and reports.
func crashNil(r *core.Report, cs *crashScope) {
	crashNilMode(r, cs, false, 35)
}

func crashNilMode(r *core.Report, cs *crashScope, raw bool, floor int) {
	crashNilPhase(r, cs, raw, false, floor, "")
}

func crashNilPhase(r *core.Report, cs *crashScope, raw, loaded bool, floor int, suffix string) {
	p := r.Prog
	r.RunRule(cs.id+".nil"+suffix, "optional-pointer dereferences: every dereference (field access, *p, method call on an interface, call of a function value) of a pointer obtained from an optional field of the document model, from a map lookup, from a comma-ok assertion or from a repo function that may return nil is preceded, on every path, by a nil test of the same access path — decided by a path-sensitive nil-ness dataflow on go/ssa with disjunctive states; a function that dereferences a parameter (or a field path below it) without a test passes the obligation to its callers (requirement summaries, fixpoint over the call graph); validated-document axioms: reference wrappers are resolved, Operation.Responses/T.Paths/T.Info are present, a schema whose type includes array has items, slice and range elements are non-nil (for C20 none of these axioms is used: nothing has been validated)", floor, func() {
		a := newNilAnalyzer(p, cs)
		a.raw = raw
		a.loaded = loaded
		maxRounds := 8
		if v := os.Getenv("KINLINT_NILROUNDS"); v != "" {
			fmt.Sscanf(v, "%d", &maxRounds)
		}
		for round := 0; round < maxRounds; round++ {
			a.round = round
			before := reqSignature(a.reqs) + okImplSignature(a.okImpl)
			a.viol = map[string]nilViolation{}
			a.provedKeys = map[string]string{}
			a.derefs, a.proved = 0, 0
			for _, fn := range cs.funcs {
				t0 := time.Now()
				a.analyze(fn)
				if d := time.Since(t0); d > 500*time.Millisecond && os.Getenv("KINLINT_DEBUG") != "" {
					fmt.Println("SLOW", shortFn(fn), d, len(fn.Blocks))
				}
			}
			if reqSignature(a.reqs)+okImplSignature(a.okImpl) == before {
				break
			}
		}
		var keys []string
		for k := range a.viol {
			keys = append(keys, k)
		}
		sort.Strings(keys)
		for _, k := range keys {
			v := a.viol[k]
			r.Bad(v.key, v.pos, v.detail)
		}
		var pk []string
		for k := range a.provedKeys {
			if _, bad := a.viol[k]; !bad {
				pk = append(pk, k)
			}
		}
		sort.Strings(pk)
		for _, k := range pk {
			r.OK(k, a.provedKeys[k], "optional pointer dereferenced only under a nil guard of the same access path on every path")
		}
		r.Extra[cs.id+"_optional_derefs"] = a.derefs
		r.Extra[cs.id+"_optional_derefs_proved"] = a.proved
		if os.Getenv("KINLINT_DEBUG") != "" {
			for fn, ks := range a.okImpl {
				fmt.Println("OKIMPL", shortFn(fn), ks)
			}
			for fn, rq := range a.reqs {
				for _, q := range rq {
					fmt.Println("REQ", shortFn(fn), q.idx, q.rel, q.last.kind)
				}
			}
		}
	})
}

func okImplSignature(m map[*ssa.Function][]string) string {
	var parts []string
	for fn, ks := range m {
		parts = append(parts, fn.String()+"="+strings.Join(ks, ","))
	}
	sort.Strings(parts)
	return "#" + strings.Join(parts, "|")
}

func reqSignature(m map[*ssa.Function][]nilReq) string {
	var parts []string
	for fn, rs := range m {
		for _, q := range rs {
			parts = append(parts, fmt.Sprintf("%s/%d/%s", fn.String(), q.idx, q.rel))
		}
	}
	sort.Strings(parts)
	return strings.Join(uniq(parts), "|")
}

// unsetByLiterals: for every struct type of the repo outside the document model, the pointer-,
// interface- and function-typed fields that some keyed composite literal of the type (in non-test
// code) leaves out: values built there carry nil in the field.
func unsetByLiterals(p *core.Prog, model map[*types.Named]bool) (map[string]string, map[string][]litInfo) {
	out := map[string]string{}
	lits := map[string][]litInfo{}
	for _, pkg := range p.Pkgs {
		if pkg.Types == nil || !core.InRepo(pkg.Types) {
			continue
		}
		for _, f := range pkg.Syntax {
			if strings.HasSuffix(p.Fset.Position(f.Pos()).Filename, "_test.go") {
				continue
			}
			ast.Inspect(f, func(n ast.Node) bool {
				cl, ok := n.(*ast.CompositeLit)
				if !ok {
					return true
				}
				named := core.NamedOf(pkg.TypesInfo.TypeOf(cl))
				if named == nil || named.Obj().Pkg() == nil || !core.InRepo(named.Obj().Pkg()) || model[named.Origin()] {
					return true
				}
				st, ok := named.Underlying().(*types.Struct)
				if !ok {
					return true
				}
				if len(cl.Elts) == 0 {
					return true // a blank value to be filled in (or a target for errors.As): not a finished value
				}
				if _, keyed := cl.Elts[0].(*ast.KeyValueExpr); !keyed {
					return true // positional: every field is given
				}
				if _, isW := core.IsRefWrapper(named.Origin()); isW {
					return true // reference wrappers carry a Ref or a Value: their own invariant
				}
				given := map[string]bool{}
				// fields assigned afterwards through the variable the literal initialises
				for _, fld := range laterAssigned(pkg.TypesInfo, f, cl) {
					given[fld] = true
				}
				consts := map[string]string{}
				for _, e := range cl.Elts {
					if kv, ok := e.(*ast.KeyValueExpr); ok {
						if id, ok := kv.Key.(*ast.Ident); ok {
							given[id.Name] = true
							if c, ok := strConst(pkg.TypesInfo, kv.Value); ok {
								consts[id.Name] = c
							}
						}
					}
				}
				lits[named.Obj().Name()] = append(lits[named.Obj().Name()], litInfo{given: given, consts: consts, pos: p.Pos(cl.Pos())})
				for i := 0; i < st.NumFields(); i++ {
					fld := st.Field(i)
					if given[fld.Name()] {
						continue
					}
					switch fld.Type().Underlying().(type) {
					case *types.Pointer, *types.Interface, *types.Signature:
					default:
						continue
					}
					k := named.Obj().Name() + "." + fld.Name()
					if w, ok := out[k]; !ok || p.Pos(cl.Pos()) < w {
						out[k] = p.Pos(cl.Pos())
					}
				}
				return true
			})
		}
	}
	return out, lits
}

// discriminated: the dereference of base.F (F left unset by some literal) happens where a test
// base.G == "c" holds, and every literal of the struct that can give G the value c also gives F.
func (fa *fnNil) discriminated(k string, ls lastStep, in ssa.Instruction) bool {
	a := fa.a
	i := strings.LastIndex(k, ".")
	if i < 0 || in.Block() == nil {
		return false
	}
	baseKey := k[:i]
	blk := in.Block()
	for _, b := range fa.fn.Blocks {
		if len(b.Instrs) == 0 || !b.Dominates(blk) || b == blk {
			continue
		}
		iff, ok := b.Instrs[len(b.Instrs)-1].(*ssa.If)
		if !ok {
			continue
		}
		bo, ok := iff.Cond.(*ssa.BinOp)
		if !ok || bo.Op != token.EQL {
			continue
		}
		x, c := bo.X, bo.Y
		if _, isC := x.(*ssa.Const); isC {
			x, c = c, x
		}
		cc, ok := c.(*ssa.Const)
		if !ok || cc.Value == nil || cc.Value.Kind() != constant.String {
			continue
		}
		t := b.Succs[0]
		if len(t.Preds) != 1 || !t.Dominates(blk) {
			continue
		}
		ld, ok := x.(*ssa.UnOp)
		if !ok || ld.Op != token.MUL {
			continue
		}
		fad, ok := ld.X.(*ssa.FieldAddr)
		if !ok {
			continue
		}
		bk, _ := a.accessKey(fad.X, 0)
		if bk != baseKey {
			continue
		}
		g := fieldNameOnly(fad.X.Type(), fad.Field)
		want := constant.StringVal(cc.Value)
		all := true
		n := 0
		for _, li := range a.lits[ls.owner] {
			v, isConst := li.consts[g]
			switch {
			case isConst && v != want:
				continue
			case !isConst && !li.given[g] && want != "":
				continue // G keeps its zero value
			}
			n++
			if !li.given[ls.field] {
				all = false
			}
		}
		if all && n > 0 {
			return true
		}
	}
	return false
}

// laterAssigned: the literal initialises a variable (x := T{...} / x := &T{...}); the names of the
// fields assigned through that variable (x.F = ...) in the same function.
func laterAssigned(info *types.Info, file *ast.File, cl *ast.CompositeLit) []string {
	path, _ := astutil.PathEnclosingInterval(file, cl.Pos(), cl.End())
	var obj types.Object
	var body ast.Node
	for i, n := range path {
		if as, ok := n.(*ast.AssignStmt); ok && obj == nil && len(as.Lhs) == len(as.Rhs) {
			for j, r := range as.Rhs {
				e := ast.Unparen(r)
				if u, ok := e.(*ast.UnaryExpr); ok && u.Op == token.AND {
					e = ast.Unparen(u.X)
				}
				if e == ast.Expr(cl) {
					if id, ok := as.Lhs[j].(*ast.Ident); ok {
						obj = info.ObjectOf(id)
					}
				}
			}
		}
		switch fn := n.(type) {
		case *ast.FuncDecl:
			body = fn.Body
		case *ast.FuncLit:
			if body == nil {
				body = fn.Body
			}
		}
		_ = i
	}
	if obj == nil || body == nil {
		return nil
	}
	var out []string
	ast.Inspect(body, func(n ast.Node) bool {
		as, ok := n.(*ast.AssignStmt)
		if !ok {
			return true
		}
		for _, l := range as.Lhs {
			if sel, ok := ast.Unparen(l).(*ast.SelectorExpr); ok {
				if id, ok := ast.Unparen(sel.X).(*ast.Ident); ok && info.ObjectOf(id) == obj {
					out = append(out, sel.Sel.Name)
				}
			}
		}
		return true
	})
	return out
}
