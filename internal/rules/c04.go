package rules

import (
	"fmt"
	"go/ast"
	"go/token"
	"go/types"
	"os"
	"sort"
	"strings"

	"verif/internal/core"
)

func init() { register("C04", c04) }

func c04(r *core.Report) {
	r.Assumption("claim: structural necessary conditions of 'each violation is rejected wherever it sits': the hand-written descent reaches every field that has a validator, no validator's error is dropped, each option guards exactly the check it names, duplicate detectors store the key they probe; that each rule's predicate is the specification's, and acceptance of all conforming documents, are not decided")
	c04Descent(r)
	c04Err(r)
	c04Opt(r)
	c04Dedupe(r)
	c04OptState(r)
	c04LoopState(r)
	c04Shortcut(r)
	c04EveryItem(r)
	c04ValueOptions(r)
	c04ExternalValue(r)
	c04Anchors(r)
	c04IdentFail(r)
	c04DecodeVerbatim(r)
	c04ShadowedCase(r)
}

// c04Anchors: two checks whose mechanism is part of what they check.
func c04Anchors(r *core.Report) {
	p := r.Prog
	info := p.Pkg("openapi3").TypesInfo
	r.RunRule("C04.anchors", "two rules are enforced against everything, not against a neighbour or a count: (paths) Paths.Validate detects conflicting templates with a map from the normalised template to the path that claimed it, probed and stored for every path (comparing each template with the previous one of a sorted list misses conflicts that a third path sorts between); (server) Server.Validate looks every declared variable up in the URL by its own name (a count of placeholders against the number of declared variables is satisfied by a variable used twice and another never used)", 2, func() {
		pd := p.DeclOf("openapi3", "Paths.Validate")
		probed, stored := false, false
		ast.Inspect(pd.Body, func(nd ast.Node) bool {
			switch x := nd.(type) {
			case *ast.AssignStmt:
				// v, ok := m[k]  /  m[k] = v   on a local map[string]string
				for _, e := range append(append([]ast.Expr{}, x.Lhs...), x.Rhs...) {
					ix, ok := ast.Unparen(e).(*ast.IndexExpr)
					if !ok {
						continue
					}
					mt, ok := info.TypeOf(ix.X).Underlying().(*types.Map)
					if !ok {
						continue
					}
					if b, isB := mt.Key().Underlying().(*types.Basic); !isB || b.Kind() != types.String {
						continue
					}
					if b, isB := mt.Elem().Underlying().(*types.Basic); !isB || b.Kind() != types.String {
						continue
					}
					for _, l := range x.Lhs {
						if l == e {
							stored = true
						}
					}
					for _, rr := range x.Rhs {
						if rr == e {
							probed = true
						}
					}
				}
			}
			return true
		})
		r.Check(probed && stored, "anchors:Paths.Validate/templates", p.Pos(pd.Pos()), "a map of normalised templates is probed and stored", "Paths.Validate no longer keeps a map from normalised template to path: conflicting templates (`/shops/{a}/items` and `/shops/{c}/items`) are only found when nothing sorts between them")
		sd := p.DeclOf("openapi3", "Server.Validate")
		byName := false
		ast.Inspect(sd.Body, func(nd ast.Node) bool {
			rs, ok := nd.(*ast.RangeStmt)
			if !ok {
				return true
			}
			// the loop variable (a variable name) is used in a strings.Contains on the URL that leads to an error return
			var loopVars []types.Object
			for _, e := range []ast.Expr{rs.Key, rs.Value} {
				if id, ok := e.(*ast.Ident); ok && id.Name != "_" {
					loopVars = append(loopVars, info.ObjectOf(id))
				}
			}
			ast.Inspect(rs.Body, func(m ast.Node) bool {
				ifs, ok := m.(*ast.IfStmt)
				if !ok || !core.Terminates(info, ifs.Body.List) {
					return true
				}
				usesVar, usesURL, contains := false, false, false
				ast.Inspect(ifs.Cond, func(k ast.Node) bool {
					switch y := k.(type) {
					case *ast.Ident:
						for _, o := range loopVars {
							if info.ObjectOf(y) == o {
								usesVar = true
							}
						}
					case *ast.SelectorExpr:
						if y.Sel.Name == "URL" {
							usesURL = true
						}
					case *ast.CallExpr:
						if f := core.CalleeOf(info, y); f != nil && f.Pkg() != nil && f.Pkg().Path() == "strings" && (f.Name() == "Contains" || f.Name() == "Index") {
							contains = true
						}
					}
					return true
				})
				if usesVar && usesURL && contains {
					byName = true
				}
				return true
			})
			return true
		})
		r.Check(byName, "anchors:Server.Validate/variables", p.Pos(sd.Pos()), "each declared variable is searched in the URL by name", "Server.Validate no longer looks each declared variable up in the URL: a server that declares a variable its URL never uses is accepted when the counts happen to agree (`https://{region}.example.com/{region}/api` with `region` and `version` declared)")
	})
}

// c04ExternalValue: an example whose value lives elsewhere has no value here.
func c04ExternalValue(r *core.Report) {
	p := r.Prog
	info := p.Pkg("openapi3").TypesInfo
	r.RunRule("C04.externalvalue", "an absent value is not held against the schema: every call validateExampleValue(ctx, e.Value, ...) on the Value field of an Example object is reached only when that example's ExternalValue is empty (Example.Validate accepts exactly one of value / externalValue, so a conforming example given by externalValue has a nil Value, which any non-nullable schema rejects)", 3, func() {
		exT := p.NamedType("openapi3", "Example")
		n := 0
		for _, d := range validateFamily(p) {
			if d.Body == nil {
				continue
			}
			perFn := 0
			for _, c := range callsTo(info, d.Body, "validateExampleValue") {
				if len(c.Args) < 2 {
					continue
				}
				sel, ok := ast.Unparen(c.Args[1]).(*ast.SelectorExpr)
				if !ok || sel.Sel.Name != "Value" || core.NamedOf(info.TypeOf(sel.X)) != exT {
					continue
				}
				n++
				perFn++
				key := fmt.Sprintf("externalvalue:%s#%d", core.FuncName(d), perFn)
				good := false
				for _, a := range core.Atoms(core.GuardsAt(info, d.Body, c)) {
					be, ok := ast.Unparen(a.Expr).(*ast.BinaryExpr)
					if !ok {
						continue
					}
					if f := core.FieldSel(info, be.X); f != nil && f.Name() == "ExternalValue" {
						if s, isStr := core.ConstStr(info, be.Y); isStr && s == "" && ((be.Op == token.EQL && a.Pos) || (be.Op == token.NEQ && !a.Pos)) {
							good = true
						}
					}
					if core.ExprStr(be.X) == core.ExprStr(c.Args[1]) && core.IsNil(info, be.Y) && ((be.Op == token.NEQ && a.Pos) || (be.Op == token.EQL && !a.Pos)) {
						good = true
					}
				}
				r.Check(good, key, p.Pos(c.Pos()), "reached only for an example with a value of its own", core.FuncName(d)+" holds the Value of every example object against the schema, also of one given by externalValue, whose Value is nil: a conforming document with such an example is rejected (`Value is not nullable`)")
			}
		}
		if n == 0 {
			core.Fail("no validateExampleValue call on an Example's Value")
		}
	})
}

// c04EveryItem: a loop that validates the items of a collection validates every item.
func c04EveryItem(r *core.Report) {
	p := r.Prog
	info := p.Pkg("openapi3").TypesInfo
	r.RunRule("C04.everyitem", "no item of a collection is passed over: in the Validate methods and validate* helpers of package openapi3, inside a loop that calls a validator on its items, a `continue` that comes before the (last) validator call is reached only under a nil test of something (`x == nil`: there is nothing to validate) or, for the externalValue example, under the test that the value lives elsewhere — a `continue` that depends on what the item says (its reference text, its name) leaves that item's own rules unenforced", 25, func() {
		n := 0
		for _, d := range validateFamily(p) {
			if d.Body == nil {
				continue
			}
			perFn := 0
			ast.Inspect(d.Body, func(nd ast.Node) bool {
				var body *ast.BlockStmt
				switch x := nd.(type) {
				case *ast.RangeStmt:
					body = x.Body
				case *ast.ForStmt:
					body = x.Body
				default:
					return true
				}
				// validator calls directly in this loop (not in a nested loop's own accounting: nested
				// loops are visited separately, but their calls count for the outer loop as well)
				lastCall := token.NoPos
				ast.Inspect(body, func(m ast.Node) bool {
					if _, isLit := m.(*ast.FuncLit); isLit {
						return false
					}
					if c, ok := m.(*ast.CallExpr); ok && isValidatorCallee(core.CalleeOf(info, c)) && c.Pos() > lastCall {
						lastCall = c.Pos()
					}
					return true
				})
				if lastCall == token.NoPos {
					return true
				}
				n++
				perFn++
				key := fmt.Sprintf("everyitem:%s#%d", core.FuncName(d), perFn)
				bad := ""
				var walk func(m ast.Node, inner bool)
				walk = func(m ast.Node, inner bool) {
					ast.Inspect(m, func(k ast.Node) bool {
						switch x := k.(type) {
						case *ast.FuncLit:
							return false
						case *ast.RangeStmt, *ast.ForStmt:
							if k != nd {
								return false // a continue in there targets the nested loop
							}
						case *ast.BranchStmt:
							if x.Tok != token.CONTINUE || x.Label != nil || x.Pos() > lastCall {
								return true
							}
							okGuard := false
							for _, a := range core.Atoms(core.GuardsAt(info, body, x)) {
								switch e := ast.Unparen(a.Expr).(type) {
								case *ast.BinaryExpr:
									if core.IsNil(info, e.Y) && ((e.Op == token.EQL && a.Pos) || (e.Op == token.NEQ && !a.Pos)) {
										okGuard = true
									}
									if f := core.FieldSel(info, e.X); f != nil && f.Name() == "ExternalValue" && ((e.Op == token.NEQ && a.Pos) || (e.Op == token.EQL && !a.Pos)) {
										okGuard = true
									}
								}
							}
							if !okGuard && bad == "" {
								var conds []string
								for _, a := range core.Atoms(core.GuardsAt(info, body, x)) {
									conds = append(conds, core.ExprStr(a.Expr))
								}
								bad = fmt.Sprintf("`continue` at %s under %v", p.Pos(x.Pos()), conds)
							}
						}
						return true
					})
				}
				walk(body, false)
				r.Check(bad == "", key, p.Pos(nd.Pos()), "every item reaches the validator", core.FuncName(d)+" skips items of the collection it validates: "+bad+" comes before the validator call of the loop, so the rules below the skipped items (and on the item itself) are not enforced for them")
				return true
			})
		}
		if n == 0 {
			core.Fail("no validating loop found")
		}
	})
}

// c04ValueOptions: a value held against its schema during document validation (a default, an
// example) is checked under the document validation's options.
func c04ValueOptions(r *core.Report) {
	p := r.Prog
	info := p.Pkg("openapi3").TypesInfo
	r.RunRule("C04.valueoptions", "the options of the validation reach the checks of values: every call of Schema.VisitJSON made by a Validate method or validate* helper of package openapi3 passes options that come from patternOptions(ctx) (which turns DisableSchemaPatternValidation and the regex compiler of the validation into schema-visit options) — a bare VisitJSON(v) compiles and applies patterns although the caller switched that off, so the option does not switch off the check it names", 2, func() {
		var po *ast.FuncDecl
		for _, d := range p.AllDecls("openapi3") {
			if d.Recv == nil && d.Name.Name == "patternOptions" && d.Body != nil {
				po = d
			}
		}
		usesBoth := 0
		if po == nil {
			po = &ast.FuncDecl{Body: &ast.BlockStmt{}}
		}
		ast.Inspect(po.Body, func(nd ast.Node) bool {
			if sel, ok := nd.(*ast.SelectorExpr); ok {
				if f := core.FieldSel(info, sel); f != nil && (f.Name() == "schemaPatternValidationDisabled" || f.Name() == "regexCompilerFunc") {
					usesBoth++
				}
			}
			return true
		})
		r.Check(usesBoth >= 3, "valueoptions:patternOptions", "openapi3/example_validation.go", "patternOptions reads both pattern options", "there is no patternOptions function that reads schemaPatternValidationDisabled and regexCompilerFunc")
		n := 0
		for _, d := range validateFamily(p) {
			if d.Body == nil {
				continue
			}
			ff := core.NewFuncFacts(p, info, d)
			perFn := 0
			ast.Inspect(d.Body, func(nd ast.Node) bool {
				c, ok := nd.(*ast.CallExpr)
				if !ok {
					return true
				}
				f := core.CalleeOf(info, c)
				if f == nil || f.Name() != "VisitJSON" || !core.InRepo(f.Pkg()) {
					return true
				}
				n++
				perFn++
				key := fmt.Sprintf("valueoptions:%s#%d", core.FuncName(d), perFn)
				good := false
				for _, a := range c.Args[1:] {
					for fn := range ff.Roots(a, false).Funcs {
						if fn.Name() == "patternOptions" {
							good = true
						}
					}
					ast.Inspect(a, func(k ast.Node) bool {
						if cc, ok := k.(*ast.CallExpr); ok {
							if g := core.CalleeOf(info, cc); g != nil && g.Name() == "patternOptions" {
								good = true
							}
						}
						return true
					})
				}
				r.Check(good, key, p.Pos(c.Pos()), "options derived from patternOptions(ctx)", core.FuncName(d)+" checks a value against its schema without the pattern options of the validation: DisableSchemaPatternValidation (and the regex compiler given to Validate) have no effect on this check, and a document whose pattern the default engine cannot compile is rejected although pattern validation was switched off")
				return true
			})
		}
		if n < 2 {
			core.Fail("only %d VisitJSON calls in the validate family", n)
		}
	})
}

// validatorOf: the Validate method reachable on values of type t (through pointers; a named
// collection with its own Validate counts as is; an unnamed collection counts through its elements).
func validatorOf(t types.Type, depth int) *types.Func {
	if depth > 4 {
		return nil
	}
	switch x := types.Unalias(t).(type) {
	case *types.Pointer:
		return validatorOf(x.Elem(), depth+1)
	case *types.Named:
		if x.Obj().Pkg() == nil || !core.InRepo(x.Obj().Pkg()) {
			return nil
		}
		for _, name := range []string{"Validate"} {
			if m := core.HasMethod(x, name); m != nil {
				sig := m.Type().(*types.Signature)
				if sig.Results().Len() == 1 && isErrorType(sig.Results().At(0).Type()) && sig.Params().Len() >= 1 {
					return m
				}
			}
		}
		switch u := x.Underlying().(type) {
		case *types.Slice:
			return validatorOf(u.Elem(), depth+1)
		case *types.Map:
			return validatorOf(u.Elem(), depth+1)
		}
	case *types.Slice:
		return validatorOf(x.Elem(), depth+1)
	case *types.Map:
		return validatorOf(x.Elem(), depth+1)
	}
	return nil
}

// bodySet: the declaration of S's Validate and of the same-receiver methods it calls on the
// receiver itself (schema.Validate -> schema.validate), two levels.
func validateBodies(p *core.Prog, info *types.Info, fd *ast.FuncDecl) []*ast.FuncDecl {
	out := []*ast.FuncDecl{fd}
	seen := map[*ast.FuncDecl]bool{fd: true}
	recv := recvObj(info, fd)
	var add func(fd *ast.FuncDecl, recv types.Object, depth int)
	add = func(fd *ast.FuncDecl, recv types.Object, depth int) {
		if depth > 2 || recv == nil {
			return
		}
		ast.Inspect(fd.Body, func(n ast.Node) bool {
			c, ok := n.(*ast.CallExpr)
			if !ok {
				return true
			}
			sel, ok := c.Fun.(*ast.SelectorExpr)
			if !ok {
				return true
			}
			id, ok := ast.Unparen(sel.X).(*ast.Ident)
			if !ok || info.ObjectOf(id) != recv {
				return true
			}
			callee := core.CalleeOf(info, c)
			if callee == nil || !core.InRepo(callee.Pkg()) {
				return true
			}
			hd := p.Decl(callee)
			if hd == nil || hd.Body == nil || seen[hd] {
				return true
			}
			// only helpers that belong to validation (name mentions validate)
			if !strings.Contains(strings.ToLower(callee.Name()), "validate") {
				return true
			}
			seen[hd] = true
			out = append(out, hd)
			add(hd, recvObj(info, hd), depth+1)
			return true
		})
	}
	add(fd, recv, 0)
	return out
}

// c04Descent: validation reaches every field that has a validator.
func c04Descent(r *core.Report) {
	p := r.Prog
	r.RunRule("C04.descent", "the descent reaches every validatable field: for each document-model struct S of package openapi3 that has a Validate method and each field f of S (fields of embedded model structs included) whose type, or element type, has a Validate(ctx, ...) error method, S.Validate (or a validate* method it calls on its receiver) calls Validate/validate on a value read from f; and every S with an Extensions field hands it to validateExtensions. A field that is skipped is a place where every rule enforced below it is not enforced", 100, func() {
		pk := p.Pkg("openapi3")
		info := pk.TypesInfo
		model := p.ModelTypes("openapi3", "T")
		for _, s := range model {
			st, ok := s.Underlying().(*types.Struct)
			if !ok {
				continue
			}
			vm := core.HasMethod(s, "Validate")
			if vm == nil {
				continue
			}
			fd := p.Decl(vm)
			if fd == nil || fd.Body == nil {
				continue
			}
			bodies := validateBodies(p, info, fd)
			// what is validated: field names at the root of chains of receivers of Validate/validate calls,
			// of arguments of helper functions named validate*, and arguments of validateExtensions
			validated := map[string]bool{}
			uncond := map[string]bool{}    // some validating call is reached whatever unrelated fields hold
			condWhy := map[string]string{} // otherwise: the unrelated condition
			extOK := false
			seenBody, seenElse := map[branchKey]bool{}, map[branchKey]bool{}
			for _, b := range bodies {
				ff := core.NewFuncFacts(p, info, b)
				recv := recvObj(info, b)
				var curCall ast.Node
				mark := func(e ast.Expr) {
					for _, ch := range fieldChains(ff, info, e) {
						// first field after the receiver root
						rooted := false
						for _, step := range ch {
							if strings.HasPrefix(step, "<") {
								if recv != nil && step == "<"+recv.Name()+">" {
									rooted = true
								}
								continue
							}
							if rooted {
								var names []string
								if strings.HasSuffix(step, "()") {
									// accessor method of the receiver: the fields it reads
									names = append(names, accessorFields(p, info, recv, strings.TrimSuffix(step, "()"))...)
								}
								names = append(names, strings.TrimSuffix(step, "()"))
								why, ifs, inBody := unrelatedCondition(info, ff, b, curCall, recv, names)
								if os.Getenv("KINLINT_DEBUG") != "" && s.Obj().Name() == "Schema" {
									fmt.Println("DESC", names, "why=", why, p.Pos(curCall.Pos()))
								}
								for _, fn := range names {
									validated[fn] = true
									if why == "" {
										uncond[fn] = true
									} else {
										if condWhy[fn] == "" {
											condWhy[fn] = why
										}
										if ifs != nil {
											// validated in both branches of the same `if`: covered whatever the condition
											bk := branchKey{fn, ifs}
											if inBody {
												seenBody[bk] = true
											} else {
												seenElse[bk] = true
											}
											if seenBody[bk] && seenElse[bk] {
												if w, _, _ := unrelatedCondition(info, ff, b, ifs, recv, names); w == "" {
													uncond[fn] = true
												}
											}
										}
									}
								}
							}
							break
						}
					}
				}
				ast.Inspect(b.Body, func(n ast.Node) bool {
					c, ok := n.(*ast.CallExpr)
					if !ok {
						return true
					}
					callee := core.CalleeOf(info, c)
					if callee == nil {
						return true
					}
					curCall = c
					lname := strings.ToLower(callee.Name())
					if sel, ok := c.Fun.(*ast.SelectorExpr); ok && (callee.Name() == "Validate" || callee.Name() == "validate") {
						if _, isPkg := info.Uses[identOf(sel.X)].(*types.PkgName); !isPkg {
							mark(sel.X)
						}
					}
					if callee.Name() == "validateExtensions" && len(c.Args) >= 2 {
						for _, ch := range fieldChains(ff, info, c.Args[1]) {
							for _, step := range ch {
								if step == "Extensions" {
									extOK = true
								}
							}
						}
					}
					if strings.HasPrefix(lname, "validate") && callee.Name() != "validateExtensions" && core.InRepo(callee.Pkg()) && callee.Type().(*types.Signature).Recv() == nil {
						for _, a := range c.Args {
							mark(a)
						}
					}
					return true
				})
			}
			// obligations
			var walkFields func(st *types.Struct, embeddedIn string)
			walkFields = func(st *types.Struct, embeddedIn string) {
				for i := 0; i < st.NumFields(); i++ {
					f := st.Field(i)
					if f.Embedded() {
						if en := core.NamedOf(f.Type()); en != nil && en.Obj().Pkg() == pk.Types {
							if est, ok := en.Underlying().(*types.Struct); ok {
								walkFields(est, en.Obj().Name())
							}
						}
						continue
					}
					if f.Name() == "Extensions" {
						if embeddedIn != "" && hasDirectField(s, "Extensions") {
							continue
						}
						if _, isW := core.IsRefWrapper(s); isW {
							continue // wrappers check their sibling fields themselves (C04 refs mechanism)
						}
						key := "ext:" + s.Obj().Name()
						r.Check(extOK, key, p.Pos(fd.Pos()), "Extensions handed to validateExtensions", s.Obj().Name()+".Validate never hands Extensions to validateExtensions: a non-extension extra field at this object is not rejected here although it is at its siblings")
						continue
					}
					vf := validatorOf(f.Type(), 0)
					if vf == nil {
						continue
					}
					key := fmt.Sprintf("descent:%s.%s", s.Obj().Name(), f.Name())
					if validatorEnforcesNothing(p, info, vf, 0) {
						r.Trivial(key, p.Pos(fd.Pos()), "the field's validator enforces no rule (it can only return nil)")
						continue
					}
					if validated[f.Name()] && !uncond[f.Name()] {
						r.Bad(key, p.Pos(fd.Pos()), fmt.Sprintf("%s.Validate validates field %s only under a condition on something else (%s): when that condition does not hold a violation located below this field is not rejected", s.Obj().Name(), f.Name(), condWhy[f.Name()]))
					} else if validated[f.Name()] {
						r.OK(key, p.Pos(fd.Pos()), "validated")
					} else {
						r.Bad(key, p.Pos(fd.Pos()), fmt.Sprintf("%s.Validate never validates field %s (%s has a Validate method): a violation located below this field is not rejected", s.Obj().Name(), f.Name(), types.TypeString(f.Type(), func(*types.Package) string { return "" })))
					}
				}
			}
			walkFields(st, "")
		}
	})
}

// accessorFields: the fields of the receiver that method `name` of the receiver's type reads.
func accessorFields(p *core.Prog, info *types.Info, recv types.Object, name string) []string {
	if recv == nil {
		return nil
	}
	n := core.NamedOf(recv.Type())
	if n == nil {
		return nil
	}
	m := core.HasMethod(n, name)
	if m == nil {
		return nil
	}
	fd := p.Decl(m)
	if fd == nil || fd.Body == nil {
		return nil
	}
	mr := recvObj(info, fd)
	var out []string
	ast.Inspect(fd.Body, func(nd ast.Node) bool {
		sel, ok := nd.(*ast.SelectorExpr)
		if !ok {
			return true
		}
		if id, ok := ast.Unparen(sel.X).(*ast.Ident); ok && info.ObjectOf(id) == mr {
			if f := core.FieldSel(info, sel); f != nil {
				out = append(out, f.Name())
			}
		}
		return true
	})
	return out
}

// unrelatedCondition: the call sits inside an if/switch/for of its function whose condition does not
// concern the validated fields (nor a validation option): returns that condition, "" when the call is
// reached whatever the other fields of the object hold. Conditions of preceding early returns are
// earlier checks of the same validator and do not count.
func unrelatedCondition(info *types.Info, ff *core.FuncFacts, fd *ast.FuncDecl, call ast.Node, recv types.Object, fields []string) (string, *ast.IfStmt, bool) {
	if call == nil {
		return "", nil, false
	}
	path := core.PathTo(fd.Body, call)
	concerns := func(e ast.Expr) bool {
		if e == nil {
			return true
		}
		rs := ff.Roots(e, false)
		for _, f := range fields {
			if rs.HasFieldNamed(f) {
				return true
			}
		}
		// option flags and plain error tests
		s := core.ExprStr(e)
		if strings.Contains(s, "ValidationDisabled") || strings.Contains(s, "ValidationEnabled") {
			return true
		}
		// a condition that reads nothing of the receiver (err != nil, ok, len(local))
		mentionsRecv := false
		for f := range rs.Fields {
			_ = f
			mentionsRecv = true
		}
		return !mentionsRecv
	}
	for i := 0; i < len(path)-1; i++ {
		switch x := path[i].(type) {
		case *ast.IfStmt:
			// the call is in the body or else of this if (not in its init/cond)
			if path[i+1] == ast.Node(x.Body) {
				// every conjunct must concern the validated field
				for _, a := range core.Atoms([]core.Guard{{Cond: x.Cond, Pos: true}}) {
					if !concerns(a.Expr) {
						return core.ExprStr(a.Expr), x, true
					}
				}
			} else if x.Else != nil && path[i+1] == ast.Node(x.Else) {
				if !concerns(x.Cond) {
					return core.ExprStr(x.Cond), x, false
				}
			}
		case *ast.CaseClause:
			// find the switch
			if i >= 2 {
				if sw, ok := path[i-2].(*ast.SwitchStmt); ok {
					for _, e := range x.List {
						if sw.Tag != nil {
							if !concerns(sw.Tag) {
								return "switch " + core.ExprStr(sw.Tag) + " case " + core.ExprStr(e), nil, false
							}
						} else if !concerns(e) {
							return "case " + core.ExprStr(e), nil, false
						}
					}
				}
			}
		}
	}
	return "", nil, false
}

type branchKey struct {
	field string
	ifs   *ast.IfStmt
}

func hasDirectField(s *types.Named, name string) bool {
	st, ok := s.Underlying().(*types.Struct)
	if !ok {
		return false
	}
	for i := 0; i < st.NumFields(); i++ {
		if !st.Field(i).Embedded() && st.Field(i).Name() == name {
			return true
		}
	}
	return false
}

// validatorEnforcesNothing: every return of the validator yields nil or the verdict of a validator
// that itself enforces nothing.
func validatorEnforcesNothing(p *core.Prog, info *types.Info, m *types.Func, depth int) bool {
	if depth > 3 {
		return false
	}
	fd := p.Decl(m)
	if fd == nil || fd.Body == nil {
		return false
	}
	ok := true
	n := 0
	var nested []*types.Func
	ast.Inspect(fd.Body, func(nd ast.Node) bool {
		switch x := nd.(type) {
		case *ast.FuncLit:
			return false
		case *ast.CallExpr:
			if callee := core.CalleeOf(info, x); callee != nil && isValidatorCallee(callee) {
				nested = append(nested, callee)
			}
			if callee := core.CalleeOf(info, x); callee != nil && callee.Pkg() != nil && (callee.Pkg().Path() == "fmt" && callee.Name() == "Errorf" || callee.Pkg().Path() == "errors") {
				ok = false
			}
		case *ast.ReturnStmt:
			n++
		}
		return true
	})
	if !ok || n == 0 {
		return false
	}
	for _, c := range nested {
		if c == m || !validatorEnforcesNothing(p, info, c, depth+1) {
			return false
		}
	}
	return true
}

func identOf(e ast.Expr) *ast.Ident {
	id, _ := ast.Unparen(e).(*ast.Ident)
	return id
}

// isValidatorName: functions whose error result is a validation verdict.
func isValidatorCallee(f *types.Func) bool {
	if f == nil || f.Pkg() == nil || !core.InRepo(f.Pkg()) {
		return false
	}
	sig, ok := f.Type().(*types.Signature)
	if !ok || sig.Results().Len() == 0 || !isErrorType(sig.Results().At(sig.Results().Len()-1).Type()) {
		return false
	}
	n := f.Name()
	return n == "Validate" || n == "VisitJSON" || n == "ValidateIdentifier" || strings.HasPrefix(n, "validate") || n == "compilePattern"
}

// validateFamily: declarations of package openapi3 that take part in document validation: the
// Validate methods and the validate* helpers.
func validateFamily(p *core.Prog) []*ast.FuncDecl {
	var out []*ast.FuncDecl
	for _, d := range p.AllDecls("openapi3") {
		n := d.Name.Name
		if n == "Validate" || strings.HasPrefix(n, "validate") {
			out = append(out, d)
		}
	}
	return out
}

// c04Err: no validation error is dropped.
func c04Err(r *core.Report) {
	p := r.Prog
	info := p.Pkg("openapi3").TypesInfo
	r.RunRule("C04.err", "no validation error is dropped: in every Validate method and validate* helper of package openapi3, the error result of each call of a validator (Validate, validate*, VisitJSON, ValidateIdentifier, compilePattern) is returned directly, or bound to a variable whose `!= nil` branch returns a value built from it (the variable itself, or a wrapper that takes it as an argument); a branch that returns nil or an unrelated error on a failed nested validation makes the violation disappear", 110, func() {
		perFn := map[string]int{}
		for _, d := range validateFamily(p) {
			fn := core.FuncName(d)
			ast.Inspect(d.Body, func(n ast.Node) bool {
				c, ok := n.(*ast.CallExpr)
				if !ok {
					return true
				}
				callee := core.CalleeOf(info, c)
				if !isValidatorCallee(callee) {
					return true
				}
				sig := callee.Type().(*types.Signature)
				k := sig.Results().Len() - 1
				recvName := ""
				if rv := sig.Recv(); rv != nil {
					if nn := core.NamedOf(rv.Type()); nn != nil {
						recvName = nn.Obj().Name() + "."
					}
				}
				perFn[fn+"/"+recvName+callee.Name()]++
				key := fmt.Sprintf("err:%s->%s%s#%d", fn, recvName, callee.Name(), perFn[fn+"/"+recvName+callee.Name()])
				okH, why := validationErrHandled(info, d, c, k)
				if okH {
					r.OK(key, p.Pos(c.Pos()), why)
				} else {
					r.Bad(key, p.Pos(c.Pos()), why)
				}
				return true
			})
		}
	})
}

// validationErrHandled: how the error result (index k) of call c inside d is treated.
func validationErrHandled(info *types.Info, d *ast.FuncDecl, c *ast.CallExpr, k int) (bool, string) {
	path := core.PathTo(d.Body, c)
	var stmt ast.Stmt
	si := -1
	for i := len(path) - 1; i >= 0; i-- {
		if s, ok := path[i].(ast.Stmt); ok {
			stmt, si = s, i
			break
		}
	}
	switch s := stmt.(type) {
	case *ast.ReturnStmt:
		return true, "returned directly"
	case *ast.ExprStmt:
		return false, "the validator's verdict is ignored (call used as a statement)"
	case *ast.AssignStmt:
		if len(s.Rhs) != 1 || ast.Unparen(s.Rhs[0]) != ast.Expr(c) || k >= len(s.Lhs) {
			return false, "the validator's verdict is not bound to a variable"
		}
		id, ok := s.Lhs[k].(*ast.Ident)
		if !ok {
			return false, "the validator's verdict is stored somewhere it is not tested"
		}
		if id.Name == "_" {
			return false, "the validator's verdict is discarded (`_`)"
		}
		obj := info.ObjectOf(id)
		// the test: the if statement this assignment initialises, or the next statement
		var test *ast.IfStmt
		if si > 0 {
			if ifs, ok := path[si-1].(*ast.IfStmt); ok && ifs.Init == ast.Stmt(s) {
				test = ifs
			}
		}
		if test == nil {
			list, idx := listOf(d.Body, s)
			if idx >= 0 && idx+1 < len(list) {
				if ifs, ok := list[idx+1].(*ast.IfStmt); ok {
					test = ifs
				}
			}
		}
		if test == nil {
			// named result returned by a bare return, or returned later
			if isNamedResultObj(d, info, obj) {
				return true, "assigned to the named error result"
			}
			returned := false
			ast.Inspect(d.Body, func(n ast.Node) bool {
				if ret, ok := n.(*ast.ReturnStmt); ok && ret.Pos() > s.Pos() {
					for _, res := range ret.Results {
						if usesObj(info, res, obj) {
							returned = true
						}
					}
				}
				return true
			})
			if returned {
				return true, "the error variable is returned"
			}
			return false, "the validator's verdict is bound but neither tested nor returned"
		}
		// condition mentions err != nil
		condOK := false
		ast.Inspect(test.Cond, func(n ast.Node) bool {
			if be, ok := n.(*ast.BinaryExpr); ok && be.Op == token.NEQ && core.IsNil(info, be.Y) && usesObj(info, be.X, obj) {
				condOK = true
			}
			return true
		})
		if !condOK {
			return false, "the statement after the call does not test the error"
		}
		// in the failing branch: every return uses the error (or it is a bare return of a named result)
		rets, good := 0, 0
		ast.Inspect(test.Body, func(n ast.Node) bool {
			switch x := n.(type) {
			case *ast.FuncLit:
				return false
			case *ast.ReturnStmt:
				rets++
				if len(x.Results) == 0 && isNamedResultObj(d, info, obj) {
					good++
					return true
				}
				for _, res := range x.Results {
					if usesObj(info, res, obj) {
						good++
						return true
					}
				}
				// a local built from the error (`e := fmt.Errorf(..., err)` / wrap(err)) and returned
				for _, res := range x.Results {
					if rid, ok := ast.Unparen(res).(*ast.Ident); ok {
						ro := info.ObjectOf(rid)
						built := false
						ast.Inspect(test.Body, func(m ast.Node) bool {
							if as, ok := m.(*ast.AssignStmt); ok && as.Pos() < x.Pos() {
								for i, l := range as.Lhs {
									if lid, ok := l.(*ast.Ident); ok && info.ObjectOf(lid) == ro && i < len(as.Rhs) && usesObj(info, as.Rhs[i], obj) {
										built = true
									}
								}
							}
							return true
						})
						if built {
							good++
							return true
						}
					}
				}
			}
			return true
		})
		if rets == 0 {
			// no return in the failing branch: continue / accumulate
			uses := false
			for _, st := range test.Body.List {
				if usesObj(info, st, obj) {
					uses = true
				}
			}
			if uses {
				return true, "the failing branch records the error"
			}
			return false, "the failing branch neither returns nor records the error"
		}
		if good == rets {
			return true, "the failing branch returns the error (possibly wrapped)"
		}
		return false, "a return in the failing branch does not carry the error: the nested violation is reported as success or as something else"
	case *ast.IfStmt, *ast.SwitchStmt:
		return true, "used in a condition"
	}
	return true, "other use"
}

// c04Opt: each option guards exactly the check it names.
func c04Opt(r *core.Report) {
	p := r.Prog
	pk := p.Pkg("openapi3")
	info := pk.TypesInfo
	type row struct {
		off     bool     // the value that switches the check off
		allowed []string // validator callees that may be control-dependent on the option
	}
	table := map[string]row{
		"examplesValidationDisabled":       {true, []string{"validateExampleValue", "ExampleRef.Validate"}},
		"schemaDefaultsValidationDisabled": {true, []string{"Schema.VisitJSON"}},
		"schemaFormatValidationEnabled":    {false, nil},
		"schemaPatternValidationDisabled":  {true, []string{"Schema.compilePattern"}},
		"schemaExtensionsInRefProhibited":  {false, nil},
	}
	r.RunRule("C04.opt", "each validation option switches off only the check it names: for every boolean field of ValidationOptions, every place that reads it (directly or through a local copy) is a conjunct of an `if` condition; evaluated with the option's off value, the guarded region (the `if` body when the conjunct is true only with the option on; everything after the `if` when its body returns with the option off) contains no call of a validator other than the ones frozen for that option, and with the option off no error is produced and no early success return skips later checks; every field of ValidationOptions has a row in the table", 12, func() {
		vo := p.NamedType("openapi3", "ValidationOptions")
		st := vo.Underlying().(*types.Struct)
		for i := 0; i < st.NumFields(); i++ {
			f := st.Field(i)
			if b, ok := f.Type().Underlying().(*types.Basic); ok && b.Kind() == types.Bool {
				if _, ok := table[f.Name()]; !ok && f.Name() != "examplesValidationAsReq" && f.Name() != "examplesValidationAsRes" {
					r.Bad("opt:table/"+f.Name(), p.Pos(f.Pos()), "ValidationOptions has a boolean field with no row in the option table: what it may switch off has not been confirmed")
				}
			}
		}
		perFn := map[string]int{}
		for _, d := range p.AllDecls("openapi3") {
			fname := core.FuncName(d)
			if pos := p.Fset.Position(d.Pos()); strings.HasSuffix(pos.Filename, "validation_options.go") {
				continue
			}
			// local copies: v := getValidationOptions(ctx).F
			alias := map[types.Object]string{}
			ast.Inspect(d.Body, func(n ast.Node) bool {
				as, ok := n.(*ast.AssignStmt)
				if !ok || len(as.Lhs) != 1 || len(as.Rhs) != 1 {
					return true
				}
				if sel, ok := ast.Unparen(as.Rhs[0]).(*ast.SelectorExpr); ok {
					if fv := core.FieldSel(info, sel); fv != nil {
						if _, ok := table[fv.Name()]; ok {
							if id, ok := as.Lhs[0].(*ast.Ident); ok {
								alias[info.ObjectOf(id)] = fv.Name()
							}
						}
					}
				}
				return true
			})
			fieldOf := func(e ast.Expr) string {
				switch x := ast.Unparen(e).(type) {
				case *ast.SelectorExpr:
					if fv := core.FieldSel(info, x); fv != nil {
						if _, ok := table[fv.Name()]; ok {
							return fv.Name()
						}
					}
				case *ast.Ident:
					return alias[info.ObjectOf(x)]
				}
				return ""
			}
			ast.Inspect(d.Body, func(n ast.Node) bool {
				var e ast.Expr
				switch x := n.(type) {
				case *ast.SelectorExpr:
					e = x
				case *ast.Ident:
					if alias[info.ObjectOf(x)] != "" && info.Uses[x] != nil {
						e = x
					}
				}
				if e == nil {
					return true
				}
				fld := fieldOf(e)
				if fld == "" {
					return true
				}
				// the defining assignment of an alias is not a use
				path := core.PathTo(d.Body, e)
				if len(path) >= 2 {
					if as, ok := path[len(path)-2].(*ast.AssignStmt); ok && len(as.Rhs) == 1 && ast.Unparen(as.Rhs[0]) == e {
						if _, isAliasDef := as.Lhs[0].(*ast.Ident); isAliasDef && alias[info.ObjectOf(as.Lhs[0].(*ast.Ident))] == fld {
							return true
						}
					}
				}
				rw := table[fld]
				perFn[fname+"/"+fld]++
				key := fmt.Sprintf("opt:%s/%s#%d", fname, fld, perFn[fname+"/"+fld])
				pos := p.Pos(e.Pos())
				// enclosing if whose condition contains the read
				var ifs *ast.IfStmt
				for i := len(path) - 1; i >= 0; i-- {
					if x, ok := path[i].(*ast.IfStmt); ok && x.Cond.Pos() <= e.Pos() && e.End() <= x.Cond.End() {
						ifs = x
						break
					}
				}
				if ifs == nil {
					r.Bad(key, pos, "the option is read outside an `if` condition: what it switches cannot be delimited")
					return true
				}
				// polarity of the conjunct
				var atomPos, found bool
				for _, a := range core.Atoms([]core.Guard{{Cond: ifs.Cond, Pos: true}}) {
					if fieldOf(a.Expr) == fld && a.Expr.Pos() <= e.Pos() && e.End() <= a.Expr.End() {
						atomPos, found = a.Pos, true
					}
				}
				if !found {
					r.Bad(key, pos, "the option is not a conjunct of the condition (it is combined with `||` or nested in an expression): the check may stay on when the option is off")
					return true
				}
				conjunctTrueWhenOff := rw.off == atomPos
				var region []ast.Stmt
				what := ""
				if !conjunctTrueWhenOff {
					region = ifs.Body.List
					what = "the `if` body"
					// with the option off the else branch runs: it must not produce an error
					if ifs.Else != nil {
						if bad := errorProducing(info, ifs.Else); bad != "" {
							r.Bad(key, pos, "with the option off the else branch still "+bad)
							return true
						}
					}
				} else {
					// the body runs with the option off: it must not report anything
					if bad := errorProducing(info, ifs.Body); bad != "" {
						r.Bad(key, pos, "with the option off the guarded branch "+bad)
						return true
					}
					if core.Terminates(info, ifs.Body.List) {
						// everything after the if is switched off together with the check
						list, idx := listOf(d.Body, ifs)
						if idx >= 0 {
							region = list[idx+1:]
						}
						// and what follows the enclosing blocks
						for i := len(path) - 1; i >= 0; i-- {
							if blk, ok := path[i].(*ast.BlockStmt); ok && blk != ifs.Body {
								for j, st := range blk.List {
									if st.Pos() <= ifs.Pos() && ifs.End() <= st.End() && st != ast.Stmt(ifs) {
										region = append(region, blk.List[j+1:]...)
									}
								}
							}
						}
						what = "everything after the early return"
					} else if ifs.Else != nil {
						if eb, ok := ifs.Else.(*ast.BlockStmt); ok {
							region = eb.List
						} else {
							region = []ast.Stmt{ifs.Else}
						}
						what = "the else branch"
					}
				}
				var foreign []string
				for _, st := range region {
					ast.Inspect(st, func(m ast.Node) bool {
						c, ok := m.(*ast.CallExpr)
						if !ok {
							return true
						}
						callee := core.CalleeOf(info, c)
						if !isValidatorCallee(callee) {
							return true
						}
						name := callee.Name()
						if rv := callee.Type().(*types.Signature).Recv(); rv != nil {
							if nn := core.NamedOf(rv.Type()); nn != nil {
								name = nn.Obj().Name() + "." + name
							}
						}
						okA := false
						for _, a := range rw.allowed {
							if a == name {
								okA = true
							}
						}
						if !okA {
							foreign = append(foreign, name)
						}
						return true
					})
				}
				if len(foreign) > 0 {
					sort.Strings(foreign)
					r.Bad(key, pos, fmt.Sprintf("switching %s off also switches off %s (%s is control-dependent on it)", fld, strings.Join(uniq(foreign), ", "), what))
				} else {
					r.OK(key, pos, "guards only its own check ("+what+")")
				}
				return true
			})
		}
	})
}

// errorProducing: the node contains a return of a non-nil error literal/call (fmt.Errorf, errors.New,
// a composite) or a validator call.
func errorProducing(info *types.Info, n ast.Node) string {
	out := ""
	ast.Inspect(n, func(m ast.Node) bool {
		switch x := m.(type) {
		case *ast.FuncLit:
			return false
		case *ast.CallExpr:
			if callee := core.CalleeOf(info, x); callee != nil {
				if isValidatorCallee(callee) {
					out = "calls " + callee.Name()
				}
				if callee.Pkg() != nil && (callee.Pkg().Path() == "fmt" && callee.Name() == "Errorf" || callee.Pkg().Path() == "errors" && callee.Name() == "New") {
					out = "produces an error"
				}
			}
		}
		return out == ""
	})
	return out
}

// c04Dedupe: a duplicate detector stores the key it probes.
func c04Dedupe(r *core.Report) {
	p := r.Prog
	info := p.Pkg("openapi3").TypesInfo
	r.RunRule("C04.dedupe", "a duplicate detector stores the key it probes: for every local map of a Validate method or validate* helper that is both probed (`_, ok := m[k]` / `m[k]` in a condition) and stored to (`m[k'] = ...`), every stored key expression equals a probed key expression; otherwise the probe never finds what was stored and the duplicate rule never fires", 3, func() {
		for _, d := range validateFamily(p) {
			fn := core.FuncName(d)
			probes := map[types.Object][]string{}
			stores := map[types.Object][]ast.Expr{}
			isLocalMap := func(e ast.Expr) types.Object {
				id, ok := ast.Unparen(e).(*ast.Ident)
				if !ok {
					return nil
				}
				o := info.ObjectOf(id)
				if o == nil || o.Pos() < d.Pos() || o.Pos() > d.End() {
					return nil
				}
				if _, isMap := o.Type().Underlying().(*types.Map); !isMap {
					return nil
				}
				return o
			}
			ast.Inspect(d.Body, func(n ast.Node) bool {
				switch x := n.(type) {
				case *ast.AssignStmt:
					for _, l := range x.Lhs {
						if ix, ok := ast.Unparen(l).(*ast.IndexExpr); ok {
							if o := isLocalMap(ix.X); o != nil {
								stores[o] = append(stores[o], ix.Index)
							}
						}
					}
					for _, rh := range x.Rhs {
						if ix, ok := ast.Unparen(rh).(*ast.IndexExpr); ok && len(x.Lhs) == 2 {
							if o := isLocalMap(ix.X); o != nil {
								probes[o] = append(probes[o], core.ExprStr(ix.Index))
							}
						}
					}
				}
				return true
			})
			var objs []types.Object
			for o := range probes {
				if len(stores[o]) > 0 {
					objs = append(objs, o)
				}
			}
			sort.Slice(objs, func(i, j int) bool { return objs[i].Pos() < objs[j].Pos() })
			for _, o := range objs {
				for i, k := range stores[o] {
					key := fmt.Sprintf("dedupe:%s/%s#%d", fn, o.Name(), i+1)
					okK := false
					for _, pk := range probes[o] {
						if pk == core.ExprStr(k) {
							okK = true
						}
					}
					r.Check(okK, key, p.Pos(k.Pos()), "stored key is the probed key", fmt.Sprintf("the seen-set %s is probed with %s but stored with %s: the duplicate is never found", o.Name(), strings.Join(probes[o], ", "), core.ExprStr(k)))
				}
			}
		}
	})
}

// c04OptState: the options found in the context are shared by the whole validation (and by every
// later validation that reuses the context); nothing below may write to them.
func c04OptState(r *core.Report) {
	p := r.Prog
	pk := p.Pkg("openapi3")
	info := pk.TypesInfo
	r.RunRule("C04.optstate", "validation options are read-only during validation: a field of ValidationOptions is assigned only inside an option constructor (a function literal of type ValidationOption, applied by WithValidationOptions to a fresh struct) or on a local copy (`c := *vo`); a write through the pointer returned by getValidationOptions changes what every other node, and every later Validate call on the same context, is checked with — or is lost when the context carries no options", 8, func() {
		vo := p.NamedType("openapi3", "ValidationOptions")
		n := 0
		perFn := map[string]int{}
		for _, f := range pk.Syntax {
			for _, dcl := range f.Decls {
				d, ok := dcl.(*ast.FuncDecl)
				if !ok || d.Body == nil {
					continue
				}
				fname := core.FuncName(d)
				ast.Inspect(d.Body, func(nd ast.Node) bool {
					as, ok := nd.(*ast.AssignStmt)
					if !ok {
						return true
					}
					for _, l := range as.Lhs {
						sel, ok := ast.Unparen(l).(*ast.SelectorExpr)
						if !ok {
							continue
						}
						bt := info.TypeOf(sel.X)
						if bt == nil || core.NamedOf(bt) != vo {
							continue
						}
						n++
						perFn[fname]++
						key := fmt.Sprintf("optstate:%s#%d", fname, perFn[fname])
						pos := p.Pos(as.Pos())
						_, isPtr := bt.Underlying().(*types.Pointer)
						id, isID := ast.Unparen(sel.X).(*ast.Ident)
						if !isPtr && isID {
							r.OK(key, pos, "write to a local copy of the options")
							continue
						}
						if isID {
							// parameter of an option constructor literal
							if o := info.ObjectOf(id); o != nil {
								inCtor := false
								for _, anc := range core.PathTo(d.Body, as) {
									if fl, ok := anc.(*ast.FuncLit); ok {
										if t := info.TypeOf(fl); t != nil && core.NamedOf(t) == nil {
											if sig, ok := t.(*types.Signature); ok && sig.Params().Len() == 1 && sig.Results().Len() == 0 && core.NamedOf(sig.Params().At(0).Type()) == vo {
												for _, fld := range fl.Type.Params.List {
													for _, nm := range fld.Names {
														if info.Defs[nm] == o {
															inCtor = true
														}
													}
												}
											}
										}
									}
								}
								if inCtor {
									// what is stored must belong to this application of the option: a map or
									// slice captured from the constructor is shared by every Validate call
									// the option value is passed to (and by the options it is combined with)
									shared := ""
									if len(as.Rhs) == len(as.Lhs) {
										for i2, l2 := range as.Lhs {
											if l2 != l {
												continue
											}
											if rid, ok := ast.Unparen(as.Rhs[i2]).(*ast.Ident); ok {
												if ro, isVar := info.ObjectOf(rid).(*types.Var); isVar {
													switch ro.Type().Underlying().(type) {
													case *types.Map, *types.Slice:
														var lit *ast.FuncLit
														for _, anc := range core.PathTo(d.Body, as) {
															if fl, ok := anc.(*ast.FuncLit); ok {
																lit = fl
															}
														}
														if lit != nil && (ro.Pos() < lit.Pos() || ro.Pos() > lit.End()) {
															shared = rid.Name
														}
													}
												}
											}
										}
									}
									if shared != "" {
										r.Bad(key, pos, "the option stores `"+shared+"`, a map or slice created outside the closure, into the options: the same object is installed by every application of this option value, and another option that adds to the field afterwards writes into it — the option value then allows, in later Validate calls, what only the other option named")
										continue
									}
									r.OK(key, pos, "option constructor applied to a fresh struct")
									continue
								}
							}
						}
						r.Bad(key, pos, "a validation option is written through a shared pointer during validation: the change leaks to every node validated afterwards with the same context (or is lost when the context carries no options)")
					}
					return true
				})
			}
		}
		if n < 8 {
			core.Fail("only %d option writes found", n)
		}
	})
}

func forEachReturnStmt(body ast.Node, fn func(*ast.ReturnStmt)) {
	ast.Inspect(body, func(n ast.Node) bool {
		switch x := n.(type) {
		case *ast.FuncLit:
			return false
		case *ast.ReturnStmt:
			fn(x)
		}
		return true
	})
}

// c04LoopState: what is collected for one item is not carried into the check of the next.
func c04LoopState(r *core.Report) {
	p := r.Prog
	info := p.Pkg("openapi3").TypesInfo
	r.RunRule("C04.loopstate", "per-item checks see per-item data: in the Validate methods and validate* helpers, a slice that is grown inside a loop (x = append(x, ...)) and also read inside that same loop (its length, its elements, as an argument) is declared inside the loop or reset there; one declared outside accumulates the entries of earlier iterations, so the check made for a later item (an operation's path parameters against the template) is satisfied by what an earlier item declared", 5, func() {
		n := 0
		for _, d := range validateFamily(p) {
			fn := core.FuncName(d)
			perFn := 0
			ast.Inspect(d.Body, func(nd ast.Node) bool {
				var body *ast.BlockStmt
				switch x := nd.(type) {
				case *ast.RangeStmt:
					body = x.Body
				case *ast.ForStmt:
					body = x.Body
				default:
					return true
				}
				// slices appended inside this loop (at any depth) and declared outside it
				grown := map[types.Object]bool{}
				reset := map[types.Object]bool{}
				ast.Inspect(body, func(m ast.Node) bool {
					as, ok := m.(*ast.AssignStmt)
					if !ok {
						return true
					}
					for i, l := range as.Lhs {
						id, ok := l.(*ast.Ident)
						if !ok || i >= len(as.Rhs) {
							continue
						}
						o := info.ObjectOf(id)
						if o == nil || (o.Pos() >= nd.Pos() && o.Pos() <= nd.End()) {
							continue
						}
						if _, isSlice := o.Type().Underlying().(*types.Slice); !isSlice {
							continue
						}
						if c, ok := ast.Unparen(as.Rhs[i]).(*ast.CallExpr); ok && core.IsBuiltin(info, c, "append") && len(c.Args) > 0 {
							if aid, ok := ast.Unparen(c.Args[0]).(*ast.Ident); ok && info.ObjectOf(aid) == o {
								grown[o] = true
								continue
							}
						}
						reset[o] = true // any other assignment inside the loop
					}
					return true
				})
				var gobjs []types.Object
				for o := range grown {
					gobjs = append(gobjs, o)
				}
				sort.Slice(gobjs, func(i, j int) bool { return gobjs[i].Pos() < gobjs[j].Pos() })
				for _, o := range gobjs {
					n++
					perFn++
					key := fmt.Sprintf("loopstate:%s/%s#%d", fn, o.Name(), perFn)
					// read inside the loop other than as the first argument / target of its own append
					readAt := token.NoPos
					ast.Inspect(body, func(m ast.Node) bool {
						id, ok := m.(*ast.Ident)
						if !ok || info.ObjectOf(id) != o || info.Defs[id] != nil {
							return true
						}
						path := core.PathTo(body, id)
						for i := len(path) - 2; i >= 0 && i >= len(path)-4; i-- {
							if as, ok := path[i].(*ast.AssignStmt); ok {
								for k, l := range as.Lhs {
									if ast.Unparen(l) == ast.Expr(id) {
										return true // assignment target
									}
									if k < len(as.Rhs) {
										if c, ok := ast.Unparen(as.Rhs[k]).(*ast.CallExpr); ok && core.IsBuiltin(info, c, "append") && len(c.Args) > 0 && ast.Unparen(c.Args[0]) == ast.Expr(id) {
											if lid, ok := l.(*ast.Ident); ok && info.ObjectOf(lid) == o {
												return true // x = append(x, ...)
											}
										}
									}
								}
							}
						}
						if readAt == token.NoPos {
							readAt = id.Pos()
						}
						return true
					})
					switch {
					case readAt == token.NoPos:
						r.OK(key, p.Pos(nd.Pos()), "collected in the loop, used after it")
					case reset[o]:
						r.OK(key, p.Pos(nd.Pos()), "reset inside the loop")
					default:
						r.Bad(key, p.Pos(readAt), fmt.Sprintf("%s grows %s inside this loop and reads it there, but declares it outside: what earlier iterations appended is still in it when a later item is checked", fn, o.Name()))
					}
				}
				return true
			})
		}
		if n == 0 {
			core.Fail("no slice grown inside a loop found in the validation functions")
		}
	})
}

// c04Shortcut: document validation has no success shortcut that depends on what the object holds.
// "This schema is empty, nothing to check" skips the checks that do not depend on keywords (unknown
// fields, unresolved references below) and the whole walk beneath.
func c04Shortcut(r *core.Report) {
	p := r.Prog
	info := p.Pkg("openapi3").TypesInfo
	na := core.NewNilAnalysis(p)
	r.RunRule("C04.shortcut", "no content-dependent success shortcut: in every Validate / validate method of package openapi3, a return with a nil error that is not the last statement of the function is reached only under a nil test of the receiver, a hit in a visited set (comma-ok map lookup), or the identity of the receiver with a member of the chain of objects being validated (returns on an `err != nil` branch are C04.err's subject)", 5, func() {
		for _, d := range p.AllDecls("openapi3") {
			if d.Recv == nil || d.Body == nil || (d.Name.Name != "Validate" && d.Name.Name != "validate") || len(d.Recv.List[0].Names) == 0 {
				continue
			}
			recv := info.ObjectOf(d.Recv.List[0].Names[0])
			ff := core.NewFuncFacts(p, info, d)
			last := d.Body.List[len(d.Body.List)-1]
			k := 0
			ast.Inspect(d.Body, func(nd ast.Node) bool {
				if _, isLit := nd.(*ast.FuncLit); isLit {
					return false
				}
				ret, ok := nd.(*ast.ReturnStmt)
				if !ok || ast.Stmt(ret) == last || len(ret.Results) == 0 {
					return true
				}
				e := ret.Results[len(ret.Results)-1]
				if !isErrorType(info.TypeOf(e)) && !core.IsNil(info, e) {
					return true
				}
				if na.Classify(ff, e, ret) == core.NonNil {
					return true
				}
				if !core.IsNil(info, e) {
					return true // returns a possibly-nil error variable: the result of the last check, not a shortcut
				}
				k++
				key := fmt.Sprintf("shortcut:%s#%d", core.FuncName(d), k)
				why := ""
				errBranch := false
				for _, a := range core.Atoms(core.GuardsAt(info, d.Body, ret)) {
					if be, ok := ast.Unparen(a.Expr).(*ast.BinaryExpr); ok {
						for _, pair := range [][2]ast.Expr{{be.X, be.Y}, {be.Y, be.X}} {
							x := ast.Unparen(pair[0])
							if id, ok := x.(*ast.Ident); ok {
								if core.IsNil(info, pair[1]) {
									if info.ObjectOf(id) == recv && (be.Op == token.EQL) == a.Pos {
										why = "nil receiver"
									}
									if t := info.TypeOf(id); t != nil && isErrorType(t) && (be.Op == token.NEQ) == a.Pos {
										errBranch = true
									}
								}
								// existing == receiver
								if oid, ok := ast.Unparen(pair[1]).(*ast.Ident); ok && info.ObjectOf(oid) == recv && info.ObjectOf(id) != recv && (be.Op == token.EQL) == a.Pos {
									why = "the receiver is already on the chain of objects being validated"
								}
							}
						}
					}
					if id, ok := ast.Unparen(a.Expr).(*ast.Ident); ok && a.Pos {
						for _, as := range ff.Assigns(info.ObjectOf(id)) {
							if as.MapIndex != nil {
								why = "hit in a visited set"
							}
						}
					}
				}
				switch {
				case errBranch:
					r.Trivial(key, p.Pos(ret.Pos()), "on an error branch (C04.err)")
				case why != "":
					r.OK(key, p.Pos(ret.Pos()), why)
				default:
					conds := []string{}
					for _, a := range core.Atoms(core.GuardsAt(info, d.Body, ret)) {
						s := core.ExprStr(a.Expr)
						if !a.Pos {
							s = "!(" + s + ")"
						}
						conds = append(conds, s)
					}
					r.Bad(key, p.Pos(ret.Pos()), fmt.Sprintf("%s reports success early under `%s`: whatever the rest of the method checks — unknown fields, unresolved references, the objects below — is skipped for every object that satisfies the condition", core.FuncName(d), strings.Join(conds, " && ")))
				}
				return true
			})
		}
	})
}
