package rules

import (
	"fmt"
	"go/ast"
	"go/token"
	"go/types"
	"strings"

	"verif/internal/core"
)

// Rules written after the thirteenth round of seeded changes ("a new feature wired in at one site").

// c03EveryKey: the helpers that read a string-keyed map store every key they read.
func c03EveryKey(r *core.Report) {
	p := r.Prog
	info := p.Pkg("openapi3").TypesInfo
	r.RunRule("C03.everykey", "no entry of a map is dropped while reading: in unmarshalStringMap and unmarshalStringMapP (behind StringMap, the component maps, Content, SecurityRequirement) no `continue` inside the loop over the decoded entries stands under a condition that is not a test of an error — leaving out the keys that start with `x-` (to tolerate extensions beside OAuth scopes) also empties a security requirement that names the scheme `x-api-key`, which then needs no authentication", 2, func() {
		n := 0
		for _, d := range p.AllDecls("openapi3") {
			if d.Body == nil || (d.Name.Name != "unmarshalStringMap" && d.Name.Name != "unmarshalStringMapP") {
				continue
			}
			ast.Inspect(d.Body, func(nd ast.Node) bool {
				rs, ok := nd.(*ast.RangeStmt)
				if !ok {
					return true
				}
				n++
				bad := ""
				ast.Inspect(rs.Body, func(m ast.Node) bool {
					br, ok := m.(*ast.BranchStmt)
					if !ok || br.Tok != token.CONTINUE || bad != "" {
						return true
					}
					underErr := false
					for _, a := range core.Atoms(core.GuardsAt(info, rs.Body, br)) {
						be, ok := ast.Unparen(a.Expr).(*ast.BinaryExpr)
						if !ok || !core.IsNil(info, be.Y) || (be.Op == token.NEQ) != a.Pos {
							continue
						}
						if id, ok := ast.Unparen(be.X).(*ast.Ident); ok {
							if o := info.ObjectOf(id); o != nil && isErrorType(o.Type()) {
								underErr = true
							}
						}
					}
					if !underErr {
						bad = p.Pos(br.Pos())
					}
					return true
				})
				r.Check(bad == "", fmt.Sprintf("everykey:%s#%d", d.Name.Name, n), p.Pos(rs.Pos()), "every entry read is stored", d.Name.Name+" leaves an entry out with `continue` at "+bad+" on a condition about the entry: the document is written back without it, and a map that means something by its keys (a security requirement) changes its meaning")
				return true
			})
		}
		if n == 0 {
			core.Fail("unmarshalStringMap / unmarshalStringMapP: no loop over the decoded entries")
		}
	})
}

// c05NoTrim: the shared splitters of the parameter decoders do not normalise what they split.
func c05NoTrim(r *core.Report) {
	p := r.Prog
	info := p.Pkg("openapi3filter").TypesInfo
	r.RunRule("C05.notrim", "in a serialised parameter a blank is data: outside the methods of headerParamDecoder (a header field's list members may be surrounded by optional whitespace, RFC 7230) no function of req_resp_decoder.go that takes part in decoding styled parameters — propsFromString, parseArray, parsePrimitive, the path, query and cookie decoders — passes text through strings.TrimSpace, Trim, TrimLeft, TrimRight, Fields, ToLower or ToUpper: `p=pad,%20x%20` denotes the value \" x \"", 5, func() {
		n := 0
		for _, d := range p.AllDecls("openapi3filter") {
			if d.Body == nil {
				continue
			}
			name := core.FuncName(d)
			inScope := false
			switch {
			case name == "propsFromString", name == "parseArray", name == "parsePrimitive", name == "parsePrimitiveCase", name == "makeObject", name == "cutPrefix":
				inScope = true
			case d.Recv != nil:
				if rt := info.TypeOf(d.Recv.List[0].Type); rt != nil {
					if nt := core.NamedOf(rt); nt != nil {
						switch nt.Obj().Name() {
						case "pathParamDecoder", "urlValuesDecoder", "cookieParamDecoder":
							inScope = true
						}
					}
				}
			}
			if !inScope {
				continue
			}
			n++
			bad := ""
			ast.Inspect(d.Body, func(nd ast.Node) bool {
				c, ok := nd.(*ast.CallExpr)
				if !ok || bad != "" {
					return true
				}
				f := core.CalleeOf(info, c)
				if f == nil || f.Pkg() == nil || f.Pkg().Path() != "strings" {
					return true
				}
				switch f.Name() {
				case "TrimSpace", "Trim", "TrimLeft", "TrimRight", "Fields", "ToLower", "ToUpper", "TrimFunc":
					bad = "strings." + f.Name() + " at " + p.Pos(c.Pos())
				}
				return true
			})
			r.Check(bad == "", "notrim:"+name, p.Pos(d.Pos()), "the text is split, not normalised", name+" passes parameter text through "+bad+": a value or property name that begins or ends with a blank (or, for the case functions, differs in case) decodes to another value than the one that was serialised")
		}
		if n == 0 {
			core.Fail("no decoder function found")
		}
	})
}

var _ = types.Typ

// c20DecodeOnce: an UnmarshalJSON that decodes its children twice doubles the work at every level.
func c20DecodeOnce(r *core.Report) {
	p := r.Prog
	r.RunRule("C20.decodeonce", "reading a document is linear in its depth: in every UnmarshalJSON method of packages openapi3 and openapi2 the bytes of the object are decoded into a typed struct (a value whose fields run the UnmarshalJSON of the children) at most once — a second typed decode on some path, such as a retry with a rewritten object after the first attempt failed, makes every nested object of that form decode its own children twice, 2^depth in all, and a document of a few kilobytes does not finish loading (decoding into a map of any / RawMessage does not recurse and is not counted)", 40, func() {
		for _, rel := range []string{"openapi3", "openapi2"} {
			info := p.Pkg(rel).TypesInfo
			for _, d := range p.AllDecls(rel) {
				if d.Body == nil || d.Name.Name != "UnmarshalJSON" || d.Recv == nil {
					continue
				}
				typed := 0
				where := ""
				ast.Inspect(d.Body, func(nd ast.Node) bool {
					c, ok := nd.(*ast.CallExpr)
					if !ok || len(c.Args) != 2 {
						return true
					}
					f := core.CalleeOf(info, c)
					if f == nil || f.Name() != "Unmarshal" || f.Pkg() == nil || f.Pkg().Path() != "encoding/json" {
						return true
					}
					t := info.TypeOf(c.Args[1])
					if pt, ok := t.Underlying().(*types.Pointer); ok {
						t = pt.Elem()
					}
					if _, isStruct := t.Underlying().(*types.Struct); isStruct {
						typed++
						where = p.Pos(c.Pos())
					}
					return true
				})
				key := "decodeonce:" + rel + "." + core.FuncName(d)
				r.Check(typed <= 1, key, p.Pos(d.Pos()), "at most one typed decode", fmt.Sprintf("%s decodes the object into a typed struct %d times (the last at %s): the children are decoded once per attempt, and nested objects of the same form multiply that — 2^depth decodes for a document nested depth levels deep", core.FuncName(d), typed, where))
			}
		}
	})
}

// c16ExternalDef: what counts as "has to be moved into components" is everything that is not
// already a reference into components.
func c16ExternalDef(r *core.Report) {
	p := r.Prog
	info := p.Pkg("openapi3").TypesInfo
	r.RunRule("C16.externaldef", "every reference that does not already lead into the document's components is internalised: isExternalRef decides with a prefix test of the reference against \"#/components/\" (negated) and calls no other classifier of references — isRemoteReference is about something else (it excludes URL references and everything that starts with `#`), and using it leaves an absolute-URL $ref of the root document, and `#/paths/...` references, where they are", 1, func() {
		fd := p.DeclOf("openapi3", "isExternalRef")
		hasPrefixTest := false
		foreign := ""
		ast.Inspect(fd.Body, func(nd ast.Node) bool {
			c, ok := nd.(*ast.CallExpr)
			if !ok {
				return true
			}
			f := core.CalleeOf(info, c)
			if f == nil {
				return true
			}
			if f.Pkg() != nil && f.Pkg().Path() == "strings" && f.Name() == "HasPrefix" && len(c.Args) == 2 {
				if s, ok := core.ConstStr(info, c.Args[1]); ok && s == "#/components/" {
					hasPrefixTest = true
					return true
				}
			}
			if f.Pkg() != nil && core.InRepo(f.Pkg()) && foreign == "" {
				foreign = f.Name()
			}
			return true
		})
		bad := ""
		switch {
		case foreign != "":
			bad = "isExternalRef classifies the reference with " + foreign + ", whose notion of a remote reference excludes URL references and everything that starts with `#`"
		case !hasPrefixTest:
			bad = "isExternalRef no longer tests the reference against the prefix \"#/components/\""
		}
		r.Check(bad == "", "externaldef:isExternalRef", p.Pos(fd.Pos()), "a reference is external unless it starts with #/components/", bad+": references that lead out of the components (to another host, or into `#/paths/`) are left in place and the internalised document is not self-contained")
	})
}

// c02ExactKey: a JSON pointer token names a key exactly.
func c02ExactKey(r *core.Report) {
	p := r.Prog
	info := p.Pkg("openapi3").TypesInfo
	r.RunRule("C02.exactkey", "a pointer designates the entry with exactly that key: in Loader.resolveComponent and drillIntoField an entry of a Paths, Responses or Callback object is reached through the object's own map or its Value(key)/Map() accessors, never through Paths.Find, which after an exact miss matches a templated path with the parameter names normalised away — `#/paths/~1pets~1{petId}` then resolves to `/pets/{id}`, or to an arbitrary one of several paths that differ in parameter names only", 1, func() {
		n := 0
		for _, name := range []string{"Loader.resolveComponent", "drillIntoField"} {
			fd := p.DeclOf("openapi3", name)
			n++
			bad := ""
			ast.Inspect(fd.Body, func(nd ast.Node) bool {
				c, ok := nd.(*ast.CallExpr)
				if !ok || bad != "" {
					return true
				}
				if f := core.CalleeOf(info, c); f != nil && f.Name() == "Find" && f.Pkg() != nil && core.InRepo(f.Pkg()) {
					bad = p.Pos(c.Pos())
				}
				return true
			})
			r.Check(bad == "", "exactkey:"+name, p.Pos(fd.Pos()), "no fuzzy lookup", name+" looks a path up with Paths.Find at "+bad+": a reference whose pointer names no path of the document resolves to a path that merely has the same shape")
		}
	})
}

// c03LoaderWrites: loading resolves references; it does not edit what the document says.
func c03LoaderWrites(r *core.Report) {
	p := r.Prog
	info := p.Pkg("openapi3").TypesInfo
	model := map[*types.Named]bool{}
	for _, n := range p.ModelTypes("openapi3", "T") {
		model[n] = true
	}
	r.RunRule("C03.loaderwrites", "the loader writes reference plumbing only: in loader.go every store into a document-model object is to a field named Ref or Value (of a reference wrapper or a path item), to an unexported field, or replaces a whole object (`*x = *y`) — never to an exported, serialised field or a map entry of a value object (Schema.Discriminator.Mapping[k] rewritten to the reference a bare name stands for): the document LoadFromData returns must serialise to its input", 20, func() {
		n := 0
		for _, d := range p.AllDecls("openapi3") {
			if d.Body == nil || !strings.HasSuffix(p.Fset.Position(d.Pos()).Filename, "/loader.go") {
				continue
			}
			perFn := 0
			ast.Inspect(d.Body, func(nd ast.Node) bool {
				as, ok := nd.(*ast.AssignStmt)
				if !ok {
					return true
				}
				for _, l := range as.Lhs {
					l = ast.Unparen(l)
					var sel *ast.SelectorExpr
					viaIndex := false
					switch x := l.(type) {
					case *ast.SelectorExpr:
						sel = x
					case *ast.IndexExpr:
						if s, ok := ast.Unparen(x.X).(*ast.SelectorExpr); ok {
							sel, viaIndex = s, true
						}
					}
					if sel == nil {
						continue
					}
					f := core.FieldSel(info, sel)
					if f == nil {
						continue
					}
					owner := core.NamedOf(info.TypeOf(sel.X))
					if owner == nil || !model[owner.Origin()] {
						continue
					}
					n++
					perFn++
					key := fmt.Sprintf("loaderwrites:%s#%d", core.FuncName(d), perFn)
					plumbing := !f.Exported() || ((f.Name() == "Ref" || f.Name() == "Value") && !viaIndex)
					r.Check(plumbing, key, p.Pos(as.Pos()), "reference plumbing", fmt.Sprintf("%s writes %s of a %s while loading: the loaded document no longer says what its source says, and serialising it gives another document", core.FuncName(d), core.ExprStr(l), owner.Obj().Name()))
				}
				return true
			})
		}
		if n == 0 {
			core.Fail("loader.go: no store into a model object found")
		}
	})
}

// c01Builders: a builder named after a bound sets that bound.
func c01Builders(r *core.Report) {
	p := r.Prog
	info := p.Pkg("openapi3").TypesInfo
	r.RunRule("C01.builders", "siblings agree on what their name says: every method of Schema named WithMin… assigns only fields of its receiver whose name contains Min, and every WithMax… only fields whose name contains Max (Min/Max, ExclusiveMin/ExclusiveMax, MinLength/MaxLength, MinItems/MaxItems, MinProps/MaxProps) — WithMaxLengthDecodedBase64 was a copy of its Min sibling that still assigned MinLength, so the schema it built had a lower bound where an upper bound was asked for", 10, func() {
		for _, d := range p.AllDecls("openapi3") {
			if d.Body == nil || d.Recv == nil {
				continue
			}
			name := d.Name.Name
			want := ""
			switch {
			case strings.HasPrefix(name, "WithMin"), strings.HasPrefix(name, "WithExclusiveMin"):
				want = "Min"
			case strings.HasPrefix(name, "WithMax"), strings.HasPrefix(name, "WithExclusiveMax"):
				want = "Max"
			default:
				continue
			}
			recv := recvObj(info, d)
			if nt := core.NamedOf(recv.Type()); nt == nil || nt.Obj().Name() != "Schema" {
				continue
			}
			bad := ""
			ast.Inspect(d.Body, func(nd ast.Node) bool {
				as, ok := nd.(*ast.AssignStmt)
				if !ok {
					return true
				}
				for _, l := range as.Lhs {
					sel, ok := ast.Unparen(l).(*ast.SelectorExpr)
					if !ok || core.FieldSel(info, sel) == nil {
						continue
					}
					if id := core.RootIdent(sel.X); id == nil || info.ObjectOf(id) != recv {
						continue
					}
					if !strings.Contains(sel.Sel.Name, want) && bad == "" {
						bad = sel.Sel.Name
					}
				}
				return true
			})
			r.Check(bad == "", "builders:Schema."+name, p.Pos(d.Pos()), "assigns the bound its name says", "Schema."+name+" assigns "+bad+": the schema built has another bound than the one asked for")
		}
	})
}

// c13IndexSpace: positions recorded while ranging over one list are positions in that list.
func c13IndexSpace(r *core.Report) {
	p := r.Prog
	info := p.Pkg("openapi3").TypesInfo
	r.RunRule("C13.indexspace", "a recorded position is used on the list it was taken from: wherever package openapi3 collects the key variable of `for i := range A` into a list of positions (`idxs = append(idxs, i)`), every later use of an element of that list as an index (`B[idxs[k]]`) is on the same list A — the branch of a oneOf that is visited a second time on the real value, to inject its defaults, is found that way, and positions taken from a filtered copy of the branches (the one a discriminator selects) point at another branch of the full list, whose defaults are then written into the forwarded body", 1, func() {
		n := 0
		for _, d := range p.AllDecls("openapi3") {
			if d.Body == nil {
				continue
			}
			// position lists: object -> text of the ranged list
			lists := map[types.Object]string{}
			scalars := map[types.Object]string{}
			ast.Inspect(d.Body, func(nd ast.Node) bool {
				rs, ok := nd.(*ast.RangeStmt)
				if !ok || rs.Key == nil {
					return true
				}
				kid, ok := rs.Key.(*ast.Ident)
				if !ok || kid.Name == "_" {
					return true
				}
				if _, isSlice := info.TypeOf(rs.X).Underlying().(*types.Slice); !isSlice {
					return true
				}
				kobj := info.ObjectOf(kid)
				ast.Inspect(rs.Body, func(m ast.Node) bool {
					as, ok := m.(*ast.AssignStmt)
					if !ok || len(as.Lhs) != 1 || len(as.Rhs) != 1 {
						return true
					}
					// a single position kept in a variable: `matched = i`
					if rid, ok := ast.Unparen(as.Rhs[0]).(*ast.Ident); ok && info.ObjectOf(rid) == kobj && as.Tok == token.ASSIGN {
						if lid, ok := ast.Unparen(as.Lhs[0]).(*ast.Ident); ok {
							scalars[info.ObjectOf(lid)] = core.ExprStr(rs.X)
						}
						return true
					}
					c, ok := ast.Unparen(as.Rhs[0]).(*ast.CallExpr)
					if !ok || len(c.Args) < 2 {
						return true
					}
					if fid, ok := c.Fun.(*ast.Ident); !ok || fid.Name != "append" {
						return true
					}
					lid, ok := ast.Unparen(as.Lhs[0]).(*ast.Ident)
					if !ok {
						return true
					}
					for _, a := range c.Args[1:] {
						if aid, ok := ast.Unparen(a).(*ast.Ident); ok && info.ObjectOf(aid) == kobj {
							lists[info.ObjectOf(lid)] = core.ExprStr(rs.X)
						}
					}
					return true
				})
				return true
			})
			if len(lists) == 0 && len(scalars) == 0 {
				continue
			}
			perFn := 0
			ast.Inspect(d.Body, func(nd ast.Node) bool {
				ix, ok := nd.(*ast.IndexExpr)
				if !ok {
					return true
				}
				if sid, ok := ast.Unparen(ix.Index).(*ast.Ident); ok {
					if from, isScalar := scalars[info.ObjectOf(sid)]; isScalar {
						if _, isSlice := info.TypeOf(ix.X).Underlying().(*types.Slice); isSlice {
							n++
							perFn++
							key := fmt.Sprintf("indexspace:%s#%d", core.FuncName(d), perFn)
							r.Check(core.ExprStr(ix.X) == from, key, p.Pos(ix.Pos()), "used on the list it was taken from", fmt.Sprintf("%s holds a position in %s and is used to index %s: the element found there is another one than the one that was recorded", sid.Name, from, core.ExprStr(ix.X)))
						}
					}
					return true
				}
				inner, ok := ast.Unparen(ix.Index).(*ast.IndexExpr)
				if !ok {
					return true
				}
				lid, ok := ast.Unparen(inner.X).(*ast.Ident)
				if !ok {
					return true
				}
				from, isList := lists[info.ObjectOf(lid)]
				if !isList {
					return true
				}
				n++
				perFn++
				key := fmt.Sprintf("indexspace:%s#%d", core.FuncName(d), perFn)
				r.Check(core.ExprStr(ix.X) == from, key, p.Pos(ix.Pos()), "used on the list it was taken from", fmt.Sprintf("%s holds positions in %s and is used to index %s: the element found there is another one than the one that was recorded (another branch of the oneOf is visited for its defaults)", lid.Name, from, core.ExprStr(ix.X)))
				return true
			})
		}
		if n == 0 {
			core.Fail("no use of a recorded position found (visitXOFOperations' matchedOneOfIndices expected)")
		}
	})
}

// c09MuxEncoded: the gorilla/mux router matches the escaped path (UseEncodedPath); nothing in front
// of that match may look at the decoded one.
func c09MuxEncoded(r *core.Report) {
	p := r.Prog
	info := p.Pkg("routers/gorillamux").TypesInfo
	r.RunRule("C09.muxencoded", "what decides whether a route is tried is the path mux matches: NewRouter builds the mux router with UseEncodedPath, so (*gorillamux.Router).FindRoute does not read the decoded Path field of the request URL (only EscapedPath()/RawPath, if anything) — a filter in front of the mux match that counts the slashes of the decoded path skips the route of `/items/{id}` for `/items/a%2Fb`, which mux would match with id=a%2Fb", 1, func() {
		fd := p.DeclOf("routers/gorillamux", "Router.FindRoute")
		bad := ""
		ast.Inspect(fd.Body, func(nd ast.Node) bool {
			sel, ok := nd.(*ast.SelectorExpr)
			if !ok || bad != "" {
				return true
			}
			if f := core.FieldSel(info, sel); f != nil && f.Name() == "Path" && f.Pkg() != nil && f.Pkg().Path() == "net/url" {
				bad = core.ExprStr(sel) + " at " + p.Pos(sel.Pos())
			}
			return true
		})
		// the router is built for the encoded path
		enc := len(callsTo(info, p.DeclOf("routers/gorillamux", "NewRouter").Body, "UseEncodedPath")) > 0
		if !enc {
			r.Trivial("muxencoded:FindRoute", p.Pos(fd.Pos()), "the mux router is not built with UseEncodedPath: the clause does not apply")
			return
		}
		r.Check(bad == "", "muxencoded:FindRoute", p.Pos(fd.Pos()), "the decoded path is not consulted", "FindRoute reads "+bad+", the decoded path, although mux matches the escaped one: a request whose path parameter carries an escaped slash is judged by another path than the one that is matched")
	})
}

// paramAt: the object of the i-th parameter of fd (names do not matter: a renamed parameter is the
// same parameter).
func paramAt(info *types.Info, fd *ast.FuncDecl, i int) types.Object {
	k := 0
	if fd.Type.Params == nil {
		return nil
	}
	for _, f := range fd.Type.Params.List {
		for _, nm := range f.Names {
			if k == i {
				return info.ObjectOf(nm)
			}
			k++
		}
	}
	return nil
}

// conjuncts of a condition, by text.
func conjunctTexts(e ast.Expr, out map[string]bool) {
	e = ast.Unparen(e)
	if be, ok := e.(*ast.BinaryExpr); ok && be.Op == token.LAND {
		conjunctTexts(be.X, out)
		conjunctTexts(be.Y, out)
		return
	}
	out[core.ExprStr(e)] = true
}

// c04ShadowedCase: in a switch without a tag the first true case wins; a case whose condition
// implies an earlier one never runs.
func c04ShadowedCase(r *core.Report) {
	p := r.Prog
	info := p.Pkg("openapi3").TypesInfo
	_ = info
	r.RunRule("C04.shadowedcase", "no check is shadowed by an earlier case: in every tagless switch of the Validate methods and validate* helpers of package openapi3, no case has all the conjuncts of an earlier case among its own (case `A` before case `A && B`: the second can never run) — reordering the cases of OAuthFlow.validate put `tokenUrl != \"\"` in front of `tokenUrl != \"\" && !in`, and an implicit flow with a tokenUrl was accepted", 3, func() {
		n := 0
		for _, d := range validateFamily(p) {
			if d.Body == nil {
				continue
			}
			perFn := 0
			ast.Inspect(d.Body, func(nd ast.Node) bool {
				sw, ok := nd.(*ast.SwitchStmt)
				if !ok || sw.Tag != nil {
					return true
				}
				n++
				perFn++
				key := fmt.Sprintf("shadowedcase:%s#%d", core.FuncName(d), perFn)
				bad := ""
				var earlier []map[string]bool
				for _, c := range sw.Body.List {
					cc := c.(*ast.CaseClause)
					if len(cc.List) != 1 {
						earlier = append(earlier, nil)
						continue
					}
					mine := map[string]bool{}
					conjunctTexts(cc.List[0], mine)
					for _, prev := range earlier {
						if prev == nil {
							continue
						}
						all := true
						for t := range prev {
							if !mine[t] {
								all = false
							}
						}
						if all && bad == "" {
							bad = "case `" + core.ExprStr(cc.List[0]) + "` at " + p.Pos(cc.Pos())
						}
					}
					earlier = append(earlier, mine)
				}
				r.Check(bad == "", key, p.Pos(sw.Pos()), "no case implies an earlier one", bad+" can never run: an earlier case of the same switch is true whenever it is, so the check it makes (and the error it returns) is gone")
				return true
			})
		}
		if n == 0 {
			core.Fail("no tagless switch found in the validate family")
		}
	})
}

// c17LoopCopy: assigning to the variable of a range loop changes the copy, not the element.
func c17LoopCopy(r *core.Report) {
	p := r.Prog
	info := p.Pkg("openapi2conv").TypesInfo
	r.RunRule("C17.loopcopy", "a converted value is stored where it came from: in package openapi2conv no statement assigns to the value variable of a `range` loop without that variable being read afterwards in the loop body — `for _, refs := range []SchemaRefs{v.OneOf, ...} { ...; refs = converted }` converts the references of the compositions and drops the result, where the loop over pointers (`*refs = converted`) stored it", 20, func() {
		for _, d := range p.AllDecls("openapi2conv") {
			if d.Body == nil {
				continue
			}
			perFn := 0
			ast.Inspect(d.Body, func(nd ast.Node) bool {
				rs, ok := nd.(*ast.RangeStmt)
				if !ok || rs.Value == nil {
					return true
				}
				vid, ok := rs.Value.(*ast.Ident)
				if !ok || vid.Name == "_" {
					return true
				}
				vobj := info.ObjectOf(vid)
				perFn++
				key := fmt.Sprintf("loopcopy:%s#%d", core.FuncName(d), perFn)
				bad := ""
				ast.Inspect(rs.Body, func(m ast.Node) bool {
					as, ok := m.(*ast.AssignStmt)
					if !ok || bad != "" {
						return true
					}
					for _, l := range as.Lhs {
						id, ok := ast.Unparen(l).(*ast.Ident)
						if !ok || info.ObjectOf(id) != vobj {
							continue
						}
						// read later in the body?
						readLater := false
						ast.Inspect(rs.Body, func(u ast.Node) bool {
							if uid, ok := u.(*ast.Ident); ok && uid.Pos() > as.End() && info.ObjectOf(uid) == vobj {
								readLater = true
							}
							return true
						})
						if !readLater {
							bad = p.Pos(as.Pos())
						}
					}
					return true
				})
				r.Check(bad == "", key, p.Pos(rs.Pos()), "the loop variable is not assigned in vain", "the value variable "+vid.Name+" of this loop is assigned at "+bad+" and not read afterwards: the assignment changes the loop's copy, and what was computed for the element is lost")
				return true
			})
		}
	})
}

// c09VarCount: the matching order counts variables, wherever in a segment they stand.
func c09VarCount(r *core.Report) {
	p := r.Prog
	info := p.Pkg("openapi3").TypesInfo
	r.RunRule("C09.varcount", "a template's rank in the matching order is its number of variables: in Paths.InMatchingOrder what strings.Count counts in a path is a brace (`{` or `}`), not a brace together with its neighbour — counting `/{` misses a variable that starts in the middle of a segment (`/api/v{version}`), which then ranks as a literal and is registered in front of its literal sibling `/api/v1`", 1, func() {
		fd := p.DeclOf("openapi3", "Paths.InMatchingOrder")
		n := 0
		for _, c := range callsTo(info, fd.Body, "Count") {
			f := core.CalleeOf(info, c)
			if f == nil || f.Pkg() == nil || f.Pkg().Path() != "strings" || len(c.Args) != 2 {
				continue
			}
			n++
			s, ok := core.ConstStr(info, c.Args[1])
			r.Check(ok && (s == "{" || s == "}"), fmt.Sprintf("varcount:InMatchingOrder#%d", n), p.Pos(c.Pos()), "counts braces", "InMatchingOrder counts occurrences of "+core.ExprStr(c.Args[1])+" to rank a template: a variable that this text does not announce (one inside a segment) is not counted, the template ranks too early and wins over a literal path")
		}
		if n == 0 {
			core.Fail("InMatchingOrder: no strings.Count found")
		}
	})
}
