package rules

import (
	"go/token"
	"go/types"

	"golang.org/x/tools/go/ssa"

	"verif/internal/core"
)

// callSites returns the call instructions of fn in block order.
func callSites(fn *ssa.Function) []ssa.CallInstruction {
	var out []ssa.CallInstruction
	for _, b := range fn.Blocks {
		for _, in := range b.Instrs {
			if c, ok := in.(ssa.CallInstruction); ok {
				out = append(out, c)
			}
		}
	}
	return out
}

// invokeName returns the method name for an interface invoke, "" otherwise.
func invokeName(site ssa.CallInstruction) string {
	c := site.Common()
	if c.IsInvoke() {
		return c.Method.Name()
	}
	return ""
}

// staticName returns Recv.Name or Name of the static callee ("" if dynamic).
func staticName(site ssa.CallInstruction) string {
	sc := site.Common().StaticCallee()
	if sc == nil {
		return ""
	}
	if o := sc.Object(); o != nil {
		if f, ok := o.(*types.Func); ok {
			sig := f.Type().(*types.Signature)
			if r := sig.Recv(); r != nil {
				if n := core.NamedOf(r.Type()); n != nil {
					return n.Obj().Name() + "." + f.Name()
				}
			}
			return f.Name()
		}
	}
	return sc.Name()
}

// loadedField: if v is a load (*FieldAddr) or Field extraction, returns the struct's named type name
// and the field name.
func loadedField(v ssa.Value) (string, string) {
	switch x := v.(type) {
	case *ssa.UnOp:
		if x.Op == token.MUL {
			if fa, ok := x.X.(*ssa.FieldAddr); ok {
				return fieldNames(fa.X.Type(), fa.Field)
			}
		}
	case *ssa.Field:
		return fieldNames(x.X.Type(), x.Field)
	case *ssa.TypeAssert:
		// the same object seen through another interface: wr.w.(http.Flusher)
		return loadedField(x.X)
	case *ssa.Extract:
		if ta, ok := x.Tuple.(*ssa.TypeAssert); ok && x.Index == 0 {
			return loadedField(ta.X)
		}
	case *ssa.ChangeInterface:
		return loadedField(x.X)
	}
	return "", ""
}

func fieldNames(t types.Type, idx int) (string, string) {
	if p, ok := t.Underlying().(*types.Pointer); ok {
		t = p.Elem()
	}
	st, ok := t.Underlying().(*types.Struct)
	if !ok || idx >= st.NumFields() {
		return "", ""
	}
	name := ""
	if n := core.NamedOf(t); n != nil {
		name = n.Obj().Name()
	}
	return name, st.Field(idx).Name()
}

// dominatesAllReturns: block b dominates every block of fn that ends in a Return.
func dominatesAllReturns(b *ssa.BasicBlock, fn *ssa.Function) bool {
	n := 0
	for _, blk := range fn.Blocks {
		if len(blk.Instrs) == 0 {
			continue
		}
		if _, ok := blk.Instrs[len(blk.Instrs)-1].(*ssa.Return); ok {
			n++
			if !b.Dominates(blk) {
				return false
			}
		}
	}
	return n > 0
}

// nonNilEdgeDominates: blk is dominated by the successor of a `v != nil` test on which v is non-nil.
func nonNilEdgeDominates(v ssa.Value, blk *ssa.BasicBlock) bool {
	refs := v.Referrers()
	if refs == nil {
		return false
	}
	for _, ref := range *refs {
		bo, ok := ref.(*ssa.BinOp)
		if !ok || (bo.Op != token.NEQ && bo.Op != token.EQL) {
			continue
		}
		other := bo.Y
		if other == v {
			other = bo.X
		}
		c, ok := other.(*ssa.Const)
		if !ok || !c.IsNil() {
			continue
		}
		for _, r2 := range *bo.Referrers() {
			ifi, ok := r2.(*ssa.If)
			if !ok {
				continue
			}
			b := ifi.Block()
			succ := b.Succs[0]
			if bo.Op == token.EQL {
				succ = b.Succs[1]
			}
			if succ.Dominates(blk) && len(succ.Preds) == 1 {
				return true
			}
		}
	}
	return false
}

// boolEdgeDominates: blk is dominated by the successor of `if v` taken when v == want.
func boolEdgeDominates(v ssa.Value, want bool, blk *ssa.BasicBlock) bool {
	refs := v.Referrers()
	if refs == nil {
		return false
	}
	for _, ref := range *refs {
		var ifi *ssa.If
		neg := false
		switch x := ref.(type) {
		case *ssa.If:
			ifi = x
		case *ssa.UnOp:
			if x.Op == token.NOT {
				for _, r2 := range *x.Referrers() {
					if i2, ok := r2.(*ssa.If); ok {
						ifi = i2
						neg = true
					}
				}
			}
		}
		if ifi == nil {
			continue
		}
		b := ifi.Block()
		takeTrue := want != neg
		succ := b.Succs[1]
		if takeTrue {
			succ = b.Succs[0]
		}
		if succ.Dominates(blk) && len(succ.Preds) == 1 {
			return true
		}
	}
	return false
}

// errResultOf returns the SSA value holding result idx of a call (the call itself for a single
// result, the Extract for tuples), or nil.
func resultOf(call ssa.CallInstruction, idx int) ssa.Value {
	v, ok := call.(*ssa.Call)
	if !ok {
		return nil
	}
	if tup, ok := v.Type().(*types.Tuple); ok {
		_ = tup
		for _, ref := range *v.Referrers() {
			if ex, ok := ref.(*ssa.Extract); ok && ex.Index == idx {
				return ex
			}
		}
		return nil
	}
	if idx == 0 {
		return v
	}
	return nil
}

// anonFuncs returns fn and all its nested anonymous functions.
func withAnon(fn *ssa.Function) []*ssa.Function {
	out := []*ssa.Function{fn}
	for _, a := range fn.AnonFuncs {
		out = append(out, withAnon(a)...)
	}
	return out
}

func isErrorType(t types.Type) bool {
	return types.Identical(t, types.Universe.Lookup("error").Type())
}
